"""Per-property configuration of bin/check: one JSON fragment per claimed property in /verif/registry/Cxx.json
   {"check": {...}, "manifest": {...}}  (see docs/CONVENTIONS.md)."""
import json
import os

_DIR = os.path.join(os.path.dirname(os.path.dirname(os.path.abspath(__file__))), "registry")

COMMON_TRUSTED = [
    "Coq 8.16.1 kernel (coqc; thorough tier re-checks the property's .vo with coqchk); vm_compute is used for "
    "concrete computations (Examples, evaluation of the model on harness cases); native_compute is not used",
    "no axioms declared by the development (audited by grep on every run); axioms each theorem depends on are "
    "listed under axioms_per_theorem from Print Assumptions",
    "the hand-written Gallina model of the anchored code (coq/model/*.v) — tied to /repo by the correspondence "
    "harness (harness/, rebuilt against /repo's working tree every run) which runs model (coqc vm_compute on "
    "generated case files) and implementation on the same inputs and compares canonicalised observations",
    "the harness itself: generators, abstraction of concrete values into model inputs, canonicalisation, the "
    "direct property oracles on the implementation; rustc/cargo; the cfg(saito_verif) hooks in /repo",
    "srcfacts (syn-based translator) for the facts regenerated from the source into coq/gen/*.v",
]

PROPS, MANIFEST_TEXT = {}, {}
for _f in sorted(os.listdir(_DIR)):
    if _f.endswith(".json"):
        _j = json.load(open(os.path.join(_DIR, _f)))
        PROPS[_f[:-5]] = _j["check"]
        MANIFEST_TEXT[_f[:-5]] = _j["manifest"]

NOT_APPLICABLE = {}
