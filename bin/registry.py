"""Per-property configuration of bin/check (one entry per claimed property)."""

COMMON_TRUSTED = [
    "Coq 8.16.1 kernel (coqc; thorough tier re-checks the property's .vo with coqchk); vm_compute is used for "
    "concrete computations (Examples, evaluation of the model on harness cases); native_compute is not used",
    "no axioms declared by the development (audited by grep on every run); axioms each theorem depends on are "
    "listed under axioms_per_theorem from Print Assumptions",
    "the hand-written Gallina model of the anchored code (coq/model/*.v) — tied to /repo by the correspondence "
    "harness (harness/, rebuilt against /repo's working tree every run) which runs model (coqc vm_compute on "
    "generated case files) and implementation on the same inputs and compares canonicalised observations",
    "the harness itself: generators, abstraction of concrete values into model inputs, canonicalisation, the "
    "direct property oracles on the implementation; rustc/cargo; the cfg(saito_verif) hooks in /repo",
    "srcfacts (syn-based translator) for the facts regenerated from the source into coq/gen/*.v",
]

PROPS = {
    "C16": {
        "props_module": "C16",
        "coq_targets": ["props/C16.vo"],
        "model_targets": ["model/SyncState.vo"],
        "theorems": ["C16_no_panic", "C16_inflight_bounded", "C16_no_double_flight",
                     "C16_bounded_retries", "C16_round_sorted", "C16_progress"],
        "allowed_axioms": [],
        "harness": "c16",
        "profiles": ["debug"],
        "rule": "operation sequences over BlockchainSyncState (announce incl. peer 0 broadcast / build picture "
                "with a set of already-known hashes / selection round / fetched / failed / removed): exhaustive "
                "sequences over a 10-letter alphabet to a depth bound, random sequences of length 4..60 over "
                "3 peers x <=9 hashes with consistent and inconsistent ids, and scripted retry-exhaustion runs "
                "(>1000 ops); non-trivial = at least one round handed out a block; distinct by input text",
        "trusted": [
            "hook verif_snapshot / verif_build_peer_block_picture (cfg saito_verif) exposing the private deques",
        ],
        "modelled": "hash-map iteration order across peers (per-peer computations are independent; observations "
                    "are sorted by peer); the tokio RwLock around the peer collection in add_entry; log output "
                    "(the trace! that unwraps front()/back() is modelled as a panic site and proved unreachable)",
        "assumptions": [
            "peer indices are allocated from 1 (PeerCounter::get_next_index), i.e. index 0 is never a peer",
            "hash order in the model is numeric order; the harness uses big-endian hashes so that byte order "
            "coincides",
        ],
    },
}

NOT_APPLICABLE = {}

MANIFEST_TEXT = {
    "C16": {
        "text": "Machine-checked proof (Coq, closed under the global context) over an executable model of "
                "BlockchainSyncState for every operation sequence, batch size and peer set: no panic (the usize "
                "quota subtraction never underflows), in-flight fetches per peer <= batch, (id,hash) unique per "
                "peer, hand-outs per entry <= MAX_RETRIES+1, each round sorted by height with everything left "
                "queued sorting after it, and one-round progress. The model is tied to the code by differential "
                "execution against the real struct (snapshot hook) on exhaustive short and random long sequences, "
                "plus a direct oracle of the property on the implementation that supplies replays.",
        "design_ref": "DESIGN.md section 8, C16",
        "note": "Trusted: Coq kernel, the hand-written model (validated by the correspondence run, not verified "
                "against rustc semantics), harness + snapshot hook. Liveness is proved as one-round progress, not "
                "as an unbounded-fairness statement. 'Same block' means same (id, hash) as in the code; a hostile "
                "peer announcing one hash under two heights gets two entries (stated in the theorem).",
        "technique": "Coq proof by invariant induction over operation lists + differential correspondence check",
    },
}
