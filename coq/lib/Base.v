(* Common imports, notations and small list/number utilities (stdlib only). *)
From Coq Require Export List NArith ZArith Arith Bool Lia.
From Coq Require Export ZifyBool ZifyNat ZifyN.
Export ListNotations.

Global Arguments N.add : simpl never.
Global Arguments N.sub : simpl never.
Global Arguments N.mul : simpl never.
Global Arguments N.eqb : simpl never.
Global Arguments N.ltb : simpl never.
Global Arguments N.leb : simpl never.
Global Arguments N.div : simpl never.
Global Arguments N.modulo : simpl never.
Global Arguments N.pow : simpl never.

Ltac Zify.zify_post_hook ::= Z.div_mod_to_equations.

Open Scope N_scope.

(* Result of a Rust function that may fail or panic.  A panic site is named. *)
Inductive res (A : Type) : Type :=
| Ok (v : A)
| Err
| Panic (site : N).
Arguments Ok {A} v.
Arguments Err {A}.
Arguments Panic {A} site.

Definition bind {A B} (r : res A) (f : A -> res B) : res B :=
  match r with Ok v => f v | Err => Err | Panic s => Panic s end.

Definition is_panic {A} (r : res A) : bool :=
  match r with Panic _ => true | _ => false end.

Notation "'do' x <- r ; k" := (bind r (fun x => k))
  (at level 200, x pattern, r at level 100, k at level 200).

(* stable insertion sort, [le x y = true] keeps x before y *)
Section Sort.
  Context {A : Type} (le : A -> A -> bool).
  Fixpoint insert_by (x : A) (l : list A) : list A :=
    match l with
    | [] => [x]
    | y :: t => if le x y then x :: l else y :: insert_by x t
    end.
  Definition sort_by (l : list A) : list A := fold_right insert_by [] l.
End Sort.

Definition countb {A} (f : A -> bool) (l : list A) : N :=
  N.of_nat (length (filter f l)).

Definition Nlen {A} (l : list A) : N := N.of_nat (length l).

(* association lists keyed by N, kept sorted by key, unique keys *)
Section AMap.
  Context {V : Type}.
  Fixpoint aget (k : N) (m : list (N * V)) : option V :=
    match m with
    | [] => None
    | (k', v) :: t => if k =? k' then Some v else aget k t
    end.
  Fixpoint aset (k : N) (v : V) (m : list (N * V)) : list (N * V) :=
    match m with
    | [] => [(k, v)]
    | (k', v') :: t =>
        if k =? k' then (k, v) :: t
        else if k <? k' then (k, v) :: m
        else (k', v') :: aset k v t
    end.
  Fixpoint adel (k : N) (m : list (N * V)) : list (N * V) :=
    match m with
    | [] => []
    | (k', v') :: t => if k =? k' then t else (k', v') :: adel k t
    end.
End AMap.

(* structural equality on nested lists of numbers (observations) *)
Fixpoint eqb_list {A} (eqb : A -> A -> bool) (a b : list A) : bool :=
  match a, b with
  | [], [] => true
  | x :: a', y :: b' => eqb x y && eqb_list eqb a' b'
  | _, _ => false
  end.
Definition eqb_lN := eqb_list N.eqb.
Definition eqb_llN := eqb_list eqb_lN.
Definition eqb_lllN := eqb_list eqb_llN.
