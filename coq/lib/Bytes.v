(* Byte strings as [list N] (every element < 256), big-endian fixed-width
   integers, Rust-style slicing with an explicit out-of-range outcome, hex
   literals for harness case files, UTF-8 validity (String::from_utf8).
   Definitions only; the lemmas are in proofs/BytesProofs.v. *)
From Saito Require Import Base.
From Coq Require String Ascii.

Open Scope N_scope.

Definition byte_ok (b : N) : bool := b <? 256.
Definition bytes_ok (l : list N) : bool := forallb byte_ok l.

(* ---- fixed-width big-endian integers: x.to_be_bytes() / from_be_bytes ---- *)
(* defined on the low byte; [be_enc n x] truncates like an [as uN] cast *)
Fixpoint be_enc (n : nat) (x : N) : list N :=
  match n with
  | O => []
  | S k => be_enc k (x / 256) ++ [x mod 256]
  end.

Definition be_dec (l : list N) : N := fold_left (fun a b => a * 256 + b) l 0.

(* 256^n without N.pow on nat *)
Fixpoint pow256 (n : nat) : N :=
  match n with O => 1 | S k => 256 * pow256 k end.

(* ---- slicing ---- *)
(* Rust [bytes[a..b]]: panics (None) when a > b or b > len.  The comparison is
   done in N before anything is converted to nat. *)
Definition slice (a b : N) (l : list N) : option (list N) :=
  if (a <=? b) && (b <=? Nlen l)
  then Some (firstn (N.to_nat (b - a)) (skipn (N.to_nat a) l))
  else None.

(* Rust [bytes[a..]] *)
Definition slice_from (a : N) (l : list N) : option (list N) :=
  if a <=? Nlen l then Some (skipn (N.to_nat a) l) else None.

(* Rust [bytes[i]] *)
Definition index (i : N) (l : list N) : option N :=
  if i <? Nlen l then nth_error l (N.to_nat i) else None.

(* Rust [split_at(n)] *)
Definition split_at (n : N) (l : list N) : option (list N * list N) :=
  if n <=? Nlen l then Some (firstn (N.to_nat n) l, skipn (N.to_nat n) l) else None.

(* the same three as [res]: out of range = Panic at a named site *)
Definition sl (site a b : N) (l : list N) : res (list N) :=
  match slice a b l with Some x => Ok x | None => Panic site end.
Definition sl_from (site a : N) (l : list N) : res (list N) :=
  match slice_from a l with Some x => Ok x | None => Panic site end.
Definition ix (site i : N) (l : list N) : res N :=
  match index i l with Some x => Ok x | None => Panic site end.

(* ---- equality of byte strings ---- *)
Definition beq (a b : list N) : bool := eqb_lN a b.

(* ---- hex literals (harness case files) ---- *)
Definition hexdigit (c : Ascii.ascii) : N :=
  let n := Ascii.N_of_ascii c in
  if (48 <=? n) && (n <=? 57) then n - 48
  else if (97 <=? n) && (n <=? 102) then n - 87
  else if (65 <=? n) && (n <=? 70) then n - 55
  else 0.

Fixpoint of_hex (s : String.string) : list N :=
  match s with
  | String.String a (String.String b r) => (hexdigit a * 16 + hexdigit b) :: of_hex r
  | _ => []
  end.

(* ---- UTF-8 validity, as checked by Rust's String::from_utf8 ---- *)
Definition utf8_cont (b : N) : bool := (128 <=? b) && (b <=? 191).
Definition utf8_second3 (b0 b1 : N) : bool :=
  if b0 =? 224 then (160 <=? b1) && (b1 <=? 191)
  else if b0 =? 237 then (128 <=? b1) && (b1 <=? 159)
  else utf8_cont b1.
Definition utf8_second4 (b0 b1 : N) : bool :=
  if b0 =? 240 then (144 <=? b1) && (b1 <=? 191)
  else if b0 =? 244 then (128 <=? b1) && (b1 <=? 143)
  else utf8_cont b1.

Fixpoint utf8_valid (l : list N) : bool :=
  match l with
  | [] => true
  | b0 :: t0 =>
    if b0 <? 128 then utf8_valid t0
    else
      match t0 with
      | [] => false
      | b1 :: t1 =>
        if (194 <=? b0) && (b0 <=? 223) then utf8_cont b1 && utf8_valid t1
        else
          match t1 with
          | [] => false
          | b2 :: t2 =>
            if (224 <=? b0) && (b0 <=? 239)
            then utf8_second3 b0 b1 && utf8_cont b2 && utf8_valid t2
            else
              match t2 with
              | [] => false
              | b3 :: t3 =>
                if (240 <=? b0) && (b0 <=? 244)
                then utf8_second4 b0 b1 && utf8_cont b2 && utf8_cont b3 && utf8_valid t3
                else false
              end
          end
      end
  end.

(* ---- splitting on a separator byte: str.split(c) ---- *)
(* always returns at least one piece, like Rust's split *)
Fixpoint split_on (c : N) (l : list N) : list (list N) :=
  match l with
  | [] => [[]]
  | x :: t =>
    match split_on c t with
    | [] => [[]]            (* unreachable *)
    | p :: ps => if x =? c then [] :: p :: ps else (x :: p) :: ps
    end
  end.

(* [a.join(sep)] *)
Fixpoint join_with (c : N) (ps : list (list N)) : list N :=
  match ps with
  | [] => []
  | [p] => p
  | p :: rest => p ++ c :: join_with c rest
  end.
