#!/bin/sh
# regenerates _CoqProject (every .v under lib model proofs props gen) and the Makefile
cd "$(dirname "$0")"
{
  for d in lib model proofs props gen; do echo "-Q $d Saito"; done
  for d in lib model proofs props gen; do ls $d/*.v 2>/dev/null; done
} > _CoqProject
coq_makefile -f _CoqProject -o Makefile >/dev/null
