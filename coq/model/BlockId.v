(* Model of block identity (block.rs: serialize_for_signature, generate_pre_hash,
   generate_hash, sign, the identity-related checks of Block::validate and
   verification_thread.rs verify_block), with merkle.rs through model/Merkle.v.

   Hashes are free terms (see Merkle.v): pre_hash = hash(signed header bytes) and
   hash = hash(previous_block_hash ++ pre_hash) are modelled by the data they are
   computed from, so "two blocks have the same hash" is "same previous hash and
   same signed header bytes" up to a collision of the real hash.  The signed
   header bytes are modelled byte-exactly (fixed-width big-endian fields in the
   order of serialize_for_signature); the merkle root inside them is the term
   computed by Merkle.merkle_root_of.  No proofs here. *)
From Saito Require Import Base Bytes Merkle.

(* the numeric fields signed by the creator, in the order of serialize_for_signature:
   id, timestamp, [prev, creator, merkle_root], graveyard, treasury, burnfee,
   difficulty, avg_fee_per_byte, avg_nolan_rebroadcast_per_block,
   previous_block_unpaid, avg_total_fees, avg_total_fees_new, avg_total_fees_atr,
   avg_payout_routing, avg_payout_mining *)
Record sheader := mkH {
  h_id : N; h_ts : N;
  h_prev : list N;       (* 32 bytes *)
  h_creator : list N;    (* 33 bytes *)
  h_root : hv;           (* merkle root (free term) *)
  h_nums : list N        (* the 12 further u64 fields *)
}.

Definition wf_header (h : sheader) : Prop :=
  h_id h < pow256 8 /\ h_ts h < pow256 8 /\ length (h_prev h) = 32%nat
  /\ length (h_creator h) = 33%nat /\ length (h_nums h) = 12%nat
  /\ Forall (fun x => x < pow256 8) (h_nums h).

(* the signed bytes other than the 32 bytes of the merkle root *)
Definition hdr_bytes (h : sheader) : list N :=
  be_enc 8 (h_id h) ++ be_enc 8 (h_ts h) ++ h_prev h ++ h_creator h
  ++ concat (map (be_enc 8) (h_nums h)).

(* identity of a block under the free hash: what hash = H(prev ++ H(signed bytes)) is computed from *)
Definition block_identity (h : sheader) : list N * list N * hv :=
  (h_prev h, hdr_bytes h, h_root h).

Record ablock := mkAB {
  ab_hdr : sheader;
  ab_txs : list tx;
  ab_creator_sig_ok : bool    (* oracle: verify_signature(pre_hash, signature, creator) *)
}.

(* the identity-related part of Block::validate (as repaired): creator signature,
   and the header's merkle root equals the root recomputed from the transactions *)
Definition identity_checks (b : ablock) : bool :=
  ab_creator_sig_ok b
  && match merkle_root_of (ab_txs b) with
     | Ok r => hv_eqb r (h_root (ab_hdr b))
     | _ => false
     end.
