(* C08 — bit-exact model of saito-core/src/core/consensus/burnfee.rs
   (BurnFee::return_routing_work_needed_to_produce_block_in_nolan and
   BurnFee::calculate_burnfee_for_block) over IEEE-754 binary64 (Flocq).

   Model only; the proofs are in proofs/BurnFeeProofs.v.

   Rust                                    model
   ------------------------------------    ---------------------------------------
   x as f64            (x : u64)           of_u64 x      = round-to-nearest-even of the integer
   a / b, a * b, a.sqrt()   (f64)          fdiv, fmul, fsqrt  (Bdiv/Bmult/Bsqrt mode_NE)
   100_000_000.0                           c1e8          (exactly representable)
   x.round()                               fround        = round to integer, ties away from zero
   x as u64            (x : f64)           to_u64        = truncate toward zero, saturate to
                                                           [0, 2^64-1], NaN -> 0
   2 * heartbeat       (u64)               wraps mod 2^64 in release builds, panics in
                                           debug builds (overflow-checks) — work_needed_r *)
From Saito Require Import Base.
From Flocq Require Import Core BinarySingleNaN.

Definition two64 : N := 18446744073709551616.
Definition u64_max : N := 18446744073709551615.

(* "impossible if times misordered": returned when previous >= current *)
Definition SENTINEL : N := 10000000000000000000.
(* burn fee of a block whose parent has burn fee 0 *)
Definition DEFAULT_BURNFEE : N := 50000000.

(* panic site: `2 * heartbeat` overflows u64 (debug profile only) *)
Definition P_HEARTBEAT_OVERFLOW : N := 801.

Definition f64 : Set := binary_float 53 1024.

Definition of_Z (z : Z) : f64 :=
  @binary_normalize 53 1024 eq_refl eq_refl mode_NE z 0 false.
Definition of_u64 (n : N) : f64 := of_Z (Z.of_N n).
Definition fdiv : f64 -> f64 -> f64 := @Bdiv 53 1024 eq_refl eq_refl mode_NE.
Definition fmul : f64 -> f64 -> f64 := @Bmult 53 1024 eq_refl eq_refl mode_NE.
Definition fsqrt : f64 -> f64 := @Bsqrt 53 1024 eq_refl eq_refl mode_NE.
(* f64::round — nearest integer, halfway cases away from zero *)
Definition fround : f64 -> f64 := @Bnearbyint 53 1024 eq_refl mode_NA.

Definition c1e8 : f64 := of_Z 100000000.

(* saturation of an integer into u64 *)
Definition clamp_u64 (z : Z) : N :=
  if (z <? 0)%Z then 0
  else if (Z.of_N two64 <=? z)%Z then u64_max
  else Z.to_N z.

(* `x as u64` on an f64 *)
Definition to_u64 (x : f64) : N :=
  match x with
  | B754_nan => 0
  | B754_infinity s => if s then 0 else u64_max
  | B754_zero _ => 0
  | B754_finite _ _ _ _ => clamp_u64 (Btrunc x)
  end.

(* the float part of return_routing_work_needed…, [el] = elapsed time >= 1:
     let elapsed_time_float = elapsed_time as f64;
     let bf_float = burn_fee_previous_block as f64 / 100_000_000.0;
     let work_needed_float = bf_float / elapsed_time_float;
     (work_needed_float * 100_000_000.0).round() as Currency            *)
Definition work_float (bf el : N) : N :=
  let elapsed_time_float := of_u64 el in
  let bf_float := fdiv (of_u64 bf) c1e8 in
  let work_needed_float := fdiv bf_float elapsed_time_float in
  to_u64 (fround (fmul work_needed_float c1e8)).

(* return_routing_work_needed_to_produce_block_in_nolan, for heartbeats whose
   double fits u64 (every sane configuration) *)
Definition work_needed (bf ts prev hb : N) : N :=
  if ts <=? prev then SENTINEL
  else
    let el := N.max (ts - prev) 1 in
    if 2 * hb <=? el then 0 else work_float bf el.

(* the same function with the u64 behaviour of `2 * heartbeat` made explicit;
   [dbg] = overflow checks on (debug profile).  This is what the harness compares. *)
Definition work_needed_r (dbg : bool) (bf ts prev hb : N) : res N :=
  if ts <=? prev then Ok SENTINEL
  else
    let el := N.max (ts - prev) 1 in
    if dbg && (two64 <=? 2 * hb) then Panic P_HEARTBEAT_OVERFLOW
    else if (2 * hb) mod two64 <=? el then Ok 0
    else Ok (work_float bf el).

(* calculate_burnfee_for_block:
     if previous >= current { return 10_000_000_000_000_000_000; }
     let timestamp_difference = max(1, current - previous);
     if burn_fee_previous_block == 0 { return 50_000_000; }
     let bf_float = burn_fee_previous_block as f64 / 100_000_000.0;
     let res0 = heartbeat as f64 / timestamp_difference as f64;
     let res1 = res0.sqrt();
     let res2 = bf_float * res1;
     (res2 * 100_000_000.0).round() as Currency                          *)
Definition burnfee_for_block (bf ts prev hb : N) : N :=
  if ts <=? prev then SENTINEL
  else
    let timestamp_difference := N.max 1 (ts - prev) in
    if bf =? 0 then DEFAULT_BURNFEE
    else
      let bf_float := fdiv (of_u64 bf) c1e8 in
      let res0 := fdiv (of_u64 hb) (of_u64 timestamp_difference) in
      let res1 := fsqrt res0 in
      let res2 := fmul bf_float res1 in
      to_u64 (fround (fmul res2 c1e8)).

(* observation compared with the implementation: value, or 2^64 + site for a panic *)
Definition obs_res (r : res N) : N :=
  match r with
  | Ok v => v
  | Err => two64
  | Panic s => two64 + s
  end.
