(* C02 / C13 — model of Block::generate_consensus_values (block.rs) as a pure function
   (as of /repo 92b2ed5: fees of every user-originated type counted, rebroadcast inputs keep
   their ledger amount, NFT payload output = payout - fee, the 5 % cap reads the parent's
   treasury and commits to the adjusted transactions, the payout product and the payout total
   saturate).

   Model only; proofs are in proofs/CVProofs.v.

   Inputs ([cv_in]): the block's transactions (type, slips, sizes), the header of the
   previous block and of its parent as `blockchain.blocks.get` returns them, the
   transactions of the block that leaves the retention window (id - genesis_period - 1)
   as loaded from disk, the utxo set as the predicate "Slip::validate is true", the
   configuration value genesis_period, the burn fee (given: burnfee.rs is C08's model),
   and the lottery oracle
   (the keys the real find_winning_router / golden ticket name; amounts are modelled).

   Arithmetic: every u64 operation of the code that can overflow goes through
   [add]/[sub]/[mul] of an arithmetic mode:
     MInf       unbounded (what the property C02 speaks about); a subtraction below zero
                is a Panic (it has no unbounded meaning)
     M64 true   u64 with overflow checks (debug profile): Panic site
     M64 false  u64 wrapping (release profile)
   i128 smoothing is Z with truncating division and the final `as u64` cast.
   The two float expressions `x as f64 * 1.5` and `x as f64 * 0.05` (then `as u64`) are
   parameters [cap15] [cap05] of the model; model/CVFloat.v gives their bit-exact
   binary64 instances used by the correspondence harness; the theorems hold for every
   instance. *)
From Saito Require Import Base.

Definition two64 : N := 18446744073709551616.
Definition U64MAX : N := 18446744073709551615.

(* ---------- discriminants ---------- *)
Definition TNormal : N := 0.   Definition TFee : N := 1.     Definition TGolden : N := 2.
Definition TATR : N := 3.      Definition TVip : N := 4.     Definition TSPV : N := 5.
Definition TIssuance : N := 6. Definition TStake : N := 7.   Definition TBound : N := 8.
Definition SNormal : N := 0.   Definition SATR : N := 1.     Definition SMinerOutput : N := 5.
Definition SRouterOutput : N := 7. Definition SBlockStake : N := 8. Definition SBound : N := 9.

(* ---------- panic sites ---------- *)
Definition P_FEES_NEW : N := 2001.       (* cv.total_fees_new += tx.total_fees *)
Definition P_BYTES_NEW : N := 2002.      (* cv.total_bytes_new += size *)
Definition P_COUNT_U8 : N := 2003.       (* ft_num / gt_num / st_num / it_num : u8 += 1 *)
Definition P_DIFFICULTY : N := 2004.     (* cv.difficulty += 1 *)
Definition P_ID_SUB : N := 2005.         (* self.id - (genesis_period + 1), genesis_period + 1 *)
Definition P_STAKED_MUL : N := 2006.     (* genesis_period * avg_nolan_rebroadcast_per_block *)
Definition P_MULT_ADD : N := 2007.       (* 1 + expected_atr_payout *)
Definition P_ATR_FEE_MUL : N := 2008.    (* tx_size * avg_fee_per_byte *)
Definition P_PAYOUT_MUL : N := 2009.     (* amount * multiplier *)
Definition P_ELIGIBLE_ADD : N := 2010.   (* total_nolan_eligible_for_atr_payout += *)
Definition P_ATR_ACC : N := 2011.        (* accumulators of the ATR loop *)
Definition P_FEES_CUM : N := 2012.       (* total_fees_new + total_fees_atr - nonrebroadcast *)
Definition P_CAP_DIV0 : N := 2013.       (* max_total_payout / unadjusted_total_nolan *)
Definition P_CAP_MUL : N := 2014.        (* input_amount * adjusted_output_multiplier *)
Definition P_CAP_ACC : N := 2015.        (* total_payout_atr += / -= in the cap loop *)
Definition P_TOTAL_FEES : N := 2016.     (* total_fees_new + total_fees_atr *)
Definition P_SMOOTH_DIV0 : N := 2017.    (* division by genesis_period = 0 *)
Definition P_GT_LEN : N := 2018.         (* GoldenTicket::deserialize_from_net assert len == 97 *)
Definition P_GRAVEYARD : N := 2019.      (* graveyard_contribution += *)
Definition P_TREASURY_C : N := 2020.     (* treasury_contribution += *)
Definition P_ROUTING_ADD : N := 2021.    (* router1_payout + router2_payout *)
Definition P_FEE_TX_ORD : N := 2022.     (* total_number_of_non_fee_transactions + 1 *)

Definition sumN (l : list N) : N := fold_right N.add 0 l.

(* ---------- arithmetic modes ---------- *)
Inductive amode := MInf | M64 (dbg : bool).

Definition add (m : amode) (site a b : N) : res N :=
  match m with
  | MInf => Ok (a + b)
  | M64 dbg => if a + b <? two64 then Ok (a + b)
               else if dbg then Panic site else Ok ((a + b) mod two64)
  end.
Definition sub (m : amode) (site a b : N) : res N :=
  if b <=? a then Ok (a - b)
  else match m with
       | MInf => Panic site
       | M64 dbg => if dbg then Panic site else Ok ((a + two64 - b mod two64) mod two64)
       end.
Definition mul (m : amode) (site a b : N) : res N :=
  match m with
  | MInf => Ok (a * b)
  | M64 dbg => if a * b <? two64 then Ok (a * b)
               else if dbg then Panic site else Ok ((a * b) mod two64)
  end.
(* u8 counter += 1 *)
Definition inc8 (m : amode) (a : N) : res N :=
  match m with
  | MInf => Ok (a + 1)
  | M64 dbg => if a + 1 <? 256 then Ok (a + 1)
               else if dbg then Panic P_COUNT_U8 else Ok 0
  end.

(* u64::saturating_mul / saturating_add (fix 812712b): total in every mode — they are what the
   code computes, not an accident of the machine word *)
Definition smul (a b : N) : N := N.min (a * b) U64MAX.
Definition sadd (a b : N) : N := N.min (a + b) U64MAX.

(* ---------- slips and transactions ---------- *)
Record slip := mkSlip {
  s_pk : N;      (* interned public key, 0 = the all-zero key *)
  s_amt : N;
  s_ty : N;      (* SlipType *)
  s_bid : N; s_ord : N; s_idx : N   (* block id, transaction ordinal, slip index *)
}.
(* the utxo-set key is the whole slip: key, location, amount and type *)
Definition slip_eqb (a b : slip) : bool :=
  (s_pk a =? s_pk b) && (s_amt a =? s_amt b) && (s_ty a =? s_ty b) &&
  (s_bid a =? s_bid b) && (s_ord a =? s_ord b) && (s_idx a =? s_idx b).

Record tx := mkTx {
  t_ty : N;            (* TransactionType *)
  t_ts : N;            (* timestamp *)
  t_from : list slip;
  t_to : list slip;
  t_dlen : N;          (* data.len() *)
  t_hops : N;          (* path.len() *)
  t_data : N;          (* interned content of `data` *)
  t_ser : N;           (* interned content of serialize_for_net() (signature, path included) *)
  t_ok : bool          (* oracle: the verdict of Transaction::validate apart from the utxo
                          lookups of its inputs (signature, owner, routing path, shape) —
                          that function is property C01's model TxValid *)
}.

(* generate_total_fees: saturating sums, Bound slips count 0 *)
Definition sat_add (a b : N) : N := N.min (a + b) U64MAX.
Definition counted (s : slip) : N := if s_ty s =? SBound then 0 else s_amt s.
Definition sat_sum (l : list N) : N := fold_left sat_add l 0.
Definition total_in (t : tx) : N := sat_sum (map counted (t_from t)).
Definition total_out (t : tx) : N := sat_sum (map counted (t_to t)).
Definition total_fees (t : tx) : N :=
  if total_out t <? total_in t then total_in t - total_out t else 0.

(* get_serialized_size: TRANSACTION_SIZE + SLIP_SIZE * (from + to) + HOP_SIZE * path + data *)
Definition tx_size (t : tx) : N :=
  93 + 59 * Nlen (t_from t) + 59 * Nlen (t_to t) + 130 * t_hops t + t_dlen t.

(* generate_total_fees(tx_index, block_id) relocates every output slip *)
Fixpoint relocate_from (bid ord : N) (i : N) (l : list slip) : list slip :=
  match l with
  | [] => []
  | s :: r => mkSlip (s_pk s) (s_amt s) (s_ty s) bid ord (i mod 256) :: relocate_from bid ord (i + 1) r
  end.
Definition relocate (bid ord : N) (t : tx) : tx :=
  mkTx (t_ty t) (t_ts t) (t_from t) (relocate_from bid ord 0 (t_to t))
       (t_dlen t) (t_hops t) (t_data t) (t_ser t) (t_ok t).

(* ---------- headers ---------- *)
Record hdr := mkHdr {
  h_id : N; h_ts : N;
  h_treasury : N; h_graveyard : N; h_unpaid : N;
  h_total_fees : N; h_fees_new : N; h_fees_atr : N; h_fees_cum : N;
  h_avg_total_fees : N; h_avg_fees_new : N; h_avg_fees_atr : N;
  h_pay_routing : N; h_pay_mining : N; h_pay_treasury : N; h_pay_graveyard : N; h_pay_atr : N;
  h_avg_pay_routing : N; h_avg_pay_mining : N; h_avg_pay_treasury : N;
  h_avg_pay_graveyard : N; h_avg_pay_atr : N;
  h_avg_fpb : N; h_fpb : N; h_avg_nolan : N;
  h_burnfee : N; h_difficulty : N;
  h_has_gt : bool      (* has_golden_ticket, set by Block::generate *)
}.

Record oracle := mkOracle {
  o_miner : N;    (* golden_ticket.public_key *)
  o_router1 : N;  (* previous_block.find_winning_router(...) *)
  o_router2 : N   (* previous_previous_block.find_winning_router(...) *)
}.

Record cv_in := mkIn {
  i_id : N; i_ts : N;
  i_self_treasury : N;          (* self.treasury — no longer read since fix e1b5241 (the cap test
                                   uses the parent's treasury); kept as an input that has no effect *)
  i_self_burnfee : N; i_self_difficulty : N;   (* used only without a previous block *)
  i_txs : list tx;
  i_prev : option hdr;          (* blockchain.blocks.get(previous_block_hash) *)
  i_prevprev : option hdr;      (* blocks.get(previous_block.previous_block_hash) *)
  i_expiring : option (list tx);(* Some txs: the longest-chain block at id - (gp+1) was found and loaded *)
  i_burnfee : N;                (* BurnFee::calculate_burnfee_for_block(..) — given *)
  i_orc : oracle
}.

Record cv := mkCv {
  c_ft_num : N; c_ft_index : option N;
  c_gt_num : N; c_gt_index : option N;
  c_st_num : N; c_st_index : option N;
  c_it_num : N; c_it_index : option N;
  c_total_fees : N; c_fees_new : N; c_fees_atr : N; c_fees_cum : N;
  c_avg_total_fees : N; c_avg_fees_new : N; c_avg_fees_atr : N;
  c_bytes_new : N;
  c_pay_routing : N; c_pay_mining : N; c_pay_treasury : N; c_pay_graveyard : N; c_pay_atr : N;
  c_avg_pay_routing : N; c_avg_pay_mining : N; c_avg_pay_treasury : N;
  c_avg_pay_graveyard : N; c_avg_pay_atr : N;
  c_avg_fpb : N; c_fpb : N;
  c_burnfee : N; c_difficulty : N;
  c_rb_slips : N;               (* total_rebroadcast_slips *)
  c_rb_nolan : N;               (* total_rebroadcast_nolan *)
  c_rebroadcasts : list tx;     (* cv.rebroadcasts (after the cap adjustment) *)
  c_rb_hash : list tx;          (* the transactions hashed into cv.rebroadcast_hash, in order *)
  c_avg_nolan : N;
  c_dust_fees : N;              (* total_fees_paid_by_nonrebroadcast_atr_transactions *)
  c_fee_tx : option tx;         (* cv.fee_transaction *)
  c_cap : bool                  (* ghost: the 5 % cap branch was taken *)
}.

(* ---------- part 1: the sweep over the block's transactions ---------- *)
Record sweep_acc := mkSweep {
  w_ft : N; w_fti : option N; w_gt : N; w_gti : option N;
  w_st : N; w_sti : option N; w_it : N; w_iti : option N;
  w_fees : N; w_bytes : N; w_nonfee : N
}.
Definition sweep0 : sweep_acc := mkSweep 0 None 0 None 0 None 0 None 0 0 0.

Definition sweep_step (m : amode) (a : sweep_acc) (it : N * tx) : res sweep_acc :=
  let '(index, t) := it in
  let ty := t_ty t in
  do ft <- (if ty =? TFee then inc8 m (w_ft a) else Ok (w_ft a));
  let fti := if ty =? TFee then Some index else w_fti a in
  let nonfee := if ty =? TFee then w_nonfee a else w_nonfee a + 1 in
  (* every user-originated type pays its fee into the block (fix 1fdb9e1) *)
  let counts := negb (ty =? TFee) && negb (ty =? TATR) && negb (ty =? TIssuance) && negb (ty =? TSPV) in
  do bytes <- (if counts then add m P_BYTES_NEW (w_bytes a) (tx_size t) else Ok (w_bytes a));
  do fees <- (if counts then add m P_FEES_NEW (w_fees a) (total_fees t) else Ok (w_fees a));
  do gt <- (if ty =? TGolden then inc8 m (w_gt a) else Ok (w_gt a));
  let gti := if ty =? TGolden then Some index else w_gti a in
  do st <- (if ty =? TStake then inc8 m (w_st a) else Ok (w_st a));
  let sti := if ty =? TStake then Some index else w_sti a in
  do itn <- (if ty =? TIssuance then inc8 m (w_it a) else Ok (w_it a));
  let iti := if ty =? TIssuance then Some index else w_iti a in
  Ok (mkSweep ft fti gt gti st sti itn iti fees bytes nonfee).

Fixpoint sweep (m : amode) (a : sweep_acc) (i : N) (l : list tx) : res sweep_acc :=
  match l with
  | [] => Ok a
  | t :: r => do a' <- sweep_step m a (i, t); sweep m a' (i + 1) r
  end.

(* ---------- part 2: the ATR section ---------- *)
(* phase 1: eligible output slips of one transaction of the expiring block;
   [v] = Slip::validate against the utxo set *)
Definition is_bound (s : slip) : bool := s_ty s =? SBound.
Fixpoint collect (v : slip -> bool) (l : list slip) : list slip :=
  match l with
  | [] => []
  | s1 :: tl =>
      match tl with
      | s2 :: s3 :: rest =>
          if is_bound s1 && negb (is_bound s2) && is_bound s3
          then (if v s1 && v s2 && v s3 then [s1; s2; s3] else []) ++ collect v rest
          else (if v s1 then [s1] else []) ++ collect v tl
      | _ => (if v s1 then [s1] else []) ++ collect v tl
      end
  end.

(* phase 2: the collected list is cut again into NFT triples and single slips *)
Inductive grp := GSingle (s : slip) | GTriple (s1 s2 s3 : slip).
Fixpoint group (l : list slip) : list grp :=
  match l with
  | [] => []
  | s1 :: tl =>
      match tl with
      | s2 :: s3 :: rest =>
          if is_bound s1 && negb (is_bound s2) && is_bound s3
          then GTriple s1 s2 s3 :: group rest
          else GSingle s1 :: group tl
      | _ => GSingle s1 :: group tl
      end
  end.

Definition set_amt (s : slip) (a : N) : slip := mkSlip (s_pk s) a (s_ty s) (s_bid s) (s_ord s) (s_idx s).
Definition set_ty (s : slip) (ty : N) : slip := mkSlip (s_pk s) (s_amt s) ty (s_bid s) (s_ord s) (s_idx s).

(* Transaction::create_rebroadcast_transaction / _bound_transaction: data is the
   serialized original (or the original's data when it already is a rebroadcast);
   generate_total_fees(0, 0) relocates the outputs to (0, 0, position) *)
Definition rb_dlen (orig : tx) : N := if t_ty orig =? TATR then t_dlen orig else tx_size orig.
Definition rb_data (orig : tx) : N := if t_ty orig =? TATR then t_data orig else t_ser orig.
Definition mk_rebroadcast (orig : tx) (from to : list slip) : tx :=
  relocate 0 0 (mkTx TATR 0 from to (rb_dlen orig) 0 (rb_data orig) 0 true).

Record atr_acc := mkAtr {
  a_nolan : N; a_slips : N; a_payout : N; a_fees : N; a_dust : N;
  a_rbs : list tx   (* newest first *)
}.
Definition atr0 : atr_acc := mkAtr 0 0 0 0 0 [].

(* one group of one transaction; [mult] = expected_atr_multiplier, [fee] = atr_fee *)
Definition atr_group (m : amode) (orig : tx) (mult fee : N) (a : atr_acc) (g : grp) : res atr_acc :=
  let payload := match g with GSingle s => s | GTriple _ s2 _ => s2 end in
  let payout := smul (s_amt payload) mult in
  do surplus <- sub m P_PAYOUT_MUL payout (s_amt payload);
  do nolan <- add m P_ATR_ACC (a_nolan a) (s_amt payload);
  if fee <? payout then
    do slips <- add m P_ATR_ACC (a_slips a) 1;
    do outamt <- sub m P_ATR_ACC payout fee;
    let pay := sadd (a_payout a) surplus in
    do fees <- add m P_ATR_ACC (a_fees a) fee;
    let rb :=
      (* the input is the output as the ledger holds it (its utxo key); payout and fee show up in
         the output only (fix e1b5241) *)
      match g with
      | GSingle s =>
          mk_rebroadcast orig [s] [set_amt (set_ty s SATR) outamt]
      | GTriple s1 s2 s3 =>
          mk_rebroadcast orig [s1; s2; s3]
                         [s1; set_ty (set_amt s2 outamt) SATR; s3]
      end in
    Ok (mkAtr nolan slips pay fees (a_dust a) (rb :: a_rbs a))
  else
    do fees <- add m P_ATR_ACC (a_fees a) (s_amt payload);
    do dust <- add m P_ATR_ACC (a_dust a) (s_amt payload);
    Ok (mkAtr nolan (a_slips a) (a_payout a) fees dust (a_rbs a)).

Fixpoint atr_groups (m : amode) (orig : tx) (mult fee : N) (a : atr_acc) (gs : list grp) : res atr_acc :=
  match gs with
  | [] => Ok a
  | g :: r => do a' <- atr_group m orig mult fee a g; atr_groups m orig mult fee a' r
  end.

(* the running sum total_nolan_eligible_for_atr_payout (never read, but it can overflow) *)
Fixpoint eligible_sum (m : amode) (acc : N) (gs : list grp) : res N :=
  match gs with
  | [] => Ok acc
  | g :: r =>
      let a := match g with GSingle s => s_amt s | GTriple _ s2 _ => s_amt s2 end in
      do acc' <- add m P_ELIGIBLE_ADD acc a; eligible_sum m acc' r
  end.

(* phase 1 adds in its own grouping; model the same groups for the overflow check *)
Fixpoint group_collect (v : slip -> bool) (l : list slip) : list grp :=
  match l with
  | [] => []
  | s1 :: tl =>
      match tl with
      | s2 :: s3 :: rest =>
          if is_bound s1 && negb (is_bound s2) && is_bound s3
          then (if v s1 && v s2 && v s3 then [GTriple s1 s2 s3] else []) ++ group_collect v rest
          else (if v s1 then [GSingle s1] else []) ++ group_collect v tl
      | _ => (if v s1 then [GSingle s1] else []) ++ group_collect v tl
      end
  end.

Definition atr_tx (m : amode) (v : slip -> bool) (mult avg_fpb : N) (a : atr_acc) (t : tx) : res atr_acc :=
  do _e <- eligible_sum m 0 (group_collect v (t_to t));
  let outputs := collect v (t_to t) in
  match outputs with
  | [] => Ok a
  | _ =>
      do fee <- mul m P_ATR_FEE_MUL (tx_size t) avg_fpb;
      atr_groups m t mult fee a (group outputs)
  end.

Fixpoint atr_txs (m : amode) (v : slip -> bool) (mult avg_fpb : N) (a : atr_acc) (l : list tx) : res atr_acc :=
  match l with
  | [] => Ok a
  | t :: r => do a' <- atr_tx m v mult avg_fpb a t; atr_txs m v mult avg_fpb a' r
  end.

(* the 5 % cap loop over cv.rebroadcasts *)
Definition nth_slip (l : list slip) (n : nat) : slip := nth n l (mkSlip 0 0 0 0 0 0).
Definition is_triple_rb (t : tx) : bool :=
  (Nlen (t_to t) =? 3) && (Nlen (t_from t) =? 3) &&
  is_bound (nth_slip (t_from t) 0) && negb (is_bound (nth_slip (t_from t) 1)) &&
  is_bound (nth_slip (t_from t) 2).
Definition set_out_amt (t : tx) (pos : nat) (amt : N) : tx :=
  let fix go (i : nat) (l : list slip) : list slip :=
    match l with
    | [] => []
    | s :: r => (if Nat.eqb i pos then set_amt s amt else s) :: go (S i) r
    end in
  mkTx (t_ty t) (t_ts t) (t_from t) (go 0%nat (t_to t)) (t_dlen t) (t_hops t) (t_data t) (t_ser t) (t_ok t).

Fixpoint cap_loop (m : amode) (adj : N) (pay : N) (l : list tx) : res (N * list tx) :=
  match l with
  | [] => Ok (pay, [])
  | t :: r =>
      let pos := if is_triple_rb t then 1%nat else 0%nat in
      let input_amount := s_amt (nth_slip (t_from t) pos) in
      do newamt <- mul m P_CAP_MUL input_amount adj;
      do p1 <- add m P_CAP_ACC pay newamt;
      do p2 <- sub m P_CAP_ACC p1 input_amount;
      do rest <- cap_loop m adj p2 r;
      Ok (fst rest, set_out_amt t pos newamt :: snd rest)
  end.

(* ---------- part 3: i128 smoothing ---------- *)
Definition smooth (gp prev x : N) : N :=
  Z.to_N ((Z.of_N prev - Z.quot (Z.of_N prev - Z.of_N x) (Z.of_N gp)) mod (Z.of_N two64)).

(* ---------- part 4: payouts ---------- *)
Definition capped (expected maximum : N) : N * N :=   (* (paid, excess) *)
  if maximum <? expected then (maximum, expected - maximum) else (expected, 0).

Definition fee_slip (pk amt ty idx : N) : slip := mkSlip pk amt ty 0 0 idx.

Section Model.
  Variable cap15 : N -> N.   (* (x as f64 * 1.5) as u64 *)
  Variable cap05 : N -> N.   (* (x as f64 * 0.05) as u64 *)
  Variable m : amode.
  Variable gp : N.           (* genesis_period *)
  Variable valid : slip -> bool.   (* Slip::validate(&blockchain.utxoset) *)

  Record atr_out := mkAtrOut {
    r_nolan : N; r_slips : N; r_payout : N; r_fees : N; r_dust : N;
    r_rbs : list tx; r_hash : list tx; r_cum : option N; r_cap : bool
  }.

  Definition atr_section (i : cv_in) (fees_new : N) : res atr_out :=
    let none := Ok (mkAtrOut 0 0 0 0 0 [] [] None false) in
    do gp1 <- add m P_ID_SUB gp 1;
    if i_id i <=? gp1 then none else
    match i_expiring i with
    | None => none
    | Some etxs =>
        let prev_treasury := match i_prev i with Some p => h_treasury p | None => 0 end in
        let prev_avg_nolan := match i_prev i with Some p => h_avg_nolan p | None => 0 end in
        let prev_avg_fpb := match i_prev i with Some p => h_avg_fpb p | None => 0 end in
        do staked <- mul m P_STAKED_MUL gp prev_avg_nolan;
        let payout := if 0 <? staked then prev_treasury / staked else 0 in
        do mult <- add m P_MULT_ADD 1 payout;
        do a <- atr_txs m valid mult prev_avg_fpb atr0 etxs;
        let rbs := rev (a_rbs a) in
        do s1 <- add m P_FEES_CUM fees_new (a_fees a);
        do cum <- sub m P_FEES_CUM s1 (a_dust a);
        (* the reference is the treasury of the previous block (fix e1b5241) *)
        let limit := cap05 prev_treasury in
        if limit <? a_payout a then
          (if a_nolan a =? 0 then Panic P_CAP_DIV0 else
           let adjm := limit / a_nolan a in
           do adj <- add m P_MULT_ADD 1 adjm;
           do capped_rbs <- cap_loop m adj 0 rbs;
           (* the rebroadcast fee is waived, what was collected from too-small outputs stays collected;
              total_fees_cumulative = total_fees_new; the hash is taken over the adjusted transactions *)
           Ok (mkAtrOut (a_nolan a) (a_slips a) (fst capped_rbs) (a_dust a) (a_dust a)
                        (snd capped_rbs) (snd capped_rbs) (Some fees_new) true))
        else
          Ok (mkAtrOut (a_nolan a) (a_slips a) (a_payout a) (a_fees a) (a_dust a) rbs rbs (Some cum) false)
    end.

  Record pay_out := mkPay {
    p_mining : N; p_routing : N; p_treasury : N; p_graveyard : N; p_fee_tx : option tx
  }.

  Definition payouts (i : cv_in) (gt_index : option N) (nonfee : N) : res pay_out :=
    match gt_index with
    | Some gi =>
        let gt_tx := nth (N.to_nat gi) (i_txs i) (mkTx 0 0 [] [] 0 0 0 0 false) in
        if negb (t_dlen gt_tx =? 97) then Panic P_GT_LEN else
        do r <-
          match i_prev i with
          | None => Ok (0, 0, 0, 0, 0)   (* miner, router1, router2, treasury, graveyard *)
          | Some p =>
              let maxp := cap15 (h_avg_total_fees p) in
              let expected_miner := h_total_fees p / 2 in
              let '(miner, g1) := capped expected_miner maxp in
              let expected_router := h_total_fees p - expected_miner in
              let '(router1, g2) := capped expected_router maxp in
              do gv <- add m P_GRAVEYARD g1 g2;
              if h_has_gt p then Ok (miner, router1, 0, 0, gv) else
              match i_prevprev i with
              | None => Ok (miner, router1, 0, 0, gv)
              | Some pp =>
                  let expected_t := h_total_fees pp / 2 in
                  let '(tc, g3) := capped expected_t maxp in
                  do gv3 <- add m P_GRAVEYARD gv g3;
                  let expected_r2 := h_total_fees pp - expected_t in
                  let '(router2, g4) := capped expected_r2 maxp in
                  do gv4 <- add m P_GRAVEYARD gv3 g4;
                  Ok (miner, router1, router2, tc, gv4)
              end
          end;
        let '(miner, router1, router2, tc, gv) := r in
        (* without a previous block miner_publickey stays [0;33] *)
        let miner_key := match i_prev i with Some _ => o_miner (i_orc i) | None => 0 end in
        let r1_key := match i_prev i with Some _ => o_router1 (i_orc i) | None => 0 end in
        let r2_key := o_router2 (i_orc i) in
        do _ord <- add m P_FEE_TX_ORD nonfee 1;
        let out1 := if negb (miner_key =? 0) && (0 <? miner)
                    then [fee_slip miner_key miner SMinerOutput 0] else [] in
        do gva <- (if (0 <? router1) && (r1_key =? 0) then add m P_GRAVEYARD gv router1 else Ok gv);
        let out2 := if (0 <? router1) && negb (r1_key =? 0)
                    then [fee_slip r1_key router1 SRouterOutput (Nlen out1)] else [] in
        do gvb <- (if (0 <? router2) && (r2_key =? 0) then add m P_GRAVEYARD gva router2 else Ok gva);
        let out3 := if (0 <? router2) && negb (r2_key =? 0)
                    then [fee_slip r2_key router2 SRouterOutput (Nlen out1 + Nlen out2)] else [] in
        do routing <- add m P_ROUTING_ADD router1 router2;
        let ftx := mkTx TFee (i_ts i) [] (out1 ++ out2 ++ out3) 0 0 0 0 true in
        Ok (mkPay miner routing tc gvb (Some ftx))
    | None =>
        let gv :=
          match i_prev i with
          | Some p => if h_has_gt p then 0 else
                      match i_prevprev i with Some _ => h_unpaid p | None => 0 end
          | None => 0
          end in
        Ok (mkPay 0 0 0 gv None)
    end.

  Definition gcv (i : cv_in) : res cv :=
    do w <- sweep m sweep0 0 (i_txs i);
    (* burn fee and difficulty *)
    do bd <-
      match i_prev i with
      | Some p =>
          let bf := if i_burnfee i =? 0 then 1 else i_burnfee i in
          do d <- (if h_has_gt p then (if 0 <? w_gt w then add m P_DIFFICULTY (h_difficulty p) 1
                                        else Ok (h_difficulty p))
                   else if (w_gt w =? 0) && (0 <? h_difficulty p) then Ok (h_difficulty p - 1)
                        else Ok (h_difficulty p));
          Ok (bf, d)
      | None => Ok (i_self_burnfee i, i_self_difficulty i)
      end;
    let '(burnfee, difficulty) := bd in
    do a <- atr_section i (w_fees w);
    let fees_cum := match r_cum a with Some c => c | None => w_fees w end in
    do total_fees <- add m P_TOTAL_FEES (w_fees w) (r_fees a);
    let fpb := if 0 <? w_bytes w then w_fees w / w_bytes w else 0 in
    if gp =? 0 then Panic P_SMOOTH_DIV0 else
    let pv (f : hdr -> N) := match i_prev i with Some p => f p | None => 0 end in
    let avg_fpb := smooth gp (pv h_avg_fpb) fpb in
    let avg_total_fees := smooth gp (pv h_avg_total_fees) total_fees in
    let avg_fees_new := smooth gp (pv h_avg_fees_new) (w_fees w) in
    let avg_fees_atr := smooth gp (pv h_avg_fees_atr) (r_fees a) in
    let avg_nolan := smooth gp (pv h_avg_nolan) (r_nolan a) in
    do p <- payouts i (w_gti w) (w_nonfee w);
    let avg_pay_routing := smooth gp (pv h_avg_pay_routing) (p_routing p) in
    let avg_pay_mining := smooth gp (pv h_avg_pay_mining) (p_mining p) in
    (* previous_block_avg_payout_{treasury,graveyard,atr} are never loaded: constants 0 *)
    let avg_pay_treasury := smooth gp 0 (p_treasury p) in
    let avg_pay_graveyard := smooth gp 0 (p_graveyard p) in
    let avg_pay_atr := smooth gp 0 (r_payout a) in
    Ok (mkCv (w_ft w) (w_fti w) (w_gt w) (w_gti w) (w_st w) (w_sti w) (w_it w) (w_iti w)
             total_fees (w_fees w) (r_fees a) fees_cum
             avg_total_fees avg_fees_new avg_fees_atr
             (w_bytes w)
             (p_routing p) (p_mining p) (p_treasury p) (p_graveyard p) (r_payout a)
             avg_pay_routing avg_pay_mining avg_pay_treasury avg_pay_graveyard avg_pay_atr
             avg_fpb fpb burnfee difficulty
             (r_slips a) (r_nolan a) (r_rbs a) (r_hash a) avg_nolan (r_dust a) (p_fee_tx p) (r_cap a)).
End Model.
