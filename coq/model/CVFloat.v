(* Bit-exact binary64 instances of the two float expressions of
   Block::generate_consensus_values (Flocq, as in model/BurnFee.v):
     (previous_block.avg_total_fees as f64 * 1.5) as u64
     (self.treasury as f64 * 0.05) as u64
   Used by the correspondence harness; the C02 / C13 theorems do not depend on them
   (they hold for every pair of cap functions). *)
From Saito Require Import Base BurnFee.
From Flocq Require Import Core BinarySingleNaN.

(* 1.5 = 3 * 2^-1, exactly representable *)
Definition c1_5 : f64 := @binary_normalize 53 1024 eq_refl eq_refl mode_NE 3 (-1) false.
(* the double nearest to 0.05: 0x3FA999999999999A = 3602879701896397 * 2^-56 *)
Definition c0_05 : f64 :=
  @binary_normalize 53 1024 eq_refl eq_refl mode_NE 3602879701896397 (-56) false.

Definition cap15_f (x : N) : N := to_u64 (fmul (of_u64 x) c1_5).
Definition cap05_f (x : N) : N := to_u64 (fmul (of_u64 x) c0_05).
