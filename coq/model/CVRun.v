(* C02 / C13 — replay of a recorded history of the real node through the model:
   for every block the harness built and delivered, the model's Block::create
   (Supply.produce) is compared with the block the real Block::create returned (every
   header field, every transaction incl. the rebroadcasts and the fee transaction), the
   model's add_block verdict with the real one, and the in-window utxo set after the
   block with the real one.  [run_history] returns one diagnostic code per step
   (0 = agreement).  Model only, no proofs. *)
From Saito Require Import Base CV CVFloat Supply.

Definition lex (l : list (N * N)) : bool :=   (* l = pairs compared left to right; le *)
  (fix go (l : list (N * N)) : bool :=
     match l with
     | [] => true
     | (a, b) :: r => if a <? b then true else if b <? a then false else go r
     end) l.
Definition slip_le (a b : slip) : bool :=
  lex [(s_bid a, s_bid b); (s_ord a, s_ord b); (s_idx a, s_idx b);
       (s_amt a, s_amt b); (s_ty a, s_ty b); (s_pk a, s_pk b)].
Definition canon (u : list slip) : list slip := sort_by slip_le u.

Definition tx_eqb (a b : tx) : bool :=
  (t_ty a =? t_ty b) && (t_ts a =? t_ts b) &&
  eqb_list slip_eqb (t_from a) (t_from b) && eqb_list slip_eqb (t_to a) (t_to b) &&
  (t_dlen a =? t_dlen b) && (t_hops a =? t_hops b) && (t_data a =? t_data b).

Definition hdr_fields (h : hdr) : list N :=
  [h_id h; h_ts h; h_treasury h; h_graveyard h; h_unpaid h;
   h_total_fees h; h_fees_new h; h_fees_atr h; h_fees_cum h;
   h_avg_total_fees h; h_avg_fees_new h; h_avg_fees_atr h;
   h_pay_routing h; h_pay_mining h; h_pay_treasury h; h_pay_graveyard h; h_pay_atr h;
   h_avg_pay_routing h; h_avg_pay_mining h; h_avg_pay_treasury h; h_avg_pay_graveyard h;
   h_avg_pay_atr h; h_avg_fpb h; h_fpb h; h_avg_nolan h; h_burnfee h; h_difficulty h;
   if h_has_gt h then 1 else 0].
(* 1-based position of the first differing field, 0 if none *)
Fixpoint first_diff (i : N) (a b : list N) : N :=
  match a, b with
  | [], [] => 0
  | x :: a', y :: b' => if x =? y then first_diff (i + 1) a' b' else i
  | _, _ => i
  end.
Definition hdr_diff (a b : hdr) : N := first_diff 1 (hdr_fields a) (hdr_fields b).

Inductive created := CSame | CBlock (h : hdr) (txs : list tx) | CNone.

Record step := mkStep {
  sp_ts : N; sp_has_gt : bool;
  sp_txs : list tx;          (* the transactions handed to Block::create, in block order *)
  sp_bf : N; sp_orc : oracle;
  sp_create : N;             (* 1 = Ok, 0 = Err, 9 = panic, 7 = Block::create not called *)
  sp_created : created;      (* the block it returned (CSame: the delivered one) *)
  sp_delivered : option block;
  sp_add : N;                (* 1 = on the chain, 5 = rejected, 9 = panic *)
  sp_utxo : list slip        (* in-window spendable entries afterwards, canonical order *)
}.

Record history := mkHistory {
  hi_gp : N; hi_pab : N; hi_dbg : bool;
  hi_genesis : block;
  hi_gen_utxo : list slip;
  hi_steps : list step
}.

Definition window_utxo (cf : config) (st : state) : list slip :=
  canon (filter (fun s => (tip_id st - cf_gp cf) <=? s_bid s) (st_utxo st)).

Definition res_code {A} (r : res A) : N := match r with Ok _ => 1 | Err => 0 | Panic _ => 9 end.

Definition run_step (cf : config) (st : state) (s : step) : N * option state :=
  let pr := produce cap15_f cap05_f cf st (sp_ts s) (sp_has_gt s) (sp_txs s) (sp_bf s) (sp_orc s) in
  let c1 :=
    if sp_create s =? 7 then 0 else
    if negb (res_code pr =? sp_create s) then 1000 + res_code pr else
    match pr with
    | Ok (h, txs) =>
        let cmp (h' : hdr) (txs' : list tx) : N :=
          let d := hdr_diff h h' in
          if negb (d =? 0) then 100 + d
          else if eqb_list tx_eqb txs txs' then 0 else 3 in
        match sp_created s, sp_delivered s with
        | CBlock h' txs', _ => cmp h' txs'
        | CSame, Some b => cmp (b_hdr b) (b_txs b)
        | _, _ => 2
        end
    | _ => 0
    end in
  if negb (c1 =? 0) then (c1, None) else
  match sp_delivered s with
  | None => (0, Some st)
  | Some b =>
      match add_block cap15_f cap05_f cf st b with
      | Added st' =>
          if negb (sp_add s =? 1) then (4001, None)
          else if eqb_list slip_eqb (window_utxo cf st') (sp_utxo s) then (0, Some st') else (5, None)
      | Rejected => if sp_add s =? 5 then (0, Some st) else (4005, None)
      | Crashed _ _ => if sp_add s =? 9 then (0, None) else (4009, None)
      end
  end.

Fixpoint run_steps (cf : config) (st : state) (l : list step) : list N :=
  match l with
  | [] => []
  | s :: r =>
      match run_step cf st s with
      | (c, Some st') => c :: run_steps cf st' r
      | (c, None) => [c]     (* disagreement, or the node crashed: the history ends here *)
      end
  end.

Definition run_history (h : history) : list N :=
  let cf := mkConfig (hi_gp h) (hi_pab h) (hi_dbg h) in
  let st0 := genesis_state (hi_genesis h) in
  match check_total_supply cf (st_utxo st0) (b_hdr (hi_genesis h)) 0 with
  | Ok init =>
      let st := mkState (st_utxo st0) (st_chain st0) init in
      (if eqb_list slip_eqb (window_utxo cf st) (hi_gen_utxo h) then 0 else 5)
        :: run_steps cf st (hi_steps h)
  | _ => [9]
  end.

Definition check (h : history) : bool := forallb (N.eqb 0) (run_history h).
