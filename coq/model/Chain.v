(* Model of Blockchain::add_block and what it drives (blockchain.rs, blockring.rs,
   ringitem.rs, slip.rs/transaction.rs on_chain_reorganization) for the regime
   without purging: every block id <= 2 * genesis_period (update_genesis_period /
   delete_blocks never fire, ring slots are not shared).  A block beyond that
   regime makes add_block answer [Err] (= "not modelled"), which the theorems
   exclude explicitly and the harness never feeds to the model.

   Blocks are abstract: hashes are numbers (0 = the all-zero hash), a block's
   own verdict of Block::validate when it is wound on top of its parent chain is
   the bit [b_valid] (blocks are built by the real producer on their parent
   chain; invalid ones are re-signed header mutations), transactions are the
   lists of value-carrying (amount > 0) input and output utxo keys.  Mempool,
   storage, wallet and block-type up/downgrades are not part of this model.
   No proofs here. *)
From Saito Require Import Base.

Record blk := mkB {
  b_hash : N; b_prev : N; b_id : N; b_bf : N; b_gt : bool; b_valid : bool;
  b_txs : list (list N * list N)
}.

Record sblk := mkSB { s_b : blk; s_lc : bool }.

Record ritem := mkRI { ri_lc : option nat; ri_ent : list (N * N) (* hash, id *) }.

Record state := mkSt {
  blocks : list (N * sblk);        (* hash -> stored block, in_longest_chain flag *)
  ring : list ritem;               (* 2 * gp slots *)
  ring_lc : option nat;
  ring_empty : bool;
  utxo : list N;                   (* spendable keys, sorted, no duplicates *)
  last_id : N; last_hash : N;
  wsteps : N                       (* ghost: wind/unwind calls of the last validate *)
}.

Definition cfg := (N * bool)%type.  (* genesis period, initial_loading_completed *)
Definition gp_of (c : cfg) : N := fst c.

Definition init (c : cfg) : state :=
  mkSt [] (repeat (mkRI None []) (N.to_nat (2 * gp_of c))) None true [] 0 0 0.

(* ---------------- utxo set (sorted list) ---------------- *)
Fixpoint uins (k : N) (u : list N) : list N :=
  match u with
  | [] => [k]
  | x :: t => if k =? x then u else if k <? x then k :: u else x :: uins k t
  end.
Fixpoint udel (k : N) (u : list N) : list N :=
  match u with
  | [] => []
  | x :: t => if k =? x then t else if k <? x then u else x :: udel k t
  end.

(* Transaction::on_chain_reorganization: inputs first, then outputs *)
Definition apply_tx (u : list N) (tx : list N * list N) : list N :=
  fold_left (fun u k => uins k u) (snd tx) (fold_left (fun u k => udel k u) (fst tx) u).
Definition undo_tx (u : list N) (tx : list N * list N) : list N :=
  fold_left (fun u k => udel k u) (snd tx) (fold_left (fun u k => uins k u) (fst tx) u).
Definition apply_block (u : list N) (b : blk) : list N := fold_left apply_tx (b_txs b) u.
Definition undo_block (u : list N) (b : blk) : list N := fold_left undo_tx (b_txs b) u.

(* ---------------- block store ---------------- *)
Definition get_block (st : state) (h : N) : option sblk := aget h (blocks st).
Definition set_blocks (st : state) (bs : list (N * sblk)) : state :=
  mkSt bs (ring st) (ring_lc st) (ring_empty st) (utxo st) (last_id st) (last_hash st) (wsteps st).
Definition set_lc_flag (st : state) (h : N) (f : bool) : state :=
  match get_block st h with
  | Some sb => set_blocks st (aset h (mkSB (s_b sb) f) (blocks st))
  | None => st
  end.
Definition set_utxo (st : state) (u : list N) : state :=
  mkSt (blocks st) (ring st) (ring_lc st) (ring_empty st) u (last_id st) (last_hash st) (wsteps st).
Definition set_ring (st : state) (r : list ritem) (lc : option nat) : state :=
  mkSt (blocks st) r lc (ring_empty st) (utxo st) (last_id st) (last_hash st) (wsteps st).

(* ---------------- block ring ---------------- *)
Definition SITE_RING_INDEX : N := 10.   (* block_hashes[lc_pos] out of bounds *)
Definition SITE_ID_UNDERFLOW : N := 11. (* block_id - 1 with block_id = 0 *)
Definition SITE_UNWRAP_BLOCK : N := 12. (* blocks.get(..).unwrap() on a missing block *)

Definition slot (c : cfg) (id : N) : nat := N.to_nat (id mod (2 * gp_of c)).
Definition item_at (r : list ritem) (p : nat) : ritem := nth p r (mkRI None []).
Fixpoint set_nth {A} (p : nat) (x : A) (l : list A) : list A :=
  match l, p with
  | [], _ => []
  | _ :: t, O => x :: t
  | y :: t, S p' => y :: set_nth p' x t
  end.

Definition ring_add (c : cfg) (r : list ritem) (id h : N) : list ritem :=
  let p := slot c id in
  let it := item_at r p in
  set_nth p (mkRI (ri_lc it) (ri_ent it ++ [(h, id)])) r.

Definition ring_contains (c : cfg) (r : list ritem) (id h : N) : bool :=
  existsb (fun e => fst e =? h) (ri_ent (item_at r (slot c id))).

Definition latest_entry (st : state) : res (option (N * N)) :=
  match ring_lc st with
  | None => Ok None
  | Some p =>
      match ri_lc (item_at (ring st) p) with
      | None => Ok None
      | Some q =>
          match nth_error (ri_ent (item_at (ring st) p)) q with
          | Some e => Ok (Some e)
          | None => Panic SITE_RING_INDEX
          end
      end
  end.
Definition latest_hash (st : state) : res N :=
  do e <- latest_entry st; Ok (match e with Some e => fst e | None => 0 end).
Definition latest_id (st : state) : res N :=
  do e <- latest_entry st; Ok (match e with Some e => snd e | None => 0 end).

Definition lc_hash_at (c : cfg) (r : list ritem) (id : N) : option N :=
  let it := item_at r (slot c id) in
  match ri_lc it with
  | None => None
  | Some q =>
      match nth_error (ri_ent it) q with
      | Some e => if snd e =? id then Some (fst e) else None
      | None => None
      end
  end.

Fixpoint position (h : N) (l : list (N * N)) : option nat :=
  match l with
  | [] => None
  | e :: t => if fst e =? h then Some O
              else match position h t with Some n => Some (S n) | None => None end
  end.

(* BlockRing::on_chain_reorganization *)
Definition ring_reorg (c : cfg) (st : state) (id h : N) (lc : bool) : res state :=
  let p := slot c id in
  let it := item_at (ring st) p in
  let it' := mkRI (if lc then position h (ri_ent it) else None) (ri_ent it) in
  let r' := set_nth p it' (ring st) in
  if lc then Ok (set_ring st r' (Some p))
  else
    match ring_lc st with
    | Some lp =>
        if Nat.eqb lp p then
          let prev := match lp with O => N.to_nat (2 * gp_of c) - 1 | S k => k end%nat in
          if id =? 0 then
            (* the subtraction block_id - 1 is only evaluated when the previous
               slot has an in-range lc entry *)
            match ri_lc (item_at r' prev) with
            | Some q => if Nat.ltb q (length (ri_ent (item_at r' prev)))
                        then Panic SITE_ID_UNDERFLOW else Ok (set_ring st r' None)
            | None => Ok (set_ring st r' None)
            end
          else
          match ri_lc (item_at r' prev) with
          | Some q =>
              match nth_error (ri_ent (item_at r' prev)) q with
              | Some e => if snd e =? id - 1 then Ok (set_ring st r' (Some prev))
                          else Ok (set_ring st r' None)
              | None => Ok (set_ring st r' None)
              end
          | None => Ok (set_ring st r' None)
          end
        else Ok (set_ring st r' (ring_lc st))
    | None => Ok (set_ring st r' None)
    end.

(* RingItem::delete_block (as repaired: the new lc position starts as None) *)
Fixpoint ri_delete (id h : N) (ents : list (N * N)) (i : nat) (lc : option nat) (k : nat)
  : list (N * N) * option nat :=
  match ents with
  | [] => ([], None)
  | e :: t =>
      if (snd e =? id) && (fst e =? h) then ri_delete id h t (S i) lc k
      else
        let '(t', lc') := ri_delete id h t (S i) lc (S k) in
        (e :: t', match lc with
                  | Some q => if Nat.eqb q i then Some k else lc'
                  | None => lc'
                  end)
  end.
Definition ring_delete (c : cfg) (r : list ritem) (id h : N) : list ritem :=
  let p := slot c id in
  let it := item_at r p in
  let '(ents, lc) := ri_delete id h (ri_ent it) O (ri_lc it) O in
  set_nth p (mkRI lc ents) r.

(* ---------------- chains ---------------- *)
(* calculate_new_chain_for_add_block: (shared ancestor found, hash reached, chain tip first) *)
Fixpoint new_chain_from (fuel : nat) (st : state) (h : N) (acc : list N)
  : bool * N * list N :=
  match fuel with
  | O => (false, h, rev acc)
  | S f =>
      match get_block st h with
      | Some sb =>
          if s_lc sb then (true, h, rev acc)
          else if h =? 0 then (false, h, rev acc)
          else new_chain_from f st (b_prev (s_b sb)) (h :: acc)
      | None => (false, h, rev acc)
      end
  end.

(* calculate_old_chain_for_add_block *)
Fixpoint old_chain_from (fuel : nat) (st : state) (h shared : N) (acc : list N) : list N :=
  match fuel with
  | O => rev acc
  | S f =>
      if shared =? h then rev acc
      else match get_block st h with
           | Some sb =>
               let p := b_prev (s_b sb) in
               if p =? 0 then rev (h :: acc) else old_chain_from f st p shared (h :: acc)
           | None => rev acc
           end
  end.

(* calculate_old_chain_upto_length: while old_chain.len() <= length *)
Fixpoint old_chain_upto (fuel : nat) (st : state) (h : N) (len : nat) (acc : list N) : list N :=
  match fuel with
  | O => rev acc
  | S f =>
      if Nat.leb (length acc) len then
        match get_block st h with
        | Some sb =>
            let p := b_prev (s_b sb) in
            if p =? 0 then rev (h :: acc) else old_chain_upto f st p len (h :: acc)
        | None => rev acc
        end
      else rev acc
  end.

Definition sum_bf (st : state) (l : list N) : option N :=
  fold_left (fun a h => match a, get_block st h with
                        | Some a, Some sb => Some (a + b_bf (s_b sb))
                        | _, _ => None
                        end) l (Some 0).

(* is_new_chain_the_longest_chain; burn-fee sums are u64 additions in the code,
   the harness keeps them far below 2^64 *)
Definition is_new_chain_longest (st : state) (new old : list N) : res bool :=
  if ring_empty st then Ok true
  else if Nat.ltb (length new) (length old) then Ok false
  else
    match new with
    | [] => Panic SITE_UNWRAP_BLOCK      (* new_chain[0] *)
    | h0 :: _ =>
        match get_block st h0 with
        | None => Panic SITE_UNWRAP_BLOCK
        | Some sb0 =>
            do lid <- latest_id st;
            if b_id (s_b sb0) <=? lid then Ok false
            else
              match sum_bf st old with
              | None => Panic SITE_UNWRAP_BLOCK
              | Some obf =>
                  match sum_bf st new with
                  | None => Ok false
                  | Some nbf => Ok (Nat.ltb (length old) (length new) && (obf <=? nbf))
                  end
              end
        end
    end.

(* is_golden_ticket_count_valid_ : MIN_GOLDEN_TICKETS 2 of 6 *)
Fixpoint gt_walk (n : nat) (st : state) (h : N) (depth found : N) : N * N :=
  match n with
  | O => (depth, found)
  | S n' =>
      match get_block st h with
      | Some sb => gt_walk n' st (b_prev (s_b sb)) (depth + 1)
                           (if b_gt (s_b sb) then found + 1 else found)
      | None => (depth, found)
      end
  end.
Definition GT_NUM : N := 2.
Definition GT_DEN : N := 6.
Definition gt_count_valid (st : state) (prev : N) (has_gt : bool) : bool :=
  let '(depth, found) := gt_walk (N.to_nat (GT_DEN - 1)) st prev 0 0 in
  let required := GT_NUM - (GT_DEN - (depth + 1)) in   (* saturating subtractions = N.sub *)
  let found := if has_gt then found + 1 else found in
  if depth <? GT_DEN - GT_NUM then true else negb (found <? required).

(* ---------------- winding ---------------- *)
(* Blockchain::on_chain_reorganization (no purge in this regime) *)
Definition bc_reorg (st : state) (b : blk) (lc : bool) : state :=
  if b_id b <=? last_id st then st
  else if lc then mkSt (blocks st) (ring st) (ring_lc st) (ring_empty st) (utxo st) (b_id b) (b_hash b) (wsteps st)
  else st.

Definition wind_block (c : cfg) (st : state) (b : blk) : res state :=
  do st1 <- ring_reorg c st (b_id b) (b_hash b) true;
  let st2 := set_utxo st1 (apply_block (utxo st1) b) in
  let st3 := set_lc_flag st2 (b_hash b) true in
  Ok (bc_reorg st3 b true).

Definition unwind_block (c : cfg) (st : state) (b : blk) : res state :=
  let st1 := set_utxo st (undo_block (utxo st) b) in
  let st2 := set_lc_flag st1 (b_hash b) false in
  do st3 <- ring_reorg c st2 (b_id b) (b_hash b) false;
  Ok (bc_reorg st3 b false).

Fixpoint unwind_all (c : cfg) (st : state) (chain : list N) : res state :=
  match chain with
  | [] => Ok st
  | h :: t =>
      match get_block st h with
      | None => Panic SITE_UNWRAP_BLOCK
      | Some sb => do st' <- unwind_block c st (s_b sb); unwind_all c st' t
      end
  end.

(* winds [todo] (deepest first); [wound] = what was wound so far, most recent first.
   Ok (st, None): all wound.  Ok (st, Some wound): the next block did not validate. *)
Fixpoint wind_list (c : cfg) (st : state) (todo wound : list N)
  : res (state * option (list N)) :=
  match todo with
  | [] => Ok (st, None)
  | h :: t =>
      match get_block st h with
      | None => Panic SITE_UNWRAP_BLOCK
      | Some sb =>
          if b_valid (s_b sb) then
            do st' <- wind_block c st (s_b sb); wind_list c st' t (h :: wound)
          else Ok (st, Some wound)
      end
  end.

(* Blockchain::validate (dispatcher as repaired).  new / old are tip first.
   [wsteps] counts the calls of wind_chain / unwind_chain (the cfg(saito_verif)
   hook in blockchain.rs counts the same calls on the implementation). *)
Definition set_steps (st : state) (n : N) : state :=
  mkSt (blocks st) (ring st) (ring_lc st) (ring_empty st) (utxo st) (last_id st) (last_hash st) n.
Definition attempts (todo : list N) (r : option (list N)) : N :=
  match r with None => Nlen todo | Some wound => Nlen wound + 1 end.

(* FinishWithFailure: last_block_id / last_block_hash are pointed at the tip again *)
Definition resync_last (st : state) : res state :=
  do e <- latest_entry st;
  Ok (match e with
      | Some (h, id) => mkSt (blocks st) (ring st) (ring_lc st) (ring_empty st) (utxo st) id h (wsteps st)
      | None => st
      end).

Definition validate (c : cfg) (st : state) (new old : list N) : res (state * bool) :=
  match new with
  | [] => Panic SITE_UNWRAP_BLOCK
  | h0 :: _ =>
      match get_block st h0 with
      | None => Panic SITE_UNWRAP_BLOCK
      | Some sb0 =>
          let st := set_steps st 0 in
          if negb (gt_count_valid st (b_prev (s_b sb0)) (b_gt (s_b sb0))) then Ok (st, false)
          else
            do st1 <- unwind_all c st old;
            do r <- wind_list c st1 (rev new) [];
            match r with
            | (st2, None) => Ok (set_steps st2 (Nlen old + Nlen new), true)
            | (st2, Some wound) =>
                do st3 <- unwind_all c st2 wound;
                let n1 := Nlen old + (Nlen wound + 1) + Nlen wound in
                match old with
                | [] => do st4 <- resync_last st3; Ok (set_steps st4 n1, false)
                | _ =>
                    do r' <- wind_list c st3 (rev old) [];
                    do st4 <- resync_last (fst r');
                    Ok (set_steps st4 (n1 + attempts old (snd r')), false)
                end
            end
      end
  end.

(* ---------------- add_block ---------------- *)
Inductive add_result := OnChain | OffChain | Exists | Retry | Invalid.
Definition result_code (r : add_result) : N :=
  match r with OnChain => 1 | OffChain => 2 | Exists => 3 | Retry => 4 | Invalid => 5 end.

(* the disconnect loop of the out-of-order branch: for i in id+1 ..= latest *)
Fixpoint disconnect (c : cfg) (st : state) (from : N) (n : nat) : res state :=
  match n with
  | O => Ok st
  | S n' =>
      match lc_hash_at c (ring st) from with
      | Some h =>
          if h =? 0 then disconnect c st (from + 1) n'
          else
            do st1 <- ring_reorg c st from h false;
            disconnect c (set_lc_flag st1 h false) (from + 1) n'
      | None => disconnect c st (from + 1) n'
      end
  end.

Definition add_block_failure (c : cfg) (st : state) (b : blk) : state :=
  match get_block st (b_hash b) with
  | None => st
  | Some _ =>
      let st1 := set_blocks st (adel (b_hash b) (blocks st)) in
      set_ring st1 (ring_delete c (ring st1) (b_id b) (b_hash b)) (ring_lc st1)
  end.

Definition set_not_empty (st : state) : state :=
  mkSt (blocks st) (ring st) (ring_lc st) false (utxo st) (last_id st) (last_hash st) (wsteps st).

Definition add_block (c : cfg) (st : state) (b : blk) : res (state * add_result) :=
  let gp := gp_of c in
  if 2 * gp <? b_id b then Err else                       (* outside the modelled regime *)
  do lhash <- latest_hash st;
  match get_block st (b_hash b) with
  | Some _ => Ok (st, Exists)
  | None =>
      do lid0 <- latest_id st;
      let parent_missing :=
        negb (ring_empty st) && match get_block st (b_prev b) with Some _ => false | None => true end in
      if parent_missing && negb (b_prev b =? 0) && snd c then
        (* initial_loading_completed: answer retry / too old; mempool queue is empty *)
        if N.max 1 (lid0 - gp) <? b_id b then Ok (st, Retry) else Ok (st, Invalid)
      else
      let st1 := if ring_contains c (ring st) (b_id b) (b_hash b) then st
                 else set_ring st (ring_add c (ring st) (b_id b) (b_hash b)) (ring_lc st) in
      let st2 := set_blocks st1 (aset (b_hash b) (mkSB b false) (blocks st1)) in
      let fuel := S (length (blocks st2)) in
      let '(found, shared, new) := new_chain_from fuel st2 (b_hash b) [] in
      do r3 <-
        (if found then Ok (st2, old_chain_from fuel st2 lhash shared [])
         else
           do st3 <-
             (if ring_empty st2 then Ok st2
              else
                do lh <- latest_hash st2;
                do lid <- latest_id st2;
                if negb (lhash =? 0) && (lhash =? lh) && (lid - gp <? b_id b) then
                  disconnect c st2 (b_id b + 1) (N.to_nat (lid - b_id b))
                else Ok st2);
           Ok (st3, old_chain_upto fuel st3 lhash (length new) []));
      let '(st3, old) := r3 in
      do lid3 <- latest_id st3;
      do longest <- (if lid3 - gp <? b_id b then is_new_chain_longest st3 new old else Ok false);
      let st4 := set_not_empty st3 in
      if longest then
        let st5 := set_lc_flag st4 (b_hash b) true in
        do v <- validate c st5 new old;
        let '(st6, ok) := v in
        if ok then Ok (st6, OnChain)
        else Ok (add_block_failure c (set_lc_flag st6 (b_hash b) false) b, Invalid)
      else Ok (st4, OffChain)
  end.

(* ---------------- runs and observation ---------------- *)
Fixpoint find_blk (bs : list blk) (h : N) : option blk :=
  match bs with
  | [] => None
  | b :: t => if b_hash b =? h then Some b else find_blk t h
  end.

Definition max_id (st : state) (tip : N) : N :=
  fold_left (fun a hb => N.max a (b_id (s_b (snd hb)))) (blocks st) tip.

Fixpoint lc_rows (c : cfg) (r : list ritem) (id : N) (n : nat) : list N :=
  match n with
  | O => []
  | S n' => match lc_hash_at c r id with
            | Some h => id :: h :: lc_rows c r (id + 1) n'
            | None => lc_rows c r (id + 1) n'
            end
  end.

Definition obs_rows (c : cfg) (st : state) (code : N) : res (list (list N)) :=
  do tid <- latest_id st;
  do th <- latest_hash st;
  Ok [[code; wsteps st]; [tid; th; last_id st; last_hash st];
      lc_rows c (ring st) 0 (N.to_nat (max_id st tid + 2));
      flat_map (fun hb => [fst hb; b_id (s_b (snd hb)); if s_lc (snd hb) then 1 else 0;
                           if ring_contains c (ring st) (b_id (s_b (snd hb))) (fst hb) then 1 else 0]) (blocks st);
      map (fun k => 2 * k + 1) (utxo st)].

Fixpoint run_trace_from (c : cfg) (bs : list blk) (st : state) (order : list N)
  : list (list (list N)) :=
  match order with
  | [] => []
  | h :: t =>
      match find_blk bs h with
      | None => [[[997]]]
      | Some b =>
          match add_block c st b with
          | Ok (st', r) =>
              match obs_rows c st' (result_code r) with
              | Ok rows => rows :: run_trace_from c bs st' t
              | Err => [[[998]]]
              | Panic _ => [[[8]]]
              end
          | Err => [[[998]]]
          | Panic _ => [[[9]]]
          end
      end
  end.

Definition run_trace (c : cfg) (bs : list blk) (order : list N) : list (list (list N)) :=
  run_trace_from c bs (init c) order.

(* state after a delivery list (used by the theorems) *)
Fixpoint deliver (c : cfg) (st : state) (bs : list blk) : res state :=
  match bs with
  | [] => Ok st
  | b :: t => do r <- add_block c st b; deliver c (fst r) t
  end.
