(* Blockchain::add_block for ALL block ids: model/Chain.v plus the purge that
   Blockchain::on_chain_reorganization(longest_chain = true) performs through
   update_genesis_period / delete_blocks / delete_block once the tip is beyond
   2 * genesis_period (ring slots wrap, the blocks 2 * genesis_period below the
   new tip are deleted).  Everything that does not depend on the purge is reused
   from Chain.v (block ring, chain computations, fork choice, golden-ticket walk,
   unwinding, add_block_failure, the out-of-order branch).

   What is where in blockchain.rs:
     on_chain_reorganization   : [bc_reorg]  (skips when last_block_id >= block_id,
                                  i.e. also the purge is skipped then)
     update_genesis_period     : [update_genesis]  latest >= 2gp+1 -> genesis_block_id
                                  := latest - gp; purge_bid := latest - 2gp
     delete_blocks             : [delete_blocks] over blockring.get_block_hashes_at_block_id
                                  (= the entries of the slot whose id is purge_bid)
     delete_block              : [delete_block]  blocks.get(hash).unwrap(), Block::delete
                                  (removes the keys of ALL inputs and outputs of the block
                                  from the utxo map), blockring.delete_block, blocks.remove
   Not modelled (as in Chain.v): wallet, storage files, fork id, and
   downgrade_blockchain_data (transaction pruning; the harness sets
   prune_after_blocks beyond every generated id).  No proofs here. *)
From Saito Require Import Base Chain.

Record pstate := mkP {
  core : state;
  gid : N                          (* Blockchain.genesis_block_id (only ever written) *)
}.

Definition pinit (c : cfg) : pstate := mkP (init c) 0.

Definition SITE_DELETE_UNWRAP : N := 13.  (* delete_block: blocks.get(hash).unwrap() *)

(* Block::delete -> Transaction::delete -> Slip::delete: from keys, then to keys *)
Definition delete_tx (u : list N) (tx : list N * list N) : list N :=
  fold_left (fun u k => udel k u) (snd tx) (fold_left (fun u k => udel k u) (fst tx) u).
Definition delete_utxo (u : list N) (b : blk) : list N := fold_left delete_tx (b_txs b) u.

(* BlockRing::get_block_hashes_at_block_id *)
Definition hashes_at (c : cfg) (r : list ritem) (id : N) : list N :=
  map fst (filter (fun e => snd e =? id) (ri_ent (item_at r (slot c id)))).

Definition delete_block (c : cfg) (st : state) (id h : N) : res state :=
  match get_block st h with
  | None => Panic SITE_DELETE_UNWRAP
  | Some sb =>
      let st1 := set_utxo st (delete_utxo (utxo st) (s_b sb)) in
      let st2 := set_ring st1 (ring_delete c (ring st1) id h) (ring_lc st1) in
      Ok (set_blocks st2 (adel h (blocks st2)))
  end.

Fixpoint delete_blocks (c : cfg) (st : state) (id : N) (hs : list N) : res state :=
  match hs with
  | [] => Ok st
  | h :: t => do st' <- delete_block c st id h; delete_blocks c st' id t
  end.

Definition update_genesis (c : cfg) (ps : pstate) : res pstate :=
  let gp := gp_of c in
  do lid <- latest_id (core ps);
  if 2 * gp + 1 <=? lid then
    let purge := lid - 2 * gp in
    if 0 <? purge then
      do st' <- delete_blocks c (core ps) purge (hashes_at c (ring (core ps)) purge);
      Ok (mkP st' (lid - gp))
    else Ok (mkP (core ps) (lid - gp))
  else Ok ps.

(* Blockchain::on_chain_reorganization *)
Definition bc_reorg_p (c : cfg) (ps : pstate) (b : blk) (lc : bool) : res pstate :=
  let st := core ps in
  if b_id b <=? last_id st then Ok ps
  else if lc then
    update_genesis c
      (mkP (mkSt (blocks st) (ring st) (ring_lc st) (ring_empty st) (utxo st)
                 (b_id b) (b_hash b) (wsteps st)) (gid ps))
  else Ok ps.

Definition wind_block_p (c : cfg) (ps : pstate) (b : blk) : res pstate :=
  do st1 <- ring_reorg c (core ps) (b_id b) (b_hash b) true;
  let st2 := set_utxo st1 (apply_block (utxo st1) b) in
  let st3 := set_lc_flag st2 (b_hash b) true in
  bc_reorg_p c (mkP st3 (gid ps)) b true.

(* unwinding never purges: Chain.unwind_block / Chain.unwind_all on the core *)
Definition unwind_all_p (c : cfg) (ps : pstate) (chain : list N) : res pstate :=
  do st' <- unwind_all c (core ps) chain; Ok (mkP st' (gid ps)).

Fixpoint wind_list_p (c : cfg) (ps : pstate) (todo wound : list N)
  : res (pstate * option (list N)) :=
  match todo with
  | [] => Ok (ps, None)
  | h :: t =>
      match get_block (core ps) h with
      | None => Panic SITE_UNWRAP_BLOCK
      | Some sb =>
          if b_valid (s_b sb) then
            do ps' <- wind_block_p c ps (s_b sb); wind_list_p c ps' t (h :: wound)
          else Ok (ps, Some wound)
      end
  end.

Definition lift (f : state -> state) (ps : pstate) : pstate := mkP (f (core ps)) (gid ps).

Definition resync_last_p (ps : pstate) : res pstate :=
  do st' <- resync_last (core ps); Ok (mkP st' (gid ps)).

(* Blockchain::validate, as Chain.validate *)
Definition validate_p (c : cfg) (ps : pstate) (new old : list N) : res (pstate * bool) :=
  match new with
  | [] => Panic SITE_UNWRAP_BLOCK
  | h0 :: _ =>
      match get_block (core ps) h0 with
      | None => Panic SITE_UNWRAP_BLOCK
      | Some sb0 =>
          let ps := lift (fun st => set_steps st 0) ps in
          if negb (gt_count_valid (core ps) (b_prev (s_b sb0)) (b_gt (s_b sb0))) then Ok (ps, false)
          else
            do ps1 <- unwind_all_p c ps old;
            do r <- wind_list_p c ps1 (rev new) [];
            match r with
            | (ps2, None) => Ok (lift (fun st => set_steps st (Nlen old + Nlen new)) ps2, true)
            | (ps2, Some wound) =>
                do ps3 <- unwind_all_p c ps2 wound;
                let n1 := Nlen old + (Nlen wound + 1) + Nlen wound in
                match old with
                | [] => do ps4 <- resync_last_p ps3; Ok (lift (fun st => set_steps st n1) ps4, false)
                | _ =>
                    do r' <- wind_list_p c ps3 (rev old) [];
                    do ps4 <- resync_last_p (fst r');
                    Ok (lift (fun st => set_steps st (n1 + attempts old (snd r'))) ps4, false)
                end
            end
      end
  end.

(* ---------------- add_block, all ids ---------------- *)
Definition ins_block (c : cfg) (st : state) (b : blk) : state :=
  let st1 := if ring_contains c (ring st) (b_id b) (b_hash b) then st
             else set_ring st (ring_add c (ring st) (b_id b) (b_hash b)) (ring_lc st) in
  set_blocks st1 (aset (b_hash b) (mkSB b false) (blocks st1)).

(* the two competing chains; the out-of-order branch may touch the ring / flags *)
Definition add_chains (c : cfg) (b : blk) (lhash : N) (st2 : state) : res (state * list N * list N) :=
  let gp := gp_of c in
  let fuel := S (length (blocks st2)) in
  let '(found, shared, new) := new_chain_from fuel st2 (b_hash b) [] in
  do r3 <-
    (if found then Ok (st2, old_chain_from fuel st2 lhash shared [])
     else
       do st3 <-
         (if ring_empty st2 then Ok st2
          else
            do lh <- latest_hash st2;
            do lid <- latest_id st2;
            if negb (lhash =? 0) && (lhash =? lh) && (lid - gp <? b_id b) then
              disconnect c st2 (b_id b + 1) (N.to_nat (lid - b_id b))
            else Ok st2);
       Ok (st3, old_chain_upto fuel st3 lhash (length new) []));
  let '(st3, old) := r3 in Ok (st3, new, old).

Definition add_finish_p (c : cfg) (b : blk) (ps3 : pstate) (new old : list N) : res (pstate * add_result) :=
  let st3 := core ps3 in
  do lid3 <- latest_id st3;
  do longest <- (if lid3 - gp_of c <? b_id b then is_new_chain_longest st3 new old else Ok false);
  let ps4 := lift set_not_empty ps3 in
  if longest then
    let ps5 := lift (fun st => set_lc_flag st (b_hash b) true) ps4 in
    do v <- validate_p c ps5 new old;
    let '(ps6, ok) := v in
    if ok then Ok (ps6, OnChain)
    else Ok (lift (fun st => add_block_failure c (set_lc_flag st (b_hash b) false) b) ps6, Invalid)
  else Ok (ps4, OffChain).

Definition add_block_p (c : cfg) (ps : pstate) (b : blk) : res (pstate * add_result) :=
  let st := core ps in
  do lhash <- latest_hash st;
  match get_block st (b_hash b) with
  | Some _ => Ok (ps, Exists)
  | None =>
      do lid0 <- latest_id st;
      let parent_missing :=
        negb (ring_empty st) && match get_block st (b_prev b) with Some _ => false | None => true end in
      if parent_missing && negb (b_prev b =? 0) && snd c then
        if N.max 1 (lid0 - gp_of c) <? b_id b then Ok (ps, Retry) else Ok (ps, Invalid)
      else
        do r <- add_chains c b lhash (ins_block c st b);
        let '(st3, new, old) := r in add_finish_p c b (mkP st3 (gid ps)) new old
  end.

(* ---------------- runs and observation ---------------- *)
Definition obs_rows_p (c : cfg) (ps : pstate) (code : N) : res (list (list N)) :=
  let st := core ps in
  do tid <- latest_id st;
  do th <- latest_hash st;
  Ok [[code; wsteps st]; [tid; th; last_id st; last_hash st; gid ps];
      lc_rows c (ring st) 0 (N.to_nat (max_id st tid + 2));
      flat_map (fun hb => [fst hb; b_id (s_b (snd hb)); if s_lc (snd hb) then 1 else 0;
                           if ring_contains c (ring st) (b_id (s_b (snd hb))) (fst hb) then 1 else 0]) (blocks st);
      map (fun k => 2 * k + 1) (utxo st)].

Fixpoint run_trace_from_p (c : cfg) (bs : list blk) (ps : pstate) (order : list N)
  : list (list (list N)) :=
  match order with
  | [] => []
  | h :: t =>
      match find_blk bs h with
      | None => [[[997]]]
      | Some b =>
          match add_block_p c ps b with
          | Ok (ps', r) =>
              match obs_rows_p c ps' (result_code r) with
              | Ok rows => rows :: run_trace_from_p c bs ps' t
              | Err => [[[998]]]
              | Panic _ => [[[8]]]
              end
          | Err => [[[998]]]
          | Panic _ => [[[9]]]
          end
      end
  end.

Definition run_trace_p (c : cfg) (bs : list blk) (order : list N) : list (list (list N)) :=
  run_trace_from_p c bs (pinit c) order.

Fixpoint deliver_p (c : cfg) (ps : pstate) (bs : list blk) : res pstate :=
  match bs with
  | [] => Ok ps
  | b :: t => do r <- add_block_p c ps b; deliver_p c (fst r) t
  end.

(* ---------------- comparison entry point of the harness ---------------- *)
(* expected rows carry genesis_block_id as fifth number of row 1; histories inside the
   old regime (all ids <= 2 * gp) are additionally compared with Chain.run_trace, whose
   observation has no such column *)
Definition strip_gid (rows : list (list (list N))) : list (list (list N)) :=
  map (fun r => match r with a :: b :: t => a :: firstn 4 b :: t | _ => r end) rows.

Definition in_old_regime (c : cfg) (bs : list blk) (order : list N) : bool :=
  forallb (fun h => match find_blk bs h with Some b => b_id b <=? 2 * gp_of c | None => true end) order.

Definition check_trace (c : cfg) (bs : list blk) (order : list N) (expected : list (list (list N))) : bool :=
  eqb_lllN (run_trace_p c bs order) expected
  && (if in_old_regime c bs order then eqb_lllN (run_trace c bs order) (strip_gid expected) else true).
