(* Byte-level codecs of saito-core, mirrored slice for slice from the Rust code
   (saito-core/src/core/...).  Encoders are the [..].concat() of the source;
   decoders return [Ok v | Err | Panic site] exactly as the Rust code behaves:
   an Err where the code returns Err, a Panic where it slices / indexes /
   asserts without a preceding length check.  Model only, no proofs.

   Conventions: fixed-size arrays ([u8;32], [u8;33], [u8;64]) are byte lists
   (wf_X fixes their length), integers are N (wf_X fixes their width), enums
   are their numeric tag.  usize is 64 bit (the offsets computed from u32
   counts cannot wrap).  Panic sites: 1xx slip, 2xx hop, 3xx transaction,
   4xx block, 5xx message, 6xx handshake challenge, 7xx handshake response,
   8xx blockchain request, 9xx ghost chain sync, 10xx api message,
   11xx services, 12xx version, 13xx golden ticket, 14xx wallet;
   site 0 = loop fuel exhausted (proved unreachable). *)
From Saito Require Import Base Bytes.

Open Scope N_scope.

Definition two32 : N := 4294967296.
Definition two64 : N := 18446744073709551616.
Definition two16 : N := 65536.

(* is this a well-formed fixed-size array of n bytes *)
Definition arr_ok (n : N) (l : list N) : bool := (Nlen l =? n) && bytes_ok l.

(* ------------------------------------------------------------------ *)
(* generic loops                                                       *)
(* ------------------------------------------------------------------ *)

(* for n in 0..count { x = bytes[off + n*size .. off + (n+1)*size]; dec(x)? }
   The count comes from the wire (u32), so the recursion is on fuel; the slice
   is attempted before the fuel is looked at. *)
Section Items.
  Context {A : Type} (site size : N) (dec : list N -> res A).
  Fixpoint dec_items (fuel : nat) (n off : N) (bs : list N) : res (list A) :=
    if n =? 0 then Ok [] else
    do x <- sl site off (off + size) bs;
    match fuel with
    | O => Panic 0
    | S f =>
      do v <- dec x;
      do r <- dec_items f (n - 1) (off + size) bs;
      Ok (v :: r)
    end.
End Items.

(* for i in 0..k { f(buf[i*size .. (i+1)*size]) } with k already known to fit *)
Section Chunks.
  Context {A : Type} (site size : N) (f : list N -> A).
  Fixpoint dec_chunks (k : nat) (i : N) (buf : list N) : res (list A) :=
    match k with
    | O => Ok []
    | S k' =>
      do x <- sl site (i * size) ((i + 1) * size) buf;
      do r <- dec_chunks k' (i + 1) buf;
      Ok (f x :: r)
    end.
End Chunks.

Definition eqb_res {A} (eqb : A -> A -> bool) (a b : res A) : bool :=
  match a, b with
  | Ok x, Ok y => eqb x y
  | Err, Err => true
  | Panic s, Panic t => s =? t
  | _, _ => false
  end.

(* outcome class of a decoder run: 0 = Ok, 1 = Err, 2 = Panic *)
Definition class_of {A} (r : res A) : N :=
  match r with Ok _ => 0 | Err => 1 | Panic _ => 2 end.

(* ------------------------------------------------------------------ *)
(* Slip — consensus/slip.rs                                            *)
(* ------------------------------------------------------------------ *)

Definition SLIP_SIZE : N := 59.

Record slip := mkSlip {
  s_pk : list N;        (* [u8;33] *)
  s_amount : N;         (* u64 *)
  s_block_id : N;       (* u64 *)
  s_tx_ordinal : N;     (* u64 *)
  s_index : N;          (* u8 *)
  s_type : N            (* SlipType 0..9 *)
}.

Definition wf_slip (s : slip) : bool :=
  arr_ok 33 (s_pk s) && (s_amount s <? two64) && (s_block_id s <? two64)
  && (s_tx_ordinal s <? two64) && (s_index s <? 256) && (s_type s <? 10).

(* Slip::serialize_for_net *)
Definition encode_slip (s : slip) : list N :=
  concat [ s_pk s;
           be_enc 8 (s_amount s);
           be_enc 8 (s_block_id s);
           be_enc 8 (s_tx_ordinal s);
           be_enc 1 (s_index s);
           be_enc 1 (s_type s) ].

(* Slip::deserialize_from_net *)
Definition decode_slip (bs : list N) : res slip :=
  if negb (Nlen bs =? SLIP_SIZE) then Err else
  do pk <- sl 101 0 33 bs;
  do am <- sl 102 33 41 bs;
  do bid <- sl 103 41 49 bs;
  do ord <- sl 104 49 57 bs;
  do idx <- ix 105 57 bs;
  do ty <- ix 106 58 bs;
  if ty <? 10      (* SlipType::from_u8 *)
  then Ok (mkSlip pk (be_dec am) (be_dec bid) (be_dec ord) idx ty)
  else Err.

(* Slip::get_utxoset_key: the 59-byte key of the UTXO set (field order differs
   from the wire format: location first, then amount) *)
Definition encode_utxokey (s : slip) : list N :=
  concat [ s_pk s;
           be_enc 8 (s_block_id s);
           be_enc 8 (s_tx_ordinal s);
           be_enc 1 (s_index s);
           be_enc 8 (s_amount s);
           be_enc 1 (s_type s) ].

(* Slip::parse_slip_from_utxokey (the key is a [u8;59]) *)
Definition decode_utxokey (key : list N) : res slip :=
  do pk <- sl 111 0 33 key;
  do bid <- sl 112 33 41 key;
  do ord <- sl 113 41 49 key;
  do idx <- ix 114 49 key;
  do am <- sl 115 50 58 key;
  do ty <- ix 116 58 key;
  if ty <? 10 then Ok (mkSlip pk (be_dec am) (be_dec bid) (be_dec ord) idx ty) else Err.

(* Slip::serialize_input_for_signature = serialize_output_for_signature: the
   part of a slip that a transaction signature covers.  block_id and tx_ordinal
   are NOT in it (commented out in the source). *)
Definition sig_bytes_slip (s : slip) : list N :=
  concat [ s_pk s; be_enc 8 (s_amount s); be_enc 1 (s_index s); be_enc 1 (s_type s) ].

Definition SIG_SLIP_SIZE : N := 43.

Definition eqb_slip (a b : slip) : bool :=
  beq (s_pk a) (s_pk b) && (s_amount a =? s_amount b) && (s_block_id a =? s_block_id b)
  && (s_tx_ordinal a =? s_tx_ordinal b) && (s_index a =? s_index b) && (s_type a =? s_type b).

(* ------------------------------------------------------------------ *)
(* Hop — consensus/hop.rs                                              *)
(* ------------------------------------------------------------------ *)

Definition HOP_SIZE : N := 130.

Record hop := mkHop { h_from : list N; h_to : list N; h_sig : list N }.

Definition wf_hop (h : hop) : bool :=
  arr_ok 33 (h_from h) && arr_ok 33 (h_to h) && arr_ok 64 (h_sig h).

Definition encode_hop (h : hop) : list N := concat [ h_from h; h_to h; h_sig h ].

Definition decode_hop (bs : list N) : res hop :=
  if negb (Nlen bs =? HOP_SIZE) then Err else
  do f <- sl 201 0 33 bs;
  do t <- sl 202 33 66 bs;
  do s <- sl 203 66 130 bs;
  Ok (mkHop f t s).

Definition eqb_hop (a b : hop) : bool :=
  beq (h_from a) (h_from b) && beq (h_to a) (h_to b) && beq (h_sig a) (h_sig b).

(* ------------------------------------------------------------------ *)
(* Transaction — consensus/transaction.rs                              *)
(* ------------------------------------------------------------------ *)

Definition TRANSACTION_SIZE : N := 93.

Record tx := mkTx {
  t_ts : N;               (* u64 *)
  t_from : list slip;
  t_to : list slip;
  t_data : list N;
  t_type : N;             (* TransactionType 0..8 *)
  t_repl : N;             (* u32 txs_replacements *)
  t_sig : list N;         (* [u8;64] *)
  t_path : list hop
}.

(* TransactionType::GoldenTicket *)
Definition TT_GOLDEN_TICKET : N := 2.

(* a GoldenTicket-type transaction carries a 97-byte GoldenTicket as its payload *)
Definition wf_tx (t : tx) : bool :=
  (t_ts t <? two64) && (Nlen (t_from t) <=? 255) && forallb wf_slip (t_from t)
  && (Nlen (t_to t) <=? 255) && forallb wf_slip (t_to t)
  && (Nlen (t_data t) <? two32) && bytes_ok (t_data t)
  && (t_type t <? 9) && (t_repl t <? two32) && arr_ok 64 (t_sig t)
  && (Nlen (t_path t) <? two32) && forallb wf_hop (t_path t)
  && (negb (t_type t =? TT_GOLDEN_TICKET) || (Nlen (t_data t) =? 97)).

(* Transaction::serialize_for_net (= serialize_for_net_with_hop(None)) *)
Definition encode_tx (t : tx) : list N :=
  if 255 <? Nlen (t_from t) then [] else       (* "too many inputs": returns vec![] *)
  if 255 <? Nlen (t_to t) then [] else
  concat [ be_enc 4 (Nlen (t_from t));
           be_enc 4 (Nlen (t_to t));
           be_enc 4 (Nlen (t_data t));
           be_enc 4 (Nlen (t_path t));
           t_sig t;
           be_enc 8 (t_ts t);
           be_enc 4 (t_repl t);
           be_enc 1 (t_type t);
           concat (map encode_slip (t_from t));
           concat (map encode_slip (t_to t));
           t_data t;
           concat (map encode_hop (t_path t)) ].

(* Transaction::get_serialized_size *)
Definition size_tx (t : tx) : N :=
  TRANSACTION_SIZE + SLIP_SIZE * Nlen (t_from t) + SLIP_SIZE * Nlen (t_to t)
  + HOP_SIZE * Nlen (t_path t) + Nlen (t_data t).

(* Transaction::deserialize_from_net *)
Definition decode_tx (bs : list N) : res tx :=
  if Nlen bs <? TRANSACTION_SIZE then Err else
  do b_in <- sl 301 0 4 bs;
  let inputs_len := be_dec b_in in
  if 255 <? inputs_len then Err else
  do b_out <- sl 302 4 8 bs;
  let outputs_len := be_dec b_out in
  if 255 <? outputs_len then Err else
  do b_ml <- sl 303 8 12 bs;
  let message_len := be_dec b_ml in
  do b_pl <- sl 304 12 16 bs;
  let path_len := be_dec b_pl in
  do sig <- sl 305 16 80 bs;
  do b_ts <- sl 306 80 88 bs;
  do b_rep <- sl 307 88 92 bs;
  do ty <- ix 308 92 bs;
  if negb (ty <? 9) then Err else             (* FromPrimitive::from_u8 *)
  (* fix 34b1724: the buffer must hold everything its header declares (u64 arithmetic) *)
  let declared_len := TRANSACTION_SIZE + (inputs_len + outputs_len) * SLIP_SIZE + message_len
                      + path_len * HOP_SIZE in
  if Nlen bs <? declared_len then Err else
  let start_of_inputs := TRANSACTION_SIZE in
  let start_of_outputs := start_of_inputs + inputs_len * SLIP_SIZE in
  let start_of_message := start_of_outputs + outputs_len * SLIP_SIZE in
  let start_of_path := start_of_message + message_len in
  do inputs <- dec_items 309 SLIP_SIZE decode_slip (length bs) inputs_len start_of_inputs bs;
  do outputs <- dec_items 310 SLIP_SIZE decode_slip (length bs) outputs_len start_of_outputs bs;
  do message <- sl 311 start_of_message (start_of_message + message_len) bs;
  do path <- dec_items 312 HOP_SIZE decode_hop (length bs) path_len start_of_path bs;
  (* fix eeb4ec7: the payload of a golden ticket transaction is a 97-byte GoldenTicket *)
  if (ty =? TT_GOLDEN_TICKET) && negb (message_len =? 97) then Err else
  Ok (mkTx (be_dec b_ts) inputs outputs message ty (be_dec b_rep) sig path).

(* Transaction::serialize_for_signature: what hash_for_signature hashes and the
   sender signs.  Not covered: signature, path, block_id / tx_ordinal of every
   slip, and the boundary between inputs and outputs (no counts are written). *)
Definition sig_bytes_tx (t : tx) : list N :=
  concat [ be_enc 8 (t_ts t);
           concat (map sig_bytes_slip (t_from t));
           concat (map sig_bytes_slip (t_to t));
           be_enc 4 (t_repl t);
           be_enc 4 (t_type t);             (* (transaction_type as u32) *)
           t_data t ].

(* Hop::generate / validate_routing_path: the bytes a routing hop signs *)
Definition sig_bytes_hop (tx_signature : list N) (to_pk : list N) : list N :=
  tx_signature ++ to_pk.

(* the size a transaction buffer declares in its own 16-byte prefix *)
Definition tx_declared_size (bs : list N) : N :=
  match slice 0 4 bs, slice 4 8 bs, slice 8 12 bs, slice 12 16 bs with
  | Some a, Some b, Some c, Some d =>
      TRANSACTION_SIZE + (be_dec a + be_dec b) * SLIP_SIZE + be_dec c + be_dec d * HOP_SIZE
  | _, _, _, _ => 0
  end.

Definition eqb_tx (a b : tx) : bool :=
  (t_ts a =? t_ts b) && eqb_list eqb_slip (t_from a) (t_from b) && eqb_list eqb_slip (t_to a) (t_to b)
  && beq (t_data a) (t_data b) && (t_type a =? t_type b) && (t_repl a =? t_repl b)
  && beq (t_sig a) (t_sig b) && eqb_list eqb_hop (t_path a) (t_path b).

(* ------------------------------------------------------------------ *)
(* Block — consensus/block.rs                                          *)
(* ------------------------------------------------------------------ *)

Definition BLOCK_HEADER_SIZE : N := 389.

(* BlockType *)
Definition BT_GHOST : N := 0.
Definition BT_HEADER : N := 1.
Definition BT_PRUNED : N := 2.
Definition BT_FULL : N := 3.

Record block := mkBlock {
  b_id : N;
  b_ts : N;
  b_prev : list N;                 (* [u8;32] *)
  b_creator : list N;              (* [u8;33] *)
  b_merkle : list N;               (* [u8;32] *)
  b_sig : list N;                  (* [u8;64] *)
  b_graveyard : N;
  b_treasury : N;
  b_burnfee : N;
  b_difficulty : N;
  b_avg_total_fees : N;            (* written twice on the wire: 213..221 and 245..253 *)
  b_avg_fee_per_byte : N;
  b_avg_nolan_rebroadcast : N;
  b_prev_unpaid : N;
  b_avg_total_fees_new : N;
  b_avg_total_fees_atr : N;
  b_avg_payout_routing : N;
  b_avg_payout_mining : N;
  b_avg_payout_treasury : N;
  b_avg_payout_graveyard : N;
  b_avg_payout_atr : N;
  b_total_payout_routing : N;
  b_total_payout_mining : N;
  b_total_payout_treasury : N;
  b_total_payout_graveyard : N;
  b_total_payout_atr : N;
  b_total_fees : N;
  b_total_fees_new : N;
  b_total_fees_atr : N;
  b_fee_per_byte : N;
  b_total_fees_cumulative : N;
  b_txs : list tx;
  b_type : N                       (* in-memory BlockType, not on the wire *)
}.

Definition block_nums (b : block) : list N :=
  [ b_id b; b_ts b; b_graveyard b; b_treasury b; b_burnfee b; b_difficulty b; b_avg_total_fees b;
    b_avg_fee_per_byte b; b_avg_nolan_rebroadcast b; b_prev_unpaid b; b_avg_total_fees_new b;
    b_avg_total_fees_atr b; b_avg_payout_routing b; b_avg_payout_mining b; b_avg_payout_treasury b;
    b_avg_payout_graveyard b; b_avg_payout_atr b; b_total_payout_routing b; b_total_payout_mining b;
    b_total_payout_treasury b; b_total_payout_graveyard b; b_total_payout_atr b; b_total_fees b;
    b_total_fees_new b; b_total_fees_atr b; b_fee_per_byte b; b_total_fees_cumulative b ].

Definition wf_block (b : block) : bool :=
  forallb (fun x => x <? two64) (block_nums b)
  && arr_ok 32 (b_prev b) && arr_ok 33 (b_creator b) && arr_ok 32 (b_merkle b) && arr_ok 64 (b_sig b)
  && (Nlen (b_txs b) <? two32) && forallb wf_tx (b_txs b) && (b_type b <? 4).

(* Block::serialize_for_net(block_type) *)
Definition encode_block (block_type : N) (b : block) : list N :=
  let tx_len_buffer :=
    if block_type =? BT_HEADER then be_enc 4 0 else be_enc 4 (Nlen (b_txs b)) in
  let tx_buf :=
    if negb (block_type =? BT_HEADER) then concat (map encode_tx (b_txs b)) else [] in
  concat [ tx_len_buffer;
           be_enc 8 (b_id b);
           be_enc 8 (b_ts b);
           b_prev b;
           b_creator b;
           b_merkle b;
           b_sig b;
           be_enc 8 (b_graveyard b);
           be_enc 8 (b_treasury b);
           be_enc 8 (b_burnfee b);
           be_enc 8 (b_difficulty b);
           be_enc 8 (b_avg_total_fees b);
           be_enc 8 (b_avg_fee_per_byte b);
           be_enc 8 (b_avg_nolan_rebroadcast b);
           be_enc 8 (b_prev_unpaid b);
           be_enc 8 (b_avg_total_fees b);
           be_enc 8 (b_avg_total_fees_new b);
           be_enc 8 (b_avg_total_fees_atr b);
           be_enc 8 (b_avg_payout_routing b);
           be_enc 8 (b_avg_payout_mining b);
           be_enc 8 (b_avg_payout_treasury b);
           be_enc 8 (b_avg_payout_graveyard b);
           be_enc 8 (b_avg_payout_atr b);
           be_enc 8 (b_total_payout_routing b);
           be_enc 8 (b_total_payout_mining b);
           be_enc 8 (b_total_payout_treasury b);
           be_enc 8 (b_total_payout_graveyard b);
           be_enc 8 (b_total_payout_atr b);
           be_enc 8 (b_total_fees b);
           be_enc 8 (b_total_fees_new b);
           be_enc 8 (b_total_fees_atr b);
           be_enc 8 (b_fee_per_byte b);
           be_enc 8 (b_total_fees_cumulative b);
           tx_buf ].

(* the transaction loop of Block::deserialize_from_net *)
Fixpoint dec_block_txs (fuel : nat) (n start : N) (bs : list N) : res (list tx) :=
  if n =? 0 then Ok [] else
  if Nlen bs <? start + 16 then Err else
  do b_in <- sl 440 start (start + 4) bs;
  do b_out <- sl 441 (start + 4) (start + 8) bs;
  do b_ml <- sl 442 (start + 8) (start + 12) bs;
  do b_pl <- sl 443 (start + 12) (start + 16) bs;
  let total_len := be_dec b_in + be_dec b_out in
  if two32 <=? total_len then Err else             (* checked_add on u32 *)
  let end_of_tx := start + TRANSACTION_SIZE + total_len * SLIP_SIZE + be_dec b_ml + be_dec b_pl * HOP_SIZE in
  if Nlen bs <? end_of_tx then Err else
  do tb <- sl 444 start end_of_tx bs;
  match fuel with
  | O => Panic 0
  | S f =>
    do t <- decode_tx tb;
    do r <- dec_block_txs f (n - 1) end_of_tx bs;
    Ok (t :: r)
  end.

Definition zero_hash : list N := repeat 0 32.

(* Block::deserialize_from_net *)
Definition decode_block (bs : list N) : res block :=
  if Nlen bs <? BLOCK_HEADER_SIZE then Err else
  do b_txlen <- sl 401 0 4 bs;
  do b_id' <- sl 402 4 12 bs;
  do b_ts' <- sl 403 12 20 bs;
  do prev <- sl 404 20 52 bs;
  do creator <- sl 405 52 85 bs;
  do merkle <- sl 406 85 117 bs;
  do sig <- sl 407 117 181 bs;
  do graveyard <- sl 408 181 189 bs;
  do treasury <- sl 409 189 197 bs;
  do burnfee <- sl 410 197 205 bs;
  do difficulty <- sl 411 205 213 bs;
  do avg_total_fees_0 <- sl 412 213 221 bs;          (* shadowed below *)
  do avg_fee_per_byte <- sl 413 221 229 bs;
  do avg_nolan <- sl 414 229 237 bs;
  do prev_unpaid <- sl 415 237 245 bs;
  do avg_total_fees <- sl 416 245 253 bs;
  do avg_total_fees_new <- sl 417 253 261 bs;
  do avg_total_fees_atr <- sl 418 261 269 bs;
  do avg_payout_routing <- sl 419 269 277 bs;
  do avg_payout_mining <- sl 420 277 285 bs;
  do avg_payout_treasury <- sl 421 285 293 bs;
  do avg_payout_graveyard <- sl 422 293 301 bs;
  do avg_payout_atr <- sl 423 301 309 bs;
  do total_payout_routing <- sl 424 309 317 bs;
  do total_payout_mining <- sl 425 317 325 bs;
  do total_payout_treasury <- sl 426 325 333 bs;
  do total_payout_graveyard <- sl 427 333 341 bs;
  do total_payout_atr <- sl 428 341 349 bs;
  do total_fees <- sl 429 349 357 bs;
  do total_fees_new <- sl 430 357 365 bs;
  do total_fees_atr <- sl 431 365 373 bs;
  do fee_per_byte <- sl 432 373 381 bs;
  do total_fees_cumulative <- sl 433 381 389 bs;
  let transactions_len := be_dec b_txlen in
  do txs <- dec_block_txs (length bs) transactions_len BLOCK_HEADER_SIZE bs;
  let id := be_dec b_id' in
  let block_type :=
    if (transactions_len =? 0) && negb ((id =? 1) && beq prev zero_hash) then BT_HEADER else BT_FULL in
  Ok (mkBlock id (be_dec b_ts') prev creator merkle sig
        (be_dec graveyard) (be_dec treasury) (be_dec burnfee) (be_dec difficulty)
        (be_dec avg_total_fees) (be_dec avg_fee_per_byte) (be_dec avg_nolan) (be_dec prev_unpaid)
        (be_dec avg_total_fees_new) (be_dec avg_total_fees_atr)
        (be_dec avg_payout_routing) (be_dec avg_payout_mining) (be_dec avg_payout_treasury)
        (be_dec avg_payout_graveyard) (be_dec avg_payout_atr)
        (be_dec total_payout_routing) (be_dec total_payout_mining) (be_dec total_payout_treasury)
        (be_dec total_payout_graveyard) (be_dec total_payout_atr)
        (be_dec total_fees) (be_dec total_fees_new) (be_dec total_fees_atr)
        (be_dec fee_per_byte) (be_dec total_fees_cumulative)
        txs block_type).

(* what a block looks like after serialize_for_net(bt) + deserialize_from_net *)
Definition block_after_wire (bt : N) (b : block) : block :=
  let txs := if bt =? BT_HEADER then [] else b_txs b in
  let ty := if (Nlen txs =? 0) && negb ((b_id b =? 1) && beq (b_prev b) zero_hash)
            then BT_HEADER else BT_FULL in
  mkBlock (b_id b) (b_ts b) (b_prev b) (b_creator b) (b_merkle b) (b_sig b)
    (b_graveyard b) (b_treasury b) (b_burnfee b) (b_difficulty b)
    (b_avg_total_fees b) (b_avg_fee_per_byte b) (b_avg_nolan_rebroadcast b) (b_prev_unpaid b)
    (b_avg_total_fees_new b) (b_avg_total_fees_atr b)
    (b_avg_payout_routing b) (b_avg_payout_mining b) (b_avg_payout_treasury b)
    (b_avg_payout_graveyard b) (b_avg_payout_atr b)
    (b_total_payout_routing b) (b_total_payout_mining b) (b_total_payout_treasury b)
    (b_total_payout_graveyard b) (b_total_payout_atr b)
    (b_total_fees b) (b_total_fees_new b) (b_total_fees_atr b)
    (b_fee_per_byte b) (b_total_fees_cumulative b)
    txs ty.

(* Block::generate_lite_block: every header figure, creator and signature are
   copied from the full block; the transactions are replaced (SPV placeholders,
   property C18) and the merkle root is the one computed over them *)
Definition lite_block_of (b : block) (txs : list tx) (merkle : list N) : block :=
  mkBlock (b_id b) (b_ts b) (b_prev b) (b_creator b) merkle (b_sig b)
    (b_graveyard b) (b_treasury b) (b_burnfee b) (b_difficulty b)
    (b_avg_total_fees b) (b_avg_fee_per_byte b) (b_avg_nolan_rebroadcast b) (b_prev_unpaid b)
    (b_avg_total_fees_new b) (b_avg_total_fees_atr b)
    (b_avg_payout_routing b) (b_avg_payout_mining b) (b_avg_payout_treasury b)
    (b_avg_payout_graveyard b) (b_avg_payout_atr b)
    (b_total_payout_routing b) (b_total_payout_mining b) (b_total_payout_treasury b)
    (b_total_payout_graveyard b) (b_total_payout_atr b)
    (b_total_fees b) (b_total_fees_new b) (b_total_fees_atr b)
    (b_fee_per_byte b) (b_total_fees_cumulative b)
    txs BT_FULL.

(* Block::serialize_for_signature: the header bytes behind pre_hash, hash and the
   creator signature (merkle root included; signature, the total_* figures,
   fee_per_byte and the transactions themselves are not) *)
Definition sig_bytes_block (b : block) : list N :=
  concat [ be_enc 8 (b_id b); be_enc 8 (b_ts b); b_prev b; b_creator b; b_merkle b;
           be_enc 8 (b_graveyard b); be_enc 8 (b_treasury b); be_enc 8 (b_burnfee b);
           be_enc 8 (b_difficulty b); be_enc 8 (b_avg_fee_per_byte b);
           be_enc 8 (b_avg_nolan_rebroadcast b); be_enc 8 (b_prev_unpaid b);
           be_enc 8 (b_avg_total_fees b); be_enc 8 (b_avg_total_fees_new b);
           be_enc 8 (b_avg_total_fees_atr b); be_enc 8 (b_avg_payout_routing b);
           be_enc 8 (b_avg_payout_mining b) ].

Definition size_block (bt : N) (b : block) : N :=
  BLOCK_HEADER_SIZE +
  (if bt =? BT_HEADER then 0 else fold_right (fun t a => size_tx t + a) 0 (b_txs b)).

Definition eqb_block (a b : block) : bool :=
  eqb_lN (block_nums a) (block_nums b)
  && beq (b_prev a) (b_prev b) && beq (b_creator a) (b_creator b) && beq (b_merkle a) (b_merkle b)
  && beq (b_sig a) (b_sig b) && eqb_list eqb_tx (b_txs a) (b_txs b) && (b_type a =? b_type b).

(* ------------------------------------------------------------------ *)
(* Version — process/version.rs                                        *)
(* ------------------------------------------------------------------ *)

Record version := mkVersion { v_major : N; v_minor : N; v_patch : N }.

Definition wf_version (v : version) : bool :=
  (v_major v <? 256) && (v_minor v <? 256) && (v_patch v <? two16).

Definition encode_version (v : version) : list N :=
  [v_major v; v_minor v] ++ be_enc 2 (v_patch v).

(* buffer.get(i).ok_or(..)? : an Err, not a panic *)
Definition get_or_err (i : N) (l : list N) : res N :=
  match index i l with Some x => Ok x | None => Err end.

Definition decode_version (buffer : list N) : res version :=
  if Nlen buffer <? 4 then Err else
  do major <- get_or_err 0 buffer;
  do minor <- get_or_err 1 buffer;
  do p0 <- get_or_err 2 buffer;
  do p1 <- get_or_err 3 buffer;
  Ok (mkVersion major minor (be_dec [p0; p1])).

Definition eqb_version (a b : version) : bool :=
  (v_major a =? v_major b) && (v_minor a =? v_minor b) && (v_patch a =? v_patch b).

(* ------------------------------------------------------------------ *)
(* PeerService list — consensus/peers/peer_service.rs (text format)    *)
(* ------------------------------------------------------------------ *)

Definition CH_BAR : N := 124.     (* '|' *)
Definition CH_SEMI : N := 59.     (* ';' *)

Record service := mkService { sv_service : list N; sv_domain : list N; sv_name : list N }.

Definition no_sep (l : list N) : bool :=
  forallb (fun x => negb (x =? CH_BAR)) l && forallb (fun x => negb (x =? CH_SEMI)) l.

(* Into<String> for PeerService *)
Definition encode_service (s : service) : list N :=
  sv_service s ++ CH_BAR :: sv_domain s ++ CH_BAR :: sv_name s.

(* PeerService::serialize_services *)
Definition encode_services (l : list service) : list N :=
  match l with
  | [] => []
  | _ => join_with CH_SEMI (map encode_service l)
  end.

Definition wf_service (s : service) : bool :=
  no_sep (sv_service s) && no_sep (sv_domain s) && no_sep (sv_name s)
  && bytes_ok (sv_service s) && bytes_ok (sv_domain s) && bytes_ok (sv_name s).

(* the fields are Rust Strings: the joined text must be valid UTF-8 *)
Definition wf_services (l : list service) : bool :=
  forallb wf_service l && utf8_valid (encode_services l).

(* TryFrom<String> for PeerService *)
Definition decode_service (str : list N) : res service :=
  match split_on CH_BAR str with
  | [a; b; c] => Ok (mkService a b c)
  | _ => Err
  end.

Fixpoint decode_service_list (segs : list (list N)) : res (list service) :=
  match segs with
  | [] => Ok []
  | s :: rest =>
    match s with
    | [] => decode_service_list rest               (* if str.is_empty() { continue; } *)
    | _ =>
      do v <- decode_service s;
      do r <- decode_service_list rest;
      Ok (v :: r)
    end
  end.

(* PeerService::deserialize_services *)
Definition decode_services (buffer : list N) : res (list service) :=
  if Nlen buffer =? 0 then Ok [] else
  if negb (utf8_valid buffer) then Err else
  decode_service_list (split_on CH_SEMI buffer).

Definition eqb_service (a b : service) : bool :=
  beq (sv_service a) (sv_service b) && beq (sv_domain a) (sv_domain b) && beq (sv_name a) (sv_name b).

(* ------------------------------------------------------------------ *)
(* Handshake — msg/handshake.rs                                        *)
(* ------------------------------------------------------------------ *)

(* HandshakeChallenge { challenge: [u8;32] } *)
Definition encode_hs_challenge (c : list N) : list N := c.

Definition decode_hs_challenge (buffer : list N) : res (list N) :=
  if Nlen buffer <? 32 then Err else
  sl 601 0 32 buffer.

Record hs_response := mkHsResponse {
  hr_pk : list N;          (* [u8;33] *)
  hr_sig : list N;         (* [u8;64] *)
  hr_is_lite : bool;
  hr_url : list N;         (* String *)
  hr_challenge : list N;   (* [u8;32] *)
  hr_services : list service;
  hr_wallet_version : version;
  hr_core_version : version
}.

Definition wf_hs_response (r : hs_response) : bool :=
  arr_ok 33 (hr_pk r) && arr_ok 64 (hr_sig r) && arr_ok 32 (hr_challenge r)
  && (Nlen (hr_url r) <? two32) && bytes_ok (hr_url r) && utf8_valid (hr_url r)
  && wf_services (hr_services r)
  && wf_version (hr_wallet_version r) && wf_version (hr_core_version r).

Definition encode_hs_response (r : hs_response) : list N :=
  concat [ encode_version (hr_core_version r);
           encode_version (hr_wallet_version r);
           hr_pk r;
           hr_sig r;
           hr_challenge r;
           be_enc 1 (if hr_is_lite r then 1 else 0);
           be_enc 4 (Nlen (hr_url r));
           hr_url r;
           encode_services (hr_services r) ].

Definition HS_MIN_LEN : N := 142.

Definition decode_hs_response (buffer : list N) : res hs_response :=
  if Nlen buffer <? HS_MIN_LEN then Err else
  do cvb <- sl 701 0 4 buffer;
  do core_version <- decode_version cvb;
  do wvb <- sl 702 4 8 buffer;
  do wallet_version <- decode_version wvb;
  do pk <- sl 703 8 41 buffer;
  do sig <- sl 704 41 105 buffer;
  do challenge <- sl 705 105 137 buffer;
  do lite <- ix 706 137 buffer;
  do ulb <- sl 707 138 142 buffer;
  let url_length := be_dec ulb in
  do url <-
    (if 0 <? url_length then
       if Nlen buffer <? HS_MIN_LEN + url_length then Err else
       do u <- sl 708 HS_MIN_LEN (HS_MIN_LEN + url_length) buffer;
       if utf8_valid u then Ok u else Err
     else Ok []);
  do services <-
    (if HS_MIN_LEN + url_length <? Nlen buffer then
       do sb <- sl_from 709 (HS_MIN_LEN + url_length) buffer;
       decode_services sb
     else Ok []);
  Ok (mkHsResponse pk sig (negb (lite =? 0)) url challenge services wallet_version core_version).

Definition eqb_hs_response (a b : hs_response) : bool :=
  beq (hr_pk a) (hr_pk b) && beq (hr_sig a) (hr_sig b) && Bool.eqb (hr_is_lite a) (hr_is_lite b)
  && beq (hr_url a) (hr_url b) && beq (hr_challenge a) (hr_challenge b)
  && eqb_list eqb_service (hr_services a) (hr_services b)
  && eqb_version (hr_wallet_version a) (hr_wallet_version b)
  && eqb_version (hr_core_version a) (hr_core_version b).

(* ------------------------------------------------------------------ *)
(* BlockchainRequest — msg/block_request.rs                            *)
(* ------------------------------------------------------------------ *)

Record bc_request := mkBcRequest { rq_id : N; rq_hash : list N; rq_fork : list N }.

Definition wf_bc_request (r : bc_request) : bool :=
  (rq_id r <? two64) && arr_ok 32 (rq_hash r) && arr_ok 32 (rq_fork r).

Definition encode_bc_request (r : bc_request) : list N :=
  concat [ be_enc 8 (rq_id r); rq_hash r; rq_fork r ].

Definition decode_bc_request (buffer : list N) : res bc_request :=
  if negb (Nlen buffer =? 72) then Err else
  do i <- sl 801 0 8 buffer;
  do h <- sl 802 8 40 buffer;
  do f <- sl 803 40 72 buffer;
  Ok (mkBcRequest (be_dec i) h f).

Definition eqb_bc_request (a b : bc_request) : bool :=
  (rq_id a =? rq_id b) && beq (rq_hash a) (rq_hash b) && beq (rq_fork a) (rq_fork b).

(* ------------------------------------------------------------------ *)
(* GhostChainSync — msg/ghost_chain_sync.rs                            *)
(* ------------------------------------------------------------------ *)

Record ghost_sync := mkGhost {
  g_start : list N;                 (* [u8;32] *)
  g_prehashes : list (list N);
  g_prev_hashes : list (list N);
  g_block_ids : list N;
  g_block_ts : list N;
  g_txs : list bool;
  g_gts : list bool
}.

Definition b2n (b : bool) : N := if b then 1 else 0.

Definition wf_ghost (g : ghost_sync) : bool :=
  arr_ok 32 (g_start g) && (Nlen (g_prehashes g) <? two32)
  && forallb (arr_ok 32) (g_prehashes g) && forallb (arr_ok 32) (g_prev_hashes g)
  && forallb (fun x => x <? two64) (g_block_ids g) && forallb (fun x => x <? two64) (g_block_ts g)
  && (Nlen (g_prev_hashes g) =? Nlen (g_prehashes g)) && (Nlen (g_block_ids g) =? Nlen (g_prehashes g))
  && (Nlen (g_block_ts g) =? Nlen (g_prehashes g)) && (Nlen (g_txs g) =? Nlen (g_prehashes g))
  && (Nlen (g_gts g) =? Nlen (g_prehashes g)).

Definition encode_ghost (g : ghost_sync) : list N :=
  concat [ g_start g;
           be_enc 4 (Nlen (g_prehashes g));
           concat (g_prehashes g);
           concat (g_prev_hashes g);
           concat (map (be_enc 8) (g_block_ids g));
           concat (map (be_enc 8) (g_block_ts g));
           concat (map (fun b => be_enc 1 (b2n b)) (g_txs g));
           concat (map (fun b => be_enc 1 (b2n b)) (g_gts g)) ].

Definition nonzero_byte (x : list N) : bool := negb (be_dec x =? 0).

(* GhostChainSync::deserialize — returns the struct, no Result; since fix 8fc45ed
   "the caller must have checked the length": its only caller is deserialize_checked *)
Definition decode_ghost (buffer0 : list N) : res ghost_sync :=
  do start <- sl 901 0 32 buffer0;
  do cb <- sl 902 32 36 buffer0;
  let count := be_dec cb in
  do buffer <- sl 903 36 (Nlen buffer0) buffer0;
  do buf1 <- sl 904 0 (count * 32) buffer;
  do prehashes <- dec_chunks 905 32 (fun x => x) (N.to_nat count) 0 buf1;
  do buf2 <- sl 906 (count * 32) (count * 64) buffer;
  do prev_hashes <- dec_chunks 907 32 (fun x => x) (N.to_nat count) 0 buf2;
  do buf3 <- sl 908 (count * 64) (count * 72) buffer;
  do block_ids <- dec_chunks 909 8 be_dec (N.to_nat count) 0 buf3;
  do buf4 <- sl 910 (count * 72) (count * 80) buffer;
  do block_ts <- dec_chunks 911 8 be_dec (N.to_nat count) 0 buf4;
  do buf5 <- sl 912 (count * 80) (count * 81) buffer;
  do txs <- dec_chunks 913 1 nonzero_byte (N.to_nat count) 0 buf5;
  do buf6 <- sl 914 (count * 81) (count * 82) buffer;
  do gts <- dec_chunks 915 1 nonzero_byte (N.to_nat count) 0 buf6;
  Ok (mkGhost start prehashes prev_hashes block_ids block_ts txs gts).

(* GhostChainSync::deserialize_checked (fix 8fc45ed), used by Message::deserialize *)
Definition decode_ghost_checked (buffer : list N) : res ghost_sync :=
  if Nlen buffer <? 36 then Err else
  do cb <- sl 916 32 36 buffer;
  let count := be_dec cb in
  if Nlen buffer <? 36 + 82 * count then Err else
  decode_ghost buffer.

Definition eqb_lbool := eqb_list Bool.eqb.

Definition eqb_ghost (a b : ghost_sync) : bool :=
  beq (g_start a) (g_start b) && eqb_llN (g_prehashes a) (g_prehashes b)
  && eqb_llN (g_prev_hashes a) (g_prev_hashes b) && eqb_lN (g_block_ids a) (g_block_ids b)
  && eqb_lN (g_block_ts a) (g_block_ts b) && eqb_lbool (g_txs a) (g_txs b) && eqb_lbool (g_gts a) (g_gts b).

(* ------------------------------------------------------------------ *)
(* ApiMessage — msg/api_message.rs                                     *)
(* ------------------------------------------------------------------ *)

Record api_message := mkApi { am_index : N; am_data : list N }.

Definition wf_api (a : api_message) : bool := (am_index a <? two32) && bytes_ok (am_data a).

Definition encode_api (a : api_message) : list N := concat [ be_enc 4 (am_index a); am_data a ].

(* ApiMessage::deserialize — a Result since fix 144e342 *)
Definition decode_api (buffer : list N) : res api_message :=
  if Nlen buffer <? 4 then Err else
  do ib <- sl 1001 0 4 buffer;
  do data <- sl_from 1002 4 buffer;
  Ok (mkApi (be_dec ib) data).

Definition eqb_api (a b : api_message) : bool :=
  (am_index a =? am_index b) && beq (am_data a) (am_data b).

(* ------------------------------------------------------------------ *)
(* GoldenTicket — consensus/golden_ticket.rs                           *)
(* ------------------------------------------------------------------ *)

Record golden_ticket := mkGt { gt_target : list N; gt_random : list N; gt_pk : list N }.

Definition wf_gt (g : golden_ticket) : bool :=
  arr_ok 32 (gt_target g) && arr_ok 32 (gt_random g) && arr_ok 33 (gt_pk g).

Definition encode_gt (g : golden_ticket) : list N := concat [ gt_target g; gt_random g; gt_pk g ].

(* GoldenTicket::deserialize_from_net — assert_eq!(bytes.len(), 97): an internal
   invariant since fix eeb4ec7 (it is only called on the payload of a
   GoldenTicket-type transaction, which the wire decoder forces to 97 bytes) *)
Definition decode_gt (bs : list N) : res golden_ticket :=
  if negb (Nlen bs =? 97) then Panic 1301 else
  do t <- sl 1302 0 32 bs;
  do r <- sl 1303 32 64 bs;
  do p <- sl 1304 64 97 bs;
  Ok (mkGt t r p).

Definition eqb_gt (a b : golden_ticket) : bool :=
  beq (gt_target a) (gt_target b) && beq (gt_random a) (gt_random b) && beq (gt_pk a) (gt_pk b).

(* ------------------------------------------------------------------ *)
(* Wallet disk format — consensus/wallet.rs                            *)
(* ------------------------------------------------------------------ *)

Definition WALLET_SIZE : N := 65.

Record wallet_keys := mkWallet { w_private : list N; w_public : list N }.

Definition wf_wallet (w : wallet_keys) : bool := arr_ok 32 (w_private w) && arr_ok 33 (w_public w).

Definition encode_wallet (w : wallet_keys) : list N := w_private w ++ w_public w.

(* Wallet::deserialize_from_disk *)
Definition decode_wallet (bs : list N) : res wallet_keys :=
  do sk <- sl 1401 0 32 bs;
  do pk <- sl 1402 32 65 bs;
  Ok (mkWallet sk pk).

Definition eqb_wallet (a b : wallet_keys) : bool :=
  beq (w_private a) (w_private b) && beq (w_public a) (w_public b).

(* ------------------------------------------------------------------ *)
(* Message — msg/message.rs                                            *)
(* ------------------------------------------------------------------ *)

Inductive message :=
| MHandshakeChallenge (c : list N)
| MHandshakeResponse (r : hs_response)
| MBlock (b : block)
| MTransaction (t : tx)
| MBlockchainRequest (r : bc_request)
| MBlockHeaderHash (h : list N) (id : N)
| MPing
| MSPVChain
| MServices (l : list service)
| MGhostChain (g : ghost_sync)
| MGhostChainRequest (id : N) (h : list N) (f : list N)
| MApplicationMessage (a : api_message)
| MResult (a : api_message)
| MError (a : api_message)
| MKeyListUpdate (l : list (list N)).

(* Message::get_type_value *)
Definition message_type_value (m : message) : N :=
  match m with
  | MHandshakeChallenge _ => 1
  | MHandshakeResponse _ => 2
  | MBlock _ => 3
  | MTransaction _ => 4
  | MBlockchainRequest _ => 5
  | MBlockHeaderHash _ _ => 6
  | MPing => 7
  | MSPVChain => 8
  | MServices _ => 9
  | MGhostChain _ => 10
  | MGhostChainRequest _ _ _ => 11
  | MApplicationMessage _ => 12
  | MResult _ => 13
  | MError _ => 14
  | MKeyListUpdate _ => 15
  end.

Definition wf_message (m : message) : bool :=
  match m with
  | MHandshakeChallenge c => arr_ok 32 c
  | MHandshakeResponse r => wf_hs_response r
  | MBlock b => wf_block b
  | MTransaction t => wf_tx t
  | MBlockchainRequest r => wf_bc_request r
  | MBlockHeaderHash h id => arr_ok 32 h && (id <? two64)
  | MPing => true
  | MSPVChain => true
  | MServices l => wf_services l
  | MGhostChain g => wf_ghost g
  | MGhostChainRequest id h f => (id <? two64) && arr_ok 32 h && arr_ok 32 f
  | MApplicationMessage a => wf_api a
  | MResult a => wf_api a
  | MError a => wf_api a
  | MKeyListUpdate l => forallb (arr_ok 33) l
  end.

(* Message::serialize *)
Definition encode_message (m : message) : list N :=
  be_enc 1 (message_type_value m) ++
  match m with
  | MHandshakeChallenge c => encode_hs_challenge c
  | MHandshakeResponse r => encode_hs_response r
  | MApplicationMessage a => encode_api a
  | MBlock b => encode_block BT_FULL b
  | MTransaction t => encode_tx t
  | MBlockchainRequest r => encode_bc_request r
  | MBlockHeaderHash h id => concat [ h; be_enc 8 id ]
  | MGhostChain g => encode_ghost g
  | MGhostChainRequest id h f => concat [ be_enc 8 id; h; f ]
  | MPing => []
  | MServices l => encode_services l
  | MResult a => encode_api a
  | MError a => encode_api a
  | MKeyListUpdate l => concat l
  | MSPVChain => []                   (* "unhandled type" branch: vec![] *)
  end.

Definition decode_api_guarded (buffer : list N) : res api_message :=
  if Nlen buffer <? 4 then Err else decode_api buffer.

(* the [match message_type { .. }] of Message::deserialize *)
Definition decode_message_body (message_type : N) (buffer : list N) : res message :=
  if message_type =? 1 then do r <- decode_hs_challenge buffer; Ok (MHandshakeChallenge r)
  else if message_type =? 2 then do r <- decode_hs_response buffer; Ok (MHandshakeResponse r)
  else if message_type =? 3 then do b <- decode_block buffer; Ok (MBlock b)
  else if message_type =? 4 then do t <- decode_tx buffer; Ok (MTransaction t)
  else if message_type =? 5 then do r <- decode_bc_request buffer; Ok (MBlockchainRequest r)
  else if message_type =? 6 then
    if negb (Nlen buffer =? 40) then Err else
    do h <- sl 503 0 32 buffer;
    do i <- sl 504 32 40 buffer;
    Ok (MBlockHeaderHash h (be_dec i))
  else if message_type =? 7 then Ok MPing
  else if message_type =? 8 then Ok MSPVChain
  else if message_type =? 9 then do l <- decode_services buffer; Ok (MServices l)
  else if message_type =? 10 then do g <- decode_ghost_checked buffer; Ok (MGhostChain g)
  else if message_type =? 11 then
    if negb (Nlen buffer =? 72) then Err else
    do i <- sl 505 0 8 buffer;
    do h <- sl 506 8 40 buffer;
    do f <- sl 507 40 72 buffer;
    Ok (MGhostChainRequest (be_dec i) h f)
  else if message_type =? 12 then do a <- decode_api_guarded buffer; Ok (MApplicationMessage a)
  else if message_type =? 13 then do a <- decode_api_guarded buffer; Ok (MResult a)
  else if message_type =? 14 then do a <- decode_api_guarded buffer; Ok (MError a)
  else if message_type =? 15 then
    if negb (Nlen buffer mod 33 =? 0) then Err else
    let key_count := Nlen buffer / 33 in
    do l <- dec_chunks 508 33 (fun x => x) (N.to_nat key_count) 0 buffer;
    Ok (MKeyListUpdate l)
  else Err.

(* Message::deserialize *)
Definition decode_message (buffer0 : list N) : res message :=
  if Nlen buffer0 =? 0 then Err else
  do tb <- sl 501 0 1 buffer0;
  let message_type := be_dec tb in
  do buffer <- sl_from 502 1 buffer0;
  decode_message_body message_type buffer.

(* what a message looks like after serialize + deserialize (the block inside
   a Block message goes through serialize_for_net(Full)) *)
Definition message_after_wire (m : message) : message :=
  match m with
  | MBlock b => MBlock (block_after_wire BT_FULL b)
  | _ => m
  end.

Definition eqb_message (a b : message) : bool :=
  match a, b with
  | MHandshakeChallenge x, MHandshakeChallenge y => beq x y
  | MHandshakeResponse x, MHandshakeResponse y => eqb_hs_response x y
  | MBlock x, MBlock y => eqb_block x y
  | MTransaction x, MTransaction y => eqb_tx x y
  | MBlockchainRequest x, MBlockchainRequest y => eqb_bc_request x y
  | MBlockHeaderHash h i, MBlockHeaderHash h' i' => beq h h' && (i =? i')
  | MPing, MPing => true
  | MSPVChain, MSPVChain => true
  | MServices x, MServices y => eqb_list eqb_service x y
  | MGhostChain x, MGhostChain y => eqb_ghost x y
  | MGhostChainRequest i h f, MGhostChainRequest i' h' f' => (i =? i') && beq h h' && beq f f'
  | MApplicationMessage x, MApplicationMessage y => eqb_api x y
  | MResult x, MResult y => eqb_api x y
  | MError x, MError y => eqb_api x y
  | MKeyListUpdate x, MKeyListUpdate y => eqb_llN x y
  | _, _ => false
  end.

(* ------------------------------------------------------------------ *)
(* dispatch by format id, for the harness case files                   *)
(* ------------------------------------------------------------------ *)

Definition F_SLIP : N := 1.
Definition F_HOP : N := 2.
Definition F_TX : N := 3.
Definition F_BLOCK : N := 4.
Definition F_MESSAGE : N := 5.
Definition F_HS_CHALLENGE : N := 6.
Definition F_HS_RESPONSE : N := 7.
Definition F_BC_REQUEST : N := 8.
Definition F_GHOST : N := 9.
Definition F_API : N := 10.
Definition F_SERVICES : N := 11.
Definition F_VERSION : N := 12.
Definition F_GT : N := 13.
Definition F_WALLET : N := 14.

(* class of the decoder outcome and, when Ok, the re-encoding of the value *)
(* what the mempool / block validation do with a decoded transaction: a
   GoldenTicket-type transaction's payload goes to GoldenTicket::deserialize_from_net *)
Definition decode_tx_and_ticket (bs : list N) : res tx :=
  do t <- decode_tx bs;
  if t_type t =? TT_GOLDEN_TICKET then do g <- decode_gt (t_data t); Ok t else Ok t.

Definition out {A} (enc : A -> list N) (r : res A) : N * list N :=
  match r with Ok v => (0, enc v) | Err => (1, []) | Panic _ => (2, []) end.

Definition run_decoder (fmt : N) (bs : list N) : N * list N :=
  if fmt =? F_SLIP then out encode_slip (decode_slip bs)
  else if fmt =? F_HOP then out encode_hop (decode_hop bs)
  else if fmt =? F_TX then out encode_tx (decode_tx_and_ticket bs)
  else if fmt =? F_BLOCK then out (encode_block BT_FULL) (decode_block bs)
  else if fmt =? F_MESSAGE then out encode_message (decode_message bs)
  else if fmt =? F_HS_CHALLENGE then out encode_hs_challenge (decode_hs_challenge bs)
  else if fmt =? F_HS_RESPONSE then out encode_hs_response (decode_hs_response bs)
  else if fmt =? F_BC_REQUEST then out encode_bc_request (decode_bc_request bs)
  else if fmt =? F_GHOST then out encode_ghost (decode_ghost_checked bs)
  else if fmt =? F_API then out encode_api (decode_api bs)
  else if fmt =? F_SERVICES then out encode_services (decode_services bs)
  else if fmt =? F_VERSION then out encode_version (decode_version bs)
  else if fmt =? F_GT then out encode_gt (decode_gt bs)
  else if fmt =? F_WALLET then out encode_wallet (decode_wallet bs)
  else (3, []).

Definition decoder_class (fmt : N) (bs : list N) : N := fst (run_decoder fmt bs).

(* ------------------------------------------------------------------ *)
(* Known_C10 class: the inputs that reach an unguarded slice            *)
(* (transaction, ghost chain, api message, golden ticket were repaired *)
(* in /repo: 34b1724, 8fc45ed, 144e342, eeb4ec7)                       *)
(* ------------------------------------------------------------------ *)

Definition known_c10_wallet (bs : list N) : bool := Nlen bs <? WALLET_SIZE.
