(* Model of the compact fork identifier of saito-core/src/core/consensus/blockchain.rs:
   FORK_ID_WEIGHTS, Blockchain::generate_fork_id, generate_last_shared_ancestor,
   generate_last_shared_ancestor_when_peer_behind / _when_peer_ahead.  No proofs here.

   What the functions read of a Blockchain is (a) the by-height index of the longest
   chain, BlockRing::get_longest_chain_block_hash_at_block_id : id -> Option<hash>, and
   (b) get_latest_block_id.  The model takes (a) as a lookup function [lc : N -> option N]
   (hash identities are numbers, interned by the harness) and (b) as a number; the
   list-of-(id, hash) chains of the theorems instantiate it with [lc_at].

   A fork id is 32 bytes = 16 windows of 2 bytes.  Window i (bytes 2i, 2i+1) is copied
   from bytes 2i, 2i+1 of the hash of the i-th sampled block, so the only thing the code
   reads of a hash is, per index i, that 16-bit window:  [h16 i h].  [h16] is a Section
   variable without any assumed property (DESIGN 4.2).  An entry that is never written
   keeps the initial 0.  The comparison
       fork_id[index] == block_hash[index] && fork_id[index+1] == block_hash[index+1]
   is equality of window i.

   No arithmetic here can wrap or trap: every subtraction is guarded by the comparison
   in front of it (cur <= w breaks, block_id < w returns), x - x % 10 cannot underflow,
   and the array indices 2i, 2i+1 stay below 32 for the 16 weights. *)
From Saito Require Import Base.

(* const FORK_ID_WEIGHTS: [u64; 16] — a protocol constant: the fork id is computed by
   one node and interpreted by another *)
Definition FORK_ID_WEIGHTS : list N :=
  [0; 10; 10; 10; 10; 10; 25; 25; 100; 300; 500; 4000; 10000; 20000; 50000; 100000].

(* x - (x % 10): "roll back to last even 10 blocks" *)
Definition rnd10 (x : N) : N := x - x mod 10.

(* chains of the theorems: (id, hash) pairs *)
Definition chain := list (N * N).

Fixpoint lc_at (c : chain) (id : N) : option N :=
  match c with
  | [] => None
  | (i, h) :: t => if i =? id then Some h else lc_at t id
  end.

Definition tip_id (c : chain) : N := fst (last c (0, 0)).

(* ids start .. start+len-1 with the given hashes *)
Fixpoint mk_chain (start : N) (hashes : list N) : chain :=
  match hashes with
  | [] => []
  | h :: t => (start, h) :: mk_chain (start + 1) t
  end.

Section ForkId.
  Variable weights : list N.
  Variable h16 : N -> N -> N.          (* index -> hash identity -> 16-bit window *)
  Variable lc : N -> option N.         (* longest-chain hash at block id *)

  Definition zeros {A} (l : list A) : list N := map (fun _ => 0) l.

  (* the loop of generate_fork_id from index i on: the windows for the remaining
     indices.  [break] leaves the remaining entries at 0. *)
  Fixpoint gen_loop (ws : list N) (cur : N) (i : N) : list N :=
    match ws with
    | [] => []
    | w :: ws' =>
        if cur <=? w then zeros ws
        else
          let cur' := cur - w in
          match lc cur' with
          | Some h => h16 i h :: gen_loop ws' cur' (i + 1)
          | None => zeros ws
          end
    end.

  (* generate_fork_id(block_id); always Some in the code *)
  Definition generate_fork_id (block_id : N) : list N :=
    gen_loop weights (rnd10 block_id) 0.

  (* the same loop, recording which hash (if any) each entry was copied from *)
  Fixpoint gen_src (ws : list N) (cur : N) : list (option N) :=
    match ws with
    | [] => []
    | w :: ws' =>
        if cur <=? w then map (fun _ => None) ws
        else
          let cur' := cur - w in
          match lc cur' with
          | Some h => Some h :: gen_src ws' cur'
          | None => map (fun _ => None) ws
          end
    end.

  (* the loop shared (textually duplicated) by _when_peer_behind and _when_peer_ahead;
     None = fell out of the loop (the caller then answers 0) *)
  Fixpoint anc_loop (fid : list N) (ws : list N) (block_id : N) (i : N) : option N :=
    match ws with
    | [] => None
    | w :: ws' =>
        if block_id <? w then Some 0
        else
          let b := block_id - w in
          match lc b with
          | Some h =>
              if h16 i h =? nth (N.to_nat i) fid 0 then Some b
              else anc_loop fid ws' b (i + 1)
          | None => anc_loop fid ws' b (i + 1)
          end
    end.

  Definition ancestor_when_peer_behind (peer_latest : N) (fid : list N) : option N :=
    anc_loop fid weights (rnd10 peer_latest) 0.

  Definition ancestor_when_peer_ahead (my_latest : N) (fid : list N) : option N :=
    anc_loop fid weights (rnd10 my_latest) 0.

  (* generate_last_shared_ancestor(peer_latest_block_id, fork_id) on a chain whose
     get_latest_block_id() is my_latest *)
  Definition generate_last_shared_ancestor (my_latest peer_latest : N) (fid : list N) : N :=
    let r := if my_latest <=? peer_latest
             then ancestor_when_peer_ahead my_latest fid
             else ancestor_when_peer_behind peer_latest fid in
    match r with Some v => v | None => 0 end.

  (* start of the walk, whichever branch is taken *)
  Definition walk_start (my_latest peer_latest : N) : N :=
    if my_latest <=? peer_latest then rnd10 my_latest else rnd10 peer_latest.

  (* the (index, block id) positions a walk from [cur] visits *)
  Fixpoint walk (ws : list N) (cur : N) (i : N) : list (N * N) :=
    match ws with
    | [] => []
    | w :: ws' => if cur <? w then [] else (i, cur - w) :: walk ws' (cur - w) (i + 1)
    end.
End ForkId.

(* ---- on list chains ---- *)

Definition fork_id_of (weights : list N) (h16 : N -> N -> N) (c : chain) : list N :=
  generate_fork_id weights h16 (lc_at c) (tip_id c).

Definition last_shared_ancestor (weights : list N) (h16 : N -> N -> N)
           (mine : chain) (peer_latest : N) (fid : list N) : N :=
  generate_last_shared_ancestor weights h16 (lc_at mine) (tip_id mine) peer_latest fid.

(* the largest id at which both chains hold the same block, 0 if none *)
Definition opt_eqb (a b : option N) : bool :=
  match a, b with
  | Some x, Some y => x =? y
  | _, _ => false
  end.

Definition common_at (mine peer : chain) (ih : N * N) : bool :=
  opt_eqb (lc_at mine (fst ih)) (Some (snd ih)) && opt_eqb (lc_at peer (fst ih)) (Some (snd ih)).

Definition fork_point (mine peer : chain) : N :=
  fold_left (fun acc ih => if common_at mine peer ih then N.max acc (fst ih) else acc) mine 0.

(* what process_incoming_blockchain_request streams: every longest-chain block with
   id in estimate ..= latest *)
Definition streamed (mine : chain) (estimate : N) : chain :=
  filter (fun ih => (estimate <=? fst ih) && (fst ih <=? tip_id mine)) mine.

(* ---- evaluation on harness cases ----
   A case describes two index functions by segments (start id, hashes); the window
   table is either explicit (row k = the 16 windows of hash identity k) or, when empty,
   the arithmetic windows of the harness's synthetic hashes. *)
Definition seg_lookup (segs : list (N * list N)) (id : N) : option N :=
  fold_right (fun s acc =>
                let '(start, hs) := s in
                if (start <=? id) && (id <? start + Nlen hs)
                then nth_error hs (N.to_nat (id - start)) else acc) None segs.

(* synthetic chains: hash identity of the block of family f at height id is f * 2^32 + id;
   window i of identity k *)
Definition synth_window (i k : N) : N := (k * 40503 + i * 9973 + (k / 4294967296) * 7) mod 65536.

Definition table_h16 (table : list (list N)) (i k : N) : N :=
  match table with
  | [] => synth_window i k
  | _ => nth (N.to_nat i) (nth (N.to_nat k) table []) 0
  end.

(* arithmetic index: family f on ids lo..=hi, family g above a fork height *)
Record synth_chain := mkSC { sc_lo : N; sc_fork : N; sc_tip : N; sc_f : N; sc_g : N }.
Definition synth_lookup (c : synth_chain) (id : N) : option N :=
  if (sc_lo c <=? id) && (id <=? sc_tip c)
  then Some ((if id <=? sc_fork c then sc_f c else sc_g c) * 4294967296 + id)
  else None.

(* ---- hypotheses of the theorems (specifications, no proofs) ---- *)

(* a hash identifies its block, and the block contains its id: the same hash is never
   at two different heights of the two chains (holds unless the real hash collides) *)
Definition HashDeterminesId (mine peer : chain) : Prop :=
  forall a b h, lc_at mine a = Some h -> lc_at peer b = Some h -> a = b.

(* chains are hash-linked: the same block at height a means the same blocks below a *)
Definition PrefixClosed (mine peer : chain) : Prop :=
  forall a h, lc_at mine a = Some h -> lc_at peer a = Some h ->
  forall c h', c <= a -> lc_at mine c = Some h' -> lc_at peer c = Some h'.

(* the tip is the highest block *)
Definition TipHighest (c : chain) : Prop :=
  forall id h, lc_at c id = Some h -> id <= tip_id c.

(* The 16-bit windows do not collide on the (at most 16) comparisons the walk over
   [mine] makes against the fork id of [peer]: at index i the walk compares window i of
   my block at the visited height with entry i of the fork id, which is window i of the
   peer block it was copied from, or the initial 0 if the entry was never written. *)
Definition NoWindowCollision (weights : list N) (h16 : N -> N -> N) (mine peer : chain) : Prop :=
  let src := gen_src (lc_at peer) weights (rnd10 (tip_id peer)) in
  forall i a hm,
    In (i, a) (walk weights (walk_start (tip_id mine) (tip_id peer)) 0) ->
    lc_at mine a = Some hm ->
    match nth (N.to_nat i) src None with
    | Some hp => hm <> hp -> h16 i hm <> h16 i hp
    | None => h16 i hm <> 0
    end.

(* decidable forms of two hypotheses (used for the concrete examples) *)
Definition no_window_collision_b (weights : list N) (h16 : N -> N -> N) (mine peer : chain) : bool :=
  let src := gen_src (lc_at peer) weights (rnd10 (tip_id peer)) in
  forallb (fun ia =>
             match lc_at mine (snd ia) with
             | None => true
             | Some hm =>
                 match nth (N.to_nat (fst ia)) src None with
                 | Some hp => (hm =? hp) || negb (h16 (fst ia) hm =? h16 (fst ia) hp)
                 | None => negb (h16 (fst ia) hm =? 0)
                 end
             end)
          (walk weights (walk_start (tip_id mine) (tip_id peer)) 0).

Definition hash_determines_id_b (mine peer : chain) : bool :=
  forallb (fun m => forallb (fun p => negb (snd m =? snd p) || (fst m =? fst p)) peer) mine.
