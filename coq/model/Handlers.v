(* C11 -- message-level model of the routing thread's event handlers.

   What is modelled (saito-core/src/core):
     routing_thread.rs   RoutingThread::process_network_event (peer lookup, message limiter, decoding
                         failure -> disconnect, BlockFetched gate on the invalid-block limiter),
                         process_incoming_message (one arm per Message tag), process_timer_event
                         (purge of long-disconnected entries, window resets by write_peer_state_data)
     io/network.rs       handle_new_peer, handle_peer_disconnect, handle_handshake_challenge /
                         handle_handshake_response (limiter, outcome classes; the protocol itself is
                         Handshake.v / C17), handle_received_key_list
     peers/peer.rs       the four limiters of an entry, mark_as_disconnected
     peers/rate_limiter.rs  exactly (RateLimiter::has_limit_exceeded / increase)
     verification_thread.rs verify_block: which fetched buffers count as invalid blocks

   What is NOT modelled: everything that needs the chain, the ledger or the pool (block and
   transaction validation, ghost-chain insertion, chain requests): the model answers Ok there and the
   bits it needs (did the verification thread forward the transaction? did a fetched block count as
   invalid?) are inputs taken from the real run.  Panics carry the name of the site in
   coq/gen/PanicSites.v.  Model only, no proofs. *)
From Saito Require Import Base.
From Coq Require Import String.
Open Scope string_scope.
Open Scope N_scope.

(* ---------------------------------------------------------------- rate_limiter.rs *)

Record limiter := mkLim { l_limit : N; l_window : N; l_count : N; l_last : N }.

Definition lim_new (limit window : N) : limiter := mkLim limit window 0 0.

(* RateLimiter::increase: request_count += 1 (a u64; 2^64 requests are out of reach) *)
Definition lim_increase (l : limiter) : limiter :=
  mkLim (l_limit l) (l_window l) (l_count l + 1) (l_last l).

(* RateLimiter::has_limit_exceeded(&mut self, now): saturating_sub, strict comparison, the window restarts
   at the time of the CHECK that finds it expired *)
Definition lim_check (l : limiter) (now : N) : limiter * bool :=
  let l' := if l_window l <? now - l_last l
            then mkLim (l_limit l) (l_window l) 0 now else l in
  (l', l_limit l' <=? l_count l').

(* ---------------------------------------------------------------- peer entries *)

Record peer := mkPeer {
  p_key : option N;          (* public key (number of the key) *)
  p_keylist : N;             (* length of key_list *)
  p_challenge : bool;        (* challenge_for_peer.is_some() *)
  p_static : bool;           (* static_peer_config.is_some() *)
  p_disc : option N;         (* disconnected_at, None = Timestamp::MAX *)
  p_msg : limiter;           (* message_limiter       100 000 / 1 s  *)
  p_hs : limiter;            (* handshake_limiter         100 / 60 s *)
  p_kl : limiter;            (* key_list_limiter          100 / 60 s *)
  p_inv : limiter            (* invalid_block_limiter      10 / 3600 s *)
}.

Definition new_peer : peer :=
  mkPeer None 0 false false None
         (lim_new 100000 1000) (lim_new 100 60000) (lim_new 100 60000) (lim_new 10 3600000).

Definition set_key k p := mkPeer k (p_keylist p) (p_challenge p) (p_static p) (p_disc p) (p_msg p) (p_hs p) (p_kl p) (p_inv p).
Definition set_keylist n p := mkPeer (p_key p) n (p_challenge p) (p_static p) (p_disc p) (p_msg p) (p_hs p) (p_kl p) (p_inv p).
Definition set_challenge b p := mkPeer (p_key p) (p_keylist p) b (p_static p) (p_disc p) (p_msg p) (p_hs p) (p_kl p) (p_inv p).
Definition set_disc d p := mkPeer (p_key p) (p_keylist p) (p_challenge p) (p_static p) d (p_msg p) (p_hs p) (p_kl p) (p_inv p).
Definition set_msg l p := mkPeer (p_key p) (p_keylist p) (p_challenge p) (p_static p) (p_disc p) l (p_hs p) (p_kl p) (p_inv p).
Definition set_hs l p := mkPeer (p_key p) (p_keylist p) (p_challenge p) (p_static p) (p_disc p) (p_msg p) l (p_kl p) (p_inv p).
Definition set_kl l p := mkPeer (p_key p) (p_keylist p) (p_challenge p) (p_static p) (p_disc p) (p_msg p) (p_hs p) l (p_inv p).
Definition set_inv l p := mkPeer (p_key p) (p_keylist p) (p_challenge p) (p_static p) (p_disc p) (p_msg p) (p_hs p) (p_kl p) l.

(* Peer::mark_as_disconnected(now): challenge dropped, disconnected_at := now (the key is KEPT) *)
Definition mark_disconnected (now : N) (p : peer) : peer :=
  set_disc (Some now) (set_challenge false p).

Record state := mkSt {
  peers : list (N * peer);
  debug_log : bool;       (* are the arguments of debug! evaluated (log level debug or trace) *)
  lite : bool;            (* browser or spv mode *)
  overflow_checks : bool; (* build with overflow checks (debug profile) *)
  removal_timer : N;      (* RoutingThread::peer_removal_timer *)
  file_timer : N          (* RoutingThread::peer_file_write_timer *)
}.

Definition init (dbg lt ovf : bool) : state := mkSt [] dbg lt ovf 0 0.

Definition with_peers (st : state) (ps : list (N * peer)) : state :=
  mkSt ps (debug_log st) (lite st) (overflow_checks st) (removal_timer st) (file_timer st).
Definition put (st : state) (idx : N) (p : peer) : state := with_peers st (aset idx p (peers st)).

(* ---------------------------------------------------------------- inputs *)

Inductive msg :=
| MChallenge
| MResponse (sig_ok : bool)   (* the signature verifies under the response's key over the challenge last issued *)
            (ver_ok : bool)   (* core version set and of the same major.minor *)
            (key : N)
| MBlock
| MTx (ty : N) (data_len : N)
      (verified : bool)       (* VerificationThread::verify_tx forwarded it to the consensus thread *)
| MChainReq | MHeaderHash | MPing | MSpv
| MServices (n : N)
| MGhostChain
| MGhostReq (anc0_max : bool) (* requested id is u64::MAX and generate_last_shared_ancestor answers 0 *)
| MApp | MResult | MError
| MKeyList (n : N).

Inductive fetched :=
| FUndecodable          (* Block::deserialize_from_net fails *)
| FMismatch             (* decodes, but id / hash differ from the request *)
| FObserved (d : N).    (* the announced block: how much the invalid-block counter moved is taken from the run *)

Inductive event :=
| EConn                          (* PeerConnectionResult Ok *)
| EDisc (external : bool)        (* PeerDisconnected *)
| ENet (m : option msg)          (* IncomingNetworkMessage; None = the buffer does not decode *)
| EFetched (f : fetched)         (* BlockFetched *)
| EFetchFailed
| EInvalid (d : N)               (* the consensus thread judged d blocks fetched earlier from this peer invalid
                                    (Blockchain::add_blocks_from_mempool, FailedNotValid): deferred verdicts on
                                    blocks that were parked when they arrived; taken from the run *)
| ETick (dt : N).                (* RoutingThread::process_timer_event *)

Inductive outcome :=
| OOk                (* handler returned Some(()) *)
| OReject            (* handler returned None, nothing asked of the IO layer *)
| ODisconnect        (* the IO layer was asked to disconnect the sender *)
| OPanic (site : string).

(* ---------------------------------------------------------------- panic sites
   none: since the repairs 6f9c6f9, d1384db, 3bd37ad, d479d43 (and ae2aeaa, eeb4ec7 before) no arm of the dispatch panics *)
Definition model_sites : list string := [].

(* ---------------------------------------------------------------- handlers *)

Definition GT_TYPE : N := 2.
Definition GT_LEN : N := 97.

(* RoutingThread::process_incoming_message on an existing entry p (already counted by the message limiter) *)
Definition dispatch (st : state) (now idx : N) (p : peer) (m : msg) : state * outcome :=
  match m with
  | MChallenge =>
      (* Network::handle_handshake_challenge *)
      let p1 := set_hs (lim_increase (p_hs p)) p in
      let (h, ex) := lim_check (p_hs p1) now in
      let p2 := set_hs h p1 in
      if ex then (put st idx p2, OOk)
      else (put st idx (set_challenge true p2), OOk)
  | MResponse sig_ok ver_ok key =>
      (* Network::handle_handshake_response -> Peer::handle_handshake_response *)
      let p1 := set_hs (lim_increase (p_hs p)) p in
      let (h, ex) := lim_check (p_hs p1) now in
      let p2 := set_hs h p1 in
      if ex then (put st idx p2, OOk)
      else if negb (ver_ok && p_challenge p2 && sig_ok)
      then (put st idx (mark_disconnected now p2), ODisconnect)
      else match p_key p2 with
           | Some k => if k =? key
                       then (put st idx (set_challenge false p2), OOk)
                       (* since fix ae2aeaa: a response under another key is rejected like any bad response
                          (before: assert_eq! panicked, finding assert-key-changed-panic of C17) *)
                       else (put st idx (mark_disconnected now p2), ODisconnect)
           | None => (put st idx (set_challenge false (set_key (Some key) p2)), OOk)
           end
  | MBlock =>
      (* since fix 6f9c6f9: logged and dropped (before: unreachable!(), finding block-tag-unreachable) *)
      (put st idx p, OOk)
  | MTx ty len verified =>
      (* routing: to the verification thread; consensus: golden tickets go to Mempool::add_golden_ticket.
         Since fix eeb4ec7 a GoldenTicket-typed transaction whose payload is not 97 bytes does not decode
         (it arrives as ENet None), so the payload assert of GoldenTicket::deserialize_from_net is out of reach *)
      (put st idx p, OOk)
  | MChainReq | MHeaderHash | MPing | MSpv | MServices _ | MGhostChain | MApp | MResult | MError =>
      (put st idx p, OOk)
  | MGhostReq anc0_max =>
      (* since fixes d1384db / 3bd37ad: a request from an entry without key is dropped, the id increment saturates
         (before: unwrap on None, finding ghost-request-no-key; add overflow, ghost-request-id-max-overflow) *)
      (put st idx p, OOk)
  | MKeyList n =>
      (* Network::handle_received_key_list, result unwrapped by the routing thread *)
      let p1 := set_kl (lim_increase (p_kl p)) p in
      let (k, ex) := lim_check (p_kl p1) now in
      let p2 := set_kl k p1 in
      (* since fix d479d43: a key list beyond the quota is logged and dropped (before: the Err was unwrapped,
         finding key-list-limit-unwrap) *)
      if ex then (put st idx p2, OOk)
      else (put st idx (set_keylist n p2), OOk)
  end.

(* PeerCollection::remove_disconnected_peers *)
Definition PEER_REMOVAL_WINDOW : N := 600000.
Definition purge (now : N) (ps : list (N * peer)) : list (N * peer) :=
  filter (fun ip => let p := snd ip in
            p_static p ||
            match p_disc p with
            | None => true
            | Some d => now <? d + PEER_REMOVAL_WINDOW
            end) ps.

(* write_peer_state_data: the four has_*_limit_exceeded checks of every entry (they restart expired windows) *)
Definition touch_limiters (now : N) (p : peer) : peer :=
  set_kl (fst (lim_check (p_kl p) now))
    (set_hs (fst (lim_check (p_hs p) now))
       (set_inv (fst (lim_check (p_inv p) now))
          (set_msg (fst (lim_check (p_msg p) now)) p))).

Definition step (st : state) (now idx : N) (e : event) : state * outcome :=
  match e with
  | EConn =>
      (* Network::handle_new_peer: an existing entry loses the challenge of its previous connection
         (fix 8a16f73), a non-static entry is challenged anew *)
      let p := match aget idx (peers st) with Some p => set_challenge false p | None => new_peer end in
      (put st idx (if p_static p then p else set_challenge true p), OOk)
  | EDisc external =>
      (* Network::handle_peer_disconnect: for an external disconnect the IO layer is told to drop the socket *)
      let st' := match aget idx (peers st) with
                 | Some p => put st idx (mark_disconnected now p)
                 | None => st
                 end in
      (st', if external then ODisconnect else OOk)
  | ENet mo =>
      match aget idx (peers st) with
      | None => (st, OReject)
      | Some p =>
          let p1 := set_msg (lim_increase (p_msg p)) p in
          let (l, ex) := lim_check (p_msg p1) now in
          let p2 := set_msg l p1 in
          if ex then (put st idx p2, OReject)
          else match mo with
               | None => (put st idx (mark_disconnected now p2), ODisconnect)
               | Some m => dispatch st now idx p2 m
               end
      end
  | EFetched f =>
      match aget idx (peers st) with
      | None => (st, OReject)
      | Some p =>
          let (l, ex) := lim_check (p_inv p) now in
          let p1 := set_inv l p in
          if ex then (put st idx (mark_disconnected now p1), ODisconnect)
          else
            (* VerificationThread::verify_block (and, for announced blocks, the consensus thread's verdict) *)
            let d := match f with FUndecodable => 1 | FMismatch => 1 | FObserved d => d end in
            (put st idx (set_inv (mkLim (l_limit l) (l_window l) (l_count l + d) (l_last l)) p1), OOk)
      end
  | EFetchFailed => (st, OReject)
  | EInvalid d =>
      match aget idx (peers st) with
      | None => (st, OOk)
      | Some p =>
          let l := p_inv p in
          (put st idx (set_inv (mkLim (l_limit l) (l_window l) (l_count l + d) (l_last l)) p), OOk)
      end
  | ETick dt =>
      let rt := removal_timer st + dt in
      let ps1 := if 5000 <=? rt then purge now (peers st) else peers st in
      let rt' := if 5000 <=? rt then 0 else rt in
      let ft := file_timer st + dt in
      let ps2 := if 5000 <=? ft then map (fun ip => (fst ip, touch_limiters now (snd ip))) ps1 else ps1 in
      let ft' := if 5000 <=? ft then 0 else ft in
      (mkSt ps2 (debug_log st) (lite st) (overflow_checks st) rt' ft', OOk)
  end.

(* a run: events with their time and sender; stops at the first panic *)
Definition input := (N * N * event)%type.

Inductive result :=
| Done (st : state)
| Panic (site : string) (st : state).

Fixpoint run (st : state) (l : list input) : result :=
  match l with
  | [] => Done st
  | (now, idx, e) :: t =>
      match step st now idx e with
      | (st', OPanic s) => Panic s st'
      | (st', _) => run st' t
      end
  end.

(* ---------------------------------------------------------------- the listed crash inputs, as conditions on
   the input and on the sender's entry (not on what the handler does) *)

Definition known_msg (st : state) (now : N) (p : peer) (m : msg) : bool := false.

Definition known_input (st : state) (i : input) : bool :=
  match i with
  | (now, idx, ENet (Some m)) =>
      match aget idx (peers st) with
      | None => false
      | Some p =>
          let p1 := set_msg (lim_increase (p_msg p)) p in
          let (l, ex) := lim_check (p_msg p1) now in
          negb ex && known_msg st now (set_msg l p1) m
      end
  | _ => false
  end.

(* some input of the sequence is a listed crash input in the state in which it arrives *)
Fixpoint Known_C11 (st : state) (l : list input) : Prop :=
  match l with
  | [] => False
  | i :: t => known_input st i = true \/ Known_C11 (fst (step st (fst (fst i)) (snd (fst i)) (snd i))) t
  end.

(* what the other peers see of the state: every entry but the sender's *)
Definition honest_view (sender : N) (st : state) : list (N * peer) :=
  filter (fun ip => negb (fst ip =? sender)) (peers st).
