(* C11 -- evaluation of Handlers.v on the cases written by harness/src/bin/c11.rs: the events the real node N
   received on the attacker's connections (and its routing timer ticks), the outcome class observed for each
   (0 returned Some, 1 returned None, 2 asked the IO layer to disconnect the sender, 3 panicked) and the
   sender entries read from the real PeerCollection at the end.  Model only, no proofs. *)
From Saito Require Import Base Handlers.
From Coq Require Import String.
Open Scope string_scope.
Open Scope N_scope.

(* (now, connection, event, repetitions, observed outcome code, finding id of an observed panic) *)
Definition hevent := (N * N * event * N * N * string)%type.

Record hcase := mkCase {
  c_debug : bool;
  c_lite : bool;
  c_ovf : bool;
  c_events : list hevent;
  c_obs : list (list N)
}.

Definition code (o : outcome) : N :=
  match o with OOk => 0 | OReject => 1 | ODisconnect => 2 | OPanic _ => 3 end.

(* the harness names a panic by the listed finding it belongs to *)
Definition finding_of (site : string) : string := "?".

Definition rep (n : N) (st : state) (now idx : N) (e : event) (expect : N) (finding : string) : state * bool :=
  N.iter n (fun sb : state * bool =>
              let (s, ok) := sb in
              let (s', o) := step s now idx e in
              (s', ok && (code o =? expect) &&
                   match o with OPanic site => String.eqb (finding_of site) finding | _ => true end))
         (st, true).

Fixpoint replay (st : state) (l : list hevent) : state * bool * bool (* ok, ended in a panic *) :=
  match l with
  | [] => (st, true, false)
  | (now, idx, e, n, expect, finding) :: t =>
      let (st', ok) := rep n st now idx e expect finding in
      if expect =? 3 then
        let last := match t with [] => true | _ => false end in
        match e with
        | ENet _ => (st', ok && last, true)
        (* a panic while a fetched block or a timer tick is processed happens inside the chain / pool
           machinery, which this model delegates: nothing is predicted, the run just ends there *)
        | _ => (st', last, true)
        end
      else let '(st'', ok', p) := replay st' t in (st'', ok && ok', p)
  end.

Definition b2n (b : bool) : N := if b then 1 else 0.

Definition obs_row (st : state) (c : N) : list N :=
  match aget c (peers st) with
  | None => [c; 0]
  | Some p =>
      [c; 1; match p_key p with Some k => k | None => 0 end; p_keylist p; b2n (p_challenge p);
       l_count (p_msg p); l_last (p_msg p); l_count (p_hs p); l_last (p_hs p);
       l_count (p_kl p); l_last (p_kl p); l_count (p_inv p); l_last (p_inv p);
       (* the constants of the four limiters as the real entry reports them *)
       l_limit (p_msg p); l_window (p_msg p); l_limit (p_hs p); l_window (p_hs p);
       l_limit (p_kl p); l_window (p_kl p); l_limit (p_inv p); l_window (p_inv p)]
  end.

Definition check_case (c : hcase) : bool :=
  let '(st, ok, panicked) := replay (init (c_debug c) (c_lite c) (c_ovf c)) (c_events c) in
  ok && (panicked || eqb_llN (map (obs_row st) [2; 3; 4; 9]) (c_obs c)).
