(* Model of the peer handshake of saito-core:
     consensus/peers/peer.rs            Peer::{initiate_handshake, handle_handshake_challenge,
                                              handle_handshake_response, mark_as_disconnected,
                                              join_as_reconnection}
     io/network.rs                      Network::{handle_new_peer, handle_handshake_challenge,
                                                 handle_handshake_response, handle_peer_disconnect}
     consensus/peers/peer_collection.rs PeerCollection::{remove_reconnected_peer,
                                                        remove_disconnected_peers}
     consensus/peers/rate_limiter.rs    RateLimiter (handshake limiter: 100 per 60 s)
     process/version.rs                 Version::{is_set, is_same_minor_version, partial_cmp}
     msg/handshake.rs                   HandshakeChallenge / HandshakeResponse
   No proofs here.

   One node (key [me]) is modelled; everything outside it is the environment
   (honest remote nodes and the attacker alike).

   Values.  Keys and 32-byte challenges are numbers.  A *fresh* challenge
   ([generate_random_bytes(32)]) is "a value that did not occur earlier in the
   run": the state carries a counter [next] that is larger than every value
   seen so far (values chosen by the environment bump it), and a fresh value is
   [next].  The harness interns real 32-byte values in first-seen order, which
   yields exactly this numbering; the all-zero challenge of the second response
   is 0.

   Signatures are symbolic: [Sig k m] verifies under key k' for message m' iff
   k = k' and m = m' ([SigBad] = bytes that verify under nothing).  The ghost
   field [signed] lists the signatures that exist; the environment may only
   deliver signatures that exist ([act_ok]) — unforgeability is this side
   condition of the reachability relation, not an axiom.

   Not modelled: is_lite / block_fetch_url / services carried by a response
   (stored, never checked), the message / key-list / invalid-block limiters,
   STUN peers, the (connect time, period) payload of PeerStatus::Disconnected,
   io errors of send_message / disconnect_from_peer (the in-memory io never
   fails; the code unwraps them). *)
From Saito Require Import Base.

(* ---------- versions (process/version.rs) ---------- *)
Record version := mkV { v_major : N; v_minor : N; v_patch : N }.
Definition v_zero : version := mkV 0 0 0.
Definition v_is_set (v : version) : bool :=
  negb ((v_major v =? 0) && (v_minor v =? 0) && (v_patch v =? 0)).
Definition v_same_minor (a b : version) : bool :=
  v_is_set a && (v_major a =? v_major b) && (v_minor a =? v_minor b).
(* PartialOrd: lexicographic *)
Definition v_lt (a b : version) : bool :=
  if v_major a <? v_major b then true
  else if v_major b <? v_major a then false
  else if v_minor a <? v_minor b then true
  else if v_minor b <? v_minor a then false
  else v_patch a <? v_patch b.

(* ---------- rate limiter (handshake_limiter = builder(100, 60 s)) ---------- *)
Record limiter := mkL { l_count : N; l_last : N }.
Definition HS_LIMIT : N := 100.
Definition HS_WINDOW : N := 60000.
Definition lim_increase (l : limiter) : limiter := mkL (l_count l + 1) (l_last l).
(* has_limit_exceeded: saturating_sub is N subtraction *)
Definition lim_check (now : N) (l : limiter) : bool * limiter :=
  let l' := if HS_WINDOW <? now - l_last l then mkL 0 now else l in
  (HS_LIMIT <=? l_count l', l').

(* ---------- messages ---------- *)
Inductive sigt := Sig (k m : N) | SigBad.
Definition verify (m : N) (s : sigt) (k : N) : bool :=
  match s with Sig k' m' => (k' =? k) && (m' =? m) | SigBad => false end.

Record response := mkR {
  r_pk : N; r_sig : sigt; r_chal : N; r_cver : version; r_wver : version }.

(* ---------- peers ---------- *)
Inductive status := Disconnected | Connecting | Connected.
Definition status_eqb (a b : status) : bool :=
  match a, b with
  | Disconnected, Disconnected | Connecting, Connecting | Connected, Connected => true
  | _, _ => false
  end.
Definition status_code (s : status) : N :=
  match s with Disconnected => 0 | Connecting => 1 | Connected => 2 end.

Record peer := mkP {
  p_status : status;
  p_static : bool;           (* static_peer_config.is_some() *)
  p_chal   : option N;       (* challenge_for_peer *)
  p_pk     : option N;       (* public_key *)
  p_cver   : version;        (* core_version *)
  p_wver   : version;        (* wallet_version *)
  p_lim    : limiter;        (* handshake_limiter *)
  p_disc   : option N;       (* disconnected_at; None = Timestamp::MAX *)
}.
Definition new_peer : peer := mkP Disconnected false None None v_zero v_zero (mkL 0 0) None.
Definition static_peer : peer := mkP Disconnected true None None v_zero v_zero (mkL 0 0) None.

Definition set_lim (p : peer) (l : limiter) : peer :=
  mkP (p_status p) (p_static p) (p_chal p) (p_pk p) (p_cver p) (p_wver p) l (p_disc p).
Definition set_chal (p : peer) (c : option N) : peer :=
  mkP (p_status p) (p_static p) c (p_pk p) (p_cver p) (p_wver p) (p_lim p) (p_disc p).
Definition set_status (p : peer) (s : status) : peer :=
  mkP s (p_static p) (p_chal p) (p_pk p) (p_cver p) (p_wver p) (p_lim p) (p_disc p).

(* Peer::mark_as_disconnected *)
Definition mark_disc (now : N) (p : peer) : peer :=
  mkP Disconnected (p_static p) None (p_pk p) (p_cver p) (p_wver p) (p_lim p) (Some now).

(* ---------- node configuration (wallet) ---------- *)
Record cfg := mkC { me : N; my_cver : version; my_wver : version }.

(* ---------- outputs (io_handler calls) and ghost events ---------- *)
Inductive out :=
| OSendChallenge (c ch : N)
| OSendResponse (c : N) (r : response)
| OSendOther (c : N)              (* the blockchain request sent after a handshake *)
| ODisconnect (c : N)             (* io_handler.disconnect_from_peer *)
| OEvent (code c : N).            (* send_interface_event *)
Definition EV_HANDSHAKE_COMPLETE : N := 1.
Definition EV_PEER_CONNECTED : N := 2.
Definition EV_NEW_VERSION : N := 3.
Definition EV_CONNECTION_DROPPED : N := 4.

Inductive event :=
| EIssued (c ch : N)        (* this node stored the fresh challenge ch for connection c and sent it *)
| ESigned (k m : N)         (* a signature by key k over m came into existence *)
| EAccepted (c k ch : N)    (* a response under key k was verified against the stored challenge ch of c *)
| EReset (c : N)            (* connection c was (re)opened, disconnected, or its response rejected *)
| ERemoved (c : N)          (* the stale peer entry c was merged into a reconnection and removed *)
| EPurged (c : N).          (* the stale peer entry c was purged (remove_disconnected_peers) *)

(* ---------- maps ---------- *)
Definition del {V} (k : N) (m : list (N * V)) : list (N * V) :=
  filter (fun kv => negb (fst kv =? k)) m.

(* ---------- state ---------- *)
Record state := mkS {
  peers  : list (N * peer);   (* index_to_peers, sorted by index *)
  addr   : list (N * N);      (* address_to_peers: key -> index *)
  next   : N;                 (* every value that occurred so far is < next *)
  now    : N;                 (* KeepTime *)
  signed : list (N * N);      (* ghost: (key, message) of every signature that exists *)
}.

Fixpoint static_peers (n : nat) : list (N * peer) :=
  match n with O => [] | S n' => static_peers n' ++ [(N.of_nat n, static_peer)] end.

(* Network::initialize_static_peers with n configured peers (indices 1..n) *)
Definition init (n_static : nat) (first_fresh : N) : state :=
  mkS (static_peers n_static) [] first_fresh 0 [].

Definition bump (s : state) (v : N) : N := N.max (next s) (v + 1).

(* ---------- Peer::handle_handshake_response ---------- *)
Inductive presult :=
| PRejected (p : peer) (outs : list out)
| PAccepted (p : peer) (outs : list out) (ch : N) (signed_m : option N).

Definition key_differs (p : peer) (k : N) : bool :=
  match p_pk p with Some k' => negb (k' =? k) | None => false end.

Definition peer_response (g : cfg) (now c : N) (p : peer) (r : response) : presult :=
  if negb (v_is_set (r_cver r)) then PRejected (mark_disc now p) [ODisconnect c]
  else match p_chal p with
  | None => PRejected (mark_disc now p) [ODisconnect c]
  | Some ch =>
      if negb (verify ch (r_sig r) (r_pk r)) then PRejected (mark_disc now p) [ODisconnect c]
      else if negb (v_same_minor (my_cver g) (r_cver r)) then
        PRejected (mark_disc now p) [OEvent EV_NEW_VERSION c; ODisconnect c]
      (* the entry already records another key: rejected like any other unacceptable
         response (an assert_eq! panic before fix ae2aeaa) *)
      else if key_differs p (r_pk r) then PRejected (mark_disc now p) [ODisconnect c]
      else
        let p' := mkP Connected (p_static p) None (Some (r_pk r)) (r_cver r) (r_wver r)
                      (p_lim p) (p_disc p) in
        let o1 := if v_lt (my_wver g) (r_wver r) then [OEvent EV_NEW_VERSION c] else [] in
        (* only the side that accepted the connection answers with a second response;
           it signs whatever 32 bytes the response carried *)
        let o2 := if p_static p then []
                  else [OSendResponse c (mkR (me g) (Sig (me g) (r_chal r)) 0 (my_cver g) (my_wver g))] in
        PAccepted p' (o1 ++ o2 ++ [OEvent EV_HANDSHAKE_COMPLETE c]) ch
                  (if p_static p then None else Some (r_chal r))
  end.

(* ---------- PeerCollection::remove_reconnected_peer ----------
   The code walks a HashMap and takes the first entry with this key that is not
   Connected.  Which one comes first is not determined by the program; [pref]
   names the entry the run actually took (used if it is a candidate), otherwise
   the lowest index is taken. *)
Definition cand (K : N) (cp : N * peer) : bool :=
  match p_pk (snd cp) with
  | Some k => (k =? K) && negb (status_eqb (p_status (snd cp)) Connected)
  | None => false
  end.
Definition find_reconnected (K pref : N) (ps : list (N * peer)) : option N :=
  let first := option_map fst (find (cand K) ps) in
  match aget pref ps with
  | Some p => if cand K (pref, p) then Some pref else first
  | None => first
  end.

(* PeerCollection::remove_disconnected_peers *)
Definition PEER_REMOVAL_WINDOW : N := 600000.
Definition purgeable (now : N) (cp : N * peer) : bool :=
  negb (p_static (snd cp)) &&
  match p_disc (snd cp) with None => false | Some d => d + PEER_REMOVAL_WINDOW <=? now end.
(* Since fix 88efef8 a purged entry gives its key up only if the map points at
   it, and the key is re-pointed to a remaining entry of that key: a Connected
   one first, then the highest index.  (The code re-points among the entries
   present at that moment of its loop; whatever the HashMap order of the loop,
   the result is the best entry that survives the purge, which is what is
   modelled: [keep] = the surviving entries.) *)
Definition is_conn (p : peer) : bool := status_eqb (p_status p) Connected.
Definition better (a b : N * bool) : bool :=
  (snd a && negb (snd b)) || (Bool.eqb (snd a) (snd b) && (fst b <? fst a)).
Fixpoint best (K : N) (ps : list (N * peer)) : option (N * bool) :=
  match ps with
  | [] => None
  | (c, p) :: t =>
      let r := best K t in
      match p_pk p with
      | Some k =>
          if k =? K then
            match r with
            | None => Some (c, is_conn p)
            | Some b => if better (c, is_conn p) b then Some (c, is_conn p) else r
            end
          else r
      | None => r
      end
  end.
Definition repoint (keep : list (N * peer)) (a : list (N * N)) (cp : N * peer) : list (N * N) :=
  match p_pk (snd cp) with
  | Some K =>
      match aget K a with
      | Some c =>
          if c =? fst cp then
            match best K keep with
            | Some b => aset K (fst b) a
            | None => del K a
            end
          else a
      | None => a
      end
  | None => a
  end.

(* panic sites *)
Definition SITE_JOIN_CONNECTED : N := 2.  (* peer.rs: join_as_reconnection assert!(old peer not Connected) *)
Definition SITE_EXPECT_PEER : N := 3.     (* network.rs: .expect("peer should exist here ...") *)

(* ---------- actions of the environment ---------- *)
Inductive action :=
| ANewPeer (c : N)                              (* Network::handle_new_peer *)
| ADeliverChal (c x : N)                        (* Network::handle_handshake_challenge *)
| ADeliverResp (c : N) (r : response) (pref : N)(* Network::handle_handshake_response *)
| ADisconnect (c : N) (external : bool)         (* Network::handle_peer_disconnect *)
| APurge                                        (* PeerCollection::remove_disconnected_peers(now) *)
| ATick (dt : N)                                (* the clock advances *)
| ARemoteSign (k m : N).                        (* some other key holder signs m (ghost) *)

Definition upd_peers (s : state) (ps : list (N * peer)) : state :=
  mkS ps (addr s) (next s) (now s) (signed s).

Definition step (g : cfg) (s : state) (a : action)
  : res (state * list out * list event) :=
  match a with
  | ANewPeer c =>
      let p0 := match aget c (peers s) with Some p => p | None => new_peer end in
      let p1 := set_status p0 Connecting in
      if p_static p1 then
        (* no handshake is initiated on an outgoing connection; a challenge stored for the
           previous connection of the entry is discarded (fix 8a16f73) *)
        Ok (upd_peers s (aset c (set_chal p1 None) (peers s)), [], [EReset c])
      else
        (* Peer::initiate_handshake *)
        let ch := next s in
        Ok (mkS (aset c (set_chal p1 (Some ch)) (peers s)) (addr s) (ch + 1) (now s) (signed s),
            [OSendChallenge c ch], [EIssued c ch; EReset c])
  | ADeliverChal c x =>
      let nx := bump s x in
      match aget c (peers s) with
      | None => Ok (mkS (peers s) (addr s) nx (now s) (signed s), [], [])
      | Some p =>
          let '(ex, l) := lim_check (now s) (lim_increase (p_lim p)) in
          if ex then
            Ok (mkS (aset c (set_lim p l) (peers s)) (addr s) nx (now s) (signed s), [], [])
          else
            (* Peer::handle_handshake_challenge: signs whatever it was sent, stores a fresh challenge *)
            let ch := nx in
            let p' := set_chal (set_lim p l) (Some ch) in
            Ok (mkS (aset c p' (peers s)) (addr s) (ch + 1) (now s) ((me g, x) :: signed s),
                [OSendResponse c (mkR (me g) (Sig (me g) x) ch (my_cver g) (my_wver g))],
                [EIssued c ch; ESigned (me g) x])
      end
  | ADeliverResp c r pref =>
      let nx := bump s (r_chal r) in
      match aget c (peers s) with
      | None => Ok (mkS (peers s) (addr s) nx (now s) (signed s), [], [])
      | Some p =>
          let '(ex, l) := lim_check (now s) (lim_increase (p_lim p)) in
          if ex then
            Ok (mkS (aset c (set_lim p l) (peers s)) (addr s) nx (now s) (signed s), [], [])
          else
            match peer_response g (now s) c (set_lim p l) r with
            | PRejected p2 outs =>
                Ok (mkS (aset c p2 (peers s)) (addr s) nx (now s) (signed s),
                    outs ++ [ODisconnect c], [EReset c])
            | PAccepted p2 outs ch sm =>
                let K := r_pk r in
                let ps1 := aset c p2 (peers s) in
                let sg := match sm with Some m => (me g, m) :: signed s | None => signed s end in
                let ev0 := match sm with Some m => [ESigned (me g) m] | None => [] end
                           ++ [EAccepted c K ch] in
                let tail := [OEvent EV_PEER_CONNECTED c; OSendOther c] in
                match find_reconnected K pref ps1 with
                | None =>
                    Ok (mkS ps1 (aset K c (addr s)) nx (now s) sg, outs ++ tail, ev0)
                | Some idx =>
                    match aget idx ps1 with
                    | None => Ok (mkS ps1 (aset K c (addr s)) nx (now s) sg, outs ++ tail, ev0)
                    | Some old =>
                        let ps2 := del idx ps1 in
                        (* removed by remove_reconnected_peer, then inserted for this
                           connection (since fix f517868 on both branches) *)
                        let ad2 := aset K c (del K (addr s)) in
                        match aget c ps2 with
                        | None => Panic SITE_EXPECT_PEER
                        | Some pn =>
                            if status_eqb (p_status old) Connected then Panic SITE_JOIN_CONNECTED
                            else
                              (* Peer::join_as_reconnection *)
                              let pn' := mkP (p_status pn) (p_static old) (p_chal pn) (p_pk pn)
                                             (p_cver pn) (p_wver pn) (p_lim old) None in
                              Ok (mkS (aset c pn' ps2) ad2 nx (now s) sg, outs ++ tail,
                                  ERemoved idx :: ev0)
                        end
                    end
                end
            end
      end
  | ADisconnect c ext =>
      let o0 := if ext then [ODisconnect c] else [] in
      match aget c (peers s) with
      | None => Ok (s, o0, [])
      | Some p =>
          let o1 := match p_pk p with Some _ => [OEvent EV_CONNECTION_DROPPED c] | None => [] end in
          Ok (upd_peers s (aset c (mark_disc (now s) p) (peers s)), o0 ++ o1, [EReset c])
      end
  | APurge =>
      let gone := filter (purgeable (now s)) (peers s) in
      let keep := filter (fun cp => negb (purgeable (now s) cp)) (peers s) in
      Ok (mkS keep (fold_left (repoint keep) gone (addr s)) (next s) (now s) (signed s), [],
          map (fun cp => EPurged (fst cp)) gone)
  | ATick dt =>
      Ok (mkS (peers s) (addr s) (next s) (now s + dt) (signed s), [], [])
  | ARemoteSign k m =>
      Ok (mkS (peers s) (addr s) (bump s m) (now s) ((k, m) :: signed s), [], [ESigned k m])
  end.

(* what the environment may do: it cannot sign for [me], and it can only deliver
   signatures that exist (or bytes that verify under nothing) *)
Definition in_signed (k m : N) (l : list (N * N)) : bool :=
  existsb (fun km => (fst km =? k) && (snd km =? m)) l.
Definition act_ok (g : cfg) (s : state) (a : action) : bool :=
  match a with
  | ARemoteSign k _ => negb (k =? me g)
  | ADeliverResp _ r _ =>
      match r_sig r with Sig k m => in_signed k m (signed s) | SigBad => true end
  | _ => true
  end.

(* ---------- runs ---------- *)
Fixpoint run (g : cfg) (s : state) (acts : list action) : res (state * list event) :=
  match acts with
  | [] => Ok (s, [])
  | a :: t =>
      match step g s a with
      | Ok (s', _, ev) =>
          match run g s' t with
          | Ok (s'', ev') => Ok (s'', ev' ++ ev)       (* newest first *)
          | Err => Err | Panic n => Panic n
          end
      | Err => Err
      | Panic n => Panic n
      end
  end.

Fixpoint run_ok (g : cfg) (s : state) (acts : list action) : bool :=
  match acts with
  | [] => true
  | a :: t => act_ok g s a &&
              match step g s a with Ok (s', _, _) => run_ok g s' t | _ => true end
  end.

(* ---------- observation compared with the implementation ---------- *)
Definition opt_code (o : option N) : N := match o with Some v => v + 1 | None => 0 end.
Definition b2n (b : bool) : N := if b then 1 else 0.
Definition ver_row (v : version) : list N := [v_major v; v_minor v; v_patch v].
Definition sig_row (s : sigt) : list N := match s with Sig k m => [1; k; m] | SigBad => [0; 0; 0] end.

Definition peer_row (cp : N * peer) : list N :=
  let p := snd cp in
  [100; fst cp; status_code (p_status p); b2n (p_static p); opt_code (p_chal p); opt_code (p_pk p);
   l_count (p_lim p); l_last (p_lim p); opt_code (p_disc p)] ++ ver_row (p_cver p) ++ ver_row (p_wver p).
Definition addr_row (kc : N * N) : list N := [200; fst kc; snd kc].
Definition out_row (o : out) : list N :=
  match o with
  | OSendChallenge c ch => [300; c; 1; ch]
  | OSendResponse c r => [300; c; 2; r_pk r] ++ sig_row (r_sig r) ++ [r_chal r]
                         ++ ver_row (r_cver r) ++ ver_row (r_wver r)
  | OSendOther c => [300; c; 3]
  | ODisconnect c => [301; c]
  | OEvent code c => [302; code; c]
  end.
(* the in-memory io records sends, disconnects and events in three separate
   logs, so their relative order is not observable: stable partition by kind *)
Definition out_kind (o : out) : N :=
  match o with ODisconnect _ => 1 | OEvent _ _ => 2 | _ => 0 end.
Definition outs_of_kind (k : N) (outs : list out) : list out :=
  filter (fun o => out_kind o =? k) outs.
Definition observe (s : state) (outs : list out) : list (list N) :=
  map out_row (outs_of_kind 0 outs ++ outs_of_kind 1 outs ++ outs_of_kind 2 outs)
  ++ map peer_row (peers s) ++ map addr_row (addr s).

Fixpoint trace (g : cfg) (s : state) (acts : list action) : list (list (list N)) :=
  match acts with
  | [] => []
  | a :: t =>
      match step g s a with
      | Ok (s', outs, _) =>
          match a with
          | ARemoteSign _ _ => trace g s' t            (* ghost step: nothing to observe *)
          | _ => observe s' outs :: trace g s' t
          end
      | Err => [[[998]]]
      | Panic n => [[[999; n]]]
      end
  end.

(* ---------- two honest nodes and a network that the attacker controls ----------
   Node A and node B run the model above; the attacker moves every message and
   may sign with keys that are neither A's nor B's.  A signature by A's (B's)
   key only ever comes out of A's (B's) own handler.  B's fresh values start at
   another offset than A's (random 32-byte values of two nodes do not collide). *)
Record world := mkW { w_a : state; w_b : state }.
Inductive waction := WA (a : action) | WB (a : action).

Definition wact_ok (ga gb : cfg) (w : world) (wa : waction) : bool :=
  let known k m := in_signed k m (signed (w_a w)) || in_signed k m (signed (w_b w)) in
  let ok (a : action) :=
    match a with
    | ARemoteSign k _ => negb (k =? me ga) && negb (k =? me gb)
    | ADeliverResp _ r _ => match r_sig r with Sig k m => known k m | SigBad => true end
    | _ => true
    end in
  match wa with WA a => ok a | WB a => ok a end.

Definition wstep (ga gb : cfg) (w : world) (wa : waction) : res (world * list out) :=
  match wa with
  | WA a => match step ga (w_a w) a with
            | Ok (s, o, _) => Ok (mkW s (w_b w), o) | Err => Err | Panic n => Panic n end
  | WB a => match step gb (w_b w) a with
            | Ok (s, o, _) => Ok (mkW (w_a w) s, o) | Err => Err | Panic n => Panic n end
  end.

Fixpoint wrun (ga gb : cfg) (w : world) (acts : list waction) : res (world * bool) :=
  match acts with
  | [] => Ok (w, true)
  | a :: t =>
      match wstep ga gb w a with
      | Ok (w', _) =>
          match wrun ga gb w' t with
          | Ok (w'', okk) => Ok (w'', wact_ok ga gb w a && okk)
          | Err => Err | Panic n => Panic n
          end
      | Err => Err
      | Panic n => Panic n
      end
  end.
