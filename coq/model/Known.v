(* C02 / C13 — the specific classes of blocks on which the pinned code violates the
   properties (each reproduced on the real node, see known_findings.txt), as decidable
   predicates over the model, and the invariant of states under which the theorems are
   stated.  Definitions only. *)
From Saito Require Import Base CV Supply.

Section Classes.
  Variable cap15 cap05 : N -> N.
  Variable cf : config.
  Let gp := cf_gp cf.

  Definition new_id (b : block) : N := h_id (b_hdr b).

  (* the consensus values of a block in unbounded arithmetic *)
  Definition cv_inf (st : state) (b : block) : res cv :=
    run_cv cap15 cap05 cf MInf st
      (cv_input cf st (new_id b) (h_ts (b_hdr b)) (h_treasury (b_hdr b)) (b_txs b) (b_bf_calc b) (b_orc b)).
  Definition the_input (st : state) (b : block) : cv_in :=
    cv_input cf st (new_id b) (h_ts (b_hdr b)) (h_treasury (b_hdr b)) (b_txs b) (b_bf_calc b) (b_orc b).

  (* --- C02: transaction kinds whose fee is counted in no reservoir, NFT slips --- *)
  Definition plain_tx (t : tx) : bool :=
    ((t_ty t =? TNormal) || (t_ty t =? TGolden) || (t_ty t =? TATR) || (t_ty t =? TFee)) &&
    forallb (fun s => negb (is_bound s)) (t_from t ++ t_to t).
  (* a BlockStake / Bound / Vip / SPV transaction, or a Bound (NFT) slip *)
  Definition Known_C02_special_tx (b : block) : bool := negb (forallb plain_tx (b_txs b)).

  (* --- C02 / C13: the block leaving the window carries Bound (NFT) outputs --- *)
  Definition expiring_txs (st : state) (b : block) : list tx :=
    if gp + 1 <? new_id b then
      match block_at st (new_id b - (gp + 1)) with Some e => b_txs e | None => [] end
    else [].
  Definition Known_C02_nft_expiring (st : state) (b : block) : bool :=
    negb (forallb (fun t => forallb (fun s => negb (is_bound s)) (t_to t)) (expiring_txs st b)).

  (* --- C02: the 5 % cap branch --- *)
  Definition Known_C02_cap_branch (st : state) (b : block) : bool :=
    match cv_inf st b with
    | Ok c => c_cap c
    | _ => false
    end.

  (* --- C02: golden ticket present, payout due, fee transaction left out --- *)
  Definition Known_C02_fee_tx_omitted (st : state) (b : block) : bool :=
    match cv_inf st b with
    | Ok c => match c_fee_tx c with
              | Some f => (0 <? sumN (map s_amt (t_to f))) && (c_ft_num c =? 0)
              | None => false
              end
    | _ => false
    end.

  (* --- C02: golden ticket naming the all-zero key while a miner share is due --- *)
  Definition Known_C02_zero_miner (st : state) (b : block) : bool :=
    match cv_inf st b with
    | Ok c => (o_miner (b_orc b) =? 0) && (0 <? c_pay_mining c)
    | _ => false
    end.

  (* --- C02 / C13: an input older than the window (nothing checks the age of an input),
         or a rebroadcast whose input is not the output that left the window --- *)
  Definition in_new_window (b : block) (s : slip) : bool := (new_id b - gp) <=? s_bid s.
  Definition Known_C13_expired_input (b : block) : bool :=
    existsb (fun t => negb (t_ty t =? TATR) && negb (t_ty t =? TFee) &&
                      existsb (fun s => (0 <? s_amt s) && negb (in_new_window b s)) (t_from t)) (b_txs b).
  Definition Known_C13_rebroadcast_input_elsewhere (b : block) : bool :=
    existsb (fun t => (t_ty t =? TATR) &&
                      existsb (fun s => (0 <? s_amt s) && in_new_window b s) (t_from t)) (b_txs b).

  (* the rebroadcast transactions of the block name exactly the outputs that left the window
     (the hash binds key, amount, slip index and type of an input, not its location) *)
  Definition Known_C13_rebroadcast_input_substituted (st : state) (b : block) : bool :=
    match cv_inf st b with
    | Ok c => negb (eqb_list (eqb_list slip_eqb) (map t_from (c_rb_hash c)) (map t_from (block_atrs (b_txs b))))
    | _ => false
    end.

  (* --- block ids are not checked against the parent's --- *)
  Definition Known_C13_id_jump (st : state) (b : block) : bool := negb (new_id b =? tip_id st + 1).

  (* --- C02: 64-bit effects: a saturated input/output sum, or a block that validates in u64
         arithmetic but not in unbounded arithmetic --- *)
  Definition fits (t : tx) : bool :=
    (sumN (map s_amt (t_from t)) <? two64) && (sumN (map s_amt (t_to t)) <? two64).
  Definition Known_C02_saturated (b : block) : bool := negb (forallb fits (b_txs b)).

  Definition clean (st : state) (b : block) : bool :=
    negb (Known_C02_special_tx b) && negb (Known_C02_nft_expiring st b) &&
    negb (Known_C02_cap_branch st b) && negb (Known_C02_fee_tx_omitted st b) &&
    negb (Known_C02_zero_miner st b) && negb (Known_C13_expired_input b) &&
    negb (Known_C13_rebroadcast_input_elsewhere b) && negb (Known_C13_id_jump st b) &&
    negb (Known_C02_saturated b).
End Classes.

(* ---------- invariant of the ledger state ---------- *)
Definition outputs (b : block) : list slip := flat_map t_to (b_txs b).
Definition inputs (b : block) : list slip := flat_map t_from (b_txs b).

(* the block is carried as Block::generate leaves it: every output located at
   (block id, transaction index, slip index), at most 255 outputs per transaction,
   has_golden_ticket set from the transaction types *)
Definition located (b : block) : Prop :=
  b_txs b = locate (h_id (b_hdr b)) 0 (b_txs b) /\
  (forall t, In t (b_txs b) -> Nlen (t_to t) <= 255) /\
  h_has_gt (b_hdr b) = existsb (fun t => t_ty t =? TGolden) (b_txs b).

Fixpoint ids_ok (l : list block) : Prop :=
  match l with
  | [] => False
  | [g] => h_id (b_hdr g) = 1
  | b :: ((p :: _) as rest) => h_id (b_hdr b) = h_id (b_hdr p) + 1 /\ ids_ok rest
  end.

Definition unpaid_ok (l : list block) : Prop :=
  match l with
  | [] => True
  | [g] => h_unpaid (b_hdr g) = 0
  | p :: pp :: _ => h_unpaid (b_hdr p) = if h_has_gt (b_hdr p) then 0 else h_total_fees (b_hdr pp)
  end.

Record Inv (st : state) : Prop := mkInv {
  inv_ids : ids_ok (st_chain st);
  inv_nodup : NoDup (st_utxo st);
  inv_utxo : forall s, In s (st_utxo st) ->
             0 < s_amt s /\ exists blk, In blk (st_chain st) /\ h_id (b_hdr blk) = s_bid s /\ In s (outputs blk);
  inv_located : forall blk, In blk (st_chain st) -> located blk;
  inv_unpaid : unpaid_ok (st_chain st);
  inv_inputs : forall blk s, In blk (st_chain st) -> In s (inputs blk) -> 0 < s_amt s -> s_bid s < h_id (b_hdr blk)
}.
