(* C02 / C13 — the classes of blocks the theorems do not cover, as decidable predicates over
   the model, and the invariant of states under which the theorems are stated.  Definitions
   only.  At /repo 9007b23 every defect that was found in these classes is repaired (fee
   transaction omitted, zero-key golden ticket, uncounted Bound/BlockStake fees, input older
   than the window, rebroadcast input elsewhere, block id jump, 5 % cap branch, stray Bound
   output, SPV transaction with a valued input, saturating payout product); what remains
   below are limits of the proofs' scope, not known defects: the NFT (Bound) shapes are
   decided inside Transaction::validate, which is the oracle field t_ok here (property C01
   models it), and they are exercised by the harness only. *)
From Saito Require Import Base CV Supply.

Section Classes.
  Variable cap15 cap05 : N -> N.
  Variable cf : config.
  Let gp := cf_gp cf.

  Definition new_id (b : block) : N := h_id (b_hdr b).

  (* the consensus values of a block in unbounded arithmetic *)
  Definition cv_inf (st : state) (b : block) : res cv :=
    run_cv cap15 cap05 cf MInf st
      (cv_input cf st (new_id b) (h_ts (b_hdr b)) (h_treasury (b_hdr b)) (b_txs b) (b_bf_calc b) (b_orc b)).
  Definition the_input (st : state) (b : block) : cv_in :=
    cv_input cf st (new_id b) (h_ts (b_hdr b)) (h_treasury (b_hdr b)) (b_txs b) (b_bf_calc b) (b_orc b).

  (* --- scope: Bound (NFT) slips and SPV placeholders inside the block.  Well-formed NFT
         transactions conserve the supply (exercised by the harness against the real node);
         the theorems are stated for blocks without them --- *)
  Definition plain_tx (t : tx) : bool :=
    negb (t_ty t =? TSPV) && forallb (fun s => negb (is_bound s)) (t_from t ++ t_to t).
  Definition Known_C02_bound_or_spv (b : block) : bool := negb (forallb plain_tx (b_txs b)).

  (* --- scope: the block leaving the window carries Bound (NFT) outputs (the grouping of
         the ATR section into triples is modelled and replayed, but not inside the theorems) --- *)
  Definition expiring_txs (st : state) (b : block) : list tx :=
    if gp + 1 <? new_id b then
      match block_at st (new_id b - (gp + 1)) with Some e => b_txs e | None => [] end
    else [].
  Definition Known_C02_nft_expiring (st : state) (b : block) : bool :=
    negb (forallb (fun t => forallb (fun s => negb (is_bound s)) (t_to t)) (expiring_txs st b)).

  (* --- 64-bit effects: a saturated input/output sum (sums of 2^64 or more); and, because the
         float function is left abstract, a 5 % limit of 2^64-1 or more (the real
         (x as f64 * 0.05) as u64 of a u64 is below 2^60) --- *)
  Definition fits (t : tx) : bool :=
    (sumN (map s_amt (t_from t)) <? two64) && (sumN (map s_amt (t_to t)) <? two64).
  Definition parent_treasury (st : state) : N :=
    match parent_of st with Some p => h_treasury (b_hdr p) | None => 0 end.
  Definition Known_C02_saturated (st : state) (b : block) : bool :=
    negb (forallb fits (b_txs b) && (cap05 (parent_treasury st) <? U64MAX)).

  Definition clean (st : state) (b : block) : bool :=
    negb (Known_C02_bound_or_spv b) && negb (Known_C02_nft_expiring st b) &&
    negb (Known_C02_saturated st b).
End Classes.

(* ---------- invariant of the ledger state ---------- *)
Definition outputs (b : block) : list slip := flat_map t_to (b_txs b).
Definition inputs (b : block) : list slip := flat_map t_from (b_txs b).

(* the block is carried as Block::generate leaves it: every output located at
   (block id, transaction index, slip index), at most 255 outputs per transaction,
   has_golden_ticket set from the transaction types *)
Definition located (b : block) : Prop :=
  b_txs b = locate (h_id (b_hdr b)) 0 (b_txs b) /\
  (forall t, In t (b_txs b) -> Nlen (t_to t) <= 255) /\
  h_has_gt (b_hdr b) = existsb (fun t => t_ty t =? TGolden) (b_txs b).

Fixpoint ids_ok (l : list block) : Prop :=
  match l with
  | [] => False
  | [g] => h_id (b_hdr g) = 1
  | b :: ((p :: _) as rest) => h_id (b_hdr b) = h_id (b_hdr p) + 1 /\ ids_ok rest
  end.

Definition unpaid_ok (l : list block) : Prop :=
  match l with
  | [] => True
  | [g] => h_unpaid (b_hdr g) = 0
  | p :: pp :: _ => h_unpaid (b_hdr p) = if h_has_gt (b_hdr p) then 0 else h_total_fees (b_hdr pp)
  end.

Record Inv (st : state) : Prop := mkInv {
  inv_ids : ids_ok (st_chain st);
  inv_nodup : NoDup (st_utxo st);
  inv_utxo : forall s, In s (st_utxo st) ->
             0 < s_amt s /\ exists blk, In blk (st_chain st) /\ h_id (b_hdr blk) = s_bid s /\ In s (outputs blk);
  inv_located : forall blk, In blk (st_chain st) -> located blk;
  inv_unpaid : unpaid_ok (st_chain st);
  inv_inputs : forall blk s, In blk (st_chain st) -> In s (inputs blk) -> 0 < s_amt s -> s_bid s < h_id (b_hdr blk)
}.
