(* Model of Block::generate_lite_block, Block::generate_merkle_root, and of the parts of
   Block::generate / the wire trip that matter to a lite block
   (saito-core/src/core/consensus/block.rs, transaction.rs; served by
   saito-rust/src/network_controller.rs: deserialize -> generate -> generate_lite_block ->
   serialize_for_net; received by deserialize_from_net -> generate).
   Bytes are not modelled here (Codec.v does that): the wire trip is the function that keeps
   the header fields and the serialised transaction fields and forgets everything that is not
   serialised (hash, hash_for_signature).  Model only, no proofs. *)
From Saito Require Import Base Merkle.

(* the consensus ("header") fields of Block, in the order of the struct; 32/33/64-byte values
   are interned numbers, the merkle root is a hash term *)
Record header : Type := mkHeader {
  h_id : N;
  h_timestamp : N;
  h_previous_block_hash : N;
  h_creator : N;
  h_merkle_root : hv;
  h_signature : N;
  h_graveyard : N;
  h_treasury : N;
  h_total_fees : N;
  h_total_fees_new : N;
  h_total_fees_atr : N;
  h_total_fees_cumulative : N;
  h_avg_total_fees : N;
  h_avg_total_fees_new : N;
  h_avg_total_fees_atr : N;
  h_total_payout_routing : N;
  h_total_payout_mining : N;
  h_total_payout_treasury : N;
  h_total_payout_graveyard : N;
  h_total_payout_atr : N;
  h_avg_payout_routing : N;
  h_avg_payout_mining : N;
  h_avg_payout_treasury : N;
  h_avg_payout_graveyard : N;
  h_avg_payout_atr : N;
  h_avg_fee_per_byte : N;
  h_fee_per_byte : N;
  h_avg_nolan_rebroadcast_per_block : N;
  h_burnfee : N;
  h_difficulty : N;
  h_previous_block_unpaid : N
}.

(* block hash as a free term: hash(previous_block_hash ++ hash(serialize_for_signature)) is a
   function of the merkle root and of the other signed header fields *)
Inductive bhv : Type :=
| BH (mr : hv) (signed : list N)
| BRaw (id : N).            (* any other 32-byte value; BRaw 0 = [0;32] *)

Definition bhv_eqb (a b : bhv) : bool :=
  match a, b with
  | BH m1 s1, BH m2 s2 => hv_eqb m1 m2 && eqb_lN s1 s2
  | BRaw x, BRaw y => x =? y
  | _, _ => false
  end.

Record block : Type := mkBlock {
  b_hdr : header;
  b_hash : bhv;
  b_txs : list tx
}.

(* Block::serialize_for_signature: the fields under the block hash (merkle root apart) *)
Definition signed_fields (h : header) : list N :=
  [h_id h; h_timestamp h; h_previous_block_hash h; h_creator h;
   h_graveyard h; h_treasury h; h_burnfee h; h_difficulty h;
   h_avg_fee_per_byte h; h_avg_nolan_rebroadcast_per_block h; h_previous_block_unpaid h;
   h_avg_total_fees h; h_avg_total_fees_new h; h_avg_total_fees_atr h;
   h_avg_payout_routing h; h_avg_payout_mining h].

Definition block_hash_of (h : header) : bhv := BH (h_merkle_root h) (signed_fields h).

Definition set_merkle_root (h : header) (mr : hv) : header :=
  mkHeader (h_id h) (h_timestamp h) (h_previous_block_hash h) (h_creator h) mr (h_signature h)
    (h_graveyard h) (h_treasury h) (h_total_fees h) (h_total_fees_new h) (h_total_fees_atr h)
    (h_total_fees_cumulative h) (h_avg_total_fees h) (h_avg_total_fees_new h) (h_avg_total_fees_atr h)
    (h_total_payout_routing h) (h_total_payout_mining h) (h_total_payout_treasury h)
    (h_total_payout_graveyard h) (h_total_payout_atr h) (h_avg_payout_routing h) (h_avg_payout_mining h)
    (h_avg_payout_treasury h) (h_avg_payout_graveyard h) (h_avg_payout_atr h) (h_avg_fee_per_byte h)
    (h_fee_per_byte h) (h_avg_nolan_rebroadcast_per_block h) (h_burnfee h) (h_difficulty h)
    (h_previous_block_unpaid h).

(* Block::generate_merkle_root(is_browser, is_spv) *)
Definition generate_merkle_root (b : block) (is_browser is_spv : bool) : res hv :=
  match b_txs b with
  | [] => if is_browser || is_spv then Ok (h_merkle_root (b_hdr b)) else Ok hzero
  | _ => merkle_root_of (b_txs b)
  end.

(* ---------------------------------------------------------------- generate_lite_block *)

Definition P_MERGE_UNWRAP : N := 1811.   (* pruned_txs[i].hash_for_signature.unwrap() *)
Definition P_REPL_OVERFLOW : N := 1812.  (* txs_replacements *= 2 on u32 (overflow-checks build; a release build wraps) *)

Definition mem (k : N) (ks : list N) : bool := existsb (N.eqb k) ks.

(* from.any(in keylist) || to.any(in keylist) || is_golden_ticket() *)
Definition touches (ks : list N) (t : tx) : bool :=
  existsb (fun k => mem k ks) (t_from t)
  || existsb (fun k => mem k ks) (t_to t)
  || (t_ty t =? TY_GT).

(* the placeholder literal: timestamp, signature and hash_for_signature of the omitted
   transaction; type SPV; txs_replacements 1; no slips, no data, no path *)
Definition placeholder (t : tx) : tx :=
  mkTx TY_SPV 1 (t_sig t) (t_sig32 t) (t_ts t) [] [] 0 0 0 (t_hfs t).

Definition prune1 (ks : list N) (t : tx) : tx :=
  if touches ks t then t else placeholder t.

Definition mergeable (x y : tx) : bool :=
  is_spv x && is_spv y && (t_repl x =? t_repl y).

Definition merged (x : tx) (r : N) (h : hv) : tx :=
  mkTx (t_ty x) r (t_sig x) (t_sig32 x) (t_ts x) (t_from x) (t_to x) (t_rest x) (t_dlen x) (t_chash x) (Some h).

(* let mut i = 0;
   while i + 1 < len { if both SPV with equal replacements { txs[i].replacements *= 2;
        txs[i].hash = hash(h_i ++ h_{i+1}); remove(i+1) } else { i += 2 } }
   [l] is the part of the vector from index i on; fuel bounds the number of iterations *)
Fixpoint merge_loop (fuel : nat) (l : list tx) : res (list tx) :=
  match l with
  | x :: y :: t =>
      match fuel with
      | O => OutOfFuel
      | S f =>
          if mergeable x y then
            let r2 := 2 * t_repl x in
            if 2 ^ 32 <=? r2 then Panic P_REPL_OVERFLOW
            else match t_hfs x, t_hfs y with
                 | Some a, Some b => merge_loop f (merged x r2 (Node a b) :: t)
                 | _, _ => Panic P_MERGE_UNWRAP
                 end
          else do r <- merge_loop f t; Ok (x :: y :: r)
      end
  | _ => Ok l
  end.

Definition lite (b : block) (ks : list N) : res block :=
  let pruned := map (prune1 ks) (b_txs b) in
  do txs <- merge_loop (length pruned) pruned;
  let s := b_hdr b in
  (* block.merkle_root = self.generate_merkle_root(true, true) -- of the FULL block *)
  do mr <- generate_merkle_root b true true;
  Ok (mkBlock
        (mkHeader (h_id s) (h_timestamp s) (h_previous_block_hash s) (h_creator s) mr (h_signature s)
           (h_graveyard s) (h_treasury s) (h_total_fees s) (h_total_fees_new s) (h_total_fees_atr s)
           (h_total_fees_cumulative s) (h_avg_total_fees s) (h_avg_total_fees_new s)
           (h_avg_total_fees_atr s) (h_total_payout_routing s) (h_total_payout_mining s)
           (h_total_payout_treasury s) (h_total_payout_graveyard s) (h_total_payout_atr s)
           (h_avg_payout_routing s) (h_avg_payout_mining s) (h_avg_payout_treasury s)
           (h_avg_payout_graveyard s) (h_avg_payout_atr s) (h_avg_fee_per_byte s) (h_fee_per_byte s)
           (h_avg_nolan_rebroadcast_per_block s) (h_burnfee s) (h_difficulty s)
           (h_previous_block_unpaid s))
        (b_hash b)
        txs).

(* ---------------------------------------------------------------- wire trip, Block::generate *)

(* serialize_for_net then deserialize_from_net: header fields and the serialised transaction
   fields survive; hash (Block::new(): [0;32]) and hash_for_signature (Transaction::default():
   None) are not serialised *)
Definition clear_hfs (t : tx) : tx :=
  mkTx (t_ty t) (t_repl t) (t_sig t) (t_sig32 t) (t_ts t) (t_from t) (t_to t) (t_rest t) (t_dlen t) (t_chash t) None.

Definition wire (b : block) : block :=
  mkBlock (b_hdr b) (BRaw 0) (map clear_hfs (b_txs b)).

(* Transaction::generate_hash_for_signature: SPV => signature[0..32], else hash of the signed bytes *)
Definition rehash (t : tx) : tx :=
  mkTx (t_ty t) (t_repl t) (t_sig t) (t_sig32 t) (t_ts t) (t_from t) (t_to t) (t_rest t) (t_dlen t) (t_chash t)
       (Some (Leaf (if is_spv t then t_sig32 t else t_chash t))).

(* Block::generate: tx.generate for every transaction; merkle root recomputed only when the
   field is all-zero; pre_hash and hash from the header.  (The double-spend Err of generate
   concerns from-slips, which placeholders do not have; it is outside this model.) *)
Definition generate (b : block) : res block :=
  let txs := map rehash (b_txs b) in
  let b1 := mkBlock (b_hdr b) (b_hash b) txs in
  do mr <- (if hv_eqb (h_merkle_root (b_hdr b)) hzero
            then generate_merkle_root b1 false false
            else Ok (h_merkle_root (b_hdr b)));
  let h := set_merkle_root (b_hdr b) mr in
  Ok (mkBlock h (block_hash_of h) txs).

(* the tx_index that Block::generate passes to tx.generate (and Transaction::generate_total_fees
   writes into every output slip as tx_ordinal): a placeholder advances it by its replacement
   count, any other transaction by one.  (u64 arithmetic; cannot wrap for a block that fits in memory.) *)
Definition weight (t : tx) : N := if is_spv t then t_repl t else 1.

Fixpoint tx_indices (i : N) (l : list tx) : list N :=
  match l with
  | [] => []
  | t :: r => i :: tx_indices (i + weight t) r
  end.

(* the ordinals observable in a generated block: those of the transactions that have outputs *)
Fixpoint out_ordinals (i : N) (l : list tx) : list N :=
  match l with
  | [] => []
  | t :: r => (match t_to t with [] => [] | _ => [i] end) ++ out_ordinals (i + weight t) r
  end.

(* what the light client holds after fetching the lite block *)
(* Transaction::deserialize_from_net (since fix eeb4ec7): a GoldenTicket-typed transaction whose
   payload is not the 97 bytes of a GoldenTicket does not decode, and then neither does the block *)
Definition decodable (t : tx) : bool := negb (t_ty t =? TY_GT) || (t_dlen t =? 97).

Definition receive (l : block) : res block :=
  if forallb decodable (b_txs l) then generate (wire l) else Err.

(* the lite-block route: block read from disk, generate, generate_lite_block *)
Definition serve (disk : block) (ks : list N) : res block :=
  do b <- receive disk; lite b ks.

(* ---------------------------------------------------------------- decidable equalities (for the case files) *)

Definition opt_hv_eqb (a b : option hv) : bool :=
  match a, b with
  | Some x, Some y => hv_eqb x y
  | None, None => true
  | _, _ => false
  end.

(* t_chash is an oracle input, not a field of Transaction: not compared *)
Definition tx_eqb (a b : tx) : bool :=
  (t_ty a =? t_ty b) && (t_repl a =? t_repl b) && (t_sig a =? t_sig b) && (t_sig32 a =? t_sig32 b)
  && (t_ts a =? t_ts b) && eqb_lN (t_from a) (t_from b) && eqb_lN (t_to a) (t_to b)
  && (t_rest a =? t_rest b) && (t_dlen a =? t_dlen b) && opt_hv_eqb (t_hfs a) (t_hfs b).

Definition header_nums (h : header) : list N :=
  [h_id h; h_timestamp h; h_previous_block_hash h; h_creator h; h_signature h;
   h_graveyard h; h_treasury h; h_total_fees h; h_total_fees_new h; h_total_fees_atr h;
   h_total_fees_cumulative h; h_avg_total_fees h; h_avg_total_fees_new h; h_avg_total_fees_atr h;
   h_total_payout_routing h; h_total_payout_mining h; h_total_payout_treasury h;
   h_total_payout_graveyard h; h_total_payout_atr h; h_avg_payout_routing h; h_avg_payout_mining h;
   h_avg_payout_treasury h; h_avg_payout_graveyard h; h_avg_payout_atr h; h_avg_fee_per_byte h;
   h_fee_per_byte h; h_avg_nolan_rebroadcast_per_block h; h_burnfee h; h_difficulty h;
   h_previous_block_unpaid h].

Definition header_eqb (a b : header) : bool :=
  eqb_lN (header_nums a) (header_nums b) && hv_eqb (h_merkle_root a) (h_merkle_root b).

Definition block_eqb (a b : block) : bool :=
  header_eqb (b_hdr a) (b_hdr b) && bhv_eqb (b_hash a) (b_hash b) && eqb_list tx_eqb (b_txs a) (b_txs b).

Definition res_eqb {A} (eqb : A -> A -> bool) (a b : res A) : bool :=
  match a, b with
  | Ok x, Ok y => eqb x y
  | Err, Err => true
  | Panic s, Panic s' => s =? s'
  | _, _ => false
  end.

(* ---------------------------------------------------------------- the lite-block route
   saito-rust/src/network_controller.rs, the closure of `lite_route` (GET /lite-block/<hash>/<key>).
   Inputs as the closure sees them; string decoding is an oracle input: the results of the real
   SaitoPublicKey::from_hex and from_base58 on the key segment are both given, the model takes
   the decision which of them is used. *)

Inductive key_arg : Type :=
| KMissing                                            (* no key segment: key = None *)
| KStr (len : N) (hex : option N) (b58 : option N).   (* key segment of [len] characters *)

(* key1.is_empty() => own key; len == 66 => from_hex else from_base58; undecodable => reject *)
Definition route_key (own : N) (k : key_arg) : option N :=
  match k with
  | KMissing => None
  | KStr len hex b58 => if len =? 0 then Some own else if len =? 66 then hex else b58
  end.

(* peers.find_peer_by_address(&key): None => [key]; Some(peer) => peer.key_list ++ [key] *)
Definition route_keylist (peers : list (N * list N)) (key : N) : list N :=
  match aget key peers with
  | Some kl => kl ++ [key]
  | None => [key]
  end.

Inductive route_out : Type :=
| RReject                       (* warp::reject::reject() *)
| RNotFound                     (* warp::reject::not_found() *)
| RServed (body : res block).   (* 200 with serialize_for_net(lite block); [body] = the block as decoded from those bytes *)

(* [file]: None = no blocks directory / no file name containing the extension and the hash string /
   unreadable; Some disk = the block stored in the (first) matching file.  A file that does not decode
   or on which Block::generate fails => not found. *)
Definition route (own : N) (k : key_arg) (peers : list (N * list N)) (file : option block) : route_out :=
  match route_key own k with
  | None => RReject
  | Some key =>
      let ks := route_keylist peers key in
      match file with
      | None => RNotFound
      | Some disk =>
          match receive disk with
          | Ok b => RServed (do l <- lite b ks; Ok (wire l))
          | Err => RNotFound
          | Panic s => RServed (Panic s)
          end
      end
  end.

Definition route_out_eqb (a b : route_out) : bool :=
  match a, b with
  | RReject, RReject => true
  | RNotFound, RNotFound => true
  | RServed x, RServed y => res_eqb block_eqb x y
  | _, _ => false
  end.

(* ---------------------------------------------------------------- the known classes (decidable) *)

(* some sibling pair (2k, 2k+1) of the block's transactions is omitted as a whole: exactly the
   condition under which the pair-merging loop performs a merge (for a block without SPV entries) *)
Fixpoint aligned_omitted (ks : list N) (l : list tx) : bool :=
  match l with
  | x :: y :: t => (negb (touches ks x) && negb (touches ks y)) || aligned_omitted ks t
  | _ => false
  end.

(* an omitted transaction whose own txs_replacements is > 1 (it has r leaves in the full tree,
   its placeholder has one) *)
Definition omitted_multi (ks : list N) (l : list tx) : bool :=
  existsb (fun t => negb (touches ks t) && (1 <? t_repl t)) l.

Definition some_omitted (ks : list N) (l : list tx) : bool :=
  existsb (fun t => negb (touches ks t)) l.

(* the merkle_root field of the block is not the root of its transactions *)
Definition stale_root (b : block) : bool :=
  negb (res_eqb hv_eqb (generate_merkle_root b true true) (Ok (h_merkle_root (b_hdr b)))).

(* ---------------------------------------------------------------- observation compared with the implementation *)

(* everything the harness observes of one (block, key list): the lite block, the root recomputed
   from its transactions, the block as received by the client and the root recomputed there,
   and the root recomputed from the full block *)
Record obs : Type := mkObs {
  o_lite : res block;
  o_root_lite : res hv;
  o_client : res block;
  o_root_client : res hv;
  o_root_full : res hv;
  o_client_ord : res (list N)   (* tx_ordinal of the output slips in the client's block, per transaction with outputs *)
}.

Definition observe (b : block) (ks : list N) : obs :=
  let l := lite b ks in
  let c := do l' <- l; receive l' in
  mkObs l
        (do l' <- l; generate_merkle_root l' false false)
        c
        (do c' <- c; generate_merkle_root c' false false)
        (generate_merkle_root b false false)
        (do c' <- c; Ok (out_ordinals 0 (b_txs c'))).

Definition obs_eqb (a b : obs) : bool :=
  res_eqb block_eqb (o_lite a) (o_lite b)
  && res_eqb hv_eqb (o_root_lite a) (o_root_lite b)
  && res_eqb block_eqb (o_client a) (o_client b)
  && res_eqb hv_eqb (o_root_client a) (o_root_client b)
  && res_eqb hv_eqb (o_root_full a) (o_root_full b)
  && res_eqb eqb_lN (o_client_ord a) (o_client_ord b).
