(* C20 — lock-order model.  No proofs here.

   The lock-acquisition graph itself is NOT written by hand: it is regenerated
   from the Rust sources on every check by /verif/srcfacts into
   gen/LockGraph.v (value [repo_graph : graph]).  This file fixes
     - the datatype of that graph,
     - the documented ranks (saito-core/src/core/defs.rs, the LOCK_ORDER constants),
     - the static checker [check] that is run on the graph by vm_compute,
     - the abstract path semantics [reach] the checker is proved sound for,
     - the abstract lock/wait-for semantics of the deadlock-freedom theorem,
     - the list of known violation sites of the pinned tree.

   One function = its list of events in evaluation order:
     Acq l m site   a guard on lock l is taken (read/write) — site "function#k"
     Rel l          a guard on l owned by this frame is dropped (scope end / drop(g))
     Hold l         a guard on l counts as held again (after leaving a branch
                    that dropped it: the other branch did not)
     Call site cs   a call that may reach any of the functions cs (over-approximated
                    resolution), made at this point, with the current guards alive. *)
From Saito Require Import Base.
From Coq Require Import String FMapPositive.

Inductive lock :=
| LCfg | LBlockchain | LMempool | LPeers | LWallet    (* the five shared locks *)
| LSaito                                               (* saito-wasm: the global SAITO mutex *)
| LOther (name : string).                              (* any other async lock (not ranked by C20) *)

Inductive mode := Read | Write.
Inductive crate := Core | Node | Spammer | Wasm.      (* saito-core, saito-rust, saito-spammer, saito-wasm *)
Inductive fkind :=
| Plain
| Export      (* exported to JavaScript by #[wasm_bindgen] (a wasm entry point) *)
| Task.       (* body of a tokio::spawn(..): a task root, never called *)

Inductive event :=
| Acq (l : lock) (m : mode) (site : string)
| Rel (l : lock)
| Hold (l : lock)
| Call (site : string) (callees : list positive).

Record fn := mkFn { f_id : positive; f_name : string; f_crate : crate; f_kind : fkind; f_body : list event }.
Definition graph := list fn.

(* ---------- documented order: configuration < blockchain < mempool < peers < wallet ---------- *)
Definition rank (l : lock) : option N :=
  match l with
  | LCfg => Some 3 | LBlockchain => Some 4 | LMempool => Some 5 | LPeers => Some 6 | LWallet => Some 7
  | LSaito | LOther _ => None
  end.

(* the LOCK_ORDER constants this table must agree with (compared with gen/LockGraph.v in props/C20.v) *)
Definition rank_table : list (string * N) :=
  [ ("LOCK_ORDER_BLOCKCHAIN"%string, 4); ("LOCK_ORDER_CONFIGS"%string, 3); ("LOCK_ORDER_MEMPOOL"%string, 5);
    ("LOCK_ORDER_PEERS"%string, 6); ("LOCK_ORDER_WALLET"%string, 7) ].

Definition lock_eqb (a b : lock) : bool :=
  match a, b with
  | LCfg, LCfg | LBlockchain, LBlockchain | LMempool, LMempool | LPeers, LPeers | LWallet, LWallet | LSaito, LSaito => true
  | LOther x, LOther y => String.eqb x y
  | _, _ => false
  end.

(* [bad h l]: acquiring l while h is held breaks the order.  Equal ranks are bad too: taking a lock
   that the task already holds (even read/read) deadlocks under tokio's fair RwLock as soon as a
   writer is queued in between. *)
Definition bad (h l : lock) : bool :=
  match rank h, rank l with
  | Some a, Some b => b <=? a
  | _, _ => false
  end.

(* ---------- lock sets and function summaries ---------- *)
Definition lockset := list lock.
Definition mem (l : lock) (s : lockset) : bool := existsb (lock_eqb l) s.
Definition add1 (l : lock) (s : lockset) : lockset := if mem l s then s else l :: s.
Definition union (a b : lockset) : lockset := fold_right add1 b a.
Definition subset (a b : lockset) : bool := forallb (fun l => mem l b) a.

Definition summ := PositiveMap.t lockset.
Definition sget (s : summ) (k : positive) : lockset :=
  match PositiveMap.find k s with Some x => x | None => [] end.

Definition ev_locks (s : summ) (e : event) : lockset :=
  match e with
  | Acq l _ _ => [l]
  | Call _ cs => flat_map (sget s) cs
  | Rel _ | Hold _ => []
  end.

(* one round: every function's summary := old summary ∪ own acquisitions ∪ callees' summaries *)
Definition step (g : graph) (s : summ) : summ :=
  fold_left (fun acc f =>
               PositiveMap.add (f_id f) (union (flat_map (ev_locks s) (f_body f)) (sget s (f_id f))) acc)
            g s.

Definition total_size (g : graph) (s : summ) : nat :=
  fold_left (fun n f => (n + List.length (sget s (f_id f)))%nat) g 0%nat.

(* fuelled fixpoint; stops early when a round adds nothing.  Its result is NOT trusted:
   [summaries_closed] below re-checks that it is a post-fixpoint. *)
Fixpoint iterate (fuel : nat) (g : graph) (s : summ) : summ :=
  match fuel with
  | O => s
  | S n => let s' := step g s in
           if Nat.eqb (total_size g s') (total_size g s) then s' else iterate n g s'
  end.

Definition summaries (g : graph) : summ := iterate (S (List.length g)) g (PositiveMap.empty lockset).

Definition ev_closed (s : summ) (me : positive) (e : event) : bool :=
  match e with
  | Acq l _ _ => mem l (sget s me)
  | Call _ cs => forallb (fun c => subset (sget s c) (sget s me)) cs
  | Rel _ | Hold _ => true
  end.

Definition summaries_closed (g : graph) (s : summ) : bool :=
  forallb (fun f => forallb (ev_closed s (f_id f)) (f_body f)) g.

(* ---------- the order check ---------- *)
Record violation := mkV { v_fn : string; v_held : lock; v_site : string; v_acq : lock;
                          v_gated : bool (* the frame holds the wasm gate LSaito at that point *) }.

Fixpoint remove_one (l : lock) (h : list lock) : list lock :=
  match h with
  | [] => []
  | x :: t => if lock_eqb l x then t else x :: remove_one l t
  end.

Definition upd (held : list lock) (e : event) : list lock :=
  match e with
  | Acq l _ _ | Hold l => l :: held
  | Rel l => remove_one l held
  | Call _ _ => held
  end.

Definition clash (fname site : string) (held : list lock) (l : lock) : list violation :=
  map (fun h => mkV fname h site l (mem LSaito held)) (filter (fun h => bad h l) held).

Definition viol_ev (s : summ) (fname : string) (held : list lock) (e : event) : list violation :=
  match e with
  | Acq l _ site => clash fname site held l
  | Call site cs => flat_map (fun c => flat_map (clash fname site held) (sget s c)) cs
  | Rel _ | Hold _ => []
  end.

Fixpoint scan (s : summ) (fname : string) (held : list lock) (es : list event) : list violation :=
  match es with
  | [] => []
  | e :: t => viol_ev s fname held e ++ scan s fname (upd held e) t
  end.

Definition violations_with (s : summ) (g : graph) : list violation :=
  flat_map (fun f => scan s (f_name f) [] (f_body f)) g.

Definition violations (g : graph) : list violation := violations_with (summaries g) g.

Definition in_known (known : list string) (site : string) : bool := existsb (String.eqb site) known.

(* ---------- saito-wasm: the SAITO gate ----------
   An exported function is gated when every acquisition of a shared lock and every call that may
   acquire one happens while its frame holds LSaito.  When ALL exported functions are gated, every
   wasm task that touches the shared locks holds the one global mutex while it does so: they are
   serialised, and an order violation under the gate is harmless ("unless all such acquisitions are
   serialised by a common outer lock"). *)
Definition touches_shared (s : lockset) : bool := existsb (fun l => match rank l with Some _ => true | None => false end) s.

Fixpoint gated_scan (s : summ) (held : list lock) (es : list event) : bool :=
  match es with
  | [] => true
  | e :: t => (negb (touches_shared (ev_locks s e)) || mem LSaito held) && gated_scan s (upd held e) t
  end.

Definition is_export (f : fn) : bool :=
  match f_crate f, f_kind f with Wasm, Export => true | _, _ => false end.

(* exported wasm functions that touch a shared lock outside the gate *)
Definition ungated_with (s : summ) (g : graph) : list string :=
  map f_name (filter (fun f => is_export f && negb (gated_scan s [] (f_body f))) g).
Definition ungated (g : graph) : list string := ungated_with (summaries g) g.
Definition all_gated_with (s : summ) (g : graph) : bool :=
  match ungated_with s g with [] => true | _ => false end.

(* a violation is accepted when its site is listed, or it happens under the gate and the gate is universal *)
Definition accepted (known : list string) (ag : bool) (v : violation) : bool :=
  in_known known (v_site v) || (v_gated v && ag).

(* [nl]: functions that the translator deliberately did not link same-named calls to (stop-list of
   ubiquitous std method names, qualifiers that are types of external crates).  Requiring each of them
   to be free of shared locks validates that shortcut on every run. *)
Definition lock_free (s : summ) (c : positive) : bool := negb (touches_shared (sget s c)).

(* the summaries used are a post-fixpoint, the unlinked functions are lock-free, every violation is accepted *)
Definition check (g : graph) (nl : list positive) (known : list string) : bool :=
  let s := summaries g in
  summaries_closed g s && forallb (lock_free s) nl &&
  forallb (accepted known (all_gated_with s g)) (violations_with s g).

(* listed sites that no longer violate (stale entries) *)
Definition stale (g : graph) (known : list string) : list string :=
  let vs := violations g in
  filter (fun k => negb (existsb (fun v => String.eqb (v_site v) k) vs)) known.

(* ---------- abstract path semantics of a graph ----------
   A task runs any function with nothing held.  [reach known g outer held es]: some task can be in a
   frame whose remaining events are [es], with [held] the guards of that frame and [outer] the guards of
   all calling frames.  A call may be skipped over (the callee returned: its guards are gone) or entered.
   Guards belong to frames: [Rel] only releases a guard of the current frame.  Paths that enter a callee
   through a listed (known-violating) call site are not followed. *)
Definition find_fn (g : graph) (k : positive) : option fn := find (fun f => Pos.eqb (f_id f) k) g.

Inductive reach (known : list string) (g : graph) : list lock -> list lock -> list event -> Prop :=
| reach_root : forall f, In f g -> reach known g [] [] (f_body f)
| reach_next : forall o h e es, reach known g o h (e :: es) -> reach known g o (upd h e) es
| reach_call : forall o h site cs es c f,
    reach known g o h (Call site cs :: es) -> in_known known site = false ->
    In c cs -> find_fn g c = Some f ->
    reach known g (h ++ o) [] (f_body f).

(* paths are ordered when every acquisition performed (at a site that is not listed) takes a lock of
   strictly greater rank than every ranked lock the task holds at that moment, in any frame -- or the
   task is inside the wasm gate (possible only if [check] found every wasm export gated) *)
Definition lock_lt (h l : lock) : Prop := bad h l = false.

Definition ordered_paths (known : list string) (g : graph) : Prop :=
  forall o h l m site es, reach known g o h (Acq l m site :: es) -> in_known known site = false ->
  forall x, In x (h ++ o) -> lock_lt x l \/ In LSaito (h ++ o).

(* ---------- abstract lock semantics for the deadlock argument ----------
   A snapshot of the system: each task holds some locks and may be waiting for one, with its position
   (ticket) in that lock's FIFO queue (tokio's RwLock is fair: a reader queues behind an earlier writer).
   t1 is blocked by t2 when t2 holds the lock t1 waits for, or waits for the same lock with an earlier
   ticket.  A deadlock is a cycle of [blocked_by]. *)
Section Deadlock.
  Context {L : Type} (rk : L -> nat).
  Record task := mkTask { holds : list L; waits : option (L * nat) }.

  Definition ordered_task (t : task) : Prop :=
    forall w k, waits t = Some (w, k) -> forall h, In h (holds t) -> (rk h < rk w)%nat.

  Definition blocked_by (ts : list task) (t1 t2 : task) : Prop :=
    In t1 ts /\ In t2 ts /\
    exists l k1, waits t1 = Some (l, k1) /\
      (In l (holds t2) \/ exists l2 k2, waits t2 = Some (l2, k2) /\ rk l2 = rk l /\ (k2 < k1)%nat).
End Deadlock.
Arguments mkTask {L} holds waits.
Arguments holds {L} t.
Arguments waits {L} t.

(* rank as a total function, for tasks that only use the five shared locks *)
Definition rk5 (l : lock) : nat := match rank l with Some n => N.to_nat n | None => 0 end.
Definition ranked (l : lock) : Prop := rank l <> None.

(* ---------- known violation sites of the pinned tree (each confirmed by reading the source) ---------- *)
Definition known_sites : list string :=
  [ (* (the three saito-core sites of the pinned tree -- Network::handle_handshake_challenge#c3,
       handle_handshake_response#c3 and #c13: configuration / blockchain taken under the peers write guard --
       were repaired in /repo by fixes 49f9179 and dd4b06d and are no longer listed) *)
    (* (saito-rust main.rs run_utxo_to_issuance_converter#2 / #3 -- three configuration read guards alive in one
       Context::new(..) statement -- were repaired in /repo by fix 9007b23 and are no longer listed) *)
    (* saitowasm.rs, under the SAITO gate -- but the gate is not universal (WasmWallet::*, WasmBlockchain::*
       and initialize take wallet / blockchain / configuration locks without it):
       wallet write guard, then configuration read, then blockchain read *)
    "saito_wasm::saitowasm::create_transaction#2";
    "saito_wasm::saitowasm::create_transaction#3";
    "saito_wasm::saitowasm::create_transaction_with_multiple_payments#2";
    "saito_wasm::saitowasm::create_transaction_with_multiple_payments#3";
    (* blockchain read guard + mempool write guard alive, blockchain read again (miner target unset) *)
    "saito_wasm::saitowasm::produce_block_with_gt#5" ]%string.

(* the listed sites with the exact (held, acquired) pairs that make them findings: a listed site does not
   excuse a different violation at the same place (checked by [pairs_pinned], props/C20.v) *)
Definition known_pairs : list (string * lock * lock) :=
  [ ("saito_wasm::saitowasm::create_transaction#2", LWallet, LCfg);
    ("saito_wasm::saitowasm::create_transaction#3", LWallet, LBlockchain);
    ("saito_wasm::saitowasm::create_transaction_with_multiple_payments#2", LWallet, LCfg);
    ("saito_wasm::saitowasm::create_transaction_with_multiple_payments#3", LWallet, LBlockchain);
    ("saito_wasm::saitowasm::produce_block_with_gt#5", LMempool, LBlockchain);
    ("saito_wasm::saitowasm::produce_block_with_gt#5", LBlockchain, LBlockchain) ]%string.

Definition pair_listed (v : violation) : bool :=
  existsb (fun p => match p with (site, h, l) =>
             String.eqb site (v_site v) && lock_eqb h (v_held v) && lock_eqb l (v_acq v) end) known_pairs.

(* every violation at a listed site is one of the listed pairs *)
Definition pairs_pinned (g : graph) : bool :=
  forallb (fun v => negb (in_known known_sites (v_site v)) || pair_listed v) (violations g).

(* saito-wasm exports that touch a shared lock without holding the SAITO mutex, as of the reviewed tree.
   The gate is an anchored mechanism of the property; it is not universal (this list), which is why
   violations under the gate are listed findings.  Pinning the list makes any FURTHER export that loses or
   delays its `SAITO.lock().await` break the obligation [ungated_pinned] (props/C20.v). *)
Definition known_ungated : list string :=
  [ "saito_wasm::saitowasm::initialize";
    "saito_wasm::wasm_blockchain::WasmBlockchain::get_fork_id";
    "saito_wasm::wasm_blockchain::WasmBlockchain::get_genesis_block_id";
    "saito_wasm::wasm_blockchain::WasmBlockchain::get_genesis_timestamp";
    "saito_wasm::wasm_blockchain::WasmBlockchain::get_hashes_at_id";
    "saito_wasm::wasm_blockchain::WasmBlockchain::get_last_block_hash";
    "saito_wasm::wasm_blockchain::WasmBlockchain::get_last_block_id";
    "saito_wasm::wasm_blockchain::WasmBlockchain::get_last_burnfee";
    "saito_wasm::wasm_blockchain::WasmBlockchain::get_last_timestamp";
    "saito_wasm::wasm_blockchain::WasmBlockchain::get_latest_block_id";
    "saito_wasm::wasm_blockchain::WasmBlockchain::get_longest_chain_hash_at";
    "saito_wasm::wasm_blockchain::WasmBlockchain::get_longest_chain_hash_at_id";
    "saito_wasm::wasm_blockchain::WasmBlockchain::get_lowest_acceptable_block_hash";
    "saito_wasm::wasm_blockchain::WasmBlockchain::get_lowest_acceptable_block_id";
    "saito_wasm::wasm_blockchain::WasmBlockchain::get_lowest_acceptable_timestamp";
    "saito_wasm::wasm_blockchain::WasmBlockchain::reset";
    "saito_wasm::wasm_blockchain::WasmBlockchain::set_fork_id";
    "saito_wasm::wasm_blockchain::WasmBlockchain::set_safe_to_prune_transaction";
    "saito_wasm::wasm_wallet::WasmWallet::add_slip";
    "saito_wasm::wasm_wallet::WasmWallet::add_to_pending";
    "saito_wasm::wasm_wallet::WasmWallet::get_balance";
    "saito_wasm::wasm_wallet::WasmWallet::get_key_list";
    "saito_wasm::wasm_wallet::WasmWallet::get_pending_txs";
    "saito_wasm::wasm_wallet::WasmWallet::get_private_key";
    "saito_wasm::wasm_wallet::WasmWallet::get_public_key";
    "saito_wasm::wasm_wallet::WasmWallet::get_slips";
    "saito_wasm::wasm_wallet::WasmWallet::load";
    "saito_wasm::wasm_wallet::WasmWallet::reset";
    "saito_wasm::wasm_wallet::WasmWallet::save";
    "saito_wasm::wasm_wallet::WasmWallet::set_private_key";
    "saito_wasm::wasm_wallet::WasmWallet::set_public_key" ]%string.

Definition ungated_pinned (g : graph) : bool :=
  forallb (fun n => existsb (String.eqb n) known_ungated) (ungated g).

(* non-vacuity example for props/C20.v: the functions behind DESIGN 9 row 18, transcribed by hand *)
Definition excerpt : graph :=
  [ mkFn 1 "Network::handle_handshake_response" Core Plain
      [Acq LPeers Write "hr#0"; Call "hr#c0" [2%positive]; Rel LPeers];
    mkFn 2 "Network::request_blockchain_from_peer" Core Plain
      [Acq LCfg Read "rb#0"; Acq LBlockchain Read "rb#1"; Rel LBlockchain; Rel LCfg] ]%string.

(* ---------- human-readable report of the violations that [check] does not accept ----------
   (printed by props/C20.v between markers and copied by bin/check into the replay file; not used by [check]
   or by any theorem) *)
Definition show_lock (l : lock) : string :=
  match l with
  | LCfg => "configuration" | LBlockchain => "blockchain" | LMempool => "mempool" | LPeers => "peers"
  | LWallet => "wallet" | LSaito => "SAITO" | LOther n => n
  end.

(* one call chain from function c down to an acquisition of l: the functions entered, then the site *)
Fixpoint witness (fuel : nat) (s : summ) (g : graph) (c : positive) (l : lock) : list string :=
  match fuel with
  | O => ["..."%string]
  | S n =>
      match find_fn g c with
      | None => []
      | Some f =>
          f_name f ::
          (fix go (es : list event) : list string :=
             match es with
             | [] => []
             | Acq l' _ site :: t => if lock_eqb l l' then [("acquisition " ++ site)%string] else go t
             | Call _ cs :: t =>
                 match find (fun c' => mem l (sget s c')) cs with
                 | Some c' => witness n s g c' l
                 | None => go t
                 end
             | _ :: t => go t
             end) (f_body f)
      end
  end.

Definition explain_ev (known : list string) (ag : bool) (s : summ) (g : graph) (held : list lock) (e : event)
  : list string :=
  let rejected site := negb (in_known known site || (mem LSaito held && ag)) in
  let line site h l how :=
    (site ++ " : holds " ++ show_lock h ++ ", then acquires " ++ show_lock l ++ " " ++ how)%string in
  match e with
  | Acq l _ site =>
      if rejected site then map (fun h => line site h l "directly"%string) (filter (fun h => bad h l) held) else []
  | Call site cs =>
      if rejected site then
        flat_map (fun c => flat_map (fun l =>
          map (fun h => line site h l ("via " ++ String.concat " -> " (witness 64 s g c l))%string)
              (filter (fun h => bad h l) held)) (sget s c)) cs
      else []
  | Rel _ | Hold _ => []
  end.

Fixpoint explain_scan known ag s g (held : list lock) (es : list event) : list string :=
  match es with
  | [] => []
  | e :: t => explain_ev known ag s g held e ++ explain_scan known ag s g (upd held e) t
  end.

Definition explain (g : graph) (known : list string) : list string :=
  let s := summaries g in
  let ag := all_gated_with s g in
  flat_map (fun f => explain_scan known ag s g [] (f_body f)) g.

Definition explain_pairs (g : graph) : list string :=
  map (fun v => (v_site v ++ " : holds " ++ show_lock (v_held v) ++ ", then acquires " ++ show_lock (v_acq v)
                 ++ " -- the site is listed in known_sites, but not with this pair of locks (known_pairs)")%string)
      (filter (fun v => in_known known_sites (v_site v) && negb (pair_listed v)) (violations g)).

Definition explain_ungated (g : graph) : list string :=
  map (fun n => (n ++ " : wasm export acquires a shared lock (directly or through a callee) before / without "
                 ++ "holding the SAITO mutex, and is not in known_ungated")%string)
      (filter (fun n => negb (existsb (String.eqb n) known_ungated)) (ungated g)).

(* ---------- statistics printed by props/C20.v ---------- *)
Definition count_acq (g : graph) : N :=
  N.of_nat (List.length (flat_map (fun f => filter (fun e => match e with Acq _ _ _ => true | _ => false end) (f_body f)) g)).
(* (held shared lock, acquired shared lock) pairs the checker compares, and functions with at least one *)
Definition is_ranked (l : lock) : bool := match rank l with Some _ => true | None => false end.
Fixpoint pairs_scan (s : summ) (held : list lock) (es : list event) : nat :=
  match es with
  | [] => 0%nat
  | e :: t => (List.length (filter is_ranked held) * List.length (filter is_ranked (ev_locks s e)) + pairs_scan s (upd held e) t)%nat
  end.
Definition count_pairs (g : graph) : N * N :=
  let s := summaries g in
  let per := map (fun f => pairs_scan s [] (f_body f)) g in
  (N.of_nat (fold_left Nat.add per 0%nat), N.of_nat (List.length (filter (fun n => negb (Nat.eqb n 0)) per))).
Definition count_edges (g : graph) : N :=
  N.of_nat (List.length (flat_map (fun f => flat_map (fun e => match e with Call _ cs => cs | _ => [] end) (f_body f)) g)).
