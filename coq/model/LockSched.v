(* C20 — concrete deadlock schedules in the path semantics of the extracted lock graph.  No proofs here.

   [LockOrder.check] is an over-approximating static checker; when it rejects the graph regenerated from
   the sources, props/C20.v used to be able to name the offending site only.  This file adds the converse
   direction: an (untrusted) search [find_schedule] proposes, for a violation, a SCHEDULE -- a few tasks,
   each given as a root function and an explicit list of choices (step over the next event / enter callee c
   at the call in front) -- and a validator [valid_sched], proved sound in proofs/LockSchedProofs.v, replays
   every task in the path semantics [LockOrder.reach], checks that each stops in front of an acquisition and
   that the tasks block one another in a cycle.  A validated schedule is a concrete history of the model on
   which the property fails: it is what bin/check writes into the replay file of a C20 violation.

   The validator is stricter than the [blocked_by] relation of the deadlock theorem: it tracks guard MODES
   (read/write) and demands that
     - the snapshot is possible under RwLock/Mutex exclusion (two tasks hold the same lock only if both hold
       it for reading; the wasm SAITO mutex and unranked locks are exclusive),
     - a task waiting for a lock held by another is really blocked (one of the two guards is a write guard),
     - a task queued behind an earlier waiter is queued behind a WRITER (tokio's fair, write-preferring queue).  *)
From Saito Require Import Base LockOrder.
From Coq Require Import String FMapPositive.

Inductive choice := Step | Enter (c : positive).

Definition mlock := (lock * mode)%type.

Record pst := mkP { p_o : list lock; p_h : list lock; p_es : list event;
                    p_om : list mlock; p_hm : list mlock }.

Fixpoint remove_one_m (l : lock) (h : list mlock) : list mlock :=
  match h with
  | [] => []
  | (x, m) :: t => if lock_eqb l x then t else (x, m) :: remove_one_m l t
  end.

(* [Hold l] (a guard counted as held again after a branch that dropped it) carries no mode: Write, the
   choice that makes the snapshot-exclusion test hardest to pass *)
Definition updm (h : list mlock) (e : event) : list mlock :=
  match e with
  | Acq l m _ => (l, m) :: h
  | Hold l => (l, Write) :: h
  | Rel l => remove_one_m l h
  | Call _ _ => h
  end.

Definition step1 (g : graph) (st : pst) (c : choice) : option pst :=
  match c, p_es st with
  | Step, e :: t => Some (mkP (p_o st) (upd (p_h st) e) t (p_om st) (updm (p_hm st) e))
  | Enter c, Call _ cs :: _ =>
      if existsb (Pos.eqb c) cs then
        match find_fn g c with
        | Some f => Some (mkP (p_h st ++ p_o st) [] (f_body f) (p_hm st ++ p_om st) [])
        | None => None
        end
      else None
  | _, _ => None
  end.

Fixpoint run_from (g : graph) (st : pst) (cs : list choice) : option pst :=
  match cs with
  | [] => Some st
  | c :: t => match step1 g st c with Some st' => run_from g st' t | None => None end
  end.

Definition run_path (g : graph) (r : positive) (cs : list choice) : option pst :=
  match find_fn g r with
  | Some f => run_from g (mkP [] [] (f_body f) [] []) cs
  | None => None
  end.

(* one task of a schedule: root function, path, ticket in the queue of the lock it ends up waiting for *)
Record stask := mkST { st_root : positive; st_path : list choice; st_ticket : nat }.

(* the task as the deadlock theorem sees it, plus the moded guards and the awaited (lock, mode, site) *)
Record rtask := mkRT { rt_task : @task lock; rt_held : list mlock; rt_wait : lock; rt_mode : mode; rt_site : string;
                       rt_fn : string }.

Definition task_at (g : graph) (s : stask) : option rtask :=
  match run_path g (st_root s) (st_path s) with
  | Some st =>
      match p_es st with
      | Acq w m site :: _ =>
          if is_ranked w then
            Some (mkRT (mkTask (filter is_ranked (p_h st ++ p_o st)) (Some (w, st_ticket s)))
                       (p_hm st ++ p_om st) w m site
                       (match find_fn g (st_root s) with Some f => f_name f | None => ""%string end))
          else None
      | _ => None
      end
  | None => None
  end.

Definition is_write (m : mode) : bool := match m with Write => true | Read => false end.

(* t1 is blocked by t2 (boolean form of [blocked_by] on the two tasks) *)
Definition blocks_b (t1 t2 : @task lock) : bool :=
  match waits t1 with
  | Some (l, k1) =>
      mem l (holds t2) ||
      match waits t2 with
      | Some (l2, k2) => Nat.eqb (rk5 l2) (rk5 l) && Nat.ltb k2 k1
      | None => false
      end
  | None => false
  end.

Fixpoint chain_b (ts : list (@task lock)) (first : @task lock) : bool :=
  match ts with
  | [] => false
  | t :: r => match r with
              | [] => blocks_b t first
              | t' :: _ => blocks_b t t' && chain_b r first
              end
  end.

Definition cycle_b (ts : list (@task lock)) : bool :=
  match ts with [] => false | t :: _ => chain_b ts t end.

(* mode-aware strengthening (see the header) *)
Definition really_blocks (a b : rtask) : bool :=
  (* held by b, and one side writes *)
  existsb (fun x => lock_eqb (fst x) (rt_wait a) && (is_write (snd x) || is_write (rt_mode a))) (rt_held b)
  (* or queued behind b, an earlier writer on the same lock *)
  || (lock_eqb (rt_wait b) (rt_wait a) && is_write (rt_mode b) &&
      match waits (rt_task a), waits (rt_task b) with
      | Some (_, k1), Some (_, k2) => Nat.ltb k2 k1
      | _, _ => false
      end).

Fixpoint chain_m (ts : list rtask) (first : rtask) : bool :=
  match ts with
  | [] => false
  | t :: r => match r with
              | [] => really_blocks t first
              | t' :: _ => really_blocks t t' && chain_m r first
              end
  end.

Definition shareable (x y : mlock) : bool :=
  negb (lock_eqb (fst x) (fst y)) ||
  (is_ranked (fst x) && negb (is_write (snd x)) && negb (is_write (snd y))).

Definition compatible2 (a b : rtask) : bool :=
  forallb (fun x => forallb (shareable x) (rt_held b)) (rt_held a).

Fixpoint compatible (ts : list rtask) : bool :=
  match ts with
  | [] => true
  | t :: r => forallb (compatible2 t) r && compatible r
  end.

(* the validator: every task replays to an acquisition point of a ranked lock; the cycle closes in the sense
   of the deadlock theorem; and the mode-aware conditions hold *)
Fixpoint all_tasks (g : graph) (sc : list stask) : option (list rtask) :=
  match sc with
  | [] => Some []
  | s :: r => match task_at g s, all_tasks g r with
              | Some t, Some ts => Some (t :: ts)
              | _, _ => None
              end
  end.

Definition valid_sched (g : graph) (sc : list stask) : option (list (@task lock)) :=
  match all_tasks g sc with
  | Some rts =>
      let ts := map rt_task rts in
      if cycle_b ts && match rts with [] => false | t :: _ => chain_m rts t end && compatible rts
      then Some ts else None
  | None => None
  end.

(* ---------- the search (not trusted: every result goes through [valid_sched]) ---------- *)

(* a path from the start of function c down to the first acquisition of l, following the summaries *)
Fixpoint descend (fuel : nat) (s : summ) (g : graph) (c : positive) (l : lock) : option (list choice) :=
  match fuel with
  | O => None
  | S n =>
      match find_fn g c with
      | None => None
      | Some f =>
          (fix go (es : list event) (acc : list choice) : option (list choice) :=
             match es with
             | [] => None
             | Acq l' _ _ :: t => if lock_eqb l l' then Some (rev acc) else go t (Step :: acc)
             | Call _ cs :: t =>
                 match find (fun c' => mem l (sget s c')) cs with
                 | Some c' => match descend n s g c' l with
                              | Some p => Some (rev acc ++ Enter c' :: p)
                              | None => go t (Step :: acc)
                              end
                 | None => go t (Step :: acc)
                 end
             | _ :: t => go t (Step :: acc)
             end) (f_body f) []
      end
  end.

(* every (held lock h, wanted lock l, site, path) of one function body satisfying [want h l] *)
Fixpoint pair_paths (s : summ) (g : graph) (want : lock -> lock -> bool)
         (held : list lock) (acc : list choice) (es : list event) : list (lock * lock * string * list choice) :=
  match es with
  | [] => []
  | e :: t =>
      (match e with
       | Acq l _ site => map (fun h => (h, l, site, rev acc)) (filter (fun h => want h l) held)
       | Call site cs =>
           flat_map (fun c => flat_map (fun l =>
             match filter (fun h => want h l) held with
             | [] => []
             | hs => match descend 64 s g c l with
                     | Some p => map (fun h => (h, l, site, (rev acc ++ Enter c :: p)%list)) hs
                     | None => []
                     end
             end) (sget s c)) cs
       | Rel _ | Hold _ => []
       end ++ pair_paths s g want (upd held e) (Step :: acc) t)%list
  end.

Definition all_pair_paths (s : summ) (g : graph) (want : lock -> lock -> bool)
  : list (positive * (lock * lock * string * list choice)) :=
  flat_map (fun f => map (fun x => (f_id f, x)) (pair_paths s g want [] [] (f_body f))) g.

(* tasks that stop in front of a WRITE acquisition of l (the queued writer of the fair-queue scenarios) *)
Fixpoint writer_paths (l : lock) (acc : list choice) (es : list event) : list (list choice) :=
  match es with
  | [] => []
  | e :: t =>
      (match e with
       | Acq l' Write _ => if lock_eqb l l' then [rev acc] else []
       | _ => []
       end ++ writer_paths l (Step :: acc) t)%list
  end.

Definition all_writers (g : graph) (l : lock) : list (positive * list choice) :=
  flat_map (fun f => map (fun p => (f_id f, p)) (writer_paths l [] (f_body f))) g.

(* candidate schedules for "task t1 (root r1, path p1) holds hl and waits for l" *)
(* tasks of one schedule live in one runtime: saito-wasm (single JavaScript thread, tasks = exports and the
   futures they start) or the native node (saito-rust / saito-spammer threads running saito-core code) *)
Definition is_wasm_fn (g : graph) (r : positive) : bool :=
  match find_fn g r with Some f => match f_crate f with Wasm => true | _ => false end | None => false end.
Definition same_runtime (g : graph) (r1 r2 : positive) : bool := Bool.eqb (is_wasm_fn g r1) (is_wasm_fn g r2).

Definition candidates (s : summ) (g : graph) (r1 : positive) (p1 : list choice) (hl l : lock) : list (list stask) :=
  let wl := firstn 12 (filter (fun w => same_runtime g r1 (fst w)) (all_writers g l)) in
  let wh := firstn 12 (filter (fun w => same_runtime g r1 (fst w)) (all_writers g hl)) in
  if lock_eqb hl l then
    (* the lock is already held by the task itself: a writer queued in between blocks the second guard *)
    ([mkST r1 p1 1] :: map (fun w => [mkST r1 p1 2; mkST (fst w) (snd w) 1]) wl)
  else
    let cs := firstn 40 (filter (fun c => same_runtime g r1 (fst c)) (all_pair_paths s g (fun h x => lock_eqb h l && lock_eqb x hl))) in
    flat_map (fun c =>
      let rc := fst c in let pc := snd (snd c) in
      [[mkST r1 p1 1; mkST rc pc 1]] ++
      map (fun w => [mkST r1 p1 2; mkST (fst w) (snd w) 1; mkST rc pc 1]) wl ++
      map (fun w => [mkST r1 p1 1; mkST rc pc 2; mkST (fst w) (snd w) 1]) wh ++
      flat_map (fun w => map (fun w' =>
        [mkST r1 p1 2; mkST (fst w) (snd w) 1; mkST rc pc 2; mkST (fst w') (snd w') 1]) (firstn 4 wh)) (firstn 4 wl)) cs.

Definition first_valid (g : graph) (cands : list (list stask)) : option (list stask) :=
  find (fun sc => match valid_sched g sc with Some _ => true | None => false end) cands.

(* for every violating (site, held, acquired) whose site satisfies [sel]: a validated schedule, if one is found *)
Definition find_schedules (g : graph) (sel : string -> bool)
  : list (string * lock * lock * option (list stask)) :=
  let s := summaries g in
  let vs := filter (fun x => match x with (_, (_, _, site, _)) => sel site end) (all_pair_paths s g bad) in
  map (fun x => match x with (r1, (h, l, site, p1)) => (site, h, l, first_valid g (candidates s g r1 p1 h l)) end) vs.

(* ---------- printing ---------- *)
Definition show_mode (m : mode) : string := match m with Read => "read" | Write => "write" end.

Definition show_rtask (i : nat) (t : rtask) : string :=
  ("task " ++ String (Ascii.ascii_of_nat (48 + i)) "" ++ " runs " ++ rt_fn t ++ ", holds [" ++
   String.concat ", " (map (fun x => show_lock (fst x) ++ "(" ++ show_mode (snd x) ++ ")") (rt_held t))
   ++ "], waits at " ++ rt_site t ++ " for " ++ show_lock (rt_wait t) ++ "(" ++ show_mode (rt_mode t) ++ ") with queue ticket "
   ++ String (Ascii.ascii_of_nat (48 + match waits (rt_task t) with Some (_, k) => k | None => 0 end)) "")%string.

Fixpoint show_choice_list (cs : list choice) : string :=
  match cs with
  | [] => ""
  | Step :: t => ("s" ++ show_choice_list t)%string
  | Enter _ :: t => (">" ++ show_choice_list t)%string
  end.

Fixpoint show_tasks (i : nat) (ts : list rtask) : list string :=
  match ts with [] => [] | t :: r => show_rtask i t :: show_tasks (S i) r end.

Definition show_schedule (g : graph) (x : string * lock * lock * option (list stask)) : string :=
  match x with
  | (site, h, l, Some sc) =>
      (site ++ " : holds " ++ show_lock h ++ ", then acquires " ++ show_lock l ++ " -- DEADLOCK SCHEDULE (each task blocked by the next, the last by the first): " ++
       String.concat "; " (match all_tasks g sc with Some rts => show_tasks 1 rts | None => [] end) ++
       " -- paths (s = step over next event, > = enter callee): " ++ String.concat " | " (map (fun t => show_choice_list (st_path t)) sc))%string
  | (site, h, l, None) =>
      (site ++ " : holds " ++ show_lock h ++ ", then acquires " ++ show_lock l ++ " -- no schedule found")%string
  end.

(* the violations that [check g nl known_sites] does not accept: unlisted site and not excused by a universal
   gate, or listed site with a pair of locks that is not the listed one *)
Definition unaccepted (g : graph) : list (string * lock * lock) :=
  let s := summaries g in
  let ag := all_gated_with s g in
  map (fun v => (v_site v, v_held v, v_acq v))
      (filter (fun v => negb (accepted known_sites ag v) || (in_known known_sites (v_site v) && negb (pair_listed v)))
              (violations_with s g)).

Definition schedules_for (g : graph) (which : list (string * lock * lock)) : list (string * lock * lock * option (list stask)) :=
  filter (fun x => match x with (site, h, l, _) =>
            existsb (fun w => match w with (site', h', l') => String.eqb site site' && lock_eqb h h' && lock_eqb l l' end) which end)
         (find_schedules g (fun site => existsb (fun w => String.eqb site (fst (fst w))) which)).

(* non-vacuity example for props/C20.v: the excerpt of LockOrder plus an ordered block-processing task *)
Definition excerpt2 : graph :=
  List.app excerpt [ mkFn 3 "Blockchain::add_blocks_from_mempool"%string Core Plain
                  [Acq LBlockchain Write "ab#0"%string; Acq LPeers Read "ab#1"%string; Rel LPeers; Rel LBlockchain] ].

(* no task of the schedule is inside the wasm gate (native schedules; wasm schedules whose tasks are all
   ungated exports) *)
Definition gate_free1 (g : graph) (s : stask) : bool :=
  match run_path g (st_root s) (st_path s) with
  | Some st => negb (mem LSaito (p_h st ++ p_o st))
  | None => false
  end.
Definition gate_free (g : graph) (sc : list stask) : bool := forallb (gate_free1 g) sc.
