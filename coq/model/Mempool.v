(* Model of the transaction pool of saito-core:
     src/core/consensus/mempool.rs      Mempool::{add_transaction_if_validates, add_transaction,
                                         add_golden_ticket, bundle_block, can_bundle_block,
                                         delete_transactions, delete_block}
     src/core/consensus/blockchain.rs   Blockchain::{remove_block_transactions, add_block_failure,
                                         add_block_transactions_back}
     src/core/consensus/block.rs        Block::create (the drain of the transaction map and the
                                         double-spend detection that can fail after it)
   No proofs here.  The model describes /repo after the fixes 0fedb86, 222ce93, 2cf0b5a,
   cafb4ab, ff837ac (delete_transactions rebuilds utxo_map from the transactions that are
   still pooled; add_block_transactions_back re-inserts through add_transaction) and the
   producer-side fixes f62222f, e0300b2, 1214e31, 9879695, ffb4da9, bb88717, df3ca14, 716c212 (see bundle_block and
   remove_block_transactions below).

   Abstraction.  Signatures, utxoset keys and hashes are interned numbers.  A
   transaction carries what the pool reads of it: its signature [t_id] (key of
   Mempool.transactions), its input slips as (utxoset_key, amount) in order,
   [total_work_for_me] as computed by Transaction::generate for the node's key,
   its type, and [t_ok] = the verdict of every check of Transaction::validate
   other than the utxoset lookup (signature, routing path, amounts, type rules;
   for the types whose validate() returns before the lookup -- Fee, SPV,
   BlockStake -- it is the whole verdict; the age rule of bb88717 is explicit, see
   [age_ok]).  The chain state read by validate is [chain]: the list of spendable
   utxoset keys (entries of Blockchain.utxoset with value true), the id of the latest block
   and the genesis period.

   Hash maps are lists; nothing observable depends on their order: the
   observation sorts, and the only order-dependent code (Block::create
   draining the map) influences only the order of transactions in the block. *)
From Saito Require Import Base.

Inductive ttype := TNormal | TFee | TGoldenTicket | TBlockStake | TSPV | TATR | TIssuance | TOther.

Definition ttype_code (t : ttype) : N :=
  match t with TNormal => 0 | TFee => 1 | TGoldenTicket => 2 | TBlockStake => 3 | TSPV => 4
             | TATR => 5 | TIssuance => 6 | TOther => 7 end.

Record tx := mkTx {
  t_id : N;                   (* interned signature *)
  t_inputs : list (N * N);    (* tx.from: (interned utxoset_key, amount) *)
  t_work : N;                 (* total_work_for_me *)
  t_type : ttype;
  t_ok : bool;                (* Transaction::validate(.., validate_against_utxo = false) *)
  t_target : N;               (* golden ticket target (GoldenTicket type only) *)
  t_oldest : option N;        (* smallest block_id among the inputs with amount > 0 whose slip
                                 type is not Bound (None: no such input) *)
  t_own : bool;               (* every input slip carries the node's own public key *)
}.

Record pool := mkP {
  txs : list tx;              (* Mempool.transactions (keyed by signature) *)
  umap : list N;              (* keys of Mempool.utxo_map (every value is 1) *)
  work : N;                   (* routing_work_in_mempool *)
  fresh : bool;               (* new_tx_added *)
  gts : list (N * N);         (* golden_tickets: target -> signature of the ticket transaction *)
}.

Definition empty_pool : pool := mkP [] [] 0 false [].

Definition set_txs (p : pool) (l : list tx) : pool := mkP l (umap p) (work p) (fresh p) (gts p).
Definition set_gts (p : pool) (g : list (N * N)) : pool := mkP (txs p) (umap p) (work p) (fresh p) g.
Definition set_work (p : pool) (w : N) : pool := mkP (txs p) (umap p) w (fresh p) (gts p).

(* ---- small set/list helpers ---- *)
Definition mem (k : N) (l : list N) : bool := existsb (N.eqb k) l.
Definition sadd (k : N) (l : list N) : list N := if mem k l then l else k :: l.
Definition srem (k : N) (l : list N) : list N := filter (fun x => negb (x =? k)) l.
Fixpoint has_dup (l : list N) : bool :=
  match l with [] => false | x :: r => mem x r || has_dup r end.

Definition in_keys (t : tx) : list N := map fst (t_inputs t).
(* keys of the inputs that carry value (input.amount > 0) *)
Definition vkeys (t : tx) : list N := map fst (filter (fun i => 0 <? snd i) (t_inputs t)).

Definition has_tx (id : N) (l : list tx) : bool := existsb (fun t => t_id t =? id) l.
Definition del_tx (id : N) (l : list tx) : list tx := filter (fun t => negb (t_id t =? id)) l.
Definition del_gt (target : N) (g : list (N * N)) : list (N * N) :=
  filter (fun x => negb (fst x =? target)) g.

(* u64 addition of the release build; the debug build panics where this wraps *)
Definition wadd (a b : N) : N := (a + b) mod 2 ^ 64.

(* ---- Slip::validate / Transaction::validate_against_utxoset / Transaction::validate ---- *)
(* what Transaction::validate reads of the chain: the spendable utxoset keys, the id of the
   latest block and the genesis period *)
Record chain := mkC { c_keys : list N; c_latest : N; c_gp : N }.

Definition slip_valid (ledger : chain) (i : N * N) : bool :=
  if 0 <? snd i then mem (fst i) (c_keys ledger) else true.

Definition valid_against (ledger : chain) (t : tx) : bool :=
  match t_type t with
  | TFee => true
  | _ => forallb (slip_valid ledger) (t_inputs t)
  end.

(* bb88717: an input with amount > 0 (not of Bound type) must satisfy
   block_id + genesis_period >= latest_block_id + 1 *)
Definition age_ok (ledger : chain) (t : tx) : bool :=
  match t_oldest t with
  | Some e => c_latest ledger + 1 <=? e + c_gp ledger
  | None => true
  end.

(* validate(utxoset, blockchain, true): Fee and SPV return before the age rule and the lookup;
   rebroadcast and issuance transactions skip the user-transaction section with the age rule;
   BlockStake transactions run their own checks (part of t_ok) and then, since 4119a69, the
   user-transaction section like Normal ones *)
Definition tx_validate (ledger : chain) (t : tx) : bool :=
  t_ok t &&
  match t_type t with
  | TFee | TSPV => true
  | TATR | TIssuance => valid_against ledger t
  | _ => age_ok ledger t && valid_against ledger t
  end.

(* ---- Mempool::add_transaction ---- *)
Definition SITE_GT_IN_TXPOOL : N := 1.   (* panic!("golden tickets should be in gt collection") *)

(* the first loop: an input whose key is in utxo_map and whose amount is > 0 *)
Definition conflicts (p : pool) (t : tx) : bool :=
  existsb (fun k => mem k (umap p)) (vkeys t).

Definition add_transaction (p : pool) (t : tx) : res pool :=
  if conflicts p t then Ok p
  else if has_tx (t_id t) (txs p) then Ok p
  else match t_type t with
       | TGoldenTicket => Panic SITE_GT_IN_TXPOOL
       | _ => Ok (mkP (t :: txs p)
                      (fold_right sadd (umap p) (in_keys t))   (* every input, also amount 0 *)
                      (wadd (work p) (t_work t))
                      true
                      (gts p))
       end.

(* fee, rebroadcast and SPV transactions are never accepted from outside (fix 222ce93) *)
Definition producer_only (t : tx) : bool :=
  match t_type t with TFee | TATR | TSPV => true | _ => false end.

(* the staking transaction of a block is built by its producer from its own wallet: a
   BlockStake transaction with an input of another key is not taken (9879695) *)
Definition foreign_stake (t : tx) : bool :=
  match t_type t with TBlockStake => negb (t_own t) | _ => false end.

(* issuance transactions are taken only while there is no chain (716c212: no block stored and
   no genesis block id set, i.e. the id of the latest block is 0) *)
Definition late_issuance (ledger : chain) (t : tx) : bool :=
  match t_type t with TIssuance => negb (c_latest ledger =? 0) | _ => false end.

Definition add_transaction_if_validates (ledger : chain) (p : pool) (t : tx) : res pool :=
  if producer_only t then Ok p
  else if late_issuance ledger t then Ok p
  else if foreign_stake t then Ok p
  else if tx_validate ledger t then add_transaction p t else Ok p.

(* ---- Mempool::add_golden_ticket (solution not checked; keyed by target) ---- *)
Definition add_golden_ticket (p : pool) (target id : N) : pool :=
  if existsb (fun g => fst g =? target) (gts p) then p
  else set_gts p ((target, id) :: gts p).

(* ---- Mempool::delete_transactions: removes from [transactions] / [golden_tickets],
        recomputes the cached work from what is left, and rebuilds utxo_map from the
        inputs of the transactions that are still pooled (rebuild_utxo_map) ---- *)
Definition delete_one (p : pool) (t : tx) : pool :=
  match t_type t with
  | TGoldenTicket => set_gts p (del_gt (t_target t) (gts p))
  | _ => set_txs p (del_tx (t_id t) (txs p))
  end.

Definition sum_work (l : list tx) : N := fold_left (fun w t => wadd w (t_work t)) l 0.

Definition block_keys (l : list tx) : list N := flat_map in_keys l.

Definition rebuild_utxo_map (p : pool) : pool :=
  mkP (txs p) (fold_right sadd [] (block_keys (txs p))) (work p) (fresh p) (gts p).

Definition delete_transactions (p : pool) (l : list tx) : pool :=
  let p1 := fold_left delete_one l p in
  rebuild_utxo_map (set_work p1 (sum_work (txs p1))).

(* ---- Mempool::delete_block ---- *)
Definition delete_block (p : pool) (block_hash : N) : pool :=
  set_gts p (del_gt block_hash (gts p)).

(* ---- Blockchain::remove_block_transactions (called by add_block_success, also for
        blocks that did not become part of the longest chain) ---- *)
(* df3ca14: the retain keeps a transaction when its inputs are spendable and still inside the
   window for the next block -- the age rule of validate(), with the same exemption of
   rebroadcast and issuance transactions *)
Definition still_valid (ledger : chain) (t : tx) : bool :=
  valid_against ledger t &&
  match t_type t with
  | TATR | TIssuance => true
  | _ => age_ok ledger t
  end.

Definition remove_block_transactions (ledger : chain) (p : pool) (btxs : list tx) : pool :=
  delete_transactions (set_txs p (filter (still_valid ledger) (txs p))) btxs.

(* ---- Blockchain::add_block_failure = delete_block + add_block_transactions_back:
        Normal transactions of a block created by this node that validate are handed to
        Mempool::add_transaction one by one (reservation check, reservations, work cache) ---- *)
Definition is_normal (t : tx) : bool := match t_type t with TNormal => true | _ => false end.

Definition back_txs (ledger : chain) (btxs : list tx) : list tx :=
  filter (fun t => is_normal t && tx_validate ledger t) btxs.

Fixpoint add_all (p : pool) (l : list tx) : res pool :=
  match l with
  | [] => Ok p
  | t :: r => do p1 <- add_transaction p t; add_all p1 r
  end.

Definition add_block_transactions_back (ledger : chain) (p : pool) (mine : bool) (btxs : list tx) : res pool :=
  if mine then
    do p1 <- add_all p (back_txs ledger btxs);
    Ok (mkP (txs p1) (umap p1) (work p1) true (gts p1))
  else Ok p.

Definition add_block_failure (ledger : chain) (p : pool) (block_hash : N) (mine : bool) (btxs : list tx) : res pool :=
  add_block_transactions_back ledger (delete_block p block_hash) mine btxs.

(* ---- Mempool::can_bundle_block.  [env_ok] collects the conditions that do not read
        the pool (chain not empty, block queue empty, golden-ticket count, the
        per-key time offset); [work_needed] is BurnFee::return_routing_work_needed... ---- *)
Definition is_nil {A} (l : list A) : bool := match l with [] => true | _ => false end.

Definition can_bundle_block (p : pool) (env_ok : bool) (work_needed : N) : bool :=
  env_ok && negb (is_nil (txs p)) && fresh p && (work_needed <=? work p).

(* ---- Block::create: fails with "double-spend detected" when a value-carrying input key
        occurs twice among the non-Fee transactions of the block (its own rebroadcast
        transactions included); by then the pool has been drained ---- *)
Definition spent_keys (l : list tx) : list N :=
  flat_map (fun t => match t_type t with TFee => [] | _ => vkeys t end) l.
Definition dup_spend (l : list tx) : bool := has_dup (spent_keys l).

(* ---- Block::create since 1214e31: pooled transactions (not the golden ticket) that spend
        a value-carrying input of one of the block's rebroadcast (ATR) transactions are left
        out of the block -- and are not handed back ---- *)
Definition rebroadcast_keys (extra : list tx) : list N :=
  flat_map (fun t => match t_type t with TATR => vkeys t | _ => [] end) extra.

Definition left_out (rk : list N) (t : tx) : bool :=
  match t_type t with
  | TGoldenTicket => false
  | _ => existsb (fun k => mem k rk) (vkeys t)
  end.

Definition kept (extra : list tx) (l : list tx) : list tx :=
  filter (fun t => negb (left_out (rebroadcast_keys extra) t)) l.

(* ---- Mempool::bundle_block.
        [ts_ok]   current_timestamp > timestamp of the tip (f62222f: otherwise None, no panic);
        [bad_gt]  target of the pooled golden ticket for the tip when it does not solve the
                  tip (e0300b2: removed from golden_tickets, the block is built without one);
        [env_ok]  can_bundle_block's pool-independent conditions, evaluated with the ticket
                  that is actually used; [work_needed] as before;
        [stake]   result of Wallet::create_staking_transaction (None = Err);
        [extra]   the transactions Block::create adds besides the pool's: the golden ticket,
                  rebroadcasts, the fee transaction.
        Result: new pool and the block's transactions (None = no block).
        When Block::create fails on a double spend it hands the drained transactions back
        (1214e31); bundle_block then rebuilds utxo_map and recomputes the work cache. ---- *)
Definition drop_bad_gt (p : pool) (bad_gt : option N) : pool :=
  match bad_gt with
  | Some target => set_gts p (del_gt target (gts p))
  | None => p
  end.

Definition bundle_core (ledger : chain) (p : pool) (env_ok : bool) (work_needed : N)
           (stake : option tx) (extra : list tx) : res (pool * option (list tx)) :=
  if negb (can_bundle_block p env_ok work_needed) then Ok (p, None) else
  match stake with
  | None => Ok (p, None)
  | Some st =>
      do p1 <- add_transaction_if_validates ledger p st;
      let k := kept extra (txs p1) in
      let block := k ++ extra in
      if dup_spend block then
        Ok (rebuild_utxo_map (mkP k (umap p1) (sum_work k) (fresh p1) (gts p1)), None)
      else
        (* the pool has been drained: rebuild_utxo_map() leaves an empty index (ffb4da9) *)
        Ok (rebuild_utxo_map (mkP [] (umap p1) 0 false (gts p1)), Some block)
  end.

Definition bundle_block (ledger : chain) (p : pool) (ts_ok : bool) (bad_gt : option N)
           (env_ok : bool) (work_needed : N) (stake : option tx) (extra : list tx)
  : res (pool * option (list tx)) :=
  if negb ts_ok then Ok (p, None)
  else bundle_core ledger (drop_bad_gt p bad_gt) env_ok work_needed stake extra.

(* Block::create returned Err (double spend among what is left after the leaving-out) *)
Definition create_fails (ledger : chain) (p : pool) (env_ok : bool) (work_needed : N)
           (stake : option tx) (extra : list tx) : bool :=
  can_bundle_block p env_ok work_needed &&
  match stake with
  | None => false
  | Some st => match add_transaction_if_validates ledger p st with
               | Ok p1 => dup_spend (kept extra (txs p1) ++ extra)
               | _ => false
               end
  end.

(* ---- system state and operations ---- *)
Record state := mkS { pl : pool; ledger : chain }.

Definition init (genesis : chain) : state := mkS empty_pool genesis.

Inductive op :=
| OAddTx (t : tx)                          (* add_transaction_if_validates *)
| OAddGT (target id : N)                   (* add_golden_ticket *)
| OBundle (ts_ok : bool) (bad_gt : option N) (env_ok : bool) (work_needed : N)
          (stake : option tx) (extra : list tx)
| OBlockAdded (keys' : list N) (latest' : N) (btxs : list tx)
    (* add_block_success on a block with transactions btxs; keys' = spendable set and
       latest' = id of the latest block afterwards (unchanged for an off-chain block,
       arbitrary after a reorganisation) *)
| OBlockFailed (block_hash : N) (mine : bool) (btxs : list tx).
    (* add_block_failure; mine = (block.creator == wallet.public_key) *)

Definition step (s : state) (o : op) : res (state * option (list tx)) :=
  match o with
  | OAddTx t =>
      do p <- add_transaction_if_validates (ledger s) (pl s) t; Ok (mkS p (ledger s), None)
  | OAddGT target id => Ok (mkS (add_golden_ticket (pl s) target id) (ledger s), None)
  | OBundle ts bg env wn stake extra =>
      do r <- bundle_block (ledger s) (pl s) ts bg env wn stake extra;
      Ok (mkS (fst r) (ledger s), snd r)
  | OBlockAdded k n btxs =>
      let c := mkC k n (c_gp (ledger s)) in
      Ok (mkS (remove_block_transactions c (pl s) btxs) c, None)
  | OBlockFailed h mine btxs =>
      do p <- add_block_failure (ledger s) (pl s) h mine btxs; Ok (mkS p (ledger s), None)
  end.

Fixpoint run (s : state) (ops : list op) : res state :=
  match ops with
  | [] => Ok s
  | o :: r => do x <- step s o; run (fst x) r
  end.

(* ---- step classes ---- *)
(* Block::create fails (after 1214e31 the drained transactions come back) *)
Definition ev_failed_create (s : state) (o : op) : bool :=
  match o with
  | OBundle true bg env wn stake extra =>
      create_fails (ledger s) (drop_bad_gt (pl s) bg) env wn stake extra
  | _ => false
  end.

(* does some step of the run from [s] fall in class [K] ? *)
Fixpoint known_in (K : state -> op -> bool) (s : state) (ops : list op) : bool :=
  match ops with
  | [] => false
  | o :: r => K s o || match step s o with Ok x => known_in K (fst x) r | _ => false end
  end.

(* ---- the invariants of the property, as decidable checks (used by the witnesses and by
        the examples; the theorems state them as Props) ---- *)
Fixpoint disjointb (a b : list N) : bool :=
  match a with [] => true | x :: r => negb (mem x b) && disjointb r b end.
Fixpoint no_shared_input (l : list tx) : bool :=
  match l with
  | [] => true
  | t :: r => forallb (fun u => disjointb (vkeys t) (vkeys u)) r && no_shared_input r
  end.
Definition I1b (p : pool) : bool := no_shared_input (txs p).
Definition I2b (l : chain) (p : pool) : bool := forallb (valid_against l) (txs p).
Definition I3b (p : pool) : bool := forallb (fun k => mem k (block_keys (txs p))) (umap p).
Definition I5b (p : pool) : bool := work p =? sum_work (txs p).

(* ---- observation compared with the implementation after every operation ---- *)
Definition obs_pool (p : pool) : list (list N) :=
  [ sort_by N.leb (map t_id (txs p));
    sort_by N.leb (umap p);
    [work p];
    sort_by N.leb (map fst (gts p));
    sort_by N.leb (map snd (gts p)) ].

Definition obs_result (r : option (list tx)) : list N :=
  match r with
  | None => [0]
  | Some b => 1 :: sort_by N.leb (map t_id b)
  end.

Fixpoint trace (s : state) (ops : list op) : list (list (list N)) :=
  match ops with
  | [] => []
  | o :: t =>
      match step s o with
      | Ok (s', r) =>
          (match o with OBundle _ _ _ _ _ _ => [obs_result r] | _ => [] end ++ obs_pool (pl s'))
            :: trace s' t
      | Err => [[[998]]]
      | Panic site => [[[999; site]]]
      end
  end.
