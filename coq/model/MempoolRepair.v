(* Model of a REPAIR CANDIDATE for the transaction pool -- not of the code in /repo.
   It differs from model/Mempool.v exactly where the candidate patch
   (described in registry/C14.json, "repair") differs from the pinned code:

   1. Mempool::delete_transactions ends with rebuild_utxo_map(): the reservation index is
      recomputed from the transactions that are still pooled (this also covers the retain
      of Blockchain::remove_block_transactions, which runs immediately before it);
   2. Blockchain::add_block_transactions_back re-inserts through Mempool::add_transaction
      (reservation check, reservation insert, work cache) instead of HashMap::insert;
   3. Mempool::bundle_block, when Block::create (or the following generate) fails after
      the drain, rebuilds the index (empty) and zeroes the work cache.

   Everything else is shared with Mempool.v.  proofs/MempoolRepairProofs.v shows that I1,
   I3, I5 and the auxiliary invariants then hold after EVERY operation sequence. *)
From Saito Require Import Base Mempool.

Definition rebuild (p : pool) : pool :=
  mkP (txs p) (fold_right sadd [] (block_keys (txs p))) (work p) (fresh p) (gts p).

Definition delete_transactions_r (p : pool) (l : list tx) : pool :=
  rebuild (delete_transactions p l).

Definition remove_block_transactions_r (ledger : list N) (p : pool) (btxs : list tx) : pool :=
  delete_transactions_r (set_txs p (filter (valid_against ledger) (txs p))) btxs.

(* add_transaction on a Normal transaction cannot panic; the dead branch keeps the pool *)
Definition add_plain (p : pool) (t : tx) : pool :=
  match add_transaction p t with Ok p' => p' | _ => p end.

Definition add_block_transactions_back_r (ledger : list N) (p : pool) (mine : bool) (btxs : list tx) : pool :=
  if mine then
    let p1 := fold_left add_plain (back_txs ledger btxs) p in
    mkP (txs p1) (umap p1) (work p1) true (gts p1)
  else p.

Definition add_block_failure_r (ledger : list N) (p : pool) (block_hash : N) (mine : bool) (btxs : list tx) : pool :=
  add_block_transactions_back_r ledger (delete_block p block_hash) mine btxs.

Definition bundle_block_r (ledger : list N) (p : pool) (env_ok : bool) (work_needed : N)
           (stake : option tx) (extra : list tx) : res (pool * option (list tx)) :=
  if negb (can_bundle_block p env_ok work_needed) then Ok (p, None) else
  match stake with
  | None => Ok (p, None)
  | Some st =>
      do p1 <- add_transaction_if_validates ledger p st;
      let block := txs p1 ++ extra in
      if dup_spend block then
        Ok (mkP [] [] 0 (fresh p1) (gts p1), None)
      else
        Ok (mkP [] (fold_left (fun m k => srem k m) (block_keys block) (umap p1)) 0 false (gts p1),
            Some block)
  end.

Definition step_r (s : state) (o : op) : res (state * option (list tx)) :=
  match o with
  | OAddTx t =>
      do p <- add_transaction_if_validates (ledger s) (pl s) t; Ok (mkS p (ledger s), None)
  | OAddGT target id => Ok (mkS (add_golden_ticket (pl s) target id) (ledger s), None)
  | OBundle env wn stake extra =>
      do r <- bundle_block_r (ledger s) (pl s) env wn stake extra;
      Ok (mkS (fst r) (ledger s), snd r)
  | OBlockAdded l btxs => Ok (mkS (remove_block_transactions_r l (pl s) btxs) l, None)
  | OBlockFailed h mine btxs =>
      Ok (mkS (add_block_failure_r (ledger s) (pl s) h mine btxs) (ledger s), None)
  end.

Fixpoint run_r (s : state) (ops : list op) : res state :=
  match ops with
  | [] => Ok s
  | o :: r => do x <- step_r s o; run_r (fst x) r
  end.

Fixpoint trace_r (s : state) (ops : list op) : list (list (list N)) :=
  match ops with
  | [] => []
  | o :: t =>
      match step_r s o with
      | Ok (s', r) =>
          (match o with OBundle _ _ _ _ => [obs_result r] | _ => [] end ++ obs_pool (pl s'))
            :: trace_r s' t
      | Err => [[[998]]]
      | Panic site => [[[999; site]]]
      end
  end.
