(* Model of saito-core/src/core/consensus/merkle.rs (MerkleTree::generate, get_root_hash)
   and of the part of a transaction the merkle tree and the lite block look at.

   Hashes are FREE TERMS (the symbolic, collision-free hash):
     Leaf id   -- an opaque 32-byte value (the hash of a transaction's signed bytes, the first
                  32 bytes of a signature, an all-zero value = Leaf 0, ...), interned as a number;
     Node l r  -- hash (l ++ r), the inner-node hash of merkle.rs / the combined hash of
                  generate_lite_block.
   Equality of terms is equality of the real 32-byte values up to a collision of the real hash
   (and up to the real code's lack of domain separation between a 64-byte payload and an inner
   node); see registry/C18.json.  Model only, no proofs. *)
From Saito Require Import Base.

Inductive hv : Type :=
| Leaf (id : N)
| Node (l r : hv).

Fixpoint hv_eqb (a b : hv) : bool :=
  match a, b with
  | Leaf x, Leaf y => x =? y
  | Node a1 a2, Node b1 b2 => hv_eqb a1 b1 && hv_eqb a2 b2
  | _, _ => false
  end.

(* [0u8; 32] *)
Definition hzero : hv := Leaf 0.

(* TransactionType as u8 *)
Definition TY_NORMAL : N := 0.
Definition TY_FEE : N := 1.
Definition TY_GT : N := 2.
Definition TY_SPV : N := 5.

(* What the lite-block code and the merkle tree read or write of a Transaction. *)
Record tx : Type := mkTx {
  t_ty : N;            (* transaction_type as u8 *)
  t_repl : N;          (* txs_replacements : u32 *)
  t_sig : N;           (* signature (64 bytes), interned *)
  t_sig32 : N;         (* signature[0..32] as a 32-byte value, interned in the table of Leaf ids *)
  t_ts : N;            (* timestamp *)
  t_from : list N;     (* public keys of the from slips, in order, interned *)
  t_to : list N;       (* public keys of the to slips, in order, interned *)
  t_rest : N;          (* all other serialised content (full slips, data, path), interned; 0 = all empty *)
  t_dlen : N;          (* length of the data (payload) field *)
  t_chash : N;         (* oracle input: hash(serialize_for_signature(tx)) as computed by the real code
                          for this content, interned in the table of Leaf ids (used for non-SPV only) *)
  t_hfs : option hv    (* hash_for_signature : Option<SaitoHash> *)
}.

Definition is_spv (t : tx) : bool := t_ty t =? TY_SPV.

(* panic sites *)
Definition P_MERKLE_UNWRAP : N := 1801.  (* generate_hash: left/right .hash.unwrap() on None, or right.unwrap() of a carried node without hash *)
Definition P_ROOT_UNWRAP : N := 1802.    (* get_root_hash: self.root.hash.unwrap() *)
Definition P_ROOT_EMPTY : N := 1803.     (* leaves.pop_front().unwrap() on an empty list (not reachable: non-empty tx list gives >= 1 leaf) *)
Definition P_OUT_OF_FUEL : N := 1899.    (* not a site of the code: the model's loop bound; excluded by theorem *)
Definition OutOfFuel {A} : res A := Panic P_OUT_OF_FUEL.

(* leaves contributed by one transaction:
     if tx.txs_replacements > 1 { r leaves, each Some(tx.hash_for_signature.unwrap_or([0;32])) }
     else { one leaf tx.hash_for_signature }                                   *)
Definition leaves_of (t : tx) : list (option hv) :=
  if 1 <? t_repl t then
    repeat (Some (match t_hfs t with Some h => h | None => hzero end)) (N.to_nat (t_repl t))
  else [t_hfs t].

Definition leaves (txs : list tx) : list (option hv) := flat_map leaves_of txs.

(* one level: "create a node per two leaves"; an odd last leaf is carried up with its own hash
   (no duplication); generate_hash unwraps both child hashes *)
Fixpoint pair_level (l : list (option hv)) : res (list (option hv)) :=
  match l with
  | [] => Ok []
  | [x] => match x with Some _ => Ok [x] | None => Panic P_MERKLE_UNWRAP end
  | x :: y :: t =>
      match x, y with
      | Some a, Some b => do r <- pair_level t; Ok (Some (Node a b) :: r)
      | _, _ => Panic P_MERKLE_UNWRAP
      end
  end.

(* while leaves.len() > 1 { ... } ; root = leaves.pop_front().unwrap() *)
Fixpoint reduce (fuel : nat) (l : list (option hv)) : res (option hv) :=
  match l with
  | [] => Panic P_ROOT_EMPTY
  | [x] => Ok x
  | _ => match fuel with
         | O => OutOfFuel
         | S f => do l' <- pair_level l; reduce f l'
         end
  end.

(* MerkleTree::generate(txs) then get_root_hash(); None (empty list) => [0;32]
   -- the body of Block::generate_merkle_root after its first test *)
Definition merkle_root_of (txs : list tx) : res hv :=
  match txs with
  | [] => Ok hzero
  | _ => let lv := leaves txs in
         do r <- reduce (length lv) lv;
         match r with Some h => Ok h | None => Panic P_ROOT_UNWRAP end
  end.
