(* Reviewed classification of the panic sites of the peer-facing code (property C11).
   Every site of the regenerated inventory coq/gen/PanicSites.v must be matched here, either by an exact entry
   or by a per-function group whose NUMBER OF SITES is pinned: a new unwrap / index / assert in a scanned file,
   or a renamed function, makes the obligation C11_classified fail until a human has looked at it.
     Unreachable why : guarded in the same function, or excluded by a cited lemma / code fact
     LocalOnly why   : depends on local configuration, local IO or the node's own threads, not on peer input
     Known id        : a listed finding (known_findings.txt; "C10:..." / "C17:..." are listed under that property)
   Reviewed against /repo at the commit named in registry/C11.json; model only, no proofs. *)
From Coq Require Import List String Bool Arith.
Import ListNotations.
Open Scope string_scope.

Inductive cls : Type :=
| Unreachable (why : string)
| LocalOnly (why : string)
| Known (finding : string).

Definition exact : list (string * cls) := [
  ("routing_thread::RoutingThread::process_ghost_chain_request#1-unwrap",
     LocalOnly "result of an InterfaceIO call of the node's own IO layer (saito-rust's RustIOHandler always answers Ok; an Err means the internal channel to the network controller is closed)");
  ("routing_thread::RoutingThread::process_incoming_blockchain_request#1-unwrap",
     LocalOnly "result of an InterfaceIO call of the node's own IO layer (saito-rust's RustIOHandler always answers Ok; an Err means the internal channel to the network controller is closed)");
  ("routing_thread::RoutingThread::send_to_verification_thread#1-expect",
     Unreachable "index is taken modulo the vector length; the vector is non-empty by the assert in on_init (routing_thread::RoutingThread_as_ProcessEvent::on_init#1-assert)");
  ("routing_thread::RoutingThread::send_to_verification_thread#2-unwrap",
     LocalOnly "send on an internal mpsc channel of the node: fails only when the receiving thread of this node is gone");
  ("routing_thread::RoutingThread::process_peer_services#1-unwrap",
     Unreachable "guarded by peer.is_some() on the line above");
  ("routing_thread::RoutingThread::write_peer_state_data#1-unwrap",
     LocalOnly "result of an InterfaceIO call of the node's own IO layer (saito-rust's RustIOHandler always answers Ok; an Err means the internal channel to the network controller is closed)");
  ("routing_thread::RoutingThread_as_ProcessEvent::process_network_event#1-unwrap",
     LocalOnly "result of an InterfaceIO call of the node's own IO layer (saito-rust's RustIOHandler always answers Ok; an Err means the internal channel to the network controller is closed)");
  ("routing_thread::RoutingThread_as_ProcessEvent::process_network_event#2-unwrap",
     Unreachable "guarded by the message.is_err() early return above");
  ("routing_thread::RoutingThread_as_ProcessEvent::process_network_event#3-unwrap",
     Unreachable "guarded by result.is_ok()");
  ("routing_thread::RoutingThread_as_ProcessEvent::process_network_event#4-unwrap",
     LocalOnly "result of an InterfaceIO call of the node's own IO layer (saito-rust's RustIOHandler always answers Ok; an Err means the internal channel to the network controller is closed)");
  ("routing_thread::RoutingThread_as_ProcessEvent::process_network_event#5-unreachable",
     LocalOnly "the remaining NetworkEvent variants (OutgoingNetworkMessage, OutgoingNetworkMessageForAll, ConnectToPeer, DisconnectFromPeer, BlockFetchRequest) travel from the core to the IO layer; the IO layer of saito-rust never sends them to the routing thread");
  ("routing_thread::RoutingThread_as_ProcessEvent::on_init#1-assert",
     LocalOnly "local configuration or start-up data (consensus configuration section, block files, issuance file, number of verification threads)");
  ("routing_thread::RoutingThread_as_ProcessEvent::on_stat_interval#1-unwrap",
     LocalOnly "statistics channel of the node (on_stat_interval)");
  ("routing_thread::RoutingThread_as_ProcessEvent::on_stat_interval#2-unwrap",
     LocalOnly "statistics channel of the node (on_stat_interval)");
  ("routing_thread::RoutingThread_as_ProcessEvent::on_stat_interval#3-unwrap",
     LocalOnly "statistics channel of the node (on_stat_interval)");
  ("routing_thread::RoutingThread_as_ProcessEvent::on_stat_interval#4-unwrap",
     LocalOnly "statistics channel of the node (on_stat_interval)");
  ("verification_thread::VerificationThread::verify_tx#1-unwrap",
     LocalOnly "send on an internal mpsc channel of the node: fails only when the receiving thread of this node is gone");
  ("verification_thread::VerificationThread::verify_txs#1-unwrap",
     LocalOnly "send on an internal mpsc channel of the node: fails only when the receiving thread of this node is gone");
  ("verification_thread::VerificationThread::verify_block#1-unwrap",
     Unreachable "guarded by the result.is_err() early return above");
  ("verification_thread::VerificationThread::verify_block#2-unwrap",
     LocalOnly "send on an internal mpsc channel of the node: fails only when the receiving thread of this node is gone");
  ("verification_thread::VerificationThread_as_ProcessEvent::process_network_event#1-unreachable",
     LocalOnly "no network event receiver is given to the verification threads (run_verification_thread passes None)");
  ("consensus_thread::ConsensusThread::generate_issuance_tx#1-assert",
     LocalOnly "local configuration or start-up data (consensus configuration section, block files, issuance file, number of verification threads)");
  ("consensus_thread::ConsensusThread::generate_issuance_tx#2-assert",
     LocalOnly "local configuration or start-up data (consensus configuration section, block files, issuance file, number of verification threads)");
  ("consensus_thread::ConsensusThread::bundle_block#1-unreachable",
     Unreachable "ConsensusThread::process_event (NewTransaction / NewTransactions) sends GoldenTicket-typed transactions to Mempool::add_golden_ticket and pushes only the others to txs_for_mempool; nothing else fills that vector");
  ("consensus_thread::ConsensusThread::bundle_block#2-unwrap",
     Unreachable "guarded by gt_result.is_some() in the enclosing if");
  ("consensus_thread::ConsensusThread::bundle_block#3-unwrap@debug",
     Unreachable "guarded by gt_result.is_some() in the enclosing if");
  ("consensus_thread::ConsensusThread_as_ProcessEvent::process_network_event#1-unreachable",
     LocalOnly "no network event receiver is given to the consensus thread");
  ("consensus_thread::ConsensusThread_as_ProcessEvent::on_init#1-unwrap@info",
     LocalOnly "local configuration or start-up data (consensus configuration section, block files, issuance file, number of verification threads)");
  ("consensus_thread::ConsensusThread_as_ProcessEvent::on_init#2-unwrap@info",
     LocalOnly "local configuration or start-up data (consensus configuration section, block files, issuance file, number of verification threads)");
  ("consensus_thread::ConsensusThread_as_ProcessEvent::on_init#3-unwrap@info",
     LocalOnly "local configuration or start-up data (consensus configuration section, block files, issuance file, number of verification threads)");
  ("consensus_thread::ConsensusThread_as_ProcessEvent::on_init#4-expect",
     LocalOnly "local configuration or start-up data (consensus configuration section, block files, issuance file, number of verification threads)");
  ("consensus_thread::ConsensusThread_as_ProcessEvent::on_init#5-unwrap",
     LocalOnly "send on an internal mpsc channel of the node: fails only when the receiving thread of this node is gone");
  ("consensus_thread::ConsensusThread_as_ProcessEvent::on_stat_interval#1-unwrap",
     LocalOnly "statistics channel of the node (on_stat_interval)");
  ("consensus_thread::ConsensusThread_as_ProcessEvent::on_stat_interval#2-unwrap",
     LocalOnly "statistics channel of the node (on_stat_interval)");
  ("consensus_thread::ConsensusThread_as_ProcessEvent::on_stat_interval#3-unwrap",
     LocalOnly "statistics channel of the node (on_stat_interval)");
  ("consensus_thread::ConsensusThread_as_ProcessEvent::on_stat_interval#4-unwrap",
     LocalOnly "statistics channel of the node (on_stat_interval)");
  ("io::network::Network::propagate_block#1-unwrap",
     LocalOnly "result of an InterfaceIO call of the node's own IO layer (saito-rust's RustIOHandler always answers Ok; an Err means the internal channel to the network controller is closed)");
  ("io::network::Network::propagate_transaction#1-unwrap",
     Unreachable "guarded by the get_public_key().is_none() continue above");
  ("io::network::Network::propagate_transaction#2-unwrap",
     LocalOnly "result of an InterfaceIO call of the node's own IO layer (saito-rust's RustIOHandler always answers Ok; an Err means the internal channel to the network controller is closed)");
  ("io::network::Network::handle_peer_disconnect#1-unwrap",
     LocalOnly "result of an InterfaceIO call of the node's own IO layer (saito-rust's RustIOHandler always answers Ok; an Err means the internal channel to the network controller is closed)");
  ("io::network::Network::handle_peer_disconnect#2-unwrap",
     Unreachable "guarded by get_public_key().is_some()");
  ("io::network::Network::handle_new_peer#1-unwrap",
     LocalOnly "result of an InterfaceIO call of the node's own IO layer (saito-rust's RustIOHandler always answers Ok; an Err means the internal channel to the network controller is closed)");
  ("io::network::Network::handle_handshake_challenge#1-unwrap",
     Unreachable "guarded by the peer.is_none() early return");
  ("io::network::Network::handle_handshake_challenge#2-unwrap",
     LocalOnly "result of an InterfaceIO call of the node's own IO layer (saito-rust's RustIOHandler always answers Ok; an Err means the internal channel to the network controller is closed)");
  ("io::network::Network::handle_handshake_response#1-unwrap",
     Unreachable "guarded by the peer.is_none() early return");
  ("io::network::Network::handle_handshake_response#2-unwrap",
     LocalOnly "result of an InterfaceIO call of the node's own IO layer (saito-rust's RustIOHandler always answers Ok; an Err means the internal channel to the network controller is closed)");
  ("io::network::Network::handle_handshake_response#3-unwrap",
     Unreachable "guarded by the `result.is_err() || peer.get_public_key().is_none()` early return");
  ("io::network::Network::handle_handshake_response#4-expect",
     Unreachable "remove_reconnected_peer only removes an entry of the same key that is NOT Connected; the current entry was just marked Connected by Peer::handle_handshake_response (Handshake.v, C17_bad_response_inert / C17_connected_authentic run the same code path without this panic)");
  ("io::network::Network::handle_handshake_response#5-unwrap@debug",
     Unreachable "guarded by the public_key.is_none() continue above");
  ("io::network::Network::send_key_list#1-unwrap",
     LocalOnly "result of an InterfaceIO call of the node's own IO layer (saito-rust's RustIOHandler always answers Ok; an Err means the internal channel to the network controller is closed)");
  ("io::network::Network::request_blockchain_from_peer#1-unwrap",
     LocalOnly "result of an InterfaceIO call of the node's own IO layer (saito-rust's RustIOHandler always answers Ok; an Err means the internal channel to the network controller is closed)");
  ("io::network::Network::connect_to_static_peers#1-unwrap",
     LocalOnly "result of an InterfaceIO call of the node's own IO layer (saito-rust's RustIOHandler always answers Ok; an Err means the internal channel to the network controller is closed)");
  ("io::network::Network::update_peer_timer#1-unwrap",
     Unreachable "guarded by the peer.is_none() early return");
  ("consensus::mempool::Mempool::add_transaction#1-debug_assert",
     Unreachable "every caller (add_transaction_if_validates, Blockchain::add_block_transactions_back) passes a transaction on which generate()/validate() has run, which sets hash_for_signature; debug builds only");
  ("consensus::mempool::Mempool::add_transaction#2-panic",
     LocalOnly "a GoldenTicket-typed transaction reaches add_transaction only through callers outside the peer path (wasm API, tests): the consensus thread routes such transactions to add_golden_ticket, add_block_transactions_back keeps Normal transactions only, the staking / issuance transactions are built locally");
  ("consensus::mempool::Mempool::bundle_block#1-unwrap",
     LocalOnly "local configuration or start-up data (consensus configuration section, block files, issuance file, number of verification threads)");
  ("consensus::mempool::Mempool::bundle_genesis_block#1-unwrap",
     LocalOnly "local configuration or start-up data (consensus configuration section, block files, issuance file, number of verification threads)");
  ("consensus::mempool::Mempool::bundle_genesis_block#2-unwrap",
     LocalOnly "local configuration or start-up data (consensus configuration section, block files, issuance file, number of verification threads)");
  ("consensus::mempool::Mempool::can_bundle_block#1-unwrap",
     LocalOnly "local configuration or start-up data (consensus configuration section, block files, issuance file, number of verification threads)");
  ("consensus::peers::peer::Peer::initiate_handshake#1-unwrap",
     Unreachable "generate_random_bytes(32) returns 32 bytes; conversion to [u8; 32] cannot fail");
  ("consensus::peers::peer::Peer::handle_handshake_challenge#1-unwrap",
     Unreachable "generate_random_bytes(32) returns 32 bytes; conversion to [u8; 32] cannot fail");
  ("consensus::peers::peer::Peer::handle_handshake_response#1-unwrap",
     Unreachable "guarded by the challenge_for_peer.is_none() early return");
  ("consensus::peers::peer::Peer::handle_handshake_response#2-unwrap@info",
     Unreachable "public_key was set to Some a few lines above");
  ("consensus::peers::peer::Peer::send_ping#1-unwrap",
     LocalOnly "result of an InterfaceIO call of the node's own IO layer (saito-rust's RustIOHandler always answers Ok; an Err means the internal channel to the network controller is closed)");
  ("consensus::peers::peer::Peer::join_as_reconnection#1-assert",
     Unreachable "the argument comes from remove_reconnected_peer, which skips Connected entries");
  ("consensus::peers::peer_collection::PeerCollection::remove_reconnected_peer#1-unwrap",
     Unreachable "guarded by the peer_index.is_none() early return");
  ("consensus::peers::peer_collection::PeerCollection::remove_reconnected_peer#2-unwrap@debug",
     Unreachable "`peer.public_key?` on the line above returns when the key is None");
  ("consensus::peers::peer_collection::PeerCollection::remove_disconnected_peers#1-unwrap",
     Unreachable "the indices were collected from the same map under the same exclusive borrow")
].

(* (prefix of the site name, number of sites with that prefix, class) *)
Definition groups : list (string * nat * cls) := [
  ("routing_thread::RoutingThread::process_ghost_chain#", 9,
     Unreachable "all seven vectors of a GhostChainSync are built with the same count by GhostChainSync::deserialize (and by generate_ghost_chain); i ranges over prehashes.len(); (after the proposed lite-node fix also pair[0] / pair[1] of block_ids.windows(2), which always has two elements)");
  ("consensus::peers::peer_service::PeerService_as_TryFrom::try_from#", 6,
     Unreachable "indices 0..2 after the values.len() != 3 check; the unwraps after the is_err() checks");
  ("consensus::peers::peer_service::PeerService::deserialize_services#", 4,
     Unreachable "each unwrap follows the corresponding is_err() early return (the first one sits in the is_err branch and takes the error)");
  ("msg::message::Message::deserialize#", 16,
     Unreachable "slices guarded in the same function: empty-buffer check, len != 40 (tag 6), len != 72 (tag 11), len % 33 (tag 15); the nested decoders are separate sites (C10)");
  ("msg::handshake::HandshakeChallenge_as_Serialize::deserialize#", 1,
     Unreachable "guarded by the buffer.len() < 32 check");
  ("msg::handshake::HandshakeResponse_as_Serialize::deserialize#", 12,
     Unreachable "guarded by MIN_LEN = 142 and by the buffer.len() < MIN_LEN + url_length check; the unwraps follow is_err() checks");
  ("msg::block_request::BlockchainRequest_as_Serialize::deserialize#", 6,
     Unreachable "guarded by the buffer.len() != 72 check");
  ("msg::ghost_chain_sync::GhostChainSync::deserialize_checked#", 2,
     Unreachable "slice [32..36] after the buffer.len() < 36 check");
  ("msg::ghost_chain_sync::GhostChainSync::deserialize#", 21,
     Unreachable "since fix 8fc45ed the only non-test caller is deserialize_checked, which verifies buffer.len() >= 36 + 82 * count first; every range below is within that length");
  ("msg::api_message::ApiMessage::deserialize#", 3,
     Unreachable "guarded by the buffer.len() < 4 check (fix 144e342)");
  ("process::version::Version_as_Ord::cmp#", 1,
     Unreachable "partial_cmp of Version is total (it compares three integers)");
  ("process::version::read_pkg_version#", 6,
     LocalOnly "parses the compile-time CARGO_PKG_VERSION string");
  ("consensus::golden_ticket::GoldenTicket::deserialize_from_net#", 7,
     Unreachable "internal invariant since fix eeb4ec7: Transaction::deserialize_from_net refuses a GoldenTicket-typed transaction whose payload is not 97 bytes, so pool intake, pool clean-up and block processing (the callers in the peer path) only see 97-byte payloads; locally mined tickets are built by GoldenTicket::serialize_for_net");
  ("consensus::block::Block::deserialize_from_net#", 64,
     Unreachable "fixed header offsets after the bytes.len() < BLOCK_HEADER_SIZE check; every transaction range is checked against bytes.len() before it is sliced");
  ("consensus::transaction::Transaction::deserialize_from_net#", 12,
     Unreachable "header offsets after the bytes.len() < TRANSACTION_SIZE check; since fix 34b1724 the total length the header declares is checked against bytes.len() before the slip / message / hop ranges are sliced");
  ("consensus::slip::Slip::deserialize_from_net#", 6,
     Unreachable "guarded by the bytes.len() != SLIP_SIZE check (C10_slip_total)");
  ("consensus::slip::Slip::parse_slip_from_utxokey#", 10,
     Unreachable "the argument is a fixed-size [u8; 59] array; all offsets are constants below 59");
  ("consensus::hop::Hop::deserialize_from_net#", 3,
     Unreachable "guarded by the bytes.len() != HOP_SIZE check (C10_hop_total)")
].

(* ---------------------------------------------------------------- lookup and the checked obligation *)

Fixpoint assoc (s : string) (l : list (string * cls)) : option cls :=
  match l with
  | [] => None
  | (k, c) :: t => if String.eqb s k then Some c else assoc s t
  end.

Fixpoint group_of (s : string) (l : list (string * nat * cls)) : option cls :=
  match l with
  | [] => None
  | (p, _, c) :: t => if prefix p s then Some c else group_of s t
  end.

Definition classify (s : string) : option cls :=
  match assoc s exact with
  | Some c => Some c
  | None => group_of s groups
  end.

Definition classified (s : string) : Prop := classify s <> None.

Definition is_some {A} (o : option A) : bool := match o with Some _ => true | None => false end.

Definition count_prefix (p : string) (sites : list string) : nat := List.length (filter (prefix p) sites).

(* every site classified; every group has exactly the pinned number of sites; no exact entry is stale
   (names a site that no longer exists); the scanner's own cross-check passed *)
Definition table_ok (sites : list string) (crosscheck : bool) : bool :=
  crosscheck
  && forallb (fun s => is_some (classify s)) sites
  && forallb (fun g => Nat.eqb (count_prefix (fst (fst g)) sites) (snd (fst g))) groups
  && forallb (fun e => existsb (String.eqb (fst e)) sites) exact.

Definition unclassified (sites : list string) : list string :=
  filter (fun s => negb (is_some (classify s))) sites.
Definition stale_entries (sites : list string) : list string :=
  map fst (filter (fun e => negb (existsb (String.eqb (fst e)) sites)) exact).
Definition miscounted_groups (sites : list string) : list (string * nat * nat) :=
  flat_map (fun g => let n := count_prefix (fst (fst g)) sites in
                     if Nat.eqb n (snd (fst g)) then [] else [(fst (fst g), snd (fst g), n)]) groups.

Definition is_unreachable (c : option cls) := match c with Some (Unreachable _) => true | _ => false end.
Definition is_local (c : option cls) := match c with Some (LocalOnly _) => true | _ => false end.
Definition is_known (c : option cls) := match c with Some (Known _) => true | _ => false end.
(* (sites, unreachable, local only, known) *)
Definition class_counts (sites : list string) : nat * nat * nat * nat :=
  (List.length sites,
   List.length (filter (fun s => is_unreachable (classify s)) sites),
   List.length (filter (fun s => is_local (classify s)) sites),
   List.length (filter (fun s => is_known (classify s)) sites)).
