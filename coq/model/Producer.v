(* Model of block production and of the validation that the produced block meets:
     src/core/consensus/block.rs     Block::create, Block::generate (the sweep that
                                      fills total_work / rebroadcast counters),
                                      Block::validate (every comparison, in order),
                                      the first loop of generate_consensus_values
                                      (transaction counters and indices)
     src/core/consensus/mempool.rs   Mempool::{can_bundle_block, bundle_block,
                                      add_transaction_if_validates, add_transaction,
                                      add_golden_ticket, delete_block}
     src/core/consensus/blockchain.rs  add_block_failure / add_block_transactions_back,
                                      the golden-ticket count check of Blockchain::validate
     src/core/consensus_thread.rs    the golden ticket the timer path hands to bundle_block
   as they are at /repo HEAD 6a5c788 (after the fix: commits listed in known_findings.txt).
   No proofs here.

   What is abstract.  The economic part of generate_consensus_values (fees,
   payouts, smoothing, burn fee, difficulty, the rebroadcast set and the fee
   transaction) is a Section variable [cv]: it is being modelled elsewhere, and
   C07 is about how Block::create and Block::validate USE it.  [cv] receives
   everything the real function can read: the chain (blocks, ring, block files
   on disk), the ledger (utxoset) and THE BLOCK it is called on -- in
   Block::create that is the half-built block (id, previous hash, timestamp,
   creator, previous_block_unpaid and the golden ticket + drained pool; every
   other header field still zero), in Block::validate the finished block.
   Transaction::validate, the golden-ticket solution check, the burn-fee work
   function and the two hash functions (merkle root, rebroadcast hash chain) are
   Section variables as well, with no assumed property.

   Hashes, keys, signatures and utxoset keys are interned numbers.  A
   transaction's identity [t_id] is the interned hash of serialize_for_signature:
   it is what the merkle root, the rebroadcast hash and the fee-transaction
   comparison of Block::validate see; [t_sig] (key of Mempool.transactions) is
   the interned signature -- rebroadcast transactions carry the signature of the
   transaction they rebroadcast, so it is not an identity. *)
From Saito Require Import Base.

Inductive ttype := TNormal | TFee | TGoldenTicket | TATR | TSPV | TIssuance | TBlockStake | TOther.

Definition ttype_code (t : ttype) : N :=
  match t with TNormal => 0 | TFee => 1 | TGoldenTicket => 2 | TATR => 3 | TSPV => 5
             | TIssuance => 6 | TBlockStake => 7 | TOther => 9 end.
Definition ttype_eqb (a b : ttype) : bool := ttype_code a =? ttype_code b.

Record tx := mkTx {
  t_id : N;              (* interned hash(serialize_for_signature) *)
  t_sig : N;             (* interned signature *)
  t_type : ttype;
  t_work : N;            (* total_work_for_me for the producer's key (Transaction::generate) *)
  t_inputs : list N;     (* utxoset keys of the inputs with amount > 0 *)
  t_atr_slips : N;       (* outputs of slip type ATR (counted by Block::generate for ATR transactions) *)
  t_target : N;          (* golden ticket: interned gt.target (0 otherwise) *)
  t_own : bool;          (* every input slip carries the node's own public key *)
}.

Definition is_type (k : ttype) (t : tx) : bool := ttype_eqb (t_type t) k.

(* the numeric values that generate_consensus_values returns and that Block::create
   copies into the header / Block::validate compares; order = order of the
   comparisons in Block::validate *)
Record econ := mkE {
  e_total_fees : N;
  e_total_fees_new : N;
  e_total_fees_atr : N;
  e_total_fees_cumulative : N;
  e_avg_total_fees : N;
  e_avg_total_fees_new : N;
  e_avg_total_fees_atr : N;
  e_total_payout_routing : N;
  e_total_payout_mining : N;
  e_total_payout_treasury : N;
  e_total_payout_graveyard : N;
  e_total_payout_atr : N;
  e_avg_payout_routing : N;
  e_avg_payout_mining : N;
  e_avg_payout_treasury : N;
  e_avg_payout_graveyard : N;
  e_avg_payout_atr : N;
  e_avg_fee_per_byte : N;
  e_fee_per_byte : N;
  e_avg_nolan_rebroadcast_per_block : N;
  e_burnfee : N;
  e_difficulty : N;
}.

Definition econ0 : econ := mkE 0 0 0 0 0 0 0 0 0 0 0 0 0 0 0 0 0 0 0 0 0 0.

(* the 20 values compared under [validate_against_utxo], then burnfee, difficulty *)
Definition guarded_fields (e : econ) : list N :=
  [ e_total_fees e; e_total_fees_new e; e_total_fees_atr e; e_total_fees_cumulative e;
    e_avg_total_fees e; e_avg_total_fees_new e; e_avg_total_fees_atr e;
    e_total_payout_routing e; e_total_payout_mining e; e_total_payout_treasury e;
    e_total_payout_graveyard e; e_total_payout_atr e;
    e_avg_payout_routing e; e_avg_payout_mining e; e_avg_payout_treasury e;
    e_avg_payout_graveyard e; e_avg_payout_atr e;
    e_avg_fee_per_byte e; e_fee_per_byte e; e_avg_nolan_rebroadcast_per_block e ].

Definition set_total_fees (e : econ) (v : N) : econ :=
  mkE v (e_total_fees_new e) (e_total_fees_atr e) (e_total_fees_cumulative e)
      (e_avg_total_fees e) (e_avg_total_fees_new e) (e_avg_total_fees_atr e)
      (e_total_payout_routing e) (e_total_payout_mining e) (e_total_payout_treasury e)
      (e_total_payout_graveyard e) (e_total_payout_atr e)
      (e_avg_payout_routing e) (e_avg_payout_mining e) (e_avg_payout_treasury e)
      (e_avg_payout_graveyard e) (e_avg_payout_atr e)
      (e_avg_fee_per_byte e) (e_fee_per_byte e) (e_avg_nolan_rebroadcast_per_block e)
      (e_burnfee e) (e_difficulty e).

(* ConsensusValues, as far as create / validate read it *)
Record cvrec := mkCv {
  c_econ : econ;
  c_rebroadcasts : list tx;           (* cv.rebroadcasts, in order *)
  c_total_rebroadcast_slips : N;
  c_rebroadcast_hash : N;             (* interned cv.rebroadcast_hash *)
  c_fee_tx : option tx;               (* cv.fee_transaction *)
}.

Record block := mkB {
  b_id : N;
  b_ts : N;
  b_prev : N;                 (* interned previous_block_hash *)
  b_creator : N;
  b_unpaid : N;               (* previous_block_unpaid *)
  b_treasury : N;
  b_graveyard : N;
  b_econ : econ;              (* the header fields of the same names *)
  b_txs : list tx;
  b_merkle : N;
  b_signed : bool;            (* verify_signature(pre_hash, signature, creator) *)
  (* filled by Block::generate *)
  b_total_work : N;
  b_rb_slips : N;             (* total_rebroadcast_slips *)
  b_rb_hash : N;              (* rebroadcast_hash *)
}.

(* what the code reads of a stored block that is the parent of the new one *)
Record parent := mkPar {
  par_hash : N;
  par_id : N;
  par_ts : N;
  par_treasury : N;
  par_graveyard : N;
  par_total_fees : N;
  par_burnfee : N;
  par_ghost : bool;           (* block_type == Ghost *)
}.

(* what can_bundle_block / create / validate read of the chain and the configuration
   besides what goes through [cv]; [v_tip] = get_latest_block() *)
Record chainview := mkView {
  v_tip : option parent;
  v_blocks_empty : bool;      (* blockchain.blocks.is_empty() *)
  v_stake_req : N;            (* blockchain.social_stake_requirement *)
  v_heartbeat : N;
  v_offset : N;               (* U256(hash(public_key ++ tip hash)).low_u128() % 5000 *)
  v_gtc_with : bool;          (* is_golden_ticket_count_valid(tip hash, true, ..) *)
  v_gtc_without : bool;       (* is_golden_ticket_count_valid(tip hash, false, ..) *)
}.

Definition gt_count_ok (v : chainview) (has_gt : bool) : bool :=
  if has_gt then v_gtc_with v else v_gtc_without v.

(* ---------------------------------------------------------------- arithmetic *)
Definition two64 : N := 18446744073709551616.
Definition SITE_ADD : N := 1.          (* u64 `+` in a debug build *)
Definition SITE_TREASURY : N := 2.     (* `.. + cv.total_payout_treasury - cv.total_payout_atr` underflows *)
Definition SITE_GT_IN_TXPOOL : N := 4. (* panic!("golden tickets should be in gt collection") *)
Definition SITE_SUPPLY : N := 5.       (* panic!("cannot continue with invalid total supply") *)

(* [dbg] = overflow-checks on (debug profile): panic; off: wrap *)
Definition uadd (dbg : bool) (a b : N) : res N :=
  if a + b <? two64 then Ok (a + b) else if dbg then Panic SITE_ADD else Ok ((a + b) mod two64).
Definition usub (dbg : bool) (a b : N) : res N :=
  if b <=? a then Ok (a - b) else if dbg then Panic SITE_TREASURY else Ok (a + two64 - b).

(* ---------------------------------------------------------------- lists *)
Definition opt_list {A} (o : option A) : list A := match o with Some x => [x] | None => [] end.
Definition is_nil {A} (l : list A) : bool := match l with [] => true | _ => false end.
Definition is_some {A} (o : option A) : bool := match o with Some _ => true | None => false end.
Definition mem (k : N) (l : list N) : bool := existsb (N.eqb k) l.
Fixpoint has_dup (l : list N) : bool :=
  match l with [] => false | x :: r => mem x r || has_dup r end.
Definition nsum (l : list N) : N := fold_right N.add 0 l.
Fixpoint aget_unsorted {V} (k : N) (m : list (N * V)) : option V :=
  match m with [] => None | (k', v) :: t => if k =? k' then Some v else aget_unsorted k t end.

(* first loop of generate_consensus_values: counters, and the LAST index of a type *)
Definition count_type (k : ttype) (l : list tx) : N := countb (is_type k) l.
Fixpoint last_index_from (k : ttype) (i : N) (l : list tx) (acc : option N) : option N :=
  match l with
  | [] => acc
  | t :: r => last_index_from k (i + 1) r (if is_type k t then Some i else acc)
  end.
Definition last_index (k : ttype) (l : list tx) : option N := last_index_from k 0 l None.
Definition tx_at (l : list tx) (i : N) : option tx := nth_error l (N.to_nat i).

(* slips_spent_this_block (Block::create) and new_slips_map (Block::validate): a
   value-carrying input key that occurs twice among the non-Fee transactions *)
Definition spent_keys (l : list tx) : list N :=
  flat_map (fun t => if is_type TFee t then [] else t_inputs t) l.
Definition dup_spend (l : list tx) : bool := has_dup (spent_keys l).

(* ---------------------------------------------------------------- specification predicates
   (used by the statements of props/C07.v; no proofs here) *)

(* [agreesb cC cV]: every value that Block::validate recomputes ([cV] = cv of the FINISHED
   block) equals what Block::create wrote into the header from [cC] = cv of the half-built
   block.  Field by field: see C07_agrees_fields. *)
(* fix f640126: `carried.zip(cv.rebroadcasts)` -- pairwise, as far as the shorter list goes, the
   rebroadcasts carried by the block consume the same utxoset keys as the expected ones *)
Fixpoint same_inputs (carried expected : list tx) : bool :=
  match carried, expected with
  | t :: r, e :: r' => eqb_lN (t_inputs t) (t_inputs e) && same_inputs r r'
  | _, _ => true
  end.

Definition agreesb (dbg : bool) (hchain : list N -> N) (cC cV : cvrec) : bool :=
  let C := c_econ cC in
  let V := c_econ cV in
  match uadd dbg (e_total_fees_new C) (e_total_fees_atr C) with
  | Ok tf => eqb_lN (guarded_fields V) (guarded_fields (set_total_fees C tf))
  | _ => false
  end
  && (e_burnfee V =? e_burnfee C) && (e_difficulty V =? e_difficulty C)
  && (c_total_rebroadcast_slips cV =? nsum (map t_atr_slips (c_rebroadcasts cC)))
  && (c_rebroadcast_hash cV =? hchain (map t_id (c_rebroadcasts cC)))
  && same_inputs (c_rebroadcasts cC) (c_rebroadcasts cV)
  && match c_fee_tx cC with
     | Some f => match c_fee_tx cV with Some f' => t_id f' =? t_id f | None => false end
     | None => negb (is_some (c_fee_tx cV))     (* fix 60ba6d1: a due fee transaction may not be missing *)
     end.

(* what the pool may hold: no golden ticket (routed to the ticket map), no producer-only type *)
Definition pool_tx_ok (t : tx) : bool :=
  negb (is_type TGoldenTicket t) && negb (is_type TFee t) && negb (is_type TATR t).
Definition pool_types_ok (l : list tx) : bool := forallb pool_tx_ok l.

(* the transactions cv hands to create have the types create assumes *)
Definition cv_types_ok (c : cvrec) : bool :=
  forallb (is_type TATR) (c_rebroadcasts c)
  && match c_fee_tx c with Some f => is_type TFee f | None => true end.

Section Producer.
  Variable chain : Type.
  Variable view : chain -> chainview.
  (* generate_consensus_values on a block, given chain (+ disk) and ledger *)
  Variable cv : chain -> list N -> block -> cvrec.
  (* Transaction::validate(utxoset, blockchain, true) *)
  Variable tx_valid : chain -> list N -> tx -> bool.
  (* Block::validate's verdict on the ticket carried by a GoldenTicket transaction: its key is
     not the all-zero key and GoldenTicket::create(parent hash, random, key).validate(parent difficulty) *)
  Variable gt_ok : chain -> tx -> bool.
  (* BurnFee::return_routing_work_needed_to_produce_block_in_nolan(burnfee, ts, previous ts, heartbeat) *)
  Variable work_needed : N -> N -> N -> N -> N.
  (* Blockchain::check_total_supply after the block was wound: utxoset + graveyard + treasury +
     unpaid + fees of the new tip equals the initial supply (C02's subject; it panics otherwise) *)
  Variable supply_ok : chain -> list N -> block -> bool.
  Variable hchain : list N -> N.        (* rebroadcast hash chain over the ATR transactions' ids *)
  Variable mroot : list N -> N.         (* merkle root over the transactions' ids *)

  Record node := mkNode { n_chain : chain; n_ledger : list N }.

  (* blockchain.blocks.get(&hash): only children of the tip are in scope *)
  Definition parent_of (v : chainview) (h : N) : option parent :=
    match v_tip v with
    | Some p => if par_hash p =? h then Some p else None
    | None => None
    end.

  (* ---------------------------------------------------------------- Block::generate *)
  Definition atr_txs (l : list tx) : list tx := filter (is_type TATR) l.

  Definition generate (b : block) : block :=
    mkB (b_id b) (b_ts b) (b_prev b) (b_creator b) (b_unpaid b) (b_treasury b) (b_graveyard b)
        (b_econ b) (b_txs b) (b_merkle b) (b_signed b)
        (nsum (map t_work (b_txs b)))
        (nsum (map t_atr_slips (atr_txs (b_txs b))))
        (hchain (map t_id (atr_txs (b_txs b)))).

  (* ---------------------------------------------------------------- Block::create *)
  (* the block as it is when generate_consensus_values is called inside create *)
  Definition pre_block (par : option parent) (tip_hash creator ts : N) (gt : option tx)
             (drained : list tx) : block :=
    mkB (match par with Some p => par_id p | None => 0 end + 1) ts tip_hash creator
        (match gt with Some _ => 0 | None => match par with Some p => par_total_fees p | None => 0 end end)
        0 0 econ0
        (opt_list gt ++ drained)
        0 false 0 0 0.

  (* the body of Block::create from the point where the consensus values [c] of the half-built
     block [b0] are known *)
  Definition create_from (dbg : bool) (n : node) (b0 : block) (c : cvrec) : res block :=
    let par := v_tip (view (n_chain n)) in
    let e := c_econ c in
    do tf <- uadd dbg (e_total_fees_new e) (e_total_fees_atr e);
    do t1 <- uadd dbg (match par with Some p => par_treasury p | None => 0 end) (e_total_payout_treasury e);
    do tr <- usub dbg t1 (e_total_payout_atr e);
    do gy <- uadd dbg (match par with Some p => par_graveyard p | None => 0 end) (e_total_payout_graveyard e);
    let txs1 := b_txs b0 ++ c_rebroadcasts c ++ opt_list (c_fee_tx c) in
    if dup_spend txs1 then Err
    else Ok (generate
               (mkB (b_id b0) (b_ts b0) (b_prev b0) (b_creator b0) (b_unpaid b0) tr gy (set_total_fees e tf)
                    txs1 (mroot (map t_id txs1)) true 0 0 0)).

  (* fix 1214e31: a transaction (other than the golden ticket) that spends an input of one of
     the rebroadcasts of this block is left out *)
  Definition rb_inputs (c : cvrec) : list N := flat_map t_inputs (c_rebroadcasts c).
  Definition collides (ks : list N) (t : tx) : bool := existsb (fun k => mem k ks) (t_inputs t).
  Definition keepf (c : cvrec) (t : tx) : bool :=
    is_type TGoldenTicket t || negb (collides (rb_inputs c) t).
  Definition keep_txs (c : cvrec) (l : list tx) : list tx :=
    if is_nil (c_rebroadcasts c) then l else filter (keepf c) l.
  Definition set_txs (b : block) (l : list tx) : block :=
    mkB (b_id b) (b_ts b) (b_prev b) (b_creator b) (b_unpaid b) (b_treasury b) (b_graveyard b)
        (b_econ b) l (b_merkle b) (b_signed b) (b_total_work b) (b_rb_slips b) (b_rb_hash b).

  Definition tip_hash_of (n : node) : N :=
    match v_tip (view (n_chain n)) with Some p => par_hash p | None => 0 end.

  (* the half-built block after the filter, and the consensus values create goes on with
     (recomputed only if something was left out) *)
  Definition create_pre (n : node) (creator ts : N) (gt : option tx) (drained : list tx) : block * cvrec :=
    let b0 := pre_block (v_tip (view (n_chain n))) (tip_hash_of n) creator ts gt drained in
    let c0 := cv (n_chain n) (n_ledger n) b0 in
    let k := keep_txs c0 (b_txs b0) in
    let b1 := set_txs b0 k in
    (b1, if (length k =? length (b_txs b0))%nat then c0 else cv (n_chain n) (n_ledger n) b1).

  Definition create (dbg : bool) (n : node) (creator ts : N) (gt : option tx) (drained : list tx)
    : res block :=
    let bc := create_pre n creator ts gt drained in
    create_from dbg n (fst bc) (snd bc).

  (* the pooled transactions create hands back when it fails (everything it still holds that is
     not a golden ticket, a rebroadcast or the fee transaction) *)
  Definition handed_back (n : node) (creator ts : N) (gt : option tx) (drained : list tx) : list tx :=
    let bc := create_pre n creator ts gt drained in
    filter (fun t => negb (is_type TGoldenTicket t || is_type TATR t || is_type TFee t))
           (b_txs (fst bc) ++ c_rebroadcasts (snd bc) ++ opt_list (c_fee_tx (snd bc))).

  (* ---------------------------------------------------------------- Block::validate *)
  Definition eq_all (a b : list N) : bool := eqb_lN a b.

  Definition fee_tx_check (vu : bool) (c : cvrec) (l : list tx) : bool :=
    let ftn := count_type TFee l in
    if 1 <? ftn then false
    else if (0 <? ftn) && negb (is_some (c_fee_tx c)) then false
    else if (ftn =? 0) && is_some (c_fee_tx c) then false      (* fix 60ba6d1 *)
    else if 0 <? ftn then
      match last_index TFee l, c_fee_tx c with
      | Some i, Some expected =>
          if negb (is_some (last_index TGoldenTicket l)) then false
          else match tx_at l i with
               | Some inblock => negb (vu && negb (t_id expected =? t_id inblock))
               | None => true
               end
      | _, _ => true
      end
    else true.

  Definition txs_sweep (n : node) (l : list tx) : bool :=
    forallb (tx_valid (n_chain n) (n_ledger n)) l && negb (dup_spend l).

  Definition validate (dbg : bool) (n : node) (vu : bool) (b : block) : res bool :=
    let v := view (n_chain n) in
    if is_nil (b_txs b) && negb (b_id b =? 1) && negb (v_blocks_empty v) then Ok false else
    if negb (b_signed b) then Ok false else
    let c := cv (n_chain n) (n_ledger n) b in
    let e := c_econ c in
    if vu && negb (eq_all (guarded_fields e) (guarded_fields (b_econ b))) then Ok false else
    if negb (e_burnfee e =? e_burnfee (b_econ b)) then Ok false else
    if negb (e_difficulty e =? e_difficulty (b_econ b)) then Ok false else
    if (0 <? count_type TIssuance (b_txs b)) && (1 <? b_id b) then Ok false else
    if negb (v_stake_req v =? 0) && negb (count_type TBlockStake (b_txs b) =? 1) && (1 <? b_id b)
    then Ok false else
    do early <-
      match parent_of v (b_prev b) with
      | None => Ok None
      | Some p =>
          if par_ghost p then Ok (Some true) else
          if negb (b_id b =? par_id p + 1) then Ok (Some false) else      (* fix 6b3137c *)
          do t1 <- uadd dbg (par_treasury p) (e_total_payout_treasury e);
          do tr <- usub dbg t1 (e_total_payout_atr e);
          if vu && negb (b_treasury b =? tr) then Ok (Some false) else
          do gy <- uadd dbg (par_graveyard p) (e_total_payout_graveyard e);
          if vu && negb (b_graveyard b =? gy) then Ok (Some false) else
          if b_total_work b <? work_needed (par_burnfee p) (b_ts b) (par_ts p) (v_heartbeat v)
          then Ok (Some false) else
          match last_index TGoldenTicket (b_txs b) with
          | Some gi =>
              if negb (b_unpaid b =? 0) then Ok (Some false) else
              match tx_at (b_txs b) gi with
              | Some g => if gt_ok (n_chain n) g then Ok None else Ok (Some false)
              | None => Ok None
              end
          | None =>
              if negb (b_unpaid b =? par_total_fees p) then Ok (Some false) else Ok None
          end
      end;
    match early with
    | Some r => Ok r
    | None =>
        if vu && negb (c_total_rebroadcast_slips c =? b_rb_slips b) then Ok false else
        if vu && negb (c_rebroadcast_hash c =? b_rb_hash b) then Ok false else
        if vu && negb (same_inputs (atr_txs (b_txs b)) (c_rebroadcasts c)) then Ok false else
        if negb (b_merkle b =? mroot (map t_id (b_txs b))) then Ok false else
        if negb (fee_tx_check vu c (b_txs b)) then Ok false else
        Ok (txs_sweep n (b_txs b))
    end.

  (* Blockchain::add_block on a child of the tip: the golden-ticket count check of
     Blockchain::validate, then Block::validate inside wind_chain, then -- the block is wound
     by now -- check_total_supply, which panics *)
  Definition has_gt (b : block) : bool := 0 <? count_type TGoldenTicket (b_txs b).
  Definition node_accepts (dbg : bool) (n : node) (b : block) : res bool :=
    if negb (gt_count_ok (view (n_chain n)) (has_gt b)) then Ok false
    else do v <- validate dbg n true b;
         if v then (if supply_ok (n_chain n) (n_ledger n) b then Ok true else Panic SITE_SUPPLY)
         else Ok false.


  (* no defect class is listed for C07 any more (known_findings.txt): the last one, an
     Issuance-typed transaction in the pool of a running chain, is closed by 716c212 *)

  (* ---------------------------------------------------------------- the pool *)
  Record mpool := mkM {
    m_txs : list tx;             (* Mempool.transactions (keyed by signature) *)
    m_umap : list N;             (* keys of Mempool.utxo_map *)
    m_work : N;                  (* routing_work_in_mempool *)
    m_fresh : bool;              (* new_tx_added *)
    m_queue_empty : bool;        (* blocks_queue.is_empty() *)
    m_gts : list (N * tx);       (* golden_tickets: target hash -> ticket transaction *)
  }.

  Definition has_sig (s : N) (l : list tx) : bool := existsb (fun t => t_sig t =? s) l.
  Definition producer_only (t : tx) : bool := is_type TFee t || is_type TATR t || is_type TSPV t.
  Definition conflicts (m : mpool) (t : tx) : bool := existsb (fun k => mem k (m_umap m)) (t_inputs t).

  Definition add_transaction (dbg : bool) (m : mpool) (t : tx) : res mpool :=
    if conflicts m t then Ok m
    else if has_sig (t_sig t) (m_txs m) then Ok m
    else do w <- uadd dbg (m_work m) (t_work t);
         if is_type TGoldenTicket t then Panic SITE_GT_IN_TXPOOL
         else Ok (mkM (t :: m_txs m) (t_inputs t ++ m_umap m) w true (m_queue_empty m) (m_gts m)).

  Definition add_transaction_if_validates (dbg : bool) (n : node) (m : mpool) (t : tx) : res mpool :=
    if producer_only t then Ok m
    else if is_type TBlockStake t && negb (t_own t) then Ok m      (* fix 9879695 *)
    else if is_type TIssuance t && negb (v_blocks_empty (view (n_chain n))) then Ok m   (* fix 716c212 *)
    else if tx_valid (n_chain n) (n_ledger n) t then add_transaction dbg m t else Ok m.

  (* add_golden_ticket: keyed by target, the solution is not looked at *)
  Definition add_golden_ticket (m : mpool) (target : N) (g : tx) : mpool :=
    if existsb (fun x => fst x =? target) (m_gts m) then m
    else mkM (m_txs m) (m_umap m) (m_work m) (m_fresh m) (m_queue_empty m) ((target, g) :: m_gts m).

  (* ConsensusThread::bundle_block: golden_tickets.get(&latest_block_hash) *)
  Definition pick_gt (m : mpool) (tip_hash : N) : option tx :=
    match find (fun x => fst x =? tip_hash) (m_gts m) with Some x => Some (snd x) | None => None end.

  (* ---------------------------------------------------------------- can_bundle_block *)
  Definition can_bundle (n : node) (m : mpool) (ts : N) (with_gt : bool) : option N :=
    let v := view (n_chain n) in
    if v_blocks_empty v then None
    else if negb (m_queue_empty m) then None
    else if is_nil (m_txs m) || negb (m_fresh m) then None
    else if negb (gt_count_ok v with_gt) then None
    else match v_tip v with
         | Some p =>
             let need := work_needed (par_burnfee p) ts (par_ts p) (v_heartbeat v) in
             if ts <? par_ts p + v_offset v then None
             else if need <=? m_work m then Some (m_work m) else None
         | None => Some 0
         end.

  (* ---------------------------------------------------------------- bundle_block *)
  (* the drain of the hash map: [order] lists the signatures in the order in which the
     implementation's map yielded them (recorded by the harness); the drained list is the
     pool sorted by position in [order] (signatures not listed come last) *)
  Fixpoint pos (order : list N) (k : N) : N :=
    match order with
    | [] => 0
    | x :: r => if x =? k then 0 else 1 + pos r k
    end.
  Definition drain_in (order : list N) (l : list tx) : list tx :=
    sort_by (fun a b => pos order (t_sig a) <=? pos order (t_sig b)) l.

  Definition remove_keys (ks : list N) (l : list N) : list N :=
    filter (fun k => negb (mem k ks)) l.

  (* outcome of bundle_block: no block and why, or the block *)
  Inductive bundled := GateClosed | NoStake | CreateFailed | Bundled (b : block).

  (* fixes e0300b2, 6a5c788: the ticket handed over is checked exactly like Block::validate will
     check it (key not all-zero, solution for the tip); one that
     does not solve the tip is removed from the ticket map (under the tip's hash and under its
     own target) and the bundle goes on without a ticket *)
  Definition del_gt (h : N) (g : list (N * tx)) : list (N * tx) :=
    filter (fun x => negb (fst x =? h)) g.
  Definition drop_ticket (n : node) (m : mpool) (g : tx) : mpool :=
    mkM (m_txs m) (m_umap m) (m_work m) (m_fresh m) (m_queue_empty m)
        (del_gt (t_target g) (del_gt (tip_hash_of n) (m_gts m))).
  Definition screen_ticket (n : node) (m : mpool) (gt : option tx) : option tx * mpool :=
    match gt with
    | Some g => if gt_ok (n_chain n) g then (Some g, m) else (None, drop_ticket n m g)
    | None => (None, m)
    end.

  Definition bundle (dbg : bool) (n : node) (creator : N) (m : mpool) (ts : N) (gt : option tx)
             (stake : option tx) (order : list N) : res (bundled * mpool) :=
    let v := view (n_chain n) in
    let pts := match v_tip v with Some p => par_ts p | None => 0 end in
    (* current_timestamp <= previous_block_timestamp: `return None` (fix f62222f; an assert! before) *)
    if negb (pts <? ts) then Ok (GateClosed, m) else
    let '(gt, m) := screen_ticket n m gt in
    match can_bundle n m ts (is_some gt) with
    | None => Ok (GateClosed, m)
    | Some _ =>
        match stake with
        | None => Ok (NoStake, m)             (* create_staking_transaction(..).ok()? *)
        | Some s =>
            do m1 <- add_transaction_if_validates dbg n m s;
            let drained := drain_in order (m_txs m1) in
            match create dbg n creator ts gt drained with
            | Panic site => Panic site
            | Err =>
                (* create put back what it had drained and not left out; reservations and the
                   work cache are recomputed from that *)
                let back := handed_back n creator ts gt drained in
                Ok (CreateFailed,
                    mkM back (flat_map t_inputs back) (nsum (map t_work back)) (m_fresh m1)
                        (m_queue_empty m1) (m_gts m1))
            | Ok b =>
                (* the pool was drained; rebuild_utxo_map() on it (fix ffb4da9) *)
                Ok (Bundled b, mkM [] [] 0 false (m_queue_empty m1) (m_gts m1))
            end
        end
    end.

  (* ---------------------------------------------------------------- after add_block *)
  (* add_block_failure: delete_block(hash of the FAILED block) on a map keyed by target,
     then the Normal transactions of an own block that validate go back through add_transaction *)
  Fixpoint add_all (dbg : bool) (m : mpool) (l : list tx) : res mpool :=
    match l with
    | [] => Ok m
    | t :: r => do m1 <- add_transaction dbg m t; add_all dbg m1 r
    end.

  Definition after_failure (dbg : bool) (n : node) (m : mpool) (block_hash : N) (mine : bool)
             (b : block) : res mpool :=
    let m0 := mkM (m_txs m) (m_umap m) (m_work m) (m_fresh m) (m_queue_empty m)
                  (del_gt block_hash (m_gts m)) in
    if mine then
      do m1 <- add_all dbg m0
                 (filter (fun t => is_type TNormal t && tx_valid (n_chain n) (n_ledger n) t) (b_txs b));
      Ok (mkM (m_txs m1) (m_umap m1) (m_work m1) true (m_queue_empty m1) (m_gts m1))
    else Ok m0.

  (* add_block_success -> remove_block_transactions -> delete_transactions: the ticket of the
     block's golden ticket transaction leaves the map under its target (the pool itself
     was drained into the block) *)
  Definition after_success (m : mpool) (tip_hash : N) (b : block) : mpool :=
    if has_gt b
    then mkM (m_txs m) (m_umap m) (m_work m) (m_fresh m) (m_queue_empty m) (del_gt tip_hash (m_gts m))
    else m.

  (* ---------------------------------------------------------------- observation *)
  Definition obs_econ (e : econ) : list N := guarded_fields e ++ [e_burnfee e; e_difficulty e].

  Definition obs_block (b : block) : list (list N) :=
    [ map t_id (b_txs b);
      [b_id b; b_ts b; b_prev b; b_unpaid b; b_treasury b; b_graveyard b];
      obs_econ (b_econ b);
      [b_total_work b; b_rb_slips b; b_rb_hash b; b_merkle b] ].

  Definition obs_bool (r : res bool) : N :=
    match r with Ok true => 1 | Ok false => 0 | Err => 998 | Panic s => 900 + s end.

  Definition obs_pool (m : mpool) : list (list N) :=
    [ sort_by N.leb (map t_sig (m_txs m)); [m_work m; if m_fresh m then 1 else 0];
      sort_by N.leb (map fst (m_gts m)) ].

  (* one production round as the consensus thread runs it on the timer: bundle, and if a
     block came out, Blockchain::add_block on the producer ([n]) and on a second node [n2];
     a rejected own block goes through add_block_failure *)
  Definition round (dbg : bool) (n n2 : node) (creator : N) (m : mpool) (ts : N)
             (stake : option tx) (order : list N) (block_hash : N) : list (list N) :=
    let tip_hash := tip_hash_of n in
    let gt := pick_gt m tip_hash in
    match bundle dbg n creator m ts gt stake order with
    | Panic s => [[900 + s]]
    | Err => [[998]]
    | Ok (GateClosed, m') => [1] :: obs_pool m'
    | Ok (NoStake, m') => [2] :: obs_pool m'
    | Ok (CreateFailed, m') => [3] :: obs_pool m'
    | Ok (Bundled b, m') =>
        let r1 := node_accepts dbg n b in
        let r2 := node_accepts dbg n2 b in
        let m'' := match r1 with
                   | Ok false => after_failure dbg n m' block_hash true b
                   | Ok true => Ok (after_success m' tip_hash b)
                   | _ => Ok m'
                   end in
        [4] :: obs_block b ++ [[obs_bool r1; obs_bool r2]]
            ++ match m'' with Ok x => obs_pool x | Err => [[998]] | Panic s => [[900 + s]] end
    end.
End Producer.

(* ---------------------------------------------------------------- the window (fix bb88717)
   [key_block k] = the block id that is part of utxoset key [k].  An input can be spent in block
   [next] iff key_block + genesis_period >= next; the outputs of block next - genesis_period - 1
   are the ones block [next] rebroadcasts or collects. *)
Definition young_tx (key_block : N -> N) (gp next : N) (t : tx) : bool :=
  forallb (fun k => next <=? key_block k + gp) (t_inputs t).
Definition young_pool (key_block : N -> N) (gp next : N) (l : list tx) : bool :=
  forallb (young_tx key_block gp next) l.
(* Blockchain::remove_block_transactions after a block was added (fix df3ca14): a pooled
   transaction stays iff its inputs are still spendable in the ledger AND inside the window for the
   next block (ATR / Issuance-typed ones are exempt from the window test; neither is ever pooled
   with inputs); then delete_transactions takes out what the block carried and recomputes the
   work cache and the reservations *)
Definition window_exempt (t : tx) : bool := is_type TATR t || is_type TIssuance t.
Definition revalidate (key_block : N -> N) (gp next : N) (spendable : tx -> bool) (confirmed : list N)
           (txs : list tx) : list tx :=
  filter (fun t => negb (existsb (N.eqb (t_sig t)) confirmed))
         (filter (fun t => spendable t && (window_exempt t || young_tx key_block gp next t)) txs).

(* the life of the pool between productions: transactions arrive through the intake on the current
   node state, the tip moves (any new node state; the pool is re-validated), a bundle drains the
   pool and create hands part of it back *)
Section PoolLife.
  Variable chain : Type.
  Variable view : chain -> chainview.
  Variable tx_valid : chain -> list N -> tx -> bool.
  Variable key_block : N -> N.
  Variable gp : N.
  Variable next_of : chain -> N.

  Inductive pev :=
  | PIntake (t : tx)
  | PTip (n' : node chain) (spendable : tx -> bool) (confirmed : list N)
  | PShrink (f : tx -> bool).

  Definition with_txs (m : mpool) (l : list tx) : mpool :=
    mkM l (flat_map t_inputs l) (nsum (map t_work l)) (m_fresh m) (m_queue_empty m) (m_gts m).

  Definition pstep (dbg : bool) (st : node chain * mpool) (e : pev) : res (node chain * mpool) :=
    match e with
    | PIntake t => do m1 <- add_transaction_if_validates chain view tx_valid dbg (fst st) (snd st) t; Ok (fst st, m1)
    | PTip n' sp cf =>
        Ok (n', with_txs (snd st) (revalidate key_block gp (next_of (n_chain _ n')) sp cf (m_txs (snd st))))
    | PShrink f => Ok (fst st, with_txs (snd st) (filter f (m_txs (snd st))))
    end.

  Fixpoint prun (dbg : bool) (st : node chain * mpool) (l : list pev) : res (node chain * mpool) :=
    match l with
    | [] => Ok st
    | e :: r => do st1 <- pstep dbg st e; prun dbg st1 r
    end.

  (* the chain of the node is running (blocks is not empty) -- now and after every tip move *)
  Definition started (st : node chain * mpool) : bool := negb (v_blocks_empty (view (n_chain _ (fst st)))).
  Definition tip_started (e : pev) : bool :=
    match e with PTip n' _ _ => negb (v_blocks_empty (view (n_chain _ n'))) | _ => true end.

  Definition PoolInv (st : node chain * mpool) : Prop :=
    young_pool key_block gp (next_of (n_chain _ (fst st))) (m_txs (snd st)) = true
    /\ Forall (fun t => window_exempt t = false) (m_txs (snd st)).
End PoolLife.

(* the rebroadcasts of block [next] consume outputs of block next - gp - 1 *)
Definition rebroadcasts_due (key_block : N -> N) (gp next : N) (c : cvrec) : bool :=
  forallb (fun k => key_block k + gp + 1 =? next) (flat_map t_inputs (c_rebroadcasts c)).

(* ---------------------------------------------------------------- harness glue
   One production round with the Section variables instantiated by tables of what the real
   functions returned in that round: [cvC] = the ConsensusValues Block::create computed
   (block.cv), [cvV] = what generate_consensus_values returns on the finished block on the
   second node; verdicts of Transaction::validate and of the golden-ticket check per
   transaction id; hash values per id list.  A request outside a table yields the
   sentinel 0 / false. *)
Definition lookup_l (tbl : list (list N * N)) (k : list N) : N :=
  match find (fun x => eqb_lN (fst x) k) tbl with Some x => snd x | None => 0 end.
Definition lookup_b (tbl : list (N * bool)) (k : N) : bool :=
  match aget_unsorted k tbl with Some b => b | None => false end.

Record rcase := mkRC {
  rc_view : chainview;
  rc_pool : mpool;
  rc_creator : N;
  rc_ts : N;
  rc_stake : option tx;
  rc_order : list N;
  rc_block_hash : N;
  rc_cvC : cvrec;
  rc_cvV : cvrec;
  rc_valid : list (N * bool);
  rc_gt_ok : list (N * bool);
  rc_key_block : list (N * N);
  rc_gp : N;
  rc_hchain : list (list N * N);
  rc_mroot : list (list N * N);
  rc_supply_ok : bool;
  rc_expected : list (list N);
}.

Definition rc_node : node unit := mkNode unit tt [].
Definition rc_viewf (c : rcase) : unit -> chainview := fun _ => rc_view c.
Definition rc_cvf (c : rcase) : unit -> list N -> block -> cvrec :=
  fun _ _ b => if b_signed b then rc_cvV c else rc_cvC c.
Definition rc_validf (c : rcase) : unit -> list N -> tx -> bool := fun _ _ t => lookup_b (rc_valid c) (t_id t).
Definition rc_gtf (c : rcase) : unit -> tx -> bool := fun _ t => lookup_b (rc_gt_ok c) (t_id t).
Definition rc_key_blockf (c : rcase) : N -> N :=
  fun k => match aget_unsorted k (rc_key_block c) with Some b => b | None => 0 end.

Definition run_rcase (wn : N -> N -> N -> N -> N) (c : rcase) : list (list N) :=
  round unit (rc_viewf c) (rc_cvf c) (rc_validf c) (rc_gtf c)
        wn (fun _ _ _ => rc_supply_ok c) (lookup_l (rc_hchain c)) (lookup_l (rc_mroot c))
        true rc_node rc_node (rc_creator c) (rc_pool c) (rc_ts c) (rc_stake c) (rc_order c) (rc_block_hash c).

(* the pieces of the round, for statements about a recorded case *)
Definition rc_tip_hash (c : rcase) : N :=
  match v_tip (rc_view c) with Some p => par_hash p | None => 0 end.
(* the ticket bundle_block goes on with: the pooled one for the tip, if it solves the tip *)
Definition rc_gt (c : rcase) : option tx :=
  fst (screen_ticket unit (rc_viewf c) (rc_gtf c) rc_node (rc_pool c) (pick_gt (rc_pool c) (rc_tip_hash c))).
Definition rc_drained (c : rcase) : list tx :=
  match rc_stake c with
  | Some s =>
      match add_transaction_if_validates unit (rc_viewf c) (rc_validf c) true rc_node (rc_pool c) s with
      | Ok m1 => drain_in (rc_order c) (m_txs m1)
      | _ => []
      end
  | None => []
  end.
Definition rc_created (c : rcase) : res block :=
  create unit (rc_viewf c) (rc_cvf c) (lookup_l (rc_hchain c)) (lookup_l (rc_mroot c))
         true rc_node (rc_creator c) (rc_ts c) (rc_gt c) (rc_drained c).
Definition rc_pre (c : rcase) : block * cvrec :=
  create_pre unit (rc_viewf c) (rc_cvf c) rc_node (rc_creator c) (rc_ts c) (rc_gt c) (rc_drained c).
Definition rc_accepts (wn : N -> N -> N -> N -> N) (c : rcase) (b : block) : res bool :=
  node_accepts unit (rc_viewf c) (rc_cvf c) (rc_validf c) (rc_gtf c) wn
               (fun _ _ _ => rc_supply_ok c) (lookup_l (rc_mroot c)) true rc_node b.

Definition check_rcases (wn : N -> N -> N -> N -> N) (l : list rcase) : bool :=
  forallb (fun c => eqb_llN (run_rcase wn c) (rc_expected c)) l.

(* ---------------------------------------------------------------- perturbed blocks
   A block accepted in a round, with ONE header field changed / a transaction dropped, altered or
   doubled, re-signed by the producer, offered to a third node that holds the chain up to the
   parent: [vc_cv] = generate_consensus_values of that node on the perturbed block.  The model's
   node_accepts is evaluated on the same block. *)
Record vcase := mkVC {
  vc_view : chainview;
  vc_block : block;
  vc_cv : cvrec;
  vc_valid : list (N * bool);
  vc_gt_ok : list (N * bool);
  vc_mroot : list (list N * N);
  vc_expected : N;
}.

Definition run_vcase (wn : N -> N -> N -> N -> N) (c : vcase) : N :=
  obs_bool
    (node_accepts unit (fun _ => vc_view c) (fun _ _ _ => vc_cv c)
                  (fun _ _ t => lookup_b (vc_valid c) (t_id t))
                  (fun _ t => lookup_b (vc_gt_ok c) (t_id t))
                  wn (fun _ _ _ => true) (lookup_l (vc_mroot c)) true rc_node (vc_block c)).

Definition check_vcases (wn : N -> N -> N -> N -> N) (l : list vcase) : bool :=
  forallb (fun c => run_vcase wn c =? vc_expected c) l.

Definition check_scenario (wn : N -> N -> N -> N -> N) (c : list rcase * list vcase) : bool :=
  check_rcases wn (fst c) && check_vcases wn (snd c).
