(* C08 — model of the routing-work and payout-lottery code:
     Transaction::generate_total_work, validate_routing_path,
     get_winning_routing_node            (transaction.rs)
     Block::find_winning_router, the routing-work gate of Block::validate,
     the payout section of generate_consensus_values (block.rs 1990-2207)

   Model only; proofs are in proofs/RoutingProofs.v.

   Public keys are interned to numbers by the harness (0 = the all-zero
   "graveyard" key [0;33]).  Hop signature checks are oracle bits computed by
   the harness with the real secp256k1 ([h_sig_ok] = verify(tx.signature ++
   hop.to, hop.sig, hop.from)).  The 256-bit lottery numbers are passed as
   numbers (U256::from_big_endian of the hash the code uses). *)
From Saito Require Import Base BurnFee.
From Flocq Require Import Core BinarySingleNaN.

(* panic sites *)
Definition P_AGG_OVERFLOW : N := 811.   (* aggregate_routing_work += …  (debug profile) *)
Definition P_DIV_ZERO : N := 812.       (* U256::div_mod by a zero aggregate (release wrap-around) *)
Definition P_UNREACHABLE : N := 813.    (* unreachable!("winning routing node should've been found…") *)
Definition P_PATH_INDEX : N := 814.     (* self.path[i] out of bounds in the lottery loop *)
Definition P_ASSERT_CUM_FEES : N := 815. (* assert_ne!(winning_tx.cumulative_fees, 0) in find_winning_router *)
Definition P_ATR_DESERIALIZE : N := 816. (* .expect("buffer to be valid") on the inner tx of an ATR tx *)

Record hop := mkHop { h_from : N; h_to : N; h_sig_ok : bool }.

(* what the routing code reads of a transaction *)
Record rtx := mkRtx {
  t_from0 : option N;      (* from[0].public_key, None when there is no input *)
  t_fees : N;              (* total_fees (set by generate_total_fees) *)
  t_path : list hop
}.

(* ---------------------------------------------------------------- *)
(* Transaction::generate_total_work(public_key)                      *)

Fixpoint last_to (p : list hop) (d : N) : N :=
  match p with [] => d | h :: t => last_to t (h_to h) end.

(* for i in 1..path.len(): [prev] = path[i-1], [rest] = path[i..] *)
Fixpoint work_loop (prev : hop) (rest : list hop) (w : N) : N :=
  match rest with
  | [] => w
  | h :: t =>
      if h_from h =? h_to prev
      then work_loop h t (w - w / 2)      (* half = w / 2; w -= half *)
      else 0                              (* "from and to not matching" *)
  end.

Definition total_work (creator : N) (tx : rtx) : N :=
  match t_path tx with
  | [] => 0
  | h0 :: rest =>
      if last_to rest (h_to h0) =? creator
      then work_loop h0 rest (t_fees tx)
      else 0                              (* "last hop is not current node" *)
  end.

(* Block::generate: total_work = Σ tx.total_work_for_me (u64 `+=`) *)
Definition block_total_work (creator : N) (txs : list rtx) : N :=
  fold_left (fun acc tx => acc + total_work creator tx) txs 0.

(* ---------------------------------------------------------------- *)
(* Transaction::validate_routing_path                                *)

Fixpoint vrp_loop (prev : option hop) (p : list hop) : bool :=
  match p with
  | [] => true
  | h :: t =>
      h_sig_ok h
      && negb (h_from h =? h_to h)
      && match prev with None => true | Some q => h_from h =? h_to q end
      && vrp_loop (Some h) t
  end.

Definition validate_routing_path (tx : rtx) : bool := vrp_loop None (t_path tx).

(* ---------------------------------------------------------------- *)
(* Transaction::get_winning_routing_node(random_hash)                *)

(* the loop `for _i in 1..path.len()` building work_by_hop; [agg] and [this]
   are aggregate_routing_work and routing_work_this_hop on entry *)
Fixpoint work_by_hop_from (dbg : bool) (rest : list hop) (agg this : N) : res (list N) :=
  match rest with
  | [] => Ok []
  | _ :: t =>
      let nw := this / 2 in
      let s := agg + nw in
      if dbg && (two64 <=? s) then Panic P_AGG_OVERFLOW
      else
        let agg' := s mod two64 in
        do l <- work_by_hop_from dbg t agg' nw;
        Ok (agg' :: l)
  end.

Definition work_by_hop (dbg : bool) (fees : N) (path : list hop) : res (list N) :=
  do l <- work_by_hop_from dbg (tl path) fees fees;
  Ok (fees :: l).

(* `for i in 0..work_by_hop.len() { if win <= work_by_hop[i] { return path[i].to } }` *)
Fixpoint pick (win : N) (wbh : list N) (p : list hop) : res N :=
  match wbh with
  | [] => Panic P_UNREACHABLE
  | w :: wt =>
      match p with
      | [] => Panic P_PATH_INDEX
      | h :: pt => if win <=? w then Ok (h_to h) else pick win wt pt
      end
  end.

(* [x] = U256::from_big_endian(random_hash) *)
Definition winning_routing_node (dbg : bool) (tx : rtx) (x : N) : res N :=
  match t_path tx with
  | [] => Ok (match t_from0 tx with Some k => k | None => 0 end)
  | _ :: _ =>
      if t_fees tx =? 0 then Ok 0
      else
        do wbh <- work_by_hop dbg (t_fees tx) (t_path tx);
        let z := last wbh 0 in                 (* final aggregate_routing_work *)
        if z =? 0 then Panic P_DIV_ZERO
        else
          let win := (x mod z) mod two64 in    (* zy.low_u64() *)
          pick win wbh (t_path tx)
  end.

(* ---------------------------------------------------------------- *)
(* Block::find_winning_router(random_number)                         *)

Record btx := mkBtx {
  b_cum : N;                 (* cumulative_fees (Block::generate) *)
  b_is_atr : bool;
  b_inner : option rtx;      (* for ATR: Transaction::deserialize_from_net(data), None = Err *)
  b_tx : rtx
}.

Fixpoint first_reaching (win : N) (txs : list btx) : option btx :=
  match txs with
  | [] => None
  | t :: r => if win <=? b_cum t then Some t else first_reaching win r
  end.

(* [x]  = U256 of random_number, [x2] = U256 of hash(random_number);
   [fees] = block.total_fees (header field) *)
Definition find_winning_router (dbg : bool) (fees : N) (txs : list btx) (x x2 : N) : res N :=
  if fees =? 0 then Ok 0
  else
    let winning_nolan := N.max ((x mod fees) mod two64) 1 in
    match first_reaching winning_nolan txs with
    | None => Ok 0
    | Some t =>
        if b_is_atr t then
          match b_inner t with
          | None => Panic P_ATR_DESERIALIZE
          | Some itx => winning_routing_node dbg itx x2
          end
        else if b_cum t =? 0 then Panic P_ASSERT_CUM_FEES
        else winning_routing_node dbg (b_tx t) x2
    end.

(* ---------------------------------------------------------------- *)
(* the routing-work gate of Block::validate:
     if self.total_work < amount_of_routing_work_needed { return false; } *)

Definition gate_passes (dbg : bool) (total_work bf ts prev hb : N) : res bool :=
  do needed <- work_needed_r dbg bf ts prev hb;
  Ok (negb (total_work <? needed)).

(* ---------------------------------------------------------------- *)
(* payout section of generate_consensus_values for a block that carries a
   golden ticket (block.rs 2004-2207).  Sums are taken unbounded (each term is
   bounded by a block's total_fees). *)

Definition c1_5 : f64 := @binary_normalize 53 1024 eq_refl eq_refl mode_NE 3 (-1) false.

(* (previous_block.avg_total_fees as f64 * 1.5) as u64 *)
Definition payout_cap (avg : N) : N := to_u64 (fmul (of_u64 avg) c1_5).

Record prev_info := mkPrev {
  pv_fees : N;               (* previous_block.total_fees *)
  pv_avg : N;                (* previous_block.avg_total_fees *)
  pv_has_gt : bool;          (* previous_block.has_golden_ticket *)
  pv_router : N;             (* previous_block.find_winning_router(r1) *)
  pv_pp : option (N * N)     (* previous_previous_block: (total_fees, find_winning_router(r2)) *)
}.

Definition SLIP_MINER : N := 1.
Definition SLIP_ROUTER : N := 2.

Record payout := mkPayout {
  po_slips : list (N * N * N);   (* outputs of the fee transaction: (key, amount, kind) *)
  po_mining : N;                 (* cv.total_payout_mining *)
  po_routing : N;                (* cv.total_payout_routing *)
  po_treasury : N;               (* cv.total_payout_treasury *)
  po_graveyard : N               (* cv.total_payout_graveyard *)
}.

Definition capped (expected cap : N) : N * N :=   (* (paid, to graveyard) *)
  if cap <? expected then (cap, expected - cap) else (expected, 0).

Definition payout_with_gt (miner : N) (prev : option prev_info) : payout :=
  match prev with
  | None => mkPayout [] 0 0 0 0
  | Some pv =>
      let cap := payout_cap (pv_avg pv) in
      let expected_miner := pv_fees pv / 2 in
      let '(miner_payout, g1) := capped expected_miner cap in
      let expected_router := pv_fees pv - expected_miner in
      let '(router1_payout, g2) := capped expected_router cap in
      let '(treasury, g3, router2_payout, g4, router2) :=
        if pv_has_gt pv then (0, 0, 0, 0, 0)
        else match pv_pp pv with
             | None => (0, 0, 0, 0, 0)
             | Some (ppfees, r2) =>
                 let expected_treasury := ppfees / 2 in
                 let '(tr, gt3) := capped expected_treasury cap in
                 let expected_router2 := ppfees - expected_treasury in
                 let '(r2p, gr4) := capped expected_router2 cap in
                 (tr, gt3, r2p, gr4, r2)
             end in
      let s_miner :=
        if negb (miner =? 0) && (0 <? miner_payout) then [(miner, miner_payout, SLIP_MINER)] else [] in
      let '(s_r1, g5) :=
        if 0 <? router1_payout
        then if negb (pv_router pv =? 0) then ([(pv_router pv, router1_payout, SLIP_ROUTER)], 0)
             else ([], router1_payout)
        else ([], 0) in
      let '(s_r2, g6) :=
        if 0 <? router2_payout
        then if negb (router2 =? 0) then ([(router2, router2_payout, SLIP_ROUTER)], 0)
             else ([], router2_payout)
        else ([], 0) in
      mkPayout (s_miner ++ s_r1 ++ s_r2)
               miner_payout (router1_payout + router2_payout)
               treasury (g1 + g2 + g3 + g4 + g5 + g6)
  end.

Definition slips_total (l : list (N * N * N)) : N :=
  fold_right (fun s acc => snd (fst s) + acc) 0 l.

(* ---------------------------------------------------------------- *)
(* golden-ticket check of Block::validate:
     let gt = GoldenTicket::create(previous_block.hash, golden_ticket.random, golden_ticket.public_key);
     if !gt.validate(previous_block.difficulty) { return false; }
   with validate = solution.leading_zeros() >= difficulty as u32.
   [solution_lz] = leading zeros of hash(previous_block.hash ++ random ++ public_key),
   computed by the harness with the real hash against the real PARENT hash — the
   ticket's own [target] field plays no role. *)
Definition golden_ticket_solves (solution_lz difficulty : N) : bool :=
  difficulty mod 4294967296 <=? solution_lz.

(* the whole golden-ticket section of Block::validate (block.rs, "validate golden ticket"):
   previous_block_unpaid must be 0, the ticket must not name the all-zero key, and the
   re-targeted solution must meet the parent's difficulty *)
Definition golden_ticket_section_ok (ticket_key previous_block_unpaid solution_lz difficulty : N) : bool :=
  (previous_block_unpaid =? 0) && negb (ticket_key =? 0) && golden_ticket_solves solution_lz difficulty.
