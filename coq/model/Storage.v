(* Model of block persistence and of the restart path (C12):
     saito-core/src/core/io/storage.rs        write_block_to_disk, load_block_name_list,
                                              load_blocks_from_disk, delete_block_from_disk
     saito-core/src/core/consensus_thread.rs  ConsensusThread::on_init
     saito-core/src/core/consensus/blockchain.rs  add_blocks_from_mempool, add_block_success
     saito-rust/src/rust_io_handler.rs        write_value (File::create + write_all), remove_value
   composed with the chain model model/Chain.v (same regime: every block id <= 2 * genesis_period,
   so the purge of on_chain_reorganization / delete_blocks never fires during the replay).

   Disk.  The block directory is an association list  file key -> content , kept sorted by key:
   Storage::load_block_name_list sorts the names it gets from the I/O handler, so the order in which
   the handler lists them (RustIOHandler: by mtime) is not observable.  The file name of a block is
   "<timestamp>-<hash>.sai" (Block::get_file_name); its key is  timestamp * 2^256 + hash , i.e. the
   order of keys is the order (timestamp, hash) - the string order of the names whenever the
   timestamps have equally many decimal digits (MODELLED, see registry).
   A file is [Intact p] (it holds the complete serialisation of p: Block::deserialize_from_net
   succeeds and gives p back) or [Torn] (anything else: a strict prefix left by an interrupted
   write_value - never decodable, hypothesis torn_rejected of the byte level below / C10).

   Journal.  [Write p] = write_block_to_disk(p) (NOT atomic: a crash while it runs leaves Torn under
   p's name - also when the file existed before, File::create truncates), [Remove k] =
   delete_block_from_disk (atomic: done or not done).

   No proofs here. *)
From Saito Require Import Base Chain.

(* a persisted block: the chain-model block plus the timestamp that is part of its file name *)
Record pblk := mkP { p_ts : N; p_b : blk }.

Definition HM : N := 2 ^ 256.
Definition fkey (p : pblk) : N := p_ts p * HM + b_hash (p_b p).
Definition key_hash (k : N) : N := k mod HM.

Inductive content := Intact (p : pblk) | Torn.
Definition disk := list (N * content).

Inductive op := Write (p : pblk) | Remove (k : N).

Definition apply_op (d : disk) (o : op) : disk :=
  match o with
  | Write p => aset (fkey p) (Intact p) d
  | Remove k => adel k d
  end.
Definition run_ops (j : list op) (d : disk) : disk := fold_left apply_op j d.

(* the disk after a crash: the first k operations of the journal are complete; if [torn], the
   next operation was in progress (a Write leaves a torn file, a Remove has not happened) *)
Definition disk_after (j : list op) (k : nat) (torn : bool) : disk :=
  let d := run_ops (firstn k j) [] in
  if torn then
    match nth_error j k with
    | Some (Write p) => aset (fkey p) Torn d
    | _ => d
    end
  else d.

(* ---------------- restart = ConsensusThread::on_init ---------------- *)

(* Storage::load_blocks_from_disk on one batch of names: reads and decodes file after file and
   RETURNS at the first file that does not decode - the rest of the batch is not loaded *)
Fixpoint load_batch (es : list (N * content)) : list pblk :=
  match es with
  | (_, Intact p) :: t => p :: load_batch t
  | _ => []
  end.

(* list.drain(..min(1000, len)) in a loop *)
Fixpoint chunks {A} (fuel n : nat) (l : list A) : list (list A) :=
  match fuel with
  | O => []
  | S f => match l with
           | [] => []
           | _ => firstn n l :: chunks f n (skipn n l)
           end
  end.

(* add_blocks_from_mempool: blocks.make_contiguous().sort_by(|a, b| a.id.cmp(&b.id)) - stable *)
Definition id_le (a b : pblk) : bool := b_id (p_b a) <=? b_id (p_b b).

Definition BATCH : nat := 1000.

(* the order in which the stored blocks reach Blockchain::add_block *)
Definition load_order (bsz : nat) (d : disk) : list pblk :=
  flat_map (fun ch => sort_by id_le (load_batch ch)) (chunks (length d) bsz d).

(* add_block_success writes the block file (again) for every block answered
   BlockAddedSuccessfully, on or off the longest chain *)
Definition written (r : add_result) : bool :=
  match r with OnChain | OffChain => true | _ => false end.

Fixpoint replay (c : cfg) (st : state) (ps : list pblk) : res (state * list op) :=
  match ps with
  | [] => Ok (st, [])
  | p :: t =>
      do r <- add_block c st (p_b p);
      do r' <- replay c (fst r) t;
      Ok (fst r', if written (snd r) then Write p :: snd r' else snd r')
  end.

Definition stored (st : state) (h : N) : bool :=
  match get_block st h with Some _ => true | None => false end.

(* on_init, delete_old_blocks = true: every listed file whose name is not the name of a block
   now in blockchain.blocks is deleted (purge_id = 0 in this regime) *)
Definition restart (c : cfg) (bsz : nat) (d : disk) : res (state * list op * disk) :=
  let ps := load_order bsz d in
  do r <- replay c (init c) ps;
  let st := fst r in
  let keep := map fkey (filter (fun p => stored st (b_hash (p_b p))) ps) in
  let dels := filter (fun k => negb (existsb (N.eqb k) keep)) (map fst d) in
  let j := snd r ++ map Remove dels in
  Ok (st, j, run_ops j d).

(* ---------------- byte level (what the abstraction stands for) ---------------- *)
(* [enc] = Block::serialize_for_net(Full), [dec] = Block::deserialize_from_net followed by
   generate().  A byte disk is abstracted file by file. *)
Section Bytes.
  Variable enc : pblk -> list N.
  Variable dec : list N -> option pblk.

  Definition bdisk := list (N * list N).
  Definition abs_file (bs : list N) : content :=
    match dec bs with Some p => Intact p | None => Torn end.
  Definition abs_disk (d : bdisk) : disk := map (fun e => (fst e, abs_file (snd e))) d.

  Inductive bop := BWrite (p : pblk) (m : nat) | BRemove (k : N).
  (* BWrite p m: only the first m bytes of enc p reached the file (m >= length = complete) *)
  Definition apply_bop (d : bdisk) (o : bop) : bdisk :=
    match o with
    | BWrite p m => aset (fkey p) (firstn m (enc p)) d
    | BRemove k => adel k d
    end.
  Definition abs_op (o : bop) : disk -> disk :=
    match o with
    | BWrite p m => if Nat.ltb m (length (enc p)) then aset (fkey p) Torn else aset (fkey p) (Intact p)
    | BRemove k => adel k
    end.
End Bytes.

(* ---------------- observation compared with the implementation ---------------- *)
Definition op_row (o : op) : list N :=
  match o with Write p => [1; b_hash (p_b p)] | Remove k => [0; key_hash k] end.

Definition restart_rows (c : cfg) (bsz : nat) (d : disk) : list (list N) :=
  match restart c bsz d with
  | Ok (st, j, d') =>
      match obs_rows c st 0 with
      | Ok rows => tl rows ++ [flat_map op_row j; map (fun e => key_hash (fst e)) d']
      | Err => [[998]]
      | Panic _ => [[8]]
      end
  | Err => [[998]]
  | Panic _ => [[9]]
  end.

(* case input: blocks with their timestamps, the journal as (1, hash) = Write / (0, hash) = Remove
   of the file of that block *)
Fixpoint find_p (ps : list pblk) (h : N) : option pblk :=
  match ps with
  | [] => None
  | p :: t => if b_hash (p_b p) =? h then Some p else find_p t h
  end.
Definition mk_journal (ps : list pblk) (j : list (N * N)) : list op :=
  flat_map (fun e => match find_p ps (snd e) with
                     | Some p => [if fst e =? 1 then Write p else Remove (fkey p)]
                     | None => []
                     end) j.

Definition case_rows (c : cfg) (ps : list (N * blk)) (j : list (N * N)) (k : N) (torn : bool)
  : list (list N) :=
  let P := map (fun e => mkP (fst e) (snd e)) ps in
  restart_rows c BATCH (disk_after (mk_journal P j) (N.to_nat k) torn).
