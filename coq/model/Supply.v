(* C02 / C13 — ledger state of a node following one chain, the effects of a block on it,
   Block::create and Block::validate around generate_consensus_values (model/CV.v),
   Blockchain::check_total_supply as written (u64, window filter), and the supply of
   property C02 in unbounded arithmetic.

   Model only; proofs are in proofs/SupplyProofs.v.

   Scope: a node whose longest chain grows block by block from the genesis block
   (reorganisations are property C03's: the ledger is the replay of the longest chain);
   social staking off (social_stake_requirement = 0); full node (not SPV / browser).
   Oracle bits of a block (computed by the harness with the real code): creator signature,
   routing-work gate (C08), golden-ticket solution against the parent's difficulty, merkle
   root (C06), the burn fee BurnFee::calculate_burnfee_for_block returns (C08), the lottery
   winners, and per transaction [t_ok] (C01). *)
From Saito Require Import Base CV.

Record block := mkBlock {
  b_hdr : hdr;
  b_txs : list tx;           (* as carried: outputs located at (id, tx index, slip index) *)
  b_bf_calc : N;             (* oracle: calculate_burnfee_for_block(parent.burnfee, ts, parent.ts, heartbeat) *)
  b_orc : oracle;            (* lottery winners for this block's golden ticket *)
  b_sig_ok : bool; b_work_ok : bool; b_gt_ok : bool; b_merkle_ok : bool
}.

Record config := mkConfig {
  cf_gp : N;      (* genesis_period *)
  cf_pab : N;     (* prune_after_blocks *)
  cf_dbg : bool   (* overflow checks (debug profile) *)
}.

Record state := mkState {
  st_utxo : list slip;       (* keys whose value is `true` *)
  st_chain : list block;     (* longest chain, newest first *)
  st_init : N                (* initial_token_supply *)
}.

Definition tip (st : state) : option block := hd_error (st_chain st).
Definition tip_id (st : state) : N := match tip st with Some b => h_id (b_hdr b) | None => 0 end.
Definition block_at (st : state) (id : N) : option block :=
  find (fun b => h_id (b_hdr b) =? id) (st_chain st).
Definition parent_of (st : state) : option block := tip st.
Definition grandparent_of (st : state) : option block :=
  match st_chain st with _ :: g :: _ => Some g | _ => None end.

(* ---------- utxo set ---------- *)
Definition in_utxo (u : list slip) (s : slip) : bool := existsb (slip_eqb s) u.
(* Slip::validate *)
Definition slip_valid (u : list slip) (s : slip) : bool :=
  if 0 <? s_amt s then in_utxo u s else true.
Definition utxo_remove (u : list slip) (s : slip) : list slip :=
  filter (fun x => negb (slip_eqb s x)) u.
Definition utxo_insert (u : list slip) (s : slip) : list slip :=
  if in_utxo u s then u else s :: u.
(* Slip::on_chain_reorganization: only slips with amount > 0 touch the map *)
Definition spend (u : list slip) (s : slip) : list slip :=
  if 0 <? s_amt s then utxo_remove u s else u.
Definition create (u : list slip) (s : slip) : list slip :=
  if 0 <? s_amt s then utxo_insert u s else u.
(* Transaction::on_chain_reorganization(longest_chain = true) *)
Definition apply_tx (u : list slip) (t : tx) : list slip :=
  fold_left create (t_to t) (fold_left spend (t_from t) u).
Definition apply_txs (u : list slip) (l : list tx) : list slip := fold_left apply_tx l u.
(* Transaction::delete (block purged for good) *)
Definition delete_tx (u : list slip) (t : tx) : list slip :=
  fold_left utxo_remove (t_to t) (fold_left utxo_remove (t_from t) u).

(* ---------- inputs of generate_consensus_values for a block on the tip ---------- *)
Definition cv_input (cf : config) (st : state) (id ts self_treasury : N) (txs : list tx)
           (bf_calc : N) (orc : oracle) : cv_in :=
  let expiring :=
    if cf_gp cf + 1 <? id then
      match block_at st (id - (cf_gp cf + 1)) with Some e => Some (b_txs e) | None => None end
    else None in
  mkIn id ts self_treasury 0 0 txs
       (option_map b_hdr (parent_of st)) (option_map b_hdr (grandparent_of st))
       expiring bf_calc orc.

Section Node.
  Variable cap15 cap05 : N -> N.
  Variable cf : config.

  Definition mode : amode := M64 (cf_dbg cf).
  Definition run_cv (md : amode) (st : state) (i : cv_in) : res cv :=
    gcv cap15 cap05 md (cf_gp cf) (slip_valid (st_utxo st)) i.

  (* position the transactions of a block: generate() relocates every output *)
  Fixpoint locate (bid : N) (i : N) (l : list tx) : list tx :=
    match l with
    | [] => []
    | t :: r => relocate bid i t :: locate bid (i + 1) r
    end.

  (* double-spend test of Block::create (every non-fee input with amount > 0, Bound included) *)
  Fixpoint dup_free (seen : list slip) (l : list slip) : option (list slip) :=
    match l with
    | [] => Some seen
    | s :: r => if s_amt s =? 0 then dup_free seen r
                else if existsb (slip_eqb s) seen then None else dup_free (s :: seen) r
    end.
  Fixpoint create_dup_check (seen : list slip) (l : list tx) : bool :=
    match l with
    | [] => true
    | t :: r =>
        if t_ty t =? TFee then create_dup_check seen r
        else match dup_free seen (t_from t) with
             | Some seen' => create_dup_check seen' r
             | None => false
             end
    end.

  (* ---------- Block::create ---------- *)
  (* [txs]: golden ticket first (if any) then the pooled transactions in the order the
     drain of the hash map produced; [has_gt]: the `golden_ticket` argument was Some *)
  Definition produce_m (md : amode) (st : state) (ts : N) (has_gt : bool) (txs : list tx) (bf_calc : N)
             (orc : oracle) : res (hdr * list tx) :=
    let id := tip_id st + 1 in
    let prev := option_map b_hdr (parent_of st) in
    let pv (f : hdr -> N) := match prev with Some p => f p | None => 0 end in
    let unpaid := if has_gt then 0 else pv h_total_fees in
    (* self.treasury is still 0 when the consensus values are generated *)
    do c0 <- run_cv md st (cv_input cf st id ts 0 txs bf_calc orc);
    (* pooled transactions that spend an input of one of the rebroadcasts are left out (golden
       tickets are kept) and, if something was left out, the consensus values are computed again *)
    let rb_inputs := flat_map (fun r => filter (fun s => 0 <? s_amt s) (t_from r)) (c_rebroadcasts c0) in
    let clashes (t : tx) : bool :=
      negb (t_ty t =? TGolden) &&
      existsb (fun s => (0 <? s_amt s) && existsb (slip_eqb s) rb_inputs) (t_from t) in
    let kept := filter (fun t => negb (clashes t)) txs in
    do c <- (if existsb clashes txs
             then run_cv md st (cv_input cf st id ts 0 kept bf_calc orc)
             else Ok c0);
    let txs := kept in
    do total_fees <- add md P_TOTAL_FEES (c_fees_new c) (c_fees_atr c);
    do t1 <- add md 2101 (pv h_treasury) (c_pay_treasury c);
    do treasury <- sub md 2102 t1 (c_pay_atr c);
    do graveyard <- add md 2103 (pv h_graveyard) (c_pay_graveyard c);
    let all := txs ++ c_rebroadcasts c ++ (match c_fee_tx c with Some f => [f] | None => [] end) in
    if negb (create_dup_check [] all) then Err else
    let h := mkHdr id ts treasury graveyard unpaid
                   total_fees (c_fees_new c) (c_fees_atr c) (c_fees_cum c)
                   (c_avg_total_fees c) (c_avg_fees_new c) (c_avg_fees_atr c)
                   (c_pay_routing c) (c_pay_mining c) (c_pay_treasury c) (c_pay_graveyard c) (c_pay_atr c)
                   (c_avg_pay_routing c) (c_avg_pay_mining c) (c_avg_pay_treasury c)
                   (c_avg_pay_graveyard c) (c_avg_pay_atr c)
                   (c_avg_fpb c) (c_fpb c) (c_avg_nolan c)
                   (c_burnfee c) (c_difficulty c)
                   (existsb (fun t => t_ty t =? TGolden) all) in
    Ok (h, locate id 0 all).
  Definition produce := produce_m mode.

  (* ---------- what is hashed: serialize_for_signature ---------- *)
  Definition sig_slip_eqb (a b : slip) : bool :=
    (s_pk a =? s_pk b) && (s_amt a =? s_amt b) && (s_idx a =? s_idx b) && (s_ty a =? s_ty b).
  Definition sig_eqb (a b : tx) : bool :=
    (t_ts a =? t_ts b) && eqb_list sig_slip_eqb (t_from a) (t_from b) &&
    eqb_list sig_slip_eqb (t_to a) (t_to b) && (t_ty a =? t_ty b) &&
    (t_data a =? t_data b) && (t_dlen a =? t_dlen b).

  (* Block::generate: ATR transactions in order, and the count of ATR-typed output slips in them *)
  Definition block_atrs (l : list tx) : list tx := filter (fun t => t_ty t =? TATR) l.
  Definition block_rb_slips (l : list tx) : N :=
    fold_left (fun n t => n + countb (fun s => s_ty s =? SATR) (t_to t)) (block_atrs l) 0.

  (* ---------- transactions of a block ---------- *)
  Definition utxo_checked (t : tx) : bool :=
    negb ((t_ty t =? TFee) || (t_ty t =? TSPV)).
  Definition user_tx (t : tx) : bool :=
    utxo_checked t && negb (t_ty t =? TATR) && negb (t_ty t =? TIssuance).
  (* the age test of Transaction::validate (fixes bb88717, 8712765), user-originated transactions only:
       self.from.iter().any(|slip| slip.amount > 0 && slip.slip_type != Bound
                 && slip.block_id.saturating_add(blockchain.genesis_period) < latest_block_id + 1)
     [next] = latest_block_id + 1 *)
  Definition aged (s : slip) : bool := (0 <? s_amt s) && negb (is_bound s).
  Definition too_old (next : N) (t : tx) : bool :=
    existsb (fun s => aged s && (sadd (s_bid s) (cf_gp cf) <? next)) (t_from t).

  (* Transaction::validate(utxoset, blockchain, true): [t_ok] is the oracle for everything that
     needs neither the ledger nor the chain height *)
  Definition tx_static (t : tx) : bool :=
    (Nlen (t_from t) <=? 255) && (Nlen (t_to t) <=? 255) && t_ok t.
  Definition tx_ledger (u : list slip) (t : tx) : bool :=
    (negb (user_tx t) || (total_out t <=? total_in t)) &&
    (negb (utxo_checked t) ||
     (match t_to t with [] => false | _ => true end && forallb (slip_valid u) (t_from t))).
  Definition tx_valid (u : list slip) (next : N) (t : tx) : bool :=
    tx_static t && negb (user_tx t && too_old next t) && tx_ledger u t.

  (* the final sweep: all valid, no input with an amount twice (Bound slips included since 2a74b4d),
     fee transactions skipped *)
  Definition valuable (s : slip) : bool := negb (s_amt s =? 0).
  Fixpoint add_keys (seen ks : list slip) : option (list slip) :=
    match ks with
    | [] => Some seen
    | k :: r => if existsb (slip_eqb k) seen then None else add_keys (k :: seen) r
    end.
  Fixpoint vsweep (u : list slip) (next : N) (seen : list slip) (l : list tx) : bool :=
    match l with
    | [] => true
    | t :: r =>
        if negb (tx_valid u next t) then false
        else if t_ty t =? TFee then vsweep u next seen r
        else match add_keys seen (filter valuable (t_from t)) with
             | Some seen' => vsweep u next seen' r
             | None => false
             end
    end.

  (* the inputs of the carried rebroadcasts against the expected ones (fix f640126): zip *)
  Fixpoint same_inputs (carried expected : list tx) : bool :=
    match carried, expected with
    | t :: r, e :: r' => eqb_list slip_eqb (t_from t) (t_from e) && same_inputs r r'
    | _, _ => true
    end.

  (* ---------- Block::validate (validate_against_utxo = true) ---------- *)
  Definition no_tx_reject (st : state) (b : block) : bool :=
    match b_txs b, st_chain st with
    | [], _ :: _ => negb (h_id (b_hdr b) =? 1)
    | _, _ => false
    end.
  Definition validate_body (md : amode) (st : state) (b : block) : res bool :=
    let h := b_hdr b in
    if negb (b_sig_ok b) then Ok false else
    do c <- run_cv md st (cv_input cf st (h_id h) (h_ts h) (h_treasury h) (b_txs b) (b_bf_calc b) (b_orc b));
    if negb (c_total_fees c =? h_total_fees h) then Ok false else
    if negb (c_fees_new c =? h_fees_new h) then Ok false else
    if negb (c_fees_atr c =? h_fees_atr h) then Ok false else
    if negb (c_fees_cum c =? h_fees_cum h) then Ok false else
    if negb (c_avg_total_fees c =? h_avg_total_fees h) then Ok false else
    if negb (c_avg_fees_new c =? h_avg_fees_new h) then Ok false else
    if negb (c_avg_fees_atr c =? h_avg_fees_atr h) then Ok false else
    if negb (c_pay_routing c =? h_pay_routing h) then Ok false else
    if negb (c_pay_mining c =? h_pay_mining h) then Ok false else
    if negb (c_pay_treasury c =? h_pay_treasury h) then Ok false else
    if negb (c_pay_graveyard c =? h_pay_graveyard h) then Ok false else
    if negb (c_pay_atr c =? h_pay_atr h) then Ok false else
    if negb (c_avg_pay_routing c =? h_avg_pay_routing h) then Ok false else
    if negb (c_avg_pay_mining c =? h_avg_pay_mining h) then Ok false else
    if negb (c_avg_pay_treasury c =? h_avg_pay_treasury h) then Ok false else
    if negb (c_avg_pay_graveyard c =? h_avg_pay_graveyard h) then Ok false else
    if negb (c_avg_pay_atr c =? h_avg_pay_atr h) then Ok false else
    if negb (c_avg_fpb c =? h_avg_fpb h) then Ok false else
    if negb (c_fpb c =? h_fpb h) then Ok false else
    if negb (c_avg_nolan c =? h_avg_nolan h) then Ok false else
    if negb (c_burnfee c =? h_burnfee h) then Ok false else
    if negb (c_difficulty c =? h_difficulty h) then Ok false else
    if (0 <? c_it_num c) && (1 <? h_id h) then Ok false else
    do prev_ok <-
      match parent_of st with
      | None => Ok true
      | Some pb =>
          let p := b_hdr pb in
          (* block ids are consecutive (fix 6b3137c) *)
          do nid <- add md 2114 (h_id p) 1;
          if negb (h_id h =? nid) then Ok false else
          do t1 <- add md 2111 (h_treasury p) (c_pay_treasury c);
          do et <- sub md 2112 t1 (c_pay_atr c);
          if negb (h_treasury h =? et) then Ok false else
          do eg <- add md 2113 (h_graveyard p) (c_pay_graveyard c);
          if negb (h_graveyard h =? eg) then Ok false else
          if negb (b_work_ok b) then Ok false else
          match c_gt_index c with
          | Some _ =>
              if negb (h_unpaid h =? 0) then Ok false else
              (* a golden ticket naming the all-zero key is invalid (fix b8552b5) *)
              if o_miner (b_orc b) =? 0 then Ok false else
              if negb (b_gt_ok b) then Ok false else Ok true
          | None =>
              if negb (h_unpaid h =? h_total_fees p) then Ok false else Ok true
          end
      end;
    if negb prev_ok then Ok false else
    if negb (c_rb_slips c =? block_rb_slips (b_txs b)) then Ok false else
    if negb (eqb_list sig_eqb (c_rb_hash c) (block_atrs (b_txs b))) then Ok false else
    if negb (same_inputs (block_atrs (b_txs b)) (c_rebroadcasts c)) then Ok false else
    if negb (b_merkle_ok b) then Ok false else
    if 1 <? c_ft_num c then Ok false else
    if (0 <? c_ft_num c) && match c_fee_tx c with None => true | Some _ => false end then Ok false else
    (* a block with a golden ticket must carry its fee transaction (fix 60ba6d1) *)
    if (c_ft_num c =? 0) && match c_fee_tx c with None => false | Some _ => true end then Ok false else
    let fee_ok :=
      match c_ft_index c, c_fee_tx c with
      | Some fi, Some expected =>
          match c_gt_index c with
          | None => false
          | Some _ => sig_eqb expected (nth (N.to_nat fi) (b_txs b) (mkTx 0 0 [] [] 0 0 0 0 false))
          end
      | _, _ => true
      end in
    if negb fee_ok then Ok false else
    Ok (vsweep (st_utxo st) (tip_id st + 1) [] (b_txs b)).
  Definition validate_m (md : amode) (st : state) (b : block) : res bool :=
    if no_tx_reject st b then Ok false else validate_body md st b.
  Definition validate := validate_m mode.

  (* ---------- check_total_supply ---------- *)
  Definition in_window (tipid : N) (s : slip) : bool := (tipid - cf_gp cf) <=? s_bid s.
  Definition counted_utxo (tipid : N) (u : list slip) : list slip :=
    filter (fun s => negb (is_bound s) && in_window tipid s) u.
  Fixpoint sum_m (md : amode) (site : N) (acc : N) (l : list N) : res N :=
    match l with
    | [] => Ok acc
    | x :: r => do a <- add md site acc x; sum_m md site a r
    end.
  Definition node_supply (md : amode) (u : list slip) (h : hdr) : res N :=
    do s <- sum_m md 2201 0 (map s_amt (counted_utxo (h_id h) u));
    sum_m md 2202 s [h_graveyard h; h_treasury h; h_unpaid h; h_total_fees h].
  Definition P_SUPPLY : N := 2200.   (* "cannot continue with invalid total supply" *)
  Definition check_total_supply (u : list slip) (h : hdr) (init : N) : res N :=
    do cur <- node_supply mode u h;
    let init' := if init =? 0 then cur else init in
    if cur =? init' then Ok init' else Panic P_SUPPLY.

  (* ---------- purge of the block that is two windows old ---------- *)
  Definition purge (u : list slip) (chain : list block) (tipid : N) : list slip :=
    if (2 * cf_gp cf + 1 <=? tipid) && (2 * cf_gp cf <=? cf_pab cf) then
      match find (fun b => h_id (b_hdr b) =? tipid - 2 * cf_gp cf) chain with
      | Some old => fold_left delete_tx (b_txs old) u
      | None => u
      end
    else u.

  (* ---------- Blockchain::add_block for a child of the tip ---------- *)
  Inductive outcome := Added (st : state) | Rejected | Crashed (site : N) (st : state).
  Definition wind (st : state) (b : block) : state :=
    let u := apply_txs (st_utxo st) (b_txs b) in
    let chain := b :: st_chain st in
    mkState (purge u chain (h_id (b_hdr b))) chain (st_init st).
  Definition add_block (st : state) (b : block) : outcome :=
    match validate st b with
    | Panic s => Crashed s st
    | Err => Rejected
    | Ok false => Rejected
    | Ok true =>
        let st' := wind st b in
        match check_total_supply (st_utxo st') (b_hdr b) (st_init st') with
        | Ok init' => Added (mkState (st_utxo st') (st_chain st') init')
        | Err => Crashed 0 st'
        | Panic s => Crashed s st'
        end
    end.
End Node.

(* ---------- the supply of property C02, in unbounded N ---------- *)
Definition utxo_value (gp tipid : N) (u : list slip) : N :=
  sumN (map s_amt (filter (fun s => negb (is_bound s) && ((tipid - gp) <=? s_bid s)) u)).
Definition reservoirs (h : hdr) : N :=
  h_treasury h + h_graveyard h + h_unpaid h + h_total_fees h.
Definition supply (gp : N) (st : state) : N :=
  match tip st with
  | Some b => utxo_value gp (h_id (b_hdr b)) (st_utxo st) + reservoirs (b_hdr b)
  | None => 0
  end.

(* ---------- the genesis block ---------- *)
(* accepted as given (validate_against_utxo is false for the first block): its outputs are
   the issuance *)
Definition genesis_state (b : block) : state :=
  mkState (apply_txs [] (b_txs b)) [b] 0.
