(* Model of the chain-sync exchange (routing_thread.rs process_incoming_blockchain_request,
   consensus_thread.rs ConsensusEvent::BlockFetched, blockchain.rs add_blocks_from_mempool)
   on top of the fork-id model (ForkId.v) and the chain model (Chain.v).  No proofs here.

   Responder:  the (id, hash) pairs streamed as BlockHeaderHash messages are the
   longest-chain blocks with id in  estimate ..= latest  where estimate =
   generate_last_shared_ancestor(request.latest_block_id, request.fork_id).

   Requester:  every announced block that is not stored goes through the fetch scheduler
   (model SyncState.v, property C16: each one is eventually requested, at most batch_size
   at a time, so fetches complete in an order the scheduler does not control).  A fetched
   block passes a verification thread (round-robin over several) and reaches the consensus
   thread as ConsensusEvent::BlockFetched.  The order of these arrivals is the [arrivals]
   argument below: it is an input, not chosen by the model.

   Consensus thread, per arrival: a block already stored is dropped; otherwise it is
   appended to mempool.blocks_queue (unless queued) and add_blocks_from_mempool runs:
   the queue is drained, stable-sorted by id, each block is offered to add_block, and a
   block answered FailedButRetry is pushed back into the queue.  (The router events sent on
   FailedButRetry — fetch the previous block / re-request the chain — only cause further
   arrivals and are part of [arrivals].) *)
From Saito Require Import Base Chain ForkId.

(* ---- responder ---- *)
Definition respond (weights : list N) (h16 : N -> N -> N)
           (mine : chain) (peer_latest : N) (fid : list N) : chain :=
  streamed mine (last_shared_ancestor weights h16 mine peer_latest fid).

(* ---- requester ---- *)
Definition id_le (a b : blk) : bool := b_id a <=? b_id b.

(* the while-let loop of add_blocks_from_mempool over the sorted blocks; [back] = blocks
   pushed back by handle_failed_block_to_be_retried *)
Fixpoint offer_all (c : cfg) (st : state) (bs back : list blk) : res (state * list blk) :=
  match bs with
  | [] => Ok (st, back)
  | b :: t =>
      do r <- add_block c st b;
      match snd r with
      | Retry => offer_all c (fst r) t (back ++ [b])
      | _ => offer_all c (fst r) t back
      end
  end.

Definition drain (c : cfg) (st : state) (queue : list blk) : res (state * list blk) :=
  offer_all c st (sort_by id_le queue) [].

Definition queued (q : list blk) (b : blk) : bool :=
  existsb (fun x => b_hash x =? b_hash b) q.

(* ConsensusEvent::BlockFetched *)
Definition on_block_fetched (c : cfg) (sq : state * list blk) (b : blk) : res (state * list blk) :=
  let '(st, q) := sq in
  match get_block st (b_hash b) with
  | Some _ => Ok (st, q)
  | None => drain c st (if queued q b then q else q ++ [b])
  end.

Fixpoint run_fetched (c : cfg) (sq : state * list blk) (arrivals : list blk)
  : res (state * list blk) :=
  match arrivals with
  | [] => Ok sq
  | b :: t => do sq' <- on_block_fetched c sq b; run_fetched c sq' t
  end.

(* several blocks queued before one drain (the start-up load from disk, or blocks that
   arrived while the consensus thread was busy): the batch is appended, then drained *)
Definition on_batch (c : cfg) (sq : state * list blk) (batch : list blk) : res (state * list blk) :=
  let '(st, q) := sq in
  let fresh := filter (fun b => match get_block st (b_hash b) with Some _ => false | None => true end) batch in
  drain c st (fold_left (fun q b => if queued q b then q else q ++ [b]) fresh q).

(* ---- what the convergence theorem quantifies over ----
   [Run c st arrivals eff st']: delivering [arrivals] one by one, the arrivals that are
   already stored are dropped, every other arrival is answered by add_block with something
   other than Retry, [eff] is the list of those effective offers in order, [st'] the final
   state. *)
Inductive Run (c : cfg) : state -> list blk -> list blk -> state -> Prop :=
| Run_nil : forall st, Run c st [] [] st
| Run_known : forall st b t eff st',
    get_block st (b_hash b) <> None ->
    Run c st t eff st' -> Run c st (b :: t) eff st'
| Run_new : forall st b t eff st1 r st',
    get_block st (b_hash b) = None ->
    add_block c st b = Ok (st1, r) -> r <> Retry ->
    Run c st1 t eff st' -> Run c st (b :: t) (b :: eff) st'.
