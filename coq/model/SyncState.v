(* Model of saito-core/src/core/consensus/blockchain_sync_state.rs
   (BlockchainSyncState).  No proofs here.

   Hashes are abstract naturals whose order is the byte order of the real
   32-byte hash (the harness uses hashes that are big-endian numbers).
   The two hash maps are association lists sorted by peer index; every
   per-peer computation of the code is independent of the others, so map
   iteration order is unobservable.  [e_req] is a ghost field counting how
   often the entry was handed out for fetching; it is not in the Rust
   struct and never read by the model's control flow. *)
From Saito Require Import Base.

Inductive status := Queued | Fetching | Fetched | Failed.

Definition status_eqb (a b : status) : bool :=
  match a, b with
  | Queued, Queued | Fetching, Fetching | Fetched, Fetched | Failed, Failed => true
  | _, _ => false
  end.

Definition status_code (s : status) : N :=
  match s with Queued => 0 | Fetching => 1 | Fetched => 2 | Failed => 3 end.

Record entry := mkE { e_id : N; e_hash : N; e_st : status; e_retry : N; e_req : N }.

Definition set_st (e : entry) (s : status) : entry :=
  mkE (e_id e) (e_hash e) s (e_retry e) (e_req e).

(* source constant MAX_RETRIES_PER_BLOCK; tied to the source by gen/Consts.v *)
Definition MAX_RETRIES : N := 500.

Record state := mkS {
  received : list (N * list (N * N));   (* peer -> announced (id, hash), arrival order *)
  tofetch  : list (N * list entry);     (* peer -> deque *)
}.

Definition init : state := mkS [] [].

(* (id, hash) lexicographic, as both sort_by closures *)
Definition key_le (a b : N * N) : bool :=
  if fst a =? fst b then snd a <=? snd b else fst a <? fst b.
Definition ekey (e : entry) : N * N := (e_id e, e_hash e).
Definition entry_le (a b : entry) : bool := key_le (ekey a) (ekey b).

(* ---- add_entry ---- *)
Definition push_received (s : state) (peer id hash : N) : state :=
  let cur := match aget peer (received s) with Some l => l | None => [] end in
  mkS (aset peer (cur ++ [(id, hash)]) (received s)) (tofetch s).

(* [url_peers]: indices of the peers of the collection whose block_fetch_url
   is non-empty (used when the entry is announced with peer index 0) *)
Definition add_entry (url_peers : list N) (s : state) (hash id peer : N) : state :=
  if peer =? 0 then fold_left (fun s p => push_received s p id hash) url_peers s
  else push_received s peer id hash.

(* ---- build_peer_block_picture ---- *)
Definition entry_exists (q : list entry) (id hash : N) : bool :=
  existsb (fun b => (e_hash b =? hash) && (e_id b =? id)) q.

Definition build_queue (known : N -> bool) (q : list entry) (pic : list (N * N)) : list entry :=
  fold_left (fun q ih =>
               let '(id, hash) := ih in
               if known hash then q
               else if entry_exists q id hash then q
               else q ++ [mkE id hash Queued 0 0])
            (sort_by key_le pic) q.

Definition nonempty {A} (kv : N * list A) : bool :=
  match snd kv with [] => false | _ => true end.

Definition build (known : N -> bool) (s : state) : state :=
  let tf := fold_left (fun tf pp =>
                         let '(peer, pic) := pp in
                         let q := match aget peer tf with Some q => q | None => [] end in
                         aset peer (build_queue known q pic) tf)
                      (received s) (tofetch s) in
  mkS [] (filter nonempty tf).

(* ---- get_blocks_to_fetch_per_peer ---- *)
Definition is_fetching (e : entry) : bool := status_eqb (e_st e) Fetching.

(* the second loop over the sorted deque; returns new deque and selection *)
Fixpoint select_loop (quota : N) (q : list entry) : list entry * list (N * N) :=
  match q with
  | [] => ([], [])
  | e :: t =>
      if quota =? 0 then (q, [])
      else match e_st e with
           | Queued =>
               let '(t', sel) := select_loop (quota - 1) t in
               (mkE (e_id e) (e_hash e) Fetching (e_retry e) (e_req e + 1) :: t',
                (e_hash e, e_id e) :: sel)
           | Failed =>
               if e_retry e <? MAX_RETRIES then
                 let '(t', sel) := select_loop (quota - 1) t in
                 (mkE (e_id e) (e_hash e) Queued (e_retry e + 1) (e_req e) :: t', sel)
               else if e_retry e =? MAX_RETRIES then
                 let '(t', sel) := select_loop quota t in
                 (mkE (e_id e) (e_hash e) Failed (e_retry e + 1) (e_req e) :: t', sel)
               else
                 let '(t', sel) := select_loop quota t in (e :: t', sel)
           | _ => let '(t', sel) := select_loop quota t in (e :: t', sel)
           end
  end.

(* panic sites *)
Definition SITE_PEER0 : N := 1.        (* assert_ne on peer_index 0 *)
Definition SITE_QUOTA_UNDERFLOW : N := 2.  (* self.batch_size - fetching_count *)
Definition SITE_EMPTY_DEQUE : N := 3.  (* deq.front().unwrap() in the trace! *)

Definition select_peer (batch : N) (peer : N) (q : list entry)
  : res (list entry * list (N * N)) :=
  if peer =? 0 then Panic SITE_PEER0 else
  let q1 := sort_by entry_le q in
  let fetching := countb is_fetching q1 in
  if batch <? fetching then Panic SITE_QUOTA_UNDERFLOW else
  match q1 with
  | [] => Panic SITE_EMPTY_DEQUE
  | _ => Ok (select_loop (batch - fetching) q1)
  end.

Fixpoint select_all (batch : N) (tf : list (N * list entry))
  : res (list (N * list entry) * list (N * list (N * N))) :=
  match tf with
  | [] => Ok ([], [])
  | (peer, q) :: t =>
      do r <- select_peer batch peer q;
      let '(q', sel) := r in
      do rest <- select_all batch t;
      let '(t', sels) := rest in
      Ok ((peer, q') :: t',
          match sel with [] => sels | _ => (peer, sel) :: sels end)
  end.

Definition select (batch : N) (s : state) : res (state * list (N * list (N * N))) :=
  do r <- select_all batch (tofetch s);
  let '(tf, sels) := r in Ok (mkS (received s) tf, sels).

(* ---- mark_as_fetched / remove_fetched_blocks ---- *)
Fixpoint mark_first (hash : N) (q : list entry) : list entry :=
  match q with
  | [] => []
  | e :: t => if e_hash e =? hash then set_st e Fetched :: t else e :: mark_first hash t
  end.
Definition not_fetched (e : entry) : bool := negb (status_eqb (e_st e) Fetched).

Definition mark_as_fetched (s : state) (hash : N) : state :=
  let tf := map (fun pq => (fst pq, filter not_fetched (mark_first hash (snd pq)))) (tofetch s) in
  mkS (received s) (filter nonempty tf).

(* ---- remove_entry ---- *)
Definition remove_entry (s : state) (hash : N) : state :=
  let tf := map (fun pq => (fst pq, filter (fun e => negb (e_hash e =? hash)) (snd pq))) (tofetch s) in
  mkS (received s) (filter nonempty tf).

(* ---- mark_as_failed ---- *)
Fixpoint fail_first (id hash : N) (q : list entry) : list entry :=
  match q with
  | [] => []
  | e :: t => if (e_id e =? id) && (e_hash e =? hash) then set_st e Failed :: t
              else e :: fail_first id hash t
  end.

Definition mark_as_failed (s : state) (id hash peer : N) : state :=
  match aget peer (tofetch s) with
  | None => s
  | Some q => mkS (received s) (aset peer (fail_first id hash q) (tofetch s))
  end.

(* ---- operations and runs ---- *)
Inductive op :=
| OAdd (hash id peer : N)
| OBuild (known : list N)              (* hashes the blockchain already holds *)
| OSelect
| OFetched (hash : N)
| OFailed (id hash peer : N)
| ORemove (hash : N).

Definition memN (l : list N) (x : N) : bool := existsb (N.eqb x) l.

(* one step; the observation is the selection of OSelect, [] otherwise *)
Definition step (batch : N) (url_peers : list N) (s : state) (o : op)
  : res (state * list (N * list (N * N))) :=
  match o with
  | OAdd h i p => Ok (add_entry url_peers s h i p, [])
  | OBuild known => Ok (build (memN known) s, [])
  | OSelect => select batch s
  | OFetched h => Ok (mark_as_fetched s h, [])
  | OFailed i h p => Ok (mark_as_failed s i h p, [])
  | ORemove h => Ok (remove_entry s h, [])
  end.

Fixpoint run (batch : N) (url_peers : list N) (s : state) (ops : list op) : res state :=
  match ops with
  | [] => Ok s
  | o :: t => do r <- step batch url_peers s o; run batch url_peers (fst r) t
  end.

(* ---- observation used by the correspondence check ----
   per op: [code; ...] rows.  Snapshot rows: peer, id, hash, status, retry. *)
Definition snap_rows (s : state) : list (list N) :=
  flat_map (fun pq => map (fun e => [fst pq; e_id e; e_hash e; status_code (e_st e); e_retry e])
                          (snd pq)) (tofetch s).
Definition sel_rows (sels : list (N * list (N * N))) : list (list N) :=
  flat_map (fun ps => map (fun hi => [fst ps; fst hi; snd hi]) (snd ps)) sels.
Definition total_count (s : state) : N :=
  fold_left (fun a pq => a + Nlen (snd pq)) (tofetch s) 0.

(* trace: for each op, (selection rows, snapshot rows, fetching_block_count);
   a panic ends the trace with [[999; site]] *)
Fixpoint trace (batch : N) (url_peers : list N) (s : state) (ops : list op)
  : list (list (list N)) :=
  match ops with
  | [] => []
  | o :: t =>
      match step batch url_peers s o with
      | Ok (s', sels) =>
          (sel_rows sels ++ [[777; total_count s']] ++ snap_rows s') :: trace batch url_peers s' t
      | Err => [[[998]]]
      | Panic site => [[[999; site]]]
      end
  end.
