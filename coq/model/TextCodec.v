(* Text formats of saito-core/src/core/util/balance_snapshot.rs (the "snapshot
   record" of property C09): decimal integers as printed by {:?} / to_string and
   read by str::parse, lower-case hex (hex::encode / hex::decode), the row
     <base58 key> <block id> <tx ordinal> <slip index> <amount>
   and the file name  <timestamp>-<latest block id>-<hex(latest block hash)>.snap .
   The base58 column is kept as an opaque byte string without blanks (bs58 is an
   external crate; the harness checks its round trip on the real code).
   Model only, no proofs. *)
From Saito Require Import Base Bytes Codec.

Open Scope N_scope.

Definition CH_SPACE : N := 32.
Definition CH_DASH : N := 45.
Definition CH_DOT : N := 46.
Definition CH_PLUS : N := 43.

Definition is_digit (d : N) : bool := (48 <=? d) && (d <=? 57).

(* u64::to_string: most significant digit first, no leading zeros, "0" for 0 *)
Fixpoint dec_digits (fuel : nat) (x : N) (acc : list N) : list N :=
  match fuel with
  | O => acc
  | S f =>
    let acc' := (48 + x mod 10) :: acc in
    if x <? 10 then acc' else dec_digits f (x / 10) acc'
  end.

Definition dec_enc (x : N) : list N := dec_digits 20 x [].

Definition dval (l : list N) : N := fold_left (fun a d => a * 10 + (d - 48)) l 0.

(* str::parse::<uN>() with N bits, bound = 2^N: an optional '+', at least one
   digit, digits only, no overflow *)
Definition dec_parse (bound : N) (l : list N) : option N :=
  let l' := match l with c :: r => if c =? CH_PLUS then r else l | [] => l end in
  match l' with
  | [] => None
  | _ => if forallb is_digit l' && (dval l' <? bound) then Some (dval l') else None
  end.

(* hex::encode (lower case) / hex::decode (either case, even length) *)
Definition hexchar (n : N) : N := if n <? 10 then 48 + n else 87 + n.

Definition hex_enc (l : list N) : list N :=
  flat_map (fun b => [hexchar (b / 16); hexchar (b mod 16)]) l.

Definition hexval (c : N) : option N :=
  if (48 <=? c) && (c <=? 57) then Some (c - 48)
  else if (97 <=? c) && (c <=? 102) then Some (c - 87)
  else if (65 <=? c) && (c <=? 70) then Some (c - 55)
  else None.

Fixpoint hex_dec (l : list N) : option (list N) :=
  match l with
  | [] => Some []
  | a :: b :: r =>
    match hexval a, hexval b, hex_dec r with
    | Some x, Some y, Some t => Some (x * 16 + y :: t)
    | _, _, _ => None
    end
  | _ => None
  end.

(* ---- one row of the balance file: BalanceSnapshot::get_rows / new ---- *)
Record snap_row := mkSnapRow {
  sr_key58 : list N;        (* base58 text of the public key *)
  sr_block_id : N;
  sr_tx_ordinal : N;
  sr_slip_index : N;
  sr_amount : N
}.

Definition wf_snap_row (r : snap_row) : bool :=
  forallb (fun c => negb (c =? CH_SPACE)) (sr_key58 r)
  && (sr_block_id r <? two64) && (sr_tx_ordinal r <? two64) && (sr_slip_index r <? 256)
  && (sr_amount r <? two64).

Definition print_row (r : snap_row) : list N :=
  sr_key58 r ++ CH_SPACE :: dec_enc (sr_block_id r) ++ CH_SPACE :: dec_enc (sr_tx_ordinal r)
  ++ CH_SPACE :: dec_enc (sr_slip_index r) ++ CH_SPACE :: dec_enc (sr_amount r).

Definition parse_row (row : list N) : option snap_row :=
  match split_on CH_SPACE row with
  | [k; b; t; i; a] =>
    match dec_parse two64 b, dec_parse two64 t, dec_parse 256 i, dec_parse two64 a with
    | Some b', Some t', Some i', Some a' => Some (mkSnapRow k b' t' i' a')
    | _, _, _, _ => None
    end
  | _ => None
  end.

(* ---- the file name: get_file_name / the head of BalanceSnapshot::new ---- *)
Definition SNAP_EXT : list N := [46; 115; 110; 97; 112].     (* ".snap" *)

Definition print_snap_name (ts id : N) (hash : list N) : list N :=
  dec_enc ts ++ CH_DASH :: dec_enc id ++ CH_DASH :: hex_enc hash ++ SNAP_EXT.

Definition parse_snap_name (name : list N) : option (N * N * list N) :=
  match split_on CH_DOT name with
  | base :: _ =>
    match split_on CH_DASH base with
    | [a; b; c] =>
      match dec_parse two64 a, dec_parse two64 b, hex_dec c with
      | Some ts, Some id, Some h => if Nlen h =? 32 then Some (ts, id, h) else None
      | _, _, _ => None
      end
    | _ => None
    end
  | [] => None
  end.

(* ---- block file name: Block::get_file_name  <timestamp>-<hex(hash)>.sai ---- *)
Definition SAI_EXT : list N := [46; 115; 97; 105].            (* ".sai" *)

Definition print_block_file_name (ts : N) (hash : list N) : list N :=
  dec_enc ts ++ CH_DASH :: hex_enc hash ++ SAI_EXT.

Definition eqb_snap_row (a b : snap_row) : bool :=
  beq (sr_key58 a) (sr_key58 b) && (sr_block_id a =? sr_block_id b)
  && (sr_tx_ordinal a =? sr_tx_ordinal b) && (sr_slip_index a =? sr_slip_index b)
  && (sr_amount a =? sr_amount b).
