(* Model of Transaction::validate (transaction.rs) together with
   generate_total_fees, Slip::validate and validate_against_utxoset.
   Cryptography is an oracle input computed by the harness with the real
   secp256k1: [t_sig_ok] = verify_signature(hash_for_signature, signature,
   from[0].public_key), [t_path_ok] = validate_routing_path().
   Keys are interned numbers; [sl_spendable] says whether the ledger holds the
   slip's utxo key with value true.  No proofs here. *)
From Saito Require Import Base.

Record aslip := mkSlip {
  sl_pk : N; sl_amount : N; sl_type : N; sl_key : N; sl_spendable : bool
}.

Record atx := mkTx {
  t_type : N; t_from : list aslip; t_to : list aslip;
  t_sig_ok : bool; t_has_hash : bool; t_path_ok : bool
}.

(* TransactionType / SlipType discriminants *)
Definition TNormal : N := 0.   Definition TFee : N := 1.     Definition TGolden : N := 2.
Definition TATR : N := 3.      Definition TVip : N := 4.     Definition TSPV : N := 5.
Definition TIssuance : N := 6. Definition TStake : N := 7.   Definition TBound : N := 8.
Definition SBound : N := 9.

Definition two64 : N := 18446744073709551616.
Definition U64MAX : N := two64 - 1.

(* generate_total_fees: saturating u64 sums (fold with saturating_add); Bound slips count 0 *)
Definition sat_add (a b : N) : N := N.min (a + b) U64MAX.
Definition sat_sum (l : list N) : N := fold_left sat_add l 0.
Definition counted (s : aslip) : N := if sl_type s =? SBound then 0 else sl_amount s.
Definition total_in (t : atx) : N := sat_sum (map counted (t_from t)).
Definition total_out (t : atx) : N := sat_sum (map counted (t_to t)).
Definition total_fees (t : atx) : N :=
  if total_out t <? total_in t then total_in t - total_out t else 0.

(* Slip::validate *)
Definition slip_validate (s : aslip) : bool :=
  if 0 <? sl_amount s then sl_spendable s else true.

Inductive verdict := Valid | Invalid | Unmodelled.
Definition verdict_code (v : verdict) : N :=
  match v with Valid => 1 | Invalid => 0 | Unmodelled => 7 end.

Definition has_bound (l : list aslip) : bool := existsb (fun s => sl_type s =? SBound) l.

(* value-carrying, non-bound inputs: the ones that move coins *)
Definition value_input (s : aslip) : bool := (0 <? sl_amount s) && negb (sl_type s =? SBound).
Definition value_keys (t : atx) : list N := map sl_key (filter value_input (t_from t)).

Fixpoint nodupb (l : list N) : bool :=
  match l with
  | [] => true
  | x :: t => negb (existsb (N.eqb x) t) && nodupb t
  end.

Definition signer (t : atx) : N := match t_from t with s :: _ => sl_pk s | [] => 0 end.
Definition all_owned (t : atx) : bool :=
  forallb (fun s => negb (value_input s) || (sl_pk s =? signer t)) (t_from t).

Definition tx_validate (t : atx) : verdict :=
  if 255 <? Nlen (t_from t) then Invalid else
  if 255 <? Nlen (t_to t) then Invalid else
  if negb (nodupb (value_keys t)) then Invalid else
  if t_type t =? TFee then Valid else
  if t_type t =? TSPV then
    (if existsb (fun s => 0 <? sl_amount s) (t_to t) then Invalid
     else if 0 <? total_fees t then Invalid else Valid) else
  if t_type t =? TStake then Unmodelled else
  let user := negb (t_type t =? TATR) && negb (t_type t =? TIssuance) in
  if user && match t_from t with [] => true | _ => false end then Invalid else
  if user && negb (t_has_hash t) then Invalid else
  if user && negb (t_sig_ok t) then Invalid else
  if user && negb (t_type t =? TBound) && negb (all_owned t) then Invalid else
  if user && negb (t_path_ok t) then Invalid else
  if user && (total_in t <? total_out t) then Invalid else
  if t_type t =? TBound then Unmodelled else
  if negb (t_type t =? TATR) && (has_bound (t_from t) || has_bound (t_to t)) then Invalid else
  match t_to t with
  | [] => Invalid
  | _ => if forallb slip_validate (t_from t) then Valid else Invalid
  end.

(* Mempool::add_transaction_if_validates, the validity gate only (reservations are
   in model/Mempool.v) *)
Definition pool_gate (t : atx) : bool :=
  negb ((t_type t =? TFee) || (t_type t =? TATR) || (t_type t =? TSPV))
  && match tx_validate t with Valid => true | _ => false end.

(* the final sweep of Block::validate: every transaction validates, and no value
   input is spent twice within the block (fee transactions excepted) *)
Fixpoint sweep (seen : list N) (txs : list atx) : bool :=
  match txs with
  | [] => true
  | t :: rest =>
      match tx_validate t with
      | Valid =>
          if t_type t =? TFee then sweep seen rest
          else
            let ks := value_keys t in
            if existsb (fun k => existsb (N.eqb k) seen) ks then false
            else sweep (ks ++ seen) rest
      | _ => false
      end
  end.
