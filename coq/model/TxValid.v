(* Model of Transaction::validate (transaction.rs) together with
   generate_total_fees, Slip::validate and validate_against_utxoset, the
   validity gate of Mempool::add_transaction_if_validates and the final sweep
   of Block::validate.  All transaction types are modelled, including the
   BlockStake branch (which falls through to the common checks) and the Bound
   (NFT) branch with its "new NFT" and "send NFT" rules.

   Cryptography and ledger look-ups are oracle inputs computed by the harness
   with the real code:
     [t_sig_ok]     = verify_signature(hash_for_signature, signature, from[0].public_key)
     [t_path_ok]    = validate_routing_path()
     [sl_spendable] = the utxo set holds the slip's key with value true
     [sl_unlocked]  = Blockchain::is_slip_unlocked(&slip.utxoset_key)
   Keys are interned numbers (0 = the all-zero byte string).  A slip carries
   the fields the rules read: its coordinates (block_id, tx_ordinal,
   slip_index), the amount encoded in its utxoset_key field, and the NFT id
   coordinates decoded from the first 17 bytes of its public key.
   [e_ovf] says whether integer overflow checks are compiled in (debug
   profile): two additions of the function can overflow.  No proofs here. *)
From Saito Require Import Base.

Record aslip := mkSlip {
  sl_pk : N; sl_amount : N; sl_type : N; sl_key : N; sl_spendable : bool;
  sl_bid : N; sl_ord : N; sl_idx : N;        (* block_id, tx_ordinal, slip_index (u8) *)
  sl_unlocked : bool;                         (* is_slip_unlocked(utxoset_key) *)
  sl_key_amount : N;                          (* amount parsed from utxoset_key *)
  sl_uuid_bid : N; sl_uuid_ord : N; sl_uuid_idx : N   (* public_key[0..8], [8..16], [16] *)
}.

Record atx := mkTx {
  t_type : N; t_from : list aslip; t_to : list aslip;
  t_sig_ok : bool; t_has_hash : bool; t_path_ok : bool
}.

Record env := mkEnv {
  e_stake_req : N;      (* blockchain.social_stake_requirement *)
  e_ovf : bool;         (* overflow checks compiled in *)
  e_latest : N;         (* blockchain.get_latest_block_id() *)
  e_gp : N;             (* blockchain.genesis_period *)
  e_node : N;           (* the node's own public key (interned), read by the pool only *)
  e_no_chain : bool     (* blockchain.blocks.is_empty() && genesis_block_id == 0, read by the pool only *)
}.

(* TransactionType / SlipType discriminants *)
Definition TNormal : N := 0.   Definition TFee : N := 1.     Definition TGolden : N := 2.
Definition TATR : N := 3.      Definition TVip : N := 4.     Definition TSPV : N := 5.
Definition TIssuance : N := 6. Definition TStake : N := 7.   Definition TBound : N := 8.
Definition SNormal : N := 0.   Definition SStake : N := 8.   Definition SBound : N := 9.

Definition two64 : N := 18446744073709551616.
Definition U64MAX : N := two64 - 1.

(* generate_total_fees: saturating u64 sums (fold with saturating_add); Bound slips count 0 *)
Definition sat_add (a b : N) : N := N.min (a + b) U64MAX.
Definition sat_sum (l : list N) : N := fold_left sat_add l 0.
Definition counted (s : aslip) : N := if sl_type s =? SBound then 0 else sl_amount s.
Definition total_in (t : atx) : N := sat_sum (map counted (t_from t)).
Definition total_out (t : atx) : N := sat_sum (map counted (t_to t)).
Definition total_fees (t : atx) : N :=
  if total_out t <? total_in t then total_in t - total_out t else 0.

(* Slip::validate *)
Definition slip_validate (s : aslip) : bool :=
  if 0 <? sl_amount s then sl_spendable s else true.

Inductive verdict := Valid | Invalid | Panics.
Definition verdict_code (v : verdict) : N :=
  match v with Valid => 1 | Invalid => 0 | Panics => 9 end.

Definition is_type (ty : N) (s : aslip) : bool := sl_type s =? ty.
Definition has_bound (l : list aslip) : bool := existsb (is_type SBound) l.

(* value-carrying, non-bound inputs: the ones that move coins *)
Definition value_input (s : aslip) : bool := (0 <? sl_amount s) && negb (sl_type s =? SBound).
Definition value_keys (t : atx) : list N := map sl_key (filter value_input (t_from t)).
(* the inputs the duplicate tests look at: every slip with an amount, Bound ones included
   (since /repo 2a74b4d) *)
Definition has_amount (s : aslip) : bool := 0 <? sl_amount s.
Definition dup_keys (t : atx) : list N := map sl_key (filter has_amount (t_from t)).

Fixpoint nodupb (l : list N) : bool :=
  match l with
  | [] => true
  | x :: t => negb (existsb (N.eqb x) t) && nodupb t
  end.

(* Transaction::signer_public_key (/repo c1271fb): the owner of the first input; in a transfer
   of an NFT (Bound transaction, >= 3 inputs, first one a Bound slip) whose Normal slip carries
   coins, the owner of that Normal slip *)
Definition signer (t : atx) : N :=
  match t_from t with
  | s0 :: s1 :: _ :: _ =>
      if (t_type t =? TBound) && (sl_type s0 =? SBound) && (0 <? sl_amount s1) then sl_pk s1 else sl_pk s0
  | s :: _ => sl_pk s
  | [] => 0
  end.
(* the ownership rule, for every user transaction (Bound-typed ones included) *)
Definition all_owned (t : atx) : bool :=
  forallb (fun s => negb (value_input s) || (sl_pk s =? signer t)) (t_from t).

(* ---- BlockStake branch ---- *)

(* the loop over the outputs: a slip that is neither BlockStake nor Normal ends
   it with "invalid"; `total_stakes += slip.amount` is a plain u64 addition *)
Inductive sres := SOk (total : N) | SBad | SPanic.
Fixpoint stake_outs (ovf : bool) (acc : N) (l : list aslip) : sres :=
  match l with
  | [] => SOk acc
  | s :: rest =>
      if negb (is_type SStake s) && negb (is_type SNormal s) then SBad
      else if is_type SStake s then
        (if two64 <=? acc + sl_amount s
         then (if ovf then SPanic else stake_outs ovf ((acc + sl_amount s) mod two64) rest)
         else stake_outs ovf (acc + sl_amount s) rest)
      else stake_outs ovf acc rest
  end.

(* the loop over the inputs: key not all-zero, is_slip_unlocked, the amount
   encoded in the key equals the slip's amount; then all keys pairwise distinct
   (zero-amount inputs included) *)
Definition stake_input_ok (s : aslip) : bool :=
  negb (sl_key s =? 0) && sl_unlocked s && (sl_key_amount s =? sl_amount s).
Definition stake_ins (t : atx) : bool :=
  forallb stake_input_ok (t_from t) && nodupb (map sl_key (t_from t)).

(* ---- Bound (NFT) branch ---- *)
Definition dflt : aslip := mkSlip 0 0 0 0 false 0 0 0 false 0 0 0 0.
Definition fr (t : atx) (i : nat) : aslip := nth i (t_from t) dflt.
Definition tt (t : atx) (i : nat) : aslip := nth i (t_to t) dflt.

Definition is_new_nft (t : atx) : bool :=
  (Nlen (t_from t) =? 1) && is_type SNormal (fr t 0) && (3 <=? Nlen (t_to t)).

(* "new NFT": slip1/slip3 Bound, slip2 Normal, slip3 amount 0, outputs 4.. Normal
   (since /repo 5a3c1b6 the loop iterates the outputs), the NFT id in slip3's key
   field names the consumed input *)
Definition bound_create_ok (t : atx) : bool :=
  negb (Nlen (t_to t) <? 3)
  && is_type SBound (tt t 0) && is_type SBound (tt t 2)
  && is_type SNormal (tt t 1)
  && (sl_amount (tt t 2) =? 0)
  && forallb (is_type SNormal) (skipn 3 (t_to t))
  && (sl_uuid_bid (tt t 2) =? sl_bid (fr t 0))
  && (sl_uuid_ord (tt t 2) =? sl_ord (fr t 0))
  && (sl_uuid_idx (tt t 2) =? sl_idx (fr t 0)).

(* "send NFT", everything except the slip_index test *)
Definition bound_send_shape (t : atx) : bool :=
  negb (Nlen (t_from t) <? 3) && negb (Nlen (t_to t) <? 3)
  && is_type SBound (fr t 0) && is_type SBound (fr t 2)
  && is_type SNormal (fr t 1)
  && is_type SBound (tt t 0) && is_type SBound (tt t 2)
  && is_type SNormal (tt t 1)
  && forallb (is_type SNormal) (skipn 3 (t_from t))
  && forallb (is_type SNormal) (skipn 3 (t_to t))
  && (sl_pk (fr t 0) =? sl_pk (tt t 0))
  && (sl_pk (fr t 2) =? sl_pk (tt t 2))
  && (sl_amount (fr t 0) =? sl_amount (tt t 0))
  && (sl_amount (fr t 2) =? sl_amount (tt t 2))
  && (sl_amount (fr t 2) =? 0)
  && (sl_bid (fr t 0) =? sl_bid (fr t 1)) && (sl_bid (fr t 1) =? sl_bid (fr t 2))
  && (sl_ord (fr t 0) =? sl_ord (fr t 1)) && (sl_ord (fr t 1) =? sl_ord (fr t 2)).

(* `slip_index1 != slip_index0 + 1 || slip_index2 != slip_index1 + 1` on u8 *)
Definition succ_u8 (ovf : bool) (a b : N) : verdict :=   (* Valid = "b is a + 1" *)
  if a =? 255 then (if ovf then Panics else if b =? 0 then Valid else Invalid)
  else if b =? a + 1 then Valid else Invalid.
Definition bound_send_idx (ovf : bool) (t : atx) : verdict :=
  match succ_u8 ovf (sl_idx (fr t 0)) (sl_idx (fr t 1)) with
  | Valid => succ_u8 ovf (sl_idx (fr t 1)) (sl_idx (fr t 2))
  | v => v
  end.

(* the tail common to all types: at least one output, every input passes Slip::validate *)
Definition tail_checks (t : atx) : verdict :=
  match t_to t with
  | [] => Invalid
  | _ => if forallb slip_validate (t_from t) then Valid else Invalid
  end.

Definition bound_checks (e : env) (t : atx) : verdict :=
  if is_new_nft t then
    (if bound_create_ok t then tail_checks t else Invalid)
  else if bound_send_shape t then
    match bound_send_idx (e_ovf e) t with
    | Valid => tail_checks t
    | v => v
    end
  else Invalid.

(* the retention window (validate_against_utxo, which both the pool and block validation
   pass as true): `self.from.iter().any(|slip| slip.amount > 0 && slip.slip_type != Bound
   && slip.block_id.saturating_add(genesis_period) < next_block_id)` with next_block_id =
   latest + 1.  true = no input is too old. *)
Definition age_check (gp next : N) (l : list aslip) : bool :=
  forallb (fun s => negb (value_input s && (sat_add (sl_bid s) gp <? next))) l.
Definition e_next (e : env) : N := e_latest e + 1.

(* checks on user-originated transactions (everything but ATR and Issuance),
   then the per-type rules *)
Definition common_tail (e : env) (t : atx) : verdict :=
  let user := negb (t_type t =? TATR) && negb (t_type t =? TIssuance) in
  if user && negb (t_path_ok t) then Invalid else
  if user && (total_in t <? total_out t) then Invalid else
  if t_type t =? TBound then bound_checks e t else
  if negb (t_type t =? TATR) && (has_bound (t_from t) || has_bound (t_to t)) then Invalid else
  tail_checks t.
Definition common_checks (e : env) (t : atx) : verdict :=
  let user := negb (t_type t =? TATR) && negb (t_type t =? TIssuance) in
  if user && match t_from t with [] => true | _ => false end then Invalid else
  if user && negb (t_has_hash t) then Invalid else
  if user && negb (t_sig_ok t) then Invalid else
  if user && negb (all_owned t) then Invalid else
  if user && negb (age_check (e_gp e) (e_next e) (t_from t)) then Invalid else
  common_tail e t.

Definition tx_validate (e : env) (t : atx) : verdict :=
  if 255 <? Nlen (t_from t) then Invalid else
  if 255 <? Nlen (t_to t) then Invalid else
  if negb (nodupb (dup_keys t)) then Invalid else
  if t_type t =? TFee then Valid else
  if t_type t =? TSPV then
    (if existsb (fun s => 0 <? sl_amount s) (t_to t) then Invalid
     else if existsb (fun s => 0 <? sl_amount s) (t_from t) then Invalid
     else if 0 <? total_fees t then Invalid else Valid) else
  if t_type t =? TStake then
    match stake_outs (e_ovf e) 0 (t_to t) with
    | SPanic => Panics
    | SBad => Invalid
    | SOk total =>
        if total <? e_stake_req e then Invalid else
        if negb (stake_ins t) then Invalid else
        common_checks e t
    end
  else common_checks e t.

(* Mempool::add_transaction_if_validates, the validity gate only (reservations are
   in model/Mempool.v): no producer-only types, issuance only while there is no chain
   (/repo 716c212), no staking transaction that spends outputs of another key than the
   node's own, and Transaction::validate *)
Definition pool_gate (e : env) (t : atx) : bool :=
  negb ((t_type t =? TFee) || (t_type t =? TATR) || (t_type t =? TSPV))
  && negb ((t_type t =? TIssuance) && negb (e_no_chain e))
  && negb ((t_type t =? TStake) && negb (forallb (fun s => sl_pk s =? e_node e) (t_from t)))
  && match tx_validate e t with Valid => true | _ => false end.

(* the final sweep of Block::validate: every transaction validates, and no input with an
   amount is spent twice within the block (fee transactions excepted; zero-amount inputs
   are skipped) *)
Fixpoint sweep (e : env) (seen : list N) (txs : list atx) : bool :=
  match txs with
  | [] => true
  | t :: rest =>
      match tx_validate e t with
      | Valid =>
          if t_type t =? TFee then sweep e seen rest
          else
            let ks := dup_keys t in
            if existsb (fun k => existsb (N.eqb k) seen) ks then false
            else sweep e (ks ++ seen) rest
      | _ => false
      end
  end.

(* Block::validate, the rules about the block's transactions: where social staking is
   required every block after the first carries exactly one BlockStake transaction
   (cv.st_num is a u8 counter incremented per BlockStake transaction), and the sweep *)
Definition stake_count (txs : list atx) : N :=
  Nlen (filter (fun t => t_type t =? TStake) txs).
Definition stake_count_ok (e : env) (id : N) (txs : list atx) : bool :=
  (e_stake_req e =? 0) || (id <=? 1) ||
  (if 256 <=? stake_count txs
   then (if e_ovf e then false (* the counter overflows: panic *) else stake_count txs mod 256 =? 1)
   else stake_count txs =? 1).
Definition block_txs_ok (e : env) (id : N) (txs : list atx) : bool :=
  stake_count_ok e id txs && sweep e [] txs.

(* what the signature covers of a slip (Slip::serialize_input_for_signature /
   serialize_output_for_signature): public key, amount, slip_index, type -- NOT
   block_id and tx_ordinal, hence not the utxo key.  [t_sig_ok] is a function of
   the signed bytes, i.e. (together with timestamp, data, txs_replacements, which
   the abstract transaction does not carry) of [signed_content]. *)
Definition signed_view (s : aslip) : N * N * N * N := (sl_pk s, sl_amount s, sl_idx s, sl_type s).
Definition signed_content (t : atx) : N * list (N * N * N * N) * list (N * N * N * N) :=
  (t_type t, map signed_view (t_from t), map signed_view (t_to t)).
(* ... and the signed bytes carry no counts: the 43-byte views of the inputs are followed
   directly by those of the outputs, so the signature is a function of the flat sequence.
   Since /repo 4d27589 Transaction::generate renumbers the outputs by position BEFORE it takes
   the hash the signature is checked against, so in the signed bytes of any transaction that
   reaches validation the slip_index of the i-th output is i ([outs_numbered]; the abstract
   transaction is the transaction after generate()): that is what fixes where the inputs end
   (proofs: signed_bytes_delimited). *)
Definition signed_flat (t : atx) : N * list (N * N * N * N) :=
  (t_type t, map signed_view (t_from t) ++ map signed_view (t_to t)).
Fixpoint numbered_from (i : N) (l : list aslip) : bool :=
  match l with
  | [] => true
  | s :: rest => (sl_idx s =? i) && numbered_from (i + 1) rest
  end.
Definition outs_numbered (t : atx) : bool := numbered_from 0 (t_to t).
