(* Model of saito-core/src/core/consensus/wallet.rs (Wallet: slips, unspent_slips,
   staking_slips, available_balance, add_slip, delete_slip, on_chain_reorganization,
   remove_old_slips, delete_block, generate_slips, add_to_pending,
   create_staking_transaction / find_slips_for_staking) and of
   transaction.rs Transaction::create / create_with_multiple_payments.
   No proofs here.

   * A utxo key (59 bytes = public key ++ block id ++ tx ordinal ++ slip index ++
     amount ++ type, Slip::get_utxoset_key) is the record [key] of exactly these
     six fields; public keys are interned to numbers by the harness (0 = the
     all-zero key).  Equality of records = equality of the byte strings.
   * A [slip] carries its fields and the CACHED key (Slip::utxoset_key), which the
     code uses in delete_slip, whereas add_slip recomputes the key from the fields.
   * [dbg] = overflow checks on (debug profile): a u64 `+`/`-` that leaves the
     range is [Panic site]; with [dbg = false] (release) it wraps modulo 2^64.
   * The hash sets are duplicate-free lists; the order in which the code iterates
     `unspent_slips` / `staking_slips` (AHashSet) is an INPUT of generate_slips and
     find_slips_for_staking ([order]); [step] rejects (artefact [Err]) an order that
     is not an enumeration of the set.  `remove_old_slips` iterates the `slips`
     hash map, but the deletions it performs commute, so the list order is used.
   * NFT bookkeeping (`nfts` vector) is not modelled; the Bound-Normal-Bound
     grouping that makes on_chain_reorganization SKIP three slips is modelled
     ([scan]).  `network` is None (no interface events).  *)
From Saito Require Import Base.

Definition W64 : N := 18446744073709551616.

(* SlipType discriminants (slip.rs) *)
Definition TY_NORMAL : N := 0.
Definition TY_ATR : N := 1.
Definition TY_BLOCKSTAKE : N := 8.
Definition TY_BOUND : N := 9.

Record key := mkK { k_pk : N; k_bid : N; k_txo : N; k_idx : N; k_amt : N; k_ty : N }.

Definition key_eqb (a b : key) : bool :=
  (k_pk a =? k_pk b) && (k_bid a =? k_bid b) && (k_txo a =? k_txo b) &&
  (k_idx a =? k_idx b) && (k_amt a =? k_amt b) && (k_ty a =? k_ty b).

Definition zero_key : key := mkK 0 0 0 0 0 0.

(* Slip; [s_key] = cached utxoset_key *)
Record slip := mkSlip { s_pk : N; s_amt : N; s_idx : N; s_bid : N; s_txo : N; s_ty : N; s_key : key }.

(* Slip::get_utxoset_key *)
Definition slip_key (s : slip) : key :=
  mkK (s_pk s) (s_bid s) (s_txo s) (s_idx s) (s_amt s) (s_ty s).

(* Slip::parse_slip_from_utxokey *)
Definition slip_of_key (k : key) : slip :=
  mkSlip (k_pk k) (k_amt k) (k_idx k) (k_bid k) (k_txo k) (k_ty k) k.

(* Slip { public_key, amount, ..Default::default() } *)
Definition fresh_slip (pk amt ty : N) : slip := mkSlip pk amt 0 0 0 ty zero_key.

Record wslip := mkWS {
  ws_key : key; ws_amt : N; ws_bid : N; ws_txo : N; ws_lc : bool;
  ws_idx : N; ws_spent : bool; ws_ty : N }.

Definition set_spent (x : wslip) : wslip :=
  mkWS (ws_key x) (ws_amt x) (ws_bid x) (ws_txo x) (ws_lc x) (ws_idx x) true (ws_ty x).

(* ---- sets and maps keyed by [key] ---- *)
Fixpoint kmem (k : key) (l : list key) : bool :=
  match l with [] => false | x :: t => key_eqb k x || kmem k t end.
Fixpoint kremove (k : key) (l : list key) : list key :=
  match l with
  | [] => []
  | x :: t => if key_eqb k x then kremove k t else x :: kremove k t
  end.
Definition kinsert (k : key) (l : list key) : list key := if kmem k l then l else k :: l.

Section KMap.
  Context {V : Type}.
  Fixpoint mget (k : key) (m : list (key * V)) : option V :=
    match m with
    | [] => None
    | (k', v) :: t => if key_eqb k k' then Some v else mget k t
    end.
  Fixpoint mremove (k : key) (m : list (key * V)) : list (key * V) :=
    match m with
    | [] => []
    | (k', v) :: t => if key_eqb k k' then mremove k t else (k', v) :: mremove k t
    end.
  Definition mset (k : key) (v : V) (m : list (key * V)) : list (key * V) :=
    (k, v) :: mremove k m.
  Definition mhas (k : key) (m : list (key * V)) : bool :=
    match mget k m with Some _ => true | None => false end.
End KMap.

(* ---- the wallet ---- *)
Record wallet := mkW {
  w_pk : N;
  w_slips : list (key * wslip);
  w_unspent : list key;
  w_staking : list key;
  w_balance : N;
  w_pending : list N }.

Definition init (pk : N) : wallet := mkW pk [] [] [] 0 [].

(* panic sites *)
Definition SITE_ASSERT_BLOCK_ID : N := 1.  (* add_slip: assert_ne!(block_id, 0) *)
Definition SITE_BAL_ADD : N := 2.          (* available_balance += amount *)
Definition SITE_BAL_SUB : N := 3.          (* available_balance -= amount *)
Definition SITE_HASH_UNWRAP : N := 4.      (* delete_pending_transaction: hash_for_signature.unwrap() *)
Definition SITE_SLIP_EXPECT : N := 5.      (* generate_slips: slips.get_mut(key).expect(..) / staking unwrap *)
Definition SITE_GP_SUB : N := 6.           (* genesis_period - 1 *)
Definition SITE_NOLAN_ADD : N := 7.        (* nolan_in += amount / collected += amount *)
Definition SITE_PAY_SUM : N := 8.          (* (before 2da67eb) payments.iter().sum(); unused *)
Definition SITE_REQ_ADD : N := 9.          (* (before 2da67eb) total_payment + with_fee; unused *)
Definition SITE_PENDING_ASSERT : N := 10.  (* add_to_pending asserts / unwraps *)
Definition SITE_SNAPSHOT_ASSERT : N := 11. (* update_from_balance_snapshot: assert_ne!(utxoset_key, [0; 59]) *)

Definition add64 (dbg : bool) (site a b : N) : res N :=
  if a + b <? W64 then Ok (a + b)
  else if dbg then Panic site else Ok ((a + b) mod W64).

Definition sub64 (dbg : bool) (site a b : N) : res N :=
  if b <=? a then Ok (a - b)
  else if dbg then Panic site else Ok ((a + W64 - b mod W64) mod W64).

(* ---- add_slip / delete_slip ---- *)
Definition add_slip (dbg : bool) (w : wallet) (block_id tx_index : N) (s : slip) (lc : bool)
  : res wallet :=
  let k := slip_key s in
  if mhas k (w_slips w) then Ok w else
  if block_id =? 0 then Panic SITE_ASSERT_BLOCK_ID else
  let x := mkWS k (s_amt s) block_id tx_index lc (s_idx s) false (s_ty s) in
  if s_ty s =? TY_BLOCKSTAKE then
    Ok (mkW (w_pk w) (mset k x (w_slips w)) (w_unspent w) (kinsert k (w_staking w))
            (w_balance w) (w_pending w))
  else if s_ty s =? TY_BOUND then
    Ok (mkW (w_pk w) (mset k x (w_slips w)) (w_unspent w) (w_staking w)
            (w_balance w) (w_pending w))
  else
    do b <- add64 dbg SITE_BAL_ADD (w_balance w) (s_amt s);
    Ok (mkW (w_pk w) (mset k x (w_slips w)) (kinsert k (w_unspent w)) (w_staking w)
            b (w_pending w)).

(* keyed by the CACHED key *)
Definition delete_key (dbg : bool) (w : wallet) (k : key) : res wallet :=
  match mget k (w_slips w) with
  | None => Ok w
  | Some removed =>
      if kmem k (w_unspent w) then
        do b <- sub64 dbg SITE_BAL_SUB (w_balance w) (ws_amt removed);
        Ok (mkW (w_pk w) (mremove k (w_slips w)) (kremove k (w_unspent w)) (w_staking w)
                b (w_pending w))
      else
        Ok (mkW (w_pk w) (mremove k (w_slips w)) (w_unspent w) (kremove k (w_staking w))
                (w_balance w) (w_pending w))
  end.

Definition delete_slip (dbg : bool) (w : wallet) (s : slip) : res wallet :=
  delete_key dbg w (s_key s).

(* ---- remove_old_slips ---- *)
Fixpoint delete_keys (dbg : bool) (w : wallet) (ks : list key) : res wallet :=
  match ks with
  | [] => Ok w
  | k :: t => do w' <- delete_key dbg w k; delete_keys dbg w' t
  end.

Definition old_keys (w : wallet) (limit : N) : list key :=
  map fst (filter (fun kv => ws_bid (snd kv) <? limit) (w_slips w)).

Definition remove_old_slips (dbg : bool) (w : wallet) (limit : N) : res wallet :=
  delete_keys dbg w (old_keys w limit).

(* ---- transactions and blocks as the wallet sees them ---- *)
Record tx := mkTx {
  t_from : list slip;
  t_to : list slip;
  t_spv : option N;      (* Some n: TransactionType::SPV with txs_replacements = n *)
  t_hash : option N }.   (* hash_for_signature, interned *)

Record block := mkB { b_id : N; b_txs : list tx }.

Definition is_bound (s : slip) : bool := s_ty s =? TY_BOUND.

(* the `while i < len` loops: at an NFT group (Transaction::is_nft: Bound, non-Bound,
   Bound with i + 2 < len) three slips are skipped, otherwise [f] handles one *)
Fixpoint scan {A} (f : A -> slip -> res A) (acc : A) (l : list slip) : res A :=
  match l with
  | [] => Ok acc
  | a :: t =>
      match t with
      | b :: c :: t' =>
          if is_bound a && is_bound c && negb (is_bound b) then scan f acc t'
          else do acc' <- f acc a; scan f acc' t
      | _ => do acc' <- f acc a; scan f acc' t
      end
  end.

Definition delete_pending (w : wallet) (t : tx) : res wallet :=
  match t_hash t with
  | None => Panic SITE_HASH_UNWRAP
  | Some h =>
      Ok (mkW (w_pk w) (w_slips w) (w_unspent w) (w_staking w) (w_balance w)
              (filter (fun x => negb (x =? h)) (w_pending w)))
  end.

Definition next_index (txi : N) (t : tx) : N :=
  match t_spv t with Some n => txi + n | None => txi + 1 end.

(* one iteration of the `for tx in block.transactions` loop, lc = true *)
Definition wind_tx (dbg : bool) (gp bid : N) (w : wallet) (txi : N) (t : tx) : res wallet :=
  do w1 <- scan (fun w o =>
                   if (0 <? s_amt o) && (s_pk o =? w_pk w) then add_slip dbg w bid txi o true
                   else Ok w) w (t_to t);
  do w2 <- scan (fun w i =>
                   if s_pk i =? w_pk w then
                     do w' <- (if 0 <? s_amt i then delete_slip dbg w i else Ok w);
                     delete_pending w' t
                   else Ok w) w1 (t_from t);
  if gp <? bid then remove_old_slips dbg w2 (bid - gp) else Ok w2.

(* lc = false *)
Definition unwind_tx (dbg : bool) (bid : N) (w : wallet) (txi : N) (t : tx) : res wallet :=
  do w1 <- scan (fun w o =>
                   if (0 <? s_amt o) && (s_pk o =? w_pk w) then delete_slip dbg w o
                   else Ok w) w (t_to t);
  (* the spent output goes back under its own coordinates; block id 0 is ignored *)
  scan (fun w i =>
          if (0 <? s_amt i) && (s_pk i =? w_pk w) && (0 <? s_bid i)
          then add_slip dbg w (s_bid i) (s_txo i) i true
          else Ok w) w1 (t_from t).

Fixpoint txs_loop (f : wallet -> N -> tx -> res wallet) (w : wallet) (txi : N) (l : list tx)
  : res wallet :=
  match l with
  | [] => Ok w
  | t :: r => do w' <- f w txi t; txs_loop f w' (next_index txi t) r
  end.

Definition on_chain_reorganization (dbg : bool) (w : wallet) (b : block) (lc : bool) (gp : N)
  : res wallet :=
  if lc then txs_loop (wind_tx dbg gp (b_id b)) w 0 (b_txs b)
  else txs_loop (unwind_tx dbg (b_id b)) w 0 (b_txs b).

(* ---- delete_block ---- *)
Fixpoint fold_res {A B} (f : A -> B -> res A) (acc : A) (l : list B) : res A :=
  match l with
  | [] => Ok acc
  | x :: t => do acc' <- f acc x; fold_res f acc' t
  end.

Definition delete_block (dbg : bool) (w : wallet) (b : block) : res wallet :=
  fold_res (fun w t =>
              do w1 <- fold_res (fun w i => delete_slip dbg w i) w (t_from t);
              fold_res (fun w o => if 0 <? s_amt o then delete_slip dbg w o else Ok w) w1 (t_to t))
           w (b_txs b).

(* ---- generate_slips ---- *)
Definition input_of (pk : N) (x : wslip) : slip :=
  mkSlip pk (ws_amt x) (ws_idx x) (ws_bid x) (ws_txo x) (ws_ty x) zero_key.

Record gen_state := mkG {
  g_slips : list (key * wslip);
  g_balance : N;
  g_in : N;               (* nolan_in *)
  g_inputs : list slip;   (* in selection order *)
  g_removed : list key }.

(* latest_block_id.saturating_sub(genesis_period - 1) *)
Definition skip_threshold (dbg : bool) (latest gp : N) : res N :=
  do g <- sub64 dbg SITE_GP_SUB gp 1; Ok (latest - g).

Fixpoint gen_loop (dbg : bool) (pk thr req : N) (order : list key)
         (sl : list (key * wslip)) (bal nin : N) : res gen_state :=
  match order with
  | [] => Ok (mkG sl bal nin [] [])
  | k :: t =>
      match mget k sl with
      | None => Panic SITE_SLIP_EXPECT
      | Some x =>
          if ws_bid x <=? thr then gen_loop dbg pk thr req t sl bal nin
          else if req <=? nin then Ok (mkG sl bal nin [] [])
          else
            do nin' <- add64 dbg SITE_NOLAN_ADD nin (ws_amt x);
            do bal' <- sub64 dbg SITE_BAL_SUB bal (ws_amt x);
            do g <- gen_loop dbg pk thr req t (mset k (set_spent x) sl) bal' nin';
            Ok (mkG (g_slips g) (g_balance g) (g_in g)
                    (input_of pk x :: g_inputs g) (ws_key x :: g_removed g))
      end
  end.

Definition remove_all (ks : list key) (l : list key) : list key :=
  fold_left (fun l k => kremove k l) ks l.

(* returns the wallet, inputs, outputs *)
Definition generate_slips (dbg : bool) (w : wallet) (order : list key) (req latest gp : N)
  : res (wallet * list slip * list slip) :=
  do thr <- skip_threshold dbg latest gp;
  do g <- gen_loop dbg (w_pk w) thr req order (w_slips w) (w_balance w) 0;
  let nolan_out := if req <? g_in g then g_in g - req else 0 in
  let inputs := match g_inputs g with [] => [fresh_slip (w_pk w) 0 TY_NORMAL] | l => l end in
  Ok (mkW (w_pk w) (g_slips g) (remove_all (g_removed g) (w_unspent w)) (w_staking w)
          (g_balance g) (w_pending w),
      inputs, [fresh_slip (w_pk w) nolan_out TY_NORMAL]).

(* ---- Transaction::create_with_multiple_payments ---- *)
Record btx := mkBT { bt_from : list slip; bt_to : list slip }.

Inductive create_out := Built (t : btx) | ErrInvalidInput | ErrNotFound.

(* payments.iter().try_fold(0, checked_add) *)
Fixpoint sum_checked (acc : N) (l : list N) : option N :=
  match l with
  | [] => Some acc
  | x :: t => if acc + x <? W64 then sum_checked (acc + x) t else None
  end.

(* add_from_slip / add_to_slip keep at most u8::MAX slips *)
Definition cap255 {A} (l : list A) : list A := firstn 255 l.

Definition create (dbg : bool) (w : wallet) (order : list key) (keys payments : list N)
           (fee latest gp : N) : res (wallet * create_out) :=
  match sum_checked 0 payments with
  | None => Ok (w, ErrInvalidInput)
  | Some total =>
  if negb (Nlen payments =? Nlen keys) then Ok (w, ErrInvalidInput) else
  let avail := w_balance w in
  let fee' := if avail <? fee then 0 else fee in
  if negb (total + fee' <? W64) then Ok (w, ErrInvalidInput) else
  let req := total + fee' in
  if avail <? req then Ok (w, ErrNotFound) else
  do r <- (if req =? 0 then Ok (w, [fresh_slip (w_pk w) 0 TY_NORMAL], [])
           else generate_slips dbg w order req latest gp);
  let '(w', ins, outs) := r in
  (* keys.pop() / payments.pop(): payment outputs in reverse order *)
  let pays := map (fun kp => fresh_slip (fst kp) (snd kp) TY_NORMAL) (rev (combine keys payments)) in
  Ok (w', Built (mkBT (cap255 ins) (cap255 (outs ++ pays))))
  end.

(* ---- add_to_pending ---- *)
Definition add_to_pending (w : wallet) (first_from_pk : option N) (is_gt : bool) (h : option N)
  : res wallet :=
  match first_from_pk, h with
  | Some p, Some hh =>
      if negb (p =? w_pk w) || is_gt then Panic SITE_PENDING_ASSERT
      else Ok (mkW (w_pk w) (w_slips w) (w_unspent w) (w_staking w) (w_balance w)
                   (hh :: filter (fun x => negb (x =? hh)) (w_pending w)))
  | _, _ => Panic SITE_PENDING_ASSERT
  end.

(* ---- find_slips_for_staking / create_staking_transaction ---- *)
(* first loop, over staking_slips in iteration order *)
Fixpoint stake_loop1 (dbg : bool) (sl : list (key * wslip)) (amount unlocked lastvalid : N)
         (order : list key) (collected : N) : res (N * list key) :=
  match order with
  | [] => Ok (collected, [])
  | k :: t =>
      match mget k sl with
      | None => Panic SITE_SLIP_EXPECT
      | Some x =>
          if negb ((ws_ty x =? TY_BLOCKSTAKE) && (ws_bid x <=? unlocked)) then
            stake_loop1 dbg sl amount unlocked lastvalid t collected
          else if ws_bid x <? lastvalid then
            stake_loop1 dbg sl amount unlocked lastvalid t collected
          else
            do c <- add64 dbg SITE_NOLAN_ADD collected (ws_amt x);
            if amount <=? c then Ok (c, [k])
            else do r <- stake_loop1 dbg sl amount unlocked lastvalid t c;
                 Ok (fst r, k :: snd r)
      end
  end.

(* second loop, over unspent_slips sorted by the amount in the key, descending (stable) *)
Fixpoint stake_loop2 (dbg : bool) (sl : list (key * wslip)) (required lastvalid : N)
         (order : list key) (collected : N) : res (N * list key) :=
  match order with
  | [] => Ok (collected, [])
  | k :: t =>
      match mget k sl with
      | None => Panic SITE_SLIP_EXPECT
      | Some x =>
          (* about to be rebroadcast (or older): skipped *)
          if ws_bid x <? lastvalid then stake_loop2 dbg sl required lastvalid t collected
          else
          do c <- add64 dbg SITE_NOLAN_ADD collected (ws_amt x);
          if required <=? c then Ok (c, [k])
          else do r <- stake_loop2 dbg sl required lastvalid t c; Ok (fst r, k :: snd r)
      end
  end.

Definition amount_desc (a b : key) : bool := k_amt b <=? k_amt a.

Definition stake_outputs (pk amount collected : N) (should_break : bool) : list slip :=
  fresh_slip pk amount TY_BLOCKSTAKE ::
  (if amount <? collected then
     let amt := collected - amount in
     let first := amt / (if should_break then 2 else 1) in
     let remainder := amt - first in
     fresh_slip pk first TY_NORMAL ::
     (if 0 <? remainder then [fresh_slip pk remainder TY_NORMAL] else [])
   else []).

(* Transaction::sign (called by create_staking_transaction) numbers the outputs *)
Definition set_idx (i : N) (s : slip) : slip :=
  mkSlip (s_pk s) (s_amt s) i (s_bid s) (s_txo s) (s_ty s) (s_key s).
Fixpoint index_from (i : N) (l : list slip) : list slip :=
  match l with [] => [] | s :: t => set_idx i s :: index_from (i + 1) t end.

(* None = Err(NotFound) *)
Definition create_staking (dbg : bool) (w : wallet) (sorder uorder : list key)
           (amount unlocked lastvalid : N) : res (wallet * option btx) :=
  do r1 <- stake_loop1 dbg (w_slips w) amount unlocked lastvalid sorder 0;
  let '(collected, sel1) := r1 in
  if collected <? amount then
    let required := amount - collected in
    do r2 <- stake_loop2 dbg (w_slips w) required lastvalid (sort_by amount_desc uorder) 0;
    let '(c2, sel2) := r2 in
    if c2 <? required then Ok (w, None) else
    let should_break := Nlen (w_unspent w) =? 1 in
    do total <- add64 dbg SITE_NOLAN_ADD collected c2;
    do bal <- sub64 dbg SITE_BAL_SUB (w_balance w) c2;
    Ok (mkW (w_pk w) (w_slips w) (remove_all sel2 (w_unspent w)) (remove_all sel1 (w_staking w))
            bal (w_pending w),
        Some (mkBT (cap255 (map slip_of_key (sel1 ++ sel2)))
                   (index_from 0 (cap255 (stake_outputs (w_pk w) amount total should_break)))))
  else
    Ok (mkW (w_pk w) (w_slips w) (w_unspent w) (remove_all sel1 (w_staking w))
            (w_balance w) (w_pending w),
        Some (mkBT (cap255 (map slip_of_key sel1))
                   (index_from 0 (cap255 (stake_outputs (w_pk w) amount collected false))))).

(* ---- update_from_balance_snapshot / reset ----
   The snapshot replaces slips, unspent_slips, staking_slips and the balance (pending_txs
   is kept); every slip of the snapshot is keyed by its CACHED key and filed as add_slip
   files it (BlockStake -> staking set, Bound -> neither); `slips.insert` replaces the
   entry of a key that occurs twice and only the first occurrence is counted. *)
Definition snap_insert (dbg : bool) (w : wallet) (s : slip) : res wallet :=
  let k := s_key s in
  if key_eqb k zero_key then Panic SITE_SNAPSHOT_ASSERT else
  let x := mkWS k (s_amt s) (s_bid s) (s_txo s) true (s_idx s) false (s_ty s) in
  if mhas k (w_slips w) then
    Ok (mkW (w_pk w) (mset k x (w_slips w)) (w_unspent w) (w_staking w) (w_balance w) (w_pending w))
  else if s_ty s =? TY_BLOCKSTAKE then
    Ok (mkW (w_pk w) (mset k x (w_slips w)) (w_unspent w) (kinsert k (w_staking w))
            (w_balance w) (w_pending w))
  else if s_ty s =? TY_BOUND then
    Ok (mkW (w_pk w) (mset k x (w_slips w)) (w_unspent w) (w_staking w) (w_balance w) (w_pending w))
  else
    do b <- add64 dbg SITE_BAL_ADD (w_balance w) (s_amt s);
    Ok (mkW (w_pk w) (mset k x (w_slips w)) (kinsert k (w_unspent w)) (w_staking w) b (w_pending w)).

Definition update_from_snapshot (dbg : bool) (w : wallet) (l : list slip) : res wallet :=
  fold_res (snap_insert dbg) (mkW (w_pk w) [] [] [] 0 (w_pending w)) l.

(* Wallet::reset with keep_keys = true *)
Definition reset (w : wallet) : wallet := mkW (w_pk w) [] [] [] 0 [].

(* ---- operations ---- *)
Inductive op :=
| OAddSlip (bid txi : N) (s : slip) (lc : bool)
| ODeleteSlip (s : slip)
| OWind (b : block) (gp : N)
| OUnwind (b : block) (gp : N)
| ORemoveOld (limit : N)
| ODeleteBlock (b : block)
| OCreate (order : list key) (keys payments : list N) (fee latest gp : N)
| OStake (sorder uorder : list key) (amount unlocked lastvalid : N)
| OPending (first_from_pk : option N) (is_gt : bool) (h : option N)
| OSnapshot (l : list slip)
| OReset.

(* [order] enumerates the set [l] *)
Fixpoint knodup (l : list key) : bool :=
  match l with [] => true | x :: t => negb (kmem x t) && knodup t end.
Definition enumerates (order l : list key) : bool :=
  knodup order && (Nlen order =? Nlen l) && forallb (fun k => kmem k l) order.

(* output of an operation besides the new wallet *)
Inductive out :=
| NoOut
| OutCreate (c : create_out)
| OutStake (t : option btx).

Definition step (dbg : bool) (w : wallet) (o : op) : res (wallet * out) :=
  match o with
  | OAddSlip bid txi s lc => do w' <- add_slip dbg w bid txi s lc; Ok (w', NoOut)
  | ODeleteSlip s => do w' <- delete_slip dbg w s; Ok (w', NoOut)
  | OWind b gp => do w' <- on_chain_reorganization dbg w b true gp; Ok (w', NoOut)
  | OUnwind b gp => do w' <- on_chain_reorganization dbg w b false gp; Ok (w', NoOut)
  | ORemoveOld limit => do w' <- remove_old_slips dbg w limit; Ok (w', NoOut)
  | ODeleteBlock b => do w' <- delete_block dbg w b; Ok (w', NoOut)
  | OCreate order keys payments fee latest gp =>
      if enumerates order (w_unspent w) then
        do r <- create dbg w order keys payments fee latest gp; Ok (fst r, OutCreate (snd r))
      else Err
  | OStake sorder uorder amount unlocked lastvalid =>
      if enumerates sorder (w_staking w) && enumerates uorder (w_unspent w) then
        do r <- create_staking dbg w sorder uorder amount unlocked lastvalid;
        Ok (fst r, OutStake (snd r))
      else Err
  | OPending p g h => do w' <- add_to_pending w p g h; Ok (w', NoOut)
  | OSnapshot l => do w' <- update_from_snapshot dbg w l; Ok (w', NoOut)
  | OReset => Ok (reset w, NoOut)
  end.

Fixpoint run (dbg : bool) (w : wallet) (ops : list op) : res wallet :=
  match ops with
  | [] => Ok w
  | o :: t => do r <- step dbg w o; run dbg (fst r) t
  end.

(* ---- observation (compared with the implementation by the harness) ---- *)
Definition key_row (k : key) : list N := [k_pk k; k_bid k; k_txo k; k_idx k; k_amt k; k_ty k].
Definition b2n (b : bool) : N := if b then 1 else 0.

Definition slip_row (tag i : N) (s : slip) : list N :=
  [tag; i; s_pk s; s_amt s; s_idx s; s_bid s; s_txo s; s_ty s].

Fixpoint number {A} (i : N) (l : list A) : list (N * A) :=
  match l with [] => [] | x :: t => (i, x) :: number (i + 1) t end.

Definition btx_rows (t : btx) : list (list N) :=
  map (fun ix => slip_row 4 (fst ix) (snd ix)) (number 0 (bt_from t)) ++
  map (fun ix => slip_row 5 (fst ix) (snd ix)) (number 0 (bt_to t)).

Definition out_rows (o : out) : list (list N) :=
  match o with
  | NoOut => []
  | OutCreate (Built t) => [7; 0] :: btx_rows t
  | OutCreate ErrInvalidInput => [[7; 1]]
  | OutCreate ErrNotFound => [[7; 2]]
  | OutStake (Some t) => [7; 0] :: btx_rows t
  | OutStake None => [[7; 2]]
  end.

Definition wallet_rows (w : wallet) : list (list N) :=
  [0; w_balance w; Nlen (w_slips w); Nlen (w_unspent w); Nlen (w_staking w)] ::
  map (fun k => 1 :: key_row k) (w_unspent w) ++
  map (fun kv => 2 :: key_row (fst kv) ++
                 [ws_amt (snd kv); ws_bid (snd kv); ws_txo (snd kv); ws_idx (snd kv);
                  ws_ty (snd kv); b2n (ws_spent (snd kv)); b2n (ws_lc (snd kv))]) (w_slips w) ++
  map (fun k => 3 :: key_row k) (w_staking w) ++
  map (fun h => [6; h]) (w_pending w).

(* lexicographic order on rows *)
Fixpoint row_le (a b : list N) : bool :=
  match a, b with
  | [], _ => true
  | _ :: _, [] => false
  | x :: a', y :: b' => if x =? y then row_le a' b' else x <? y
  end.

Definition obs (w : wallet) (o : out) : list (list N) :=
  sort_by row_le (wallet_rows w ++ out_rows o).

(* a group of operations executed back to back (e.g. what Blockchain::add_block does
   to the wallet for one block: wind, then delete_block of the purged block); the
   output is that of the last operation *)
Fixpoint run_out (dbg : bool) (w : wallet) (ops : list op) (last : out) : res (wallet * out) :=
  match ops with
  | [] => Ok (w, last)
  | o :: t => do r <- step dbg w o; run_out dbg (fst r) t (snd r)
  end.

(* one observation per executed group; a panic / artefact error ends the trace *)
Fixpoint trace (dbg : bool) (w : wallet) (groups : list (list op)) : list (list (list N)) :=
  match groups with
  | [] => []
  | g :: t =>
      match run_out dbg w g NoOut with
      | Ok (w', out) => obs w' out :: trace dbg w' t
      | Err => [[[8; 1]]]
      | Panic site => [[[9; site]]]
      end
  end.

(* ---- abstract ledger (Blockchain::utxoset restricted to what C19 needs) ----
   Transaction::on_chain_reorganization(longest_chain = true): inputs with
   amount > 0 are removed (by cached key), outputs with amount > 0 inserted. *)
Definition ledger_wind_tx (u : list key) (t : tx) : list key :=
  let u1 := fold_left (fun u i => if 0 <? s_amt i then kremove (s_key i) u else u) (t_from t) u in
  fold_left (fun u o => if 0 <? s_amt o then kinsert (s_key o) u else u) (t_to t) u1.

Definition ledger_wind (u : list key) (b : block) : list key :=
  fold_left ledger_wind_tx (b_txs b) u.

(* a slip type the wallet counts as spendable money *)
Definition spendable_ty (ty : N) : bool := negb (ty =? TY_BLOCKSTAKE) && negb (ty =? TY_BOUND).

(* the wallet's view of the ledger: spendable, of my key, inside the window *)
Definition ledger_mine (pk gp latest : N) (u : list key) : list key :=
  filter (fun k => (k_pk k =? pk) && spendable_ty (k_ty k) && (latest - gp <=? k_bid k)) u.

(* ---- a node on a chain without reorganisation ----
   What Blockchain::add_block does for one more block on the tip: the wallet winds
   the block, the ledger winds it, and once the chain is longer than 2 * gp the
   block 2 * gp back is purged (Wallet::delete_block).  Between blocks the wallet
   builds transactions with the node's latest block id.  [c_committed] records the
   outputs the wallet selected for them (ghost). *)
Inductive cop :=
| CBlock (b : block)
| CCreate (order : list key) (keys payments : list N) (fee : N).

Record cstate := mkC {
  c_w : wallet;
  c_u : list key;
  c_top : N;
  c_committed : list key;
  c_blocks : list block }.

Definition cinit (pk : N) : cstate := mkC (init pk) [] 0 [] [].

Definition find_block (id : N) (bs : list block) : option block :=
  find (fun b => b_id b =? id) bs.

Definition chain_step (dbg : bool) (gp : N) (st : cstate) (o : cop) : res cstate :=
  match o with
  | CBlock b =>
      do w1 <- on_chain_reorganization dbg (c_w st) b true gp;
      do w2 <- (if 2 * gp <? b_id b then
                  match find_block (b_id b - 2 * gp) (c_blocks st) with
                  | Some p => delete_block dbg w1 p
                  | None => Ok w1
                  end
                else Ok w1);
      Ok (mkC w2 (ledger_wind (c_u st) b) (b_id b) (c_committed st) (b :: c_blocks st))
  | CCreate order keys payments fee =>
      if enumerates order (w_unspent (c_w st)) then
        do r <- create dbg (c_w st) order keys payments fee (c_top st) gp;
        Ok (mkC (fst r) (c_u st) (c_top st)
                (filter (fun k => negb (kmem k (w_unspent (fst r)))) (w_unspent (c_w st))
                 ++ c_committed st)
                (c_blocks st))
      else Err
  end.

Fixpoint chain_run (dbg : bool) (gp : N) (st : cstate) (ops : list cop) : res cstate :=
  match ops with
  | [] => Ok st
  | o :: t => do st' <- chain_step dbg gp st o; chain_run dbg gp st' t
  end.
