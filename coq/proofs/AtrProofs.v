(* C13 — the rebroadcast section of an accepted block (model/CV.v, model/Supply.v),
   code as of /repo 9007b23. *)
From Saito Require Import Base CV Supply Known CVProofs LedgerProofs SupplyProofs.
From Coq Require Import Permutation.

Section Atr.
  Variable cap15 cap05 : N -> N.
  Variable cf : config.

  (* the unspent outputs of the block that leaves the window when [b] is added, each with its
     transaction; the multiplier and the fee per byte the code takes from the parent header *)
  Definition leaving (st : state) (b : block) : list (tx * slip) :=
    exp_items (slip_valid (st_utxo st)) (expiring_txs cf st b).
  Definition mult_of (st : state) (b : block) : N := atr_mult (cf_gp cf) (the_input cf st b).
  Definition fpb_of (st : state) (b : block) : N := atr_fpb (the_input cf st b).
  Definition fee_of (st : state) (b : block) (it : tx * slip) : N := tx_size (fst it) * fpb_of st b.
  Definition rebroadcast_p (st : state) (b : block) (it : tx * slip) : bool :=
    is_rebroadcast (mult_of st b) (fee_of st b it) (snd it).
  (* the outputs that are rebroadcast (value * multiplier exceeds the fee), in order *)
  Definition rebroadcast_items (st : state) (b : block) : list (tx * slip) :=
    filter (rebroadcast_p st b) (leaving st b).
  (* the payouts the multiplier asks for (each value * multiplier and their sum saturate at
     2^64-1, fix 812712b), against 5 % of the parent's treasury *)
  Definition payout_asked (st : state) (b : block) : N :=
    N.min (sumN (map (fun it => item_pay (mult_of st b) (fee_of st b it) (snd it)) (leaving st b))) U64MAX.
  Definition payout_limit (st : state) (b : block) : N := cap_limit cap05 (the_input cf st b).
  Definition capped (st : state) (b : block) : bool := payout_limit st b <? payout_asked st b.
  (* under the cap every rebroadcast output gets value * (1 + limit / volume) and pays no fee *)
  Definition capped_factor (st : state) (b : block) : N :=
    1 + payout_limit st b / sumN (map (fun it => s_amt (snd it)) (leaving st b)).
  (* the rebroadcast transactions the code expects, in order *)
  Definition expected_rebroadcast (st : state) (b : block) (it : tx * slip) : tx :=
    if capped st b then capped_rb (fst it) (capped_factor st b) (snd it)
    else rebroadcast_of (fst it) (mult_of st b) (fee_of st b it) (snd it).
  Definition expected_rebroadcasts (st : state) (b : block) : list tx :=
    map (expected_rebroadcast st b) (rebroadcast_items st b).
  Definition expected_fees_atr (st : state) (b : block) : N :=
    sumN (map (fun it => if capped st b then item_dust (mult_of st b) (fee_of st b it) (snd it)
                         else item_fee (mult_of st b) (fee_of st b it) (snd it)) (leaving st b)).
  Definition expected_pay_atr (st : state) (b : block) : N :=
    if capped st b
    then sumN (map (fun it => s_amt (snd it) * capped_factor st b - s_amt (snd it)) (rebroadcast_items st b))
    else payout_asked st b.

  Lemma leaving_is_items : forall st b, leaving st b = atr_items (cf_gp cf) (slip_valid (st_utxo st)) (the_input cf st b).
  Proof. intros. unfold leaving, atr_items. rewrite expiring_is_atr_etxs. reflexivity. Qed.

  (* shape of one rebroadcast: input = the original slip as the ledger holds it; output: same
     owner, type ATR, amount = value*multiplier - fee, or value*(1 + limit/volume) under the cap *)
  Lemma rebroadcast_shape : forall orig mult fee s,
    t_ty (rebroadcast_of orig mult fee s) = TATR /\
    t_from (rebroadcast_of orig mult fee s) = [s] /\
    t_to (rebroadcast_of orig mult fee s) = [mkSlip (s_pk s) (smul (s_amt s) mult - fee) SATR 0 0 0].
  Proof. intros. repeat split. Qed.
  Lemma capped_shape : forall orig adj s,
    t_ty (capped_rb orig adj s) = TATR /\
    t_from (capped_rb orig adj s) = [s] /\
    t_to (capped_rb orig adj s) = [mkSlip (s_pk s) (s_amt s * adj) SATR 0 0 0].
  Proof. intros. repeat split. Qed.
  Lemma dust_shape : forall orig mult fee s,
    is_rebroadcast mult fee s = false ->
    item_rbs orig mult fee s = [] /\ item_fee mult fee s = s_amt s /\ item_dust mult fee s = s_amt s /\
    smul (s_amt s) mult <= fee.
  Proof.
    intros orig mult fee s H. unfold item_rbs, item_fee, item_dust. rewrite H. repeat split.
    unfold is_rebroadcast in H. apply N.ltb_ge in H. exact H.
  Qed.

  (* carried and expected rebroadcasts agree position by position: in everything the hash binds,
     and in their inputs *)
  Lemma hash_and_inputs : forall E C, eqb_list sig_eqb E C = true -> same_inputs C E = true ->
    Forall2 (fun e t => sig_eqb e t = true /\ t_from t = t_from e) E C.
  Proof.
    induction E as [|e r IH]; intros [|c r'] Hh Hs; cbn [eqb_list] in Hh; try discriminate; [constructor|].
    apply andb_prop in Hh. destruct Hh as [Hh1 Hh]. cbn [same_inputs] in Hs. apply andb_prop in Hs. destruct Hs as [Hs1 Hs2].
    constructor; [|apply IH; assumption]. split; [exact Hh1|].
    clear - Hs1. revert Hs1. generalize (t_from e). induction (t_from c) as [|x l IHl]; intros [|y l'] H; cbn [eqb_list] in H; try discriminate; auto.
    apply andb_prop in H. destruct H as [Hx Hl]. apply slip_eqb_eq in Hx. subst. f_equal. apply IHl. exact Hl.
  Qed.

  (* what an accepted block satisfies, C13 view *)
  Lemma accepted_atr : forall st b,
    validate_m cap15 cap05 cf MInf st b = Ok true ->
    Known_C02_nft_expiring cf st b = false ->
    Forall2 (fun e t => sig_eqb e t = true /\ t_from t = t_from e)
            (expected_rebroadcasts st b) (block_atrs (b_txs b))
    /\ h_fees_atr (b_hdr b) = expected_fees_atr st b
    /\ h_pay_atr (b_hdr b) = expected_pay_atr st b.
  Proof.
    intros st b Hval G2.
    destruct (validate_inv _ _ _ _ _ Hval) as [c [Hcv [[_ [Hfa [_ Hpa]]] [_ [_ [_ [Hhash [Hsame _]]]]]]]].
    assert (Hnb : txs_no_bound (atr_etxs (cf_gp cf) (the_input cf st b)) = true).
    { rewrite expiring_is_atr_etxs. unfold Known_C02_nft_expiring in G2.
      apply negb_false_iff in G2. exact G2. }
    unfold cv_inf, run_cv in Hcv. fold (the_input cf st b) in Hcv.
    destruct (gcv_inf _ _ _ _ _ _ Hcv) as [_ [_ [_ [_ [_ [_ [_ [[r [Hr [Cfa [Cpa [Chash [Crbs [_ [_ [_ Ccap]]]]]]]]] _]]]]]]]].
    unfold expected_rebroadcasts, expected_rebroadcast, expected_fees_atr, expected_pay_atr, rebroadcast_items,
      rebroadcast_p, capped, payout_asked, payout_limit, capped_factor, fee_of, mult_of, fpb_of.
    rewrite leaving_is_items.
    destruct (r_cap r) eqn:Hcap.
    - destruct (atr_section_cap _ _ _ _ _ _ Hnb Hr Hcap) as [Hlt [_ [_ [Hp [Hf [_ [Hrb Hh]]]]]]].
      unfold pay_asked, items_sum, it_fee in Hlt. apply N.ltb_lt in Hlt. rewrite Hlt.
      rewrite Crbs, Hrb, <- Hh, <- Chash in Hsame.
      pose proof (hash_and_inputs _ _ Hhash Hsame) as HF. rewrite Chash, Hh in HF.
      split; [exact HF|]. split.
      + rewrite Hfa, Cfa, Hf. reflexivity.
      + rewrite Hpa, Cpa, Hp. reflexivity.
    - destruct (atr_section_inf _ _ _ _ _ _ Hnb Hr Hcap) as [Hle [_ [_ [Hp [Hf [_ [Hrb Hh]]]]]]].
      unfold pay_asked, items_sum, it_fee in Hle, Hp. apply N.ltb_ge in Hle. unfold cap_limit. rewrite Hle.
      rewrite Crbs, Hrb, <- Hh, <- Chash in Hsame.
      pose proof (hash_and_inputs _ _ Hhash Hsame) as HF. rewrite Chash, Hh in HF.
      unfold items_rbs in HF. rewrite items_rbs_map in HF.
      split; [exact HF|]. split.
      + rewrite Hfa, Cfa, Hf. reflexivity.
      + rewrite Hpa, Cpa, Hp. reflexivity.
  Qed.

  (* ---------- every rebroadcast of the block belongs to an output that left the window ---------- *)
  Lemma Forall2_in_r : forall (A B : Type) (R : A -> B -> Prop) l1 l2 y,
    Forall2 R l1 l2 -> In y l2 -> exists x, In x l1 /\ R x y.
  Proof.
    intros A B R l1 l2 y H. induction H; intro Hy; [destruct Hy|].
    destruct Hy as [Hy|Hy]; [subst; eexists; split; [left; reflexivity | assumption]|].
    destruct (IHForall2 Hy) as [x' [Hx' HR]]. exists x'. split; [right; assumption | assumption].
  Qed.
  Lemma Forall2_in_l : forall (A B : Type) (R : A -> B -> Prop) l1 l2 x,
    Forall2 R l1 l2 -> In x l1 -> exists y, In y l2 /\ R x y.
  Proof.
    intros A B R l1 l2 x H. induction H; intro Hx; [destruct Hx|].
    destruct Hx as [Hx|Hx]; [subst; eexists; split; [left; reflexivity | assumption]|].
    destruct (IHForall2 Hx) as [y' [Hy' HR]]. exists y'. split; [right; assumption | assumption].
  Qed.

  Lemma expected_from : forall st b it, t_from (expected_rebroadcast st b it) = [snd it].
  Proof. intros. unfold expected_rebroadcast. destruct (capped st b); reflexivity. Qed.

  Lemma nothing_else : forall st b t,
    validate_m cap15 cap05 cf MInf st b = Ok true ->
    Known_C02_nft_expiring cf st b = false ->
    In t (b_txs b) -> t_ty t = TATR ->
    exists it, In it (leaving st b) /\ rebroadcast_p st b it = true /\
      t_from t = [snd it] /\ sig_eqb (expected_rebroadcast st b it) t = true.
  Proof.
    intros st b t Hval G2 Ht Hty.
    destruct (accepted_atr st b Hval G2) as [HF _].
    assert (Hin : In t (block_atrs (b_txs b))).
    { unfold block_atrs. apply filter_In. split; auto. rewrite Hty. reflexivity. }
    destruct (Forall2_in_r _ _ _ _ _ _ HF Hin) as [x [Hx [Hs Hf]]].
    unfold expected_rebroadcasts in Hx. apply in_map_iff in Hx. destruct Hx as [it [Hit Hx]]. subst x.
    unfold rebroadcast_items in Hx. apply filter_In in Hx. destruct Hx as [Hx1 Hx2].
    exists it. repeat split; auto. rewrite Hf. apply expected_from.
  Qed.

  (* ---------- nothing is rebroadcast twice by one block ---------- *)
  Lemma exp_items_snd : forall v etxs, map snd (exp_items v etxs) = filter v (flat_map t_to etxs).
  Proof.
    intros v. induction etxs as [|t r IH]; [reflexivity|].
    unfold exp_items in *. cbn [flat_map]. rewrite map_app, IH, filter_app. f_equal.
    rewrite map_map. cbn [snd]. apply map_id.
  Qed.

  Lemma leaving_nodup : forall st b, Inv st -> NoDup (map snd (leaving st b)).
  Proof.
    intros st b HI. unfold leaving. rewrite exp_items_snd.
    destruct (expiring_on_chain cf st b) as [H|[e [He [H _]]]]; rewrite H.
    - constructor.
    - apply NoDup_filter. destruct (located_outputs e (inv_located st HI e He)) as [Hnd _]. exact Hnd.
  Qed.

  Lemma leaving_valid : forall st b it, In it (leaving st b) -> 0 < s_amt (snd it) -> In (snd it) (st_utxo st).
  Proof.
    intros st b it Hit Hpos. unfold leaving, exp_items in Hit. apply in_flat_map in Hit. destruct Hit as [t [_ Hit]].
    apply in_map_iff in Hit. destruct Hit as [s' [Hs' Hf]]. subst it. cbn [snd] in *.
    apply filter_In in Hf. destruct Hf as [_ Hv]. unfold slip_valid in Hv.
    apply N.ltb_lt in Hpos. rewrite Hpos in Hv. apply in_utxo_In. exact Hv.
  Qed.

  (* ---------- the original of a rebroadcast output is no longer spendable ---------- *)
  Theorem original_unspendable : forall st b it,
    Inv st -> located b ->
    validate_m cap15 cap05 cf MInf st b = Ok true ->
    clean cap05 cf st b = true ->
    In it (leaving st b) -> rebroadcast_p st b it = true -> 0 < s_amt (snd it) ->
    ~ In (snd it) (st_utxo (wind cf st b)).
  Proof.
    intros st b it HI Hlocb Hval Hclean Hit Hrb Hpos Hin.
    destruct (clean_split _ _ _ _ Hclean) as [_ [G2 _]].
    destruct (block_facts _ _ _ _ _ HI Hlocb Hval Hclean) as [c [pb [rest [r [p F]]]]].
    pose proof (f_id _ _ _ _ _ _ _ _ _ _ F) as Hid.
    pose proof (f_ins _ _ _ _ _ _ _ _ _ _ F) as Hins.
    pose proof (f_ubid _ _ _ _ _ _ _ _ _ _ F) as Hubid.
    destruct (accepted_atr st b Hval G2) as [HF _].
    set (s := snd it) in *.
    (* the expected rebroadcast of [it] has a carried counterpart with the same input *)
    assert (Hx : In s (ins (b_txs b))).
    { assert (He : In (expected_rebroadcast st b it) (expected_rebroadcasts st b)).
      { unfold expected_rebroadcasts. apply in_map. unfold rebroadcast_items. apply filter_In. auto. }
      destruct (Forall2_in_l _ _ _ _ _ _ HF He) as [t [Ht [_ Hf]]].
      rewrite expected_from in Hf. unfold block_atrs in Ht. apply filter_In in Ht. destruct Ht as [Ht _].
      unfold ins. apply in_flat_map. exists t. split; auto. rewrite Hf. left. reflexivity. }
    pose proof (leaving_valid st b it Hit Hpos) as Hsu. fold s in Hsu.
    unfold wind in Hin. cbn [st_utxo] in Hin. apply purge_sub in Hin.
    destruct (located_outputs b Hlocb) as [_ Hbidout].
    assert (Hsep : separated (b_txs b)).
    { intros y Hy Hp Ho. pose proof (Hubid y (Hins y Hy Hp)).
      assert (In y (outputs b)) by exact Ho. pose proof (Hbidout y H0). unfold new_id in Hid. lia. }
    apply (In_apply_txs (b_txs b) (st_utxo st) s Hsep) in Hin.
    destruct Hin as [[_ Hn]|[Ho _]].
    - apply Hn. split; [exact Hx | exact Hpos].
    - pose proof (Hubid s Hsu). assert (In s (outputs b)) by exact Ho. pose proof (Hbidout s H0).
      unfold new_id in Hid. lia.
  Qed.

  (* ---------- ... and never comes back: nothing is rebroadcast twice on a chain ---------- *)
  Lemma gone_stays_gone : forall st b s,
    Inv st -> located b ->
    validate_m cap15 cap05 cf MInf st b = Ok true ->
    clean cap05 cf st b = true ->
    s_bid s <= tip_id st -> ~ In s (st_utxo st) -> ~ In s (st_utxo (wind cf st b)).
  Proof.
    intros st b s HI Hlocb Hval Hclean Hbid Hnot Hin.
    destruct (block_facts _ _ _ _ _ HI Hlocb Hval Hclean) as [c [pb [rest [r [p F]]]]].
    pose proof (f_id _ _ _ _ _ _ _ _ _ _ F) as Hid.
    pose proof (f_ins _ _ _ _ _ _ _ _ _ _ F) as Hins.
    pose proof (f_ubid _ _ _ _ _ _ _ _ _ _ F) as Hubid.
    unfold wind in Hin. cbn [st_utxo] in Hin. apply purge_sub in Hin.
    destruct (located_outputs b Hlocb) as [_ Hbidout].
    assert (Hsep : separated (b_txs b)).
    { intros y Hy Hp Ho. pose proof (Hubid y (Hins y Hy Hp)).
      assert (In y (outputs b)) by exact Ho. pose proof (Hbidout y H0). unfold new_id in Hid. lia. }
    apply (In_apply_txs (b_txs b) (st_utxo st) s Hsep) in Hin.
    destruct Hin as [[Hu _]|[Ho _]]; [contradiction|].
    assert (In s (outputs b)) by exact Ho. pose proof (Hbidout s H). unfold new_id in Hid. lia.
  Qed.

  (* states reached from [st] by accepted blocks *)
  Inductive Later : state -> state -> Prop :=
  | later_refl : forall st, Later st st
  | later_step : forall st st' b, Later st st' -> located b ->
      validate_m cap15 cap05 cf MInf st' b = Ok true -> clean cap05 cf st' b = true ->
      Later st (wind cf st' b).

  Lemma later_inv : forall st st', Inv st -> Later st st' -> Inv st' /\ tip_id st <= tip_id st'.
  Proof.
    intros st st' HI H. induction H.
    - split; [assumption | lia].
    - destruct (IHLater HI) as [HI' Hle]. split.
      + eapply inv_step; eauto.
      + destruct (block_facts _ _ _ _ _ HI' H0 H1 H2) as [c [pb [rest [r [p F]]]]].
        pose proof (f_id _ _ _ _ _ _ _ _ _ _ F) as Hid. unfold new_id in Hid.
        change (tip_id (wind cf st' b)) with (h_id (b_hdr b)). lia.
  Qed.

  Theorem nothing_twice_ever : forall st b it st' b' it',
    Inv st -> located b ->
    validate_m cap15 cap05 cf MInf st b = Ok true -> clean cap05 cf st b = true ->
    In it (leaving st b) -> rebroadcast_p st b it = true -> 0 < s_amt (snd it) ->
    Later (wind cf st b) st' ->
    In it' (leaving st' b') -> snd it' <> snd it.
  Proof.
    intros st b it st' b' it' HI Hlocb Hval Hclean Hit Hrb Hpos Hlater Hit' Heq.
    pose proof (original_unspendable st b it HI Hlocb Hval Hclean Hit Hrb Hpos) as Hgone.
    pose proof (inv_step _ _ _ _ _ HI Hlocb Hval Hclean) as HI1.
    assert (Hbid : s_bid (snd it) <= tip_id (wind cf st b)).
    { destruct (inv_utxo st HI (snd it) (leaving_valid st b it Hit Hpos)) as [_ [blk [Hb [Hbi _]]]].
      pose proof (chain_ids_le_tip st blk (inv_ids st HI) Hb) as Hle. unfold bid_of in Hle.
      destruct (block_facts _ _ _ _ _ HI Hlocb Hval Hclean) as [c [pb [rest [r [p F]]]]].
      pose proof (f_id _ _ _ _ _ _ _ _ _ _ F) as Hid. unfold new_id in Hid.
      change (tip_id (wind cf st b)) with (h_id (b_hdr b)). lia. }
    assert (Hstill : ~ In (snd it) (st_utxo st')).
    { clear Hit'. induction Hlater.
      - exact Hgone.
      - destruct (later_inv _ _ HI1 Hlater) as [HI' Hle].
        apply gone_stays_gone; auto. lia. }
    apply Hstill. rewrite <- Heq. apply (leaving_valid st' b' it' Hit'). rewrite Heq. exact Hpos.
  Qed.

  (* ---------- an output older than the window can no longer be spent ---------- *)
  Theorem expired_unspendable : forall st b t s,
    Inv st -> located b ->
    validate_m cap15 cap05 cf MInf st b = Ok true -> clean cap05 cf st b = true ->
    In t (b_txs b) -> user_tx t = true -> In s (t_from t) -> 0 < s_amt s ->
    h_id (b_hdr b) <= s_bid s + cf_gp cf.
  Proof.
    intros st b t s HI Hl Hv Hc Ht Hu Hs Hp.
    destruct (block_facts _ _ _ _ _ HI Hl Hv Hc) as [c [pb [rest [r [p F]]]]].
    pose proof (f_valid _ _ _ _ _ _ _ _ _ _ F t Ht) as Hval.
    pose proof (f_id _ _ _ _ _ _ _ _ _ _ F) as Hid. unfold new_id in Hid.
    destruct (plain_tx_no_bound t (f_plain _ _ _ _ _ _ _ _ _ _ F t Ht)) as [Hb _].
    unfold tx_valid in Hval. apply andb_prop in Hval. destruct Hval as [Hval _].
    apply andb_prop in Hval. destruct Hval as [_ Hage]. rewrite Hu in Hage. cbn [andb] in Hage.
    apply negb_true_iff in Hage. unfold too_old in Hage.
    destruct (N.le_gt_cases (h_id (b_hdr b)) (s_bid s + cf_gp cf)) as [Hle|Hgt]; [exact Hle|]. exfalso.
    assert (existsb (fun s0 => aged s0 && (sadd (s_bid s0) (cf_gp cf) <? tip_id st + 1)) (t_from t) = true); [|congruence].
    apply existsb_exists. exists s. split; auto. unfold aged. apply N.ltb_lt in Hp. rewrite Hp, (Hb s Hs). cbn [negb andb].
    apply N.ltb_lt. pose proof (N.le_min_l (s_bid s + cf_gp cf) U64MAX) as Hsat. fold (sadd (s_bid s) (cf_gp cf)) in Hsat. lia.
  Qed.
End Atr.
