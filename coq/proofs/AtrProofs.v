(* C13 — the rebroadcast section of an accepted block (model/CV.v, model/Supply.v). *)
From Saito Require Import Base CV Supply Known CVProofs LedgerProofs SupplyProofs.
From Coq Require Import Permutation.

Section Atr.
  Variable cap15 cap05 : N -> N.
  Variable cf : config.

  (* the unspent outputs of the block that leaves the window when [b] is added, each with its
     transaction; the multiplier and the fee per byte the code takes from the parent header *)
  Definition leaving (st : state) (b : block) : list (tx * slip) :=
    exp_items (slip_valid (st_utxo st)) (expiring_txs cf st b).
  Definition mult_of (st : state) (b : block) : N := atr_mult (cf_gp cf) (the_input cf st b).
  Definition fpb_of (st : state) (b : block) : N := atr_fpb (the_input cf st b).
  Definition fee_of (st : state) (b : block) (it : tx * slip) : N := tx_size (fst it) * fpb_of st b.
  (* the rebroadcast transactions the code expects, in order *)
  Definition expected_rebroadcasts (st : state) (b : block) : list tx :=
    flat_map (fun it => item_rbs (fst it) (mult_of st b) (fee_of st b it) (snd it)) (leaving st b).

  Lemma leaving_is_items : forall st b, leaving st b = atr_items (cf_gp cf) (slip_valid (st_utxo st)) (the_input cf st b).
  Proof. intros. unfold leaving, atr_items. rewrite expiring_is_atr_etxs. reflexivity. Qed.

  (* shape of one rebroadcast: same owner, type ATR, amount*multiplier - fee; its input is the
     original with the paid-out amount *)
  Lemma rebroadcast_shape : forall orig mult fee s,
    is_rebroadcast mult fee s = true ->
    item_rbs orig mult fee s = [rebroadcast_of orig mult fee s] /\
    t_ty (rebroadcast_of orig mult fee s) = TATR /\
    t_from (rebroadcast_of orig mult fee s) = [set_amt s (s_amt s * mult)] /\
    t_to (rebroadcast_of orig mult fee s) = [mkSlip (s_pk s) (s_amt s * mult - fee) SATR 0 0 0].
  Proof.
    intros orig mult fee s H. unfold item_rbs. rewrite H. repeat split.
  Qed.
  Lemma dust_shape : forall orig mult fee s,
    is_rebroadcast mult fee s = false ->
    item_rbs orig mult fee s = [] /\ item_fee mult fee s = s_amt s /\ s_amt s * mult <= fee.
  Proof.
    intros orig mult fee s H. unfold item_rbs, item_fee. rewrite H. repeat split.
    unfold is_rebroadcast in H. apply N.ltb_ge in H. exact H.
  Qed.

  (* what an accepted block satisfies, C13 view *)
  Lemma accepted_atr : forall st b,
    validate_m cap15 cap05 cf MInf st b = Ok true ->
    Known_C02_nft_expiring cf st b = false ->
    Known_C02_cap_branch cap15 cap05 cf st b = false ->
    eqb_list sig_eqb (expected_rebroadcasts st b) (block_atrs (b_txs b)) = true
    /\ h_fees_atr (b_hdr b) = sumN (map (fun it => item_fee (mult_of st b) (fee_of st b it) (snd it)) (leaving st b))
    /\ h_pay_atr (b_hdr b) = sumN (map (fun it => item_pay (mult_of st b) (fee_of st b it) (snd it)) (leaving st b))
    /\ exists c, cv_inf cap15 cap05 cf st b = Ok c /\ c_rb_hash c = expected_rebroadcasts st b.
  Proof.
    intros st b Hval G2 G3.
    destruct (validate_inv _ _ _ _ _ Hval) as [c [Hcv [[_ [Hfa [_ Hpa]]] [_ [_ [_ [Hhash _]]]]]]].
    unfold Known_C02_cap_branch in G3. rewrite Hcv in G3.
    assert (Hnb : txs_no_bound (atr_etxs (cf_gp cf) (the_input cf st b)) = true).
    { rewrite expiring_is_atr_etxs. unfold Known_C02_nft_expiring in G2.
      apply negb_false_iff in G2. exact G2. }
    pose proof Hcv as Hcv'. unfold cv_inf, run_cv in Hcv'. fold (the_input cf st b) in Hcv'. 
    destruct (gcv_inf _ _ _ _ _ _ Hcv' Hnb G3) as [_ [_ [Cfa [Cpa [_ [Chash _]]]]]].
    unfold expected_rebroadcasts, fee_of, mult_of, fpb_of. rewrite leaving_is_items.
    unfold items_rbs, items_sum, it_fee in *. rewrite Chash in Hhash.
    split; [exact Hhash|]. split; [congruence|]. split; [congruence|].
    exists c. split; [exact Hcv | exact Chash].
  Qed.

  (* ---------- nothing is rebroadcast twice by one block ---------- *)
  Lemma exp_items_snd : forall v etxs, map snd (exp_items v etxs) = filter v (flat_map t_to etxs).
  Proof.
    intros v. induction etxs as [|t r IH]; [reflexivity|].
    unfold exp_items in *. cbn [flat_map]. rewrite map_app, IH, filter_app. f_equal.
    rewrite map_map. cbn [snd]. apply map_id.
  Qed.

  Lemma expiring_on_chain : forall st b, expiring_txs cf st b = [] \/
    exists e, In e (st_chain st) /\ expiring_txs cf st b = b_txs e /\ h_id (b_hdr e) = new_id b - (cf_gp cf + 1).
  Proof.
    intros st b. unfold expiring_txs. destruct (cf_gp cf + 1 <? new_id b); [|auto].
    unfold block_at. destruct (find _ (st_chain st)) as [e|] eqn:E; [|auto].
    apply find_some in E. destruct E as [E1 E2]. apply N.eqb_eq in E2. right. exists e. auto.
  Qed.

  Lemma leaving_nodup : forall st b, Inv st -> NoDup (map snd (leaving st b)).
  Proof.
    intros st b HI. unfold leaving. rewrite exp_items_snd.
    destruct (expiring_on_chain st b) as [H|[e [He [H _]]]]; rewrite H.
    - constructor.
    - apply NoDup_filter. destruct (located_outputs e (inv_located st HI e He)) as [Hnd _]. exact Hnd.
  Qed.

  (* ---------- every rebroadcast of the block belongs to an output that left the window ---------- *)
  Lemma eqb_list_in : forall (A : Type) (eqb : A -> A -> bool) l1 l2 y,
    eqb_list eqb l1 l2 = true -> In y l2 -> exists x, In x l1 /\ eqb x y = true.
  Proof.
    intros A eqb. induction l1 as [|a r IH]; intros [|b r'] y H Hy; cbn [eqb_list] in H; try discriminate; [destruct Hy|].
    apply andb_prop in H. destruct H as [H1 H2]. destruct Hy as [Hy|Hy].
    - subst. exists a. split; [left; reflexivity | exact H1].
    - destruct (IH _ _ H2 Hy) as [x [Hx He]]. exists x. split; [right; exact Hx | exact He].
  Qed.

  Lemma nothing_else : forall st b t,
    validate_m cap15 cap05 cf MInf st b = Ok true ->
    Known_C02_nft_expiring cf st b = false ->
    Known_C02_cap_branch cap15 cap05 cf st b = false ->
    In t (b_txs b) -> t_ty t = TATR ->
    exists it, In it (leaving st b) /\
      is_rebroadcast (mult_of st b) (fee_of st b it) (snd it) = true /\
      sig_eqb (rebroadcast_of (fst it) (mult_of st b) (fee_of st b it) (snd it)) t = true.
  Proof.
    intros st b t Hval G2 G3 Ht Hty.
    destruct (accepted_atr st b Hval G2 G3) as [Hhash _].
    assert (Hin : In t (block_atrs (b_txs b))).
    { unfold block_atrs. apply filter_In. split; auto. rewrite Hty. reflexivity. }
    destruct (eqb_list_in _ _ _ _ _ Hhash Hin) as [x [Hx He]].
    unfold expected_rebroadcasts in Hx. apply in_flat_map in Hx. destruct Hx as [it [Hit Hx]].
    exists it. split; auto. unfold item_rbs in Hx.
    destruct (is_rebroadcast (mult_of st b) (fee_of st b it) (snd it)); [|destruct Hx].
    destruct Hx as [Hx|[]]. subst x. auto.
  Qed.

  (* ---------- the original of a rebroadcast output is no longer spendable ---------- *)
  Lemma relocate_from_idx_unique : forall bid ord l j s1 s2,
    j + Nlen l <= 256 -> In s1 (relocate_from bid ord j l) -> In s2 (relocate_from bid ord j l) ->
    s_idx s1 = s_idx s2 -> s1 = s2.
  Proof.
    intros bid ord. induction l as [|x r IH]; intros j s1 s2 Hlen H1 H2 He; [destruct H1|].
    unfold Nlen in *. cbn [length] in Hlen. rewrite Nat2N.inj_succ in Hlen.
    cbn [relocate_from In] in H1, H2.
    assert (Hr : forall s, In s (relocate_from bid ord (j + 1) r) -> j + 1 <= s_idx s).
    { intros s Hs. apply relocate_from_spec in Hs; [lia | unfold Nlen; lia]. }
    destruct H1 as [H1|H1]; destruct H2 as [H2|H2].
    - congruence.
    - subst s1. cbn [s_idx] in He. rewrite N.mod_small in He by lia. pose proof (Hr s2 H2). lia.
    - subst s2. cbn [s_idx] in He. rewrite N.mod_small in He by lia. pose proof (Hr s1 H1). lia.
    - apply (IH (j + 1)); auto. unfold Nlen. lia.
  Qed.

  Lemma outs_locate_loc_unique : forall bid l i s1 s2,
    (forall t, In t l -> Nlen (t_to t) <= 255) ->
    In s1 (outs (locate bid i l)) -> In s2 (outs (locate bid i l)) ->
    s_ord s1 = s_ord s2 -> s_idx s1 = s_idx s2 -> s1 = s2.
  Proof.
    intros bid. induction l as [|t r IH]; intros i s1 s2 Hlen H1 H2 Ho Hi; [destruct H1|].
    cbn [locate outs flat_map] in H1, H2. fold (outs (locate bid (i + 1) r)) in H1, H2.
    assert (Hl : 0 + Nlen (t_to t) <= 256) by (pose proof (Hlen t (or_introl eq_refl)); lia).
    assert (Hlen' : forall t0, In t0 r -> Nlen (t_to t0) <= 255) by (intros; apply Hlen; right; assumption).
    apply in_app_or in H1. apply in_app_or in H2.
    unfold relocate in H1, H2. cbn [t_to] in H1, H2.
    destruct H1 as [H1|H1]; destruct H2 as [H2|H2].
    - apply (relocate_from_idx_unique bid i (t_to t) 0); auto.
    - apply relocate_from_spec in H1; auto. apply (outs_locate_spec bid r (i + 1) s2 Hlen') in H2. lia.
    - apply relocate_from_spec in H2; auto. apply (outs_locate_spec bid r (i + 1) s1 Hlen') in H1. lia.
    - apply (IH (i + 1)); auto.
  Qed.

  Lemma located_loc_unique : forall blk s1 s2, located blk ->
    In s1 (outputs blk) -> In s2 (outputs blk) -> s_ord s1 = s_ord s2 -> s_idx s1 = s_idx s2 -> s1 = s2.
  Proof.
    intros blk s1 s2 [Hloc [Hlen _]] H1 H2. unfold outputs in *. fold (outs (b_txs blk)) in *.
    rewrite Hloc in H1, H2. intros Ho Hi.
    apply (outs_locate_loc_unique (h_id (b_hdr blk)) (b_txs blk) 0 s1 s2 Hlen H1 H2 Ho Hi).
  Qed.

  Lemma from_lists_in : forall l1 l2 f,
    eqb_list (eqb_list slip_eqb) l1 l2 = true -> In f l1 -> In f l2.
  Proof.
    induction l1 as [|a r IH]; intros [|b r'] f H Hf; cbn [eqb_list] in H; try discriminate; [destruct Hf|].
    apply andb_prop in H. destruct H as [H1 H2]. destruct Hf as [Hf|Hf].
    - subst. left. clear - H1. revert b H1. induction f as [|x t IHf]; intros [|y t'] H; cbn [eqb_list] in H; try discriminate; auto.
      apply andb_prop in H. destruct H as [Hx Ht]. apply slip_eqb_eq in Hx. subst. f_equal. apply IHf. exact Ht.
    - right. apply (IH _ _ H2 Hf).
  Qed.

  Theorem original_unspendable : forall st b it,
    Inv st -> located b ->
    validate_m cap15 cap05 cf MInf st b = Ok true ->
    clean cap15 cap05 cf st b = true ->
    Known_C13_rebroadcast_input_substituted cap15 cap05 cf st b = false ->
    In it (leaving st b) ->
    is_rebroadcast (mult_of st b) (fee_of st b it) (snd it) = true -> 0 < s_amt (snd it) ->
    ~ In (snd it) (st_utxo (wind cf st b)).
  Proof.
    intros st b it HI Hlocb Hval Hclean Hsub Hit Hrb Hpos Hin.
    destruct (clean_split _ _ _ _ _ Hclean) as [_ [G2 [G3 _]]].
    destruct (accepted_facts _ _ _ _ _ HI Hlocb Hval Hclean) as [Hid [Hins [Hubid _]]].
    destruct (accepted_atr st b Hval G2 G3) as [_ [_ [_ [c [Hcv Chash]]]]].
    unfold Known_C13_rebroadcast_input_substituted in Hsub. rewrite Hcv, Chash in Hsub.
    apply negb_false_iff in Hsub.
    set (s := snd it) in *. set (x := set_amt s (s_amt s * mult_of st b)).
    (* the expected input is an input of the block *)
    assert (Hx : In x (ins (b_txs b))).
    { assert (In [x] (map t_from (expected_rebroadcasts st b))).
      { apply in_map_iff. exists (rebroadcast_of (fst it) (mult_of st b) (fee_of st b it) s). split; [reflexivity|].
        unfold expected_rebroadcasts. apply in_flat_map. exists it. split; auto.
        unfold item_rbs. fold s. rewrite Hrb. left. reflexivity. }
      apply (from_lists_in _ _ _ Hsub) in H. apply in_map_iff in H. destruct H as [t [Ht1 Ht2]].
      unfold block_atrs in Ht2. apply filter_In in Ht2. destruct Ht2 as [Ht2 _].
      unfold ins. apply in_flat_map. exists t. split; auto. rewrite Ht1. left. reflexivity. }
    assert (Hm : 1 <= mult_of st b) by apply atr_mult_ge1.
    assert (Hxpos : 0 < s_amt x) by (unfold x; cbn [set_amt s_amt]; nia).
    pose proof (Hins x Hx Hxpos) as Hxu.
    (* the original is in the utxo set as well *)
    assert (Hsu : In s (st_utxo st)).
    { unfold leaving, exp_items in Hit. apply in_flat_map in Hit. destruct Hit as [t [_ Hit]].
      apply in_map_iff in Hit. destruct Hit as [s' [Hs' Hf]]. subst it. cbn [snd] in *. subst s.
      apply filter_In in Hf. destruct Hf as [_ Hv]. unfold slip_valid in Hv.
      apply N.ltb_lt in Hpos. rewrite Hpos in Hv. apply in_utxo_In. exact Hv. }
    (* same location, same block: the same slip *)
    assert (Hxs : x = s).
    { destruct (inv_utxo st HI x Hxu) as [_ [b1 [Hb1 [Hi1 Ho1]]]].
      destruct (inv_utxo st HI s Hsu) as [_ [b2 [Hb2 [Hi2 Ho2]]]].
      assert (b1 = b2).
      { apply (ids_ok_unique _ (inv_ids st HI)); auto. unfold bid_of. rewrite Hi1, Hi2. reflexivity. }
      subst b2. apply (located_loc_unique b1); auto. apply (inv_located st HI). exact Hb1. }
    (* it is consumed by the block *)
    unfold wind in Hin. cbn [st_utxo] in Hin. apply purge_sub in Hin.
    destruct (located_outputs b Hlocb) as [_ Hbidout].
    assert (Hsep : separated (b_txs b)).
    { intros y Hy Hp Ho. pose proof (Hubid y (Hins y Hy Hp)).
      assert (In y (outputs b)) by exact Ho. pose proof (Hbidout y H0). unfold new_id in Hid. lia. }
    apply (In_apply_txs (b_txs b) (st_utxo st) s Hsep) in Hin.
    destruct Hin as [[_ Hn]|[Ho _]].
    - apply Hn. rewrite <- Hxs. split; [exact Hx | exact Hxpos].
    - pose proof (Hubid s Hsu). assert (In s (outputs b)) by exact Ho. pose proof (Hbidout s H0).
      unfold new_id in Hid. lia.
  Qed.
End Atr.
