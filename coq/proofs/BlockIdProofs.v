(* Injectivity facts behind C06 *)
From Saito Require Import Base Bytes BytesProofs Merkle BlockId.

Lemma hv_eqb_eq a b : hv_eqb a b = true -> a = b.
Proof.
  revert b. induction a as [x|a1 IH1 a2 IH2]; intros [y|b1 b2]; cbn [hv_eqb]; try discriminate.
  - intros H. apply N.eqb_eq in H. now subst.
  - intros H. apply andb_true_iff in H as [H1 H2]. f_equal; auto.
Qed.

(* ---- fixed-width header encoding is injective ---- *)
Lemma app_inv_len {A} (a b c d : list A) : length a = length c -> a ++ b = c ++ d -> a = c /\ b = d.
Proof.
  revert c. induction a as [|x a IH]; intros [|y c] Hl H; cbn in *; try discriminate.
  - auto.
  - inversion H; subst. destruct (IH c ltac:(lia) H2). subst. auto.
Qed.

Lemma concat_be8_inj l1 l2 :
  length l1 = length l2 -> Forall (fun x => x < pow256 8) l1 -> Forall (fun x => x < pow256 8) l2 ->
  concat (map (be_enc 8) l1) = concat (map (be_enc 8) l2) -> l1 = l2.
Proof.
  revert l2. induction l1 as [|x t IH]; intros [|y u] Hl H1 H2 H; cbn [concat map length] in *; try discriminate; [reflexivity|].
  inversion H1; inversion H2; subst.
  apply app_inv_len in H as [Hx Ht]; [|now rewrite !be_enc_length].
  apply be_enc_inj in Hx; [|assumption|assumption]. subst. f_equal. apply IH; auto.
Qed.

Lemma hdr_bytes_inj h1 h2 :
  wf_header h1 -> wf_header h2 -> hdr_bytes h1 = hdr_bytes h2 ->
  h_id h1 = h_id h2 /\ h_ts h1 = h_ts h2 /\ h_prev h1 = h_prev h2
  /\ h_creator h1 = h_creator h2 /\ h_nums h1 = h_nums h2.
Proof.
  intros (Hi1 & Ht1 & Hp1 & Hc1 & Hn1 & Hf1) (Hi2 & Ht2 & Hp2 & Hc2 & Hn2 & Hf2) H.
  unfold hdr_bytes in H.
  apply app_inv_len in H as [Hid H]; [|now rewrite !be_enc_length].
  apply app_inv_len in H as [Hts H]; [|now rewrite !be_enc_length].
  apply app_inv_len in H as [Hprev H]; [|congruence].
  apply app_inv_len in H as [Hcr H]; [|congruence].
  apply be_enc_inj in Hid; [|assumption|assumption].
  apply be_enc_inj in Hts; [|assumption|assumption].
  apply concat_be8_inj in H; [|congruence|assumption|assumption].
  auto.
Qed.

(* ---- the merkle root determines the leaf list ---- *)
Fixpoint flat (h : hv) : list N :=
  match h with Leaf n => [n] | Node a b => flat a ++ flat b end.
Definition flat_o (o : option hv) : list N := match o with Some h => flat h | None => [] end.
Definition flat_all (l : list (option hv)) : list N := flat_map flat_o l.

Lemma pair_level_flat_n n : forall l r, (length l <= n)%nat -> pair_level l = Ok r ->
  flat_all r = flat_all l.
Proof.
  induction n as [|n IH]; intros l r Hn H.
  - destruct l; [|cbn in Hn; lia]. cbn in H. now inversion H.
  - destruct l as [|x [|y t]].
    + cbn in H. now inversion H.
    + cbn in H. destruct x; inversion H; subst. reflexivity.
    + cbn [pair_level] in H. destruct x as [a|]; [|discriminate]. destruct y as [b|]; [|discriminate].
      destruct (pair_level t) as [r'| |s] eqn:Ht; cbn [bind] in H; try discriminate.
      inversion H; subst.
      pose proof (IH t r' ltac:(cbn in Hn; lia) Ht) as Hf.
      unfold flat_all in *. cbn [flat_map flat_o flat]. rewrite Hf, <- app_assoc. reflexivity.
Qed.

Lemma pair_level_flat l r : pair_level l = Ok r -> flat_all r = flat_all l.
Proof. apply (pair_level_flat_n (length l)). lia. Qed.

Lemma reduce_flat fuel l o : reduce fuel l = Ok o -> flat_o o = flat_all l.
Proof.
  revert l. induction fuel as [|f IH]; intros l H.
  - destruct l as [|x [|y t]]; cbn in H; try discriminate.
    inversion H; subst. unfold flat_all. cbn. now rewrite app_nil_r.
  - destruct l as [|x [|y t]]; cbn [reduce] in H; try discriminate.
    + inversion H; subst. unfold flat_all. cbn. now rewrite app_nil_r.
    + destruct (pair_level (x :: y :: t)) as [l'| |s] eqn:Hp; cbn [bind] in H; try discriminate.
      apply IH in H. pose proof (pair_level_flat _ _ Hp) as Hf. congruence.
Qed.

(* leaves that are all opaque values (Leaf _): every hash_for_signature is a leaf *)
Fixpoint leaf_ids (lv : list (option hv)) : option (list N) :=
  match lv with
  | [] => Some []
  | Some (Leaf n) :: t => match leaf_ids t with Some l => Some (n :: l) | None => None end
  | _ :: _ => None
  end.

Lemma leaf_ids_flat lv ids : leaf_ids lv = Some ids -> flat_all lv = ids.
Proof.
  revert ids. induction lv as [|o t IH]; intros ids H; cbn [leaf_ids] in H.
  - now inversion H.
  - destruct o as [[n|]|]; try discriminate. destruct (leaf_ids t) as [l|]; [|discriminate].
    inversion H; subst. unfold flat_all in *. cbn [flat_map flat_o flat app]. f_equal. now apply IH.
Qed.

Lemma merkle_root_determines_leaves txs1 txs2 r ids1 ids2 :
  txs1 <> [] -> txs2 <> [] ->
  merkle_root_of txs1 = Ok r -> merkle_root_of txs2 = Ok r ->
  leaf_ids (leaves txs1) = Some ids1 -> leaf_ids (leaves txs2) = Some ids2 ->
  ids1 = ids2.
Proof.
  intros Hn1 Hn2 H1 H2 L1 L2. unfold merkle_root_of in *.
  destruct txs1 as [|a1 t1]; [congruence|]. destruct txs2 as [|a2 t2]; [congruence|].
  destruct (reduce _ (leaves (a1 :: t1))) as [o1| |] eqn:R1; cbn [bind] in H1; try discriminate.
  destruct (reduce _ (leaves (a2 :: t2))) as [o2| |] eqn:R2; cbn [bind] in H2; try discriminate.
  destruct o1 as [h1|]; [|discriminate]. destruct o2 as [h2|]; [|discriminate].
  inversion H1; inversion H2; subst.
  apply reduce_flat in R1, R2. cbn [flat_o] in *.
  apply leaf_ids_flat in L1, L2. congruence.
Qed.

(* ---- C06 ---- *)
Lemma same_identity_same_content b1 b2 ids1 ids2 :
  wf_header (ab_hdr b1) -> wf_header (ab_hdr b2) ->
  identity_checks b1 = true -> identity_checks b2 = true ->
  ab_txs b1 <> [] -> ab_txs b2 <> [] ->
  leaf_ids (leaves (ab_txs b1)) = Some ids1 -> leaf_ids (leaves (ab_txs b2)) = Some ids2 ->
  block_identity (ab_hdr b1) = block_identity (ab_hdr b2) ->
  ids1 = ids2
  /\ h_creator (ab_hdr b1) = h_creator (ab_hdr b2)
  /\ h_id (ab_hdr b1) = h_id (ab_hdr b2) /\ h_ts (ab_hdr b1) = h_ts (ab_hdr b2)
  /\ h_nums (ab_hdr b1) = h_nums (ab_hdr b2).
Proof.
  intros W1 W2 C1 C2 N1 N2 L1 L2 Hid. unfold block_identity in Hid.
  apply pair_equal_spec in Hid as [Hid Hr]. apply pair_equal_spec in Hid as [Hp Hb].
  destruct (hdr_bytes_inj _ _ W1 W2 Hb) as (Hi & Ht & _ & Hc & Hn).
  unfold identity_checks in C1, C2.
  apply andb_true_iff in C1 as [_ C1]. apply andb_true_iff in C2 as [_ C2].
  destruct (merkle_root_of (ab_txs b1)) as [r1| |] eqn:R1; try discriminate.
  destruct (merkle_root_of (ab_txs b2)) as [r2| |] eqn:R2; try discriminate.
  apply hv_eqb_eq in C1, C2. subst r1 r2. rewrite Hr in R1.
  split; [exact (merkle_root_determines_leaves _ _ _ _ _ N1 N2 R1 R2 L1 L2)|auto].
Qed.

Lemma accepted_is_signed b : identity_checks b = true -> ab_creator_sig_ok b = true.
Proof. unfold identity_checks. intros H. now apply andb_true_iff in H as [H _]. Qed.

(* an edit of the transaction list that changes the leaf list is rejected when the
   header (hence the hash) is kept *)
Lemma edit_rejected b b' ids ids' :
  identity_checks b = true -> ab_hdr b' = ab_hdr b ->
  ab_txs b <> [] -> ab_txs b' <> [] ->
  leaf_ids (leaves (ab_txs b)) = Some ids -> leaf_ids (leaves (ab_txs b')) = Some ids' ->
  ids <> ids' -> identity_checks b' = false.
Proof.
  intros C Hh N1 N2 L1 L2 Hne. destruct (identity_checks b') eqn:C'; [|reflexivity]. exfalso.
  unfold identity_checks in C, C'.
  apply andb_true_iff in C as [_ C]. apply andb_true_iff in C' as [_ C'].
  destruct (merkle_root_of (ab_txs b)) as [r1| |] eqn:R1; try discriminate.
  destruct (merkle_root_of (ab_txs b')) as [r2| |] eqn:R2; try discriminate.
  apply hv_eqb_eq in C, C'. rewrite Hh in C'. subst.
  apply Hne. exact (merkle_root_determines_leaves _ _ _ _ _ N1 N2 R1 R2 L1 L2).
Qed.
