(* C08 — proofs about the bit-exact burn-fee model (model/BurnFee.v).

   Main result: the float pipeline of
   return_routing_work_needed_to_produce_block_in_nolan is monotone in the
   parent's burn fee and antitone in the elapsed time over the whole u64
   domain (work_float_mono).  Route: Flocq's correctness theorems for
   binary_normalize / Bdiv / Bmult / Bnearbyint / Btrunc (no overflow can
   occur: every intermediate value lies in [0, 2^91]), monotonicity of
   rounding (round_le) and of the saturating cast. *)
From Saito Require Import Base BurnFee.
From Coq Require Import Reals Lra.
From Flocq Require Import Core BinarySingleNaN.

Local Open Scope R_scope.

Notation fexp64 := (SpecFloat.fexp 53 1024).
Notation RN := (round radix2 fexp64 ZnearestE).
Notation RI := (round radix2 (FIX_exp 0) ZnearestA).

Local Instance prec53 : Prec_gt_0 53 := eq_refl.
Local Instance emax1024 : Prec_lt_emax 53 1024 := eq_refl.
Local Instance valid_fexp64 : Valid_exp fexp64 := fexp_correct 53 1024 prec53.

Lemma RN_bpow : forall e, (-1074 <= e)%Z -> RN (bpow radix2 e) = bpow radix2 e.
Proof.
  intros e He. apply round_generic; [typeclasses eauto|].
  apply generic_format_bpow. unfold SpecFloat.fexp, SpecFloat.emin. lia.
Qed.

Lemma RN_nonneg : forall x, 0 <= x -> 0 <= RN x.
Proof.
  intros x Hx. apply round_ge_generic; [typeclasses eauto|typeclasses eauto| |exact Hx].
  apply generic_format_0.
Qed.

Lemma RN_le_bpow : forall x e, (-1074 <= e)%Z -> x <= bpow radix2 e -> RN x <= bpow radix2 e.
Proof.
  intros x e He Hx. apply round_le_generic; [typeclasses eauto|typeclasses eauto| |exact Hx].
  apply generic_format_bpow. unfold SpecFloat.fexp, SpecFloat.emin. lia.
Qed.

Lemma RN_mono : forall x y, x <= y -> RN x <= RN y.
Proof. intros. apply round_le; [typeclasses eauto|typeclasses eauto|assumption]. Qed.

(* finite, non-negative, at most 2^b *)
Definition good (x : f64) (b : Z) : Prop :=
  is_finite x = true /\ 0 <= B2R x <= bpow radix2 b.

Lemma lt_bpow_emax : forall x b, (-1074 <= b < 1024)%Z -> 0 <= x <= bpow radix2 b ->
  Rlt_bool (Rabs (RN x)) (bpow radix2 1024) = true.
Proof.
  intros x b Hb [H0 H1]. apply Rlt_bool_true.
  rewrite Rabs_pos_eq by (apply RN_nonneg; exact H0).
  apply Rle_lt_trans with (bpow radix2 b).
  - apply RN_le_bpow; [lia|exact H1].
  - apply bpow_lt. lia.
Qed.

Lemma of_u64_good : forall n, (n < two64)%N ->
  good (of_u64 n) 64 /\ B2R (of_u64 n) = RN (IZR (Z.of_N n)).
Proof.
  intros n Hn. unfold of_u64, of_Z.
  pose proof (binary_normalize_correct 53 1024 eq_refl eq_refl mode_NE (Z.of_N n) 0 false) as H.
  cbv zeta in H.
  assert (HF : F2R (Float radix2 (Z.of_N n) 0) = IZR (Z.of_N n)).
  { unfold F2R. simpl. lra. }
  rewrite HF in H.
  assert (Hb : 0 <= IZR (Z.of_N n) <= bpow radix2 64).
  { split. apply IZR_le. lia. change (bpow radix2 64) with (IZR (2^64)). apply IZR_le. unfold two64 in Hn. lia. }
  change (round_mode mode_NE) with ZnearestE in H.
  rewrite (lt_bpow_emax _ 64) in H by (try lia; exact Hb).
  destruct H as (H1 & H2 & _).
  split; [|exact H1]. split; [exact H2|]. rewrite H1. split.
  - apply RN_nonneg, Hb.
  - apply RN_le_bpow; [lia|apply Hb].
Qed.

Lemma fdiv_good : forall x y bx, (0 <= bx < 1024)%Z ->
  good x bx -> is_finite y = true -> 1 <= B2R y ->
  good (fdiv x y) bx /\ B2R (fdiv x y) = RN (B2R x / B2R y).
Proof.
  intros x y bx Hbx [Fx [X0 X1]] Fy Y1. unfold fdiv.
  pose proof (Bdiv_correct 53 1024 eq_refl eq_refl mode_NE x y) as H.
  assert (Hy0 : B2R y <> 0) by lra.
  specialize (H Hy0).
  change (round_mode mode_NE) with ZnearestE in H.
  assert (Hq : 0 <= B2R x / B2R y <= bpow radix2 bx).
  { split.
    - apply Rmult_le_pos; [lra|]. apply Rlt_le, Rinv_0_lt_compat. lra.
    - apply Rle_trans with (B2R x); [|exact X1].
      assert (Hi : 0 < / B2R y <= 1).
      { split; [apply Rinv_0_lt_compat; lra|]. rewrite <- Rinv_1. apply Rinv_le_contravar; lra. }
      unfold Rdiv. nra. }
  rewrite (lt_bpow_emax _ bx) in H by (try lia; exact Hq).
  destruct H as (H1 & H2 & _).
  split; [|exact H1]. split; [rewrite H2; exact Fx|]. rewrite H1. split.
  - apply RN_nonneg, Hq.
  - apply RN_le_bpow; [lia|apply Hq].
Qed.

Lemma fmul_good : forall x y bx by_, (0 <= bx)%Z -> (0 <= by_)%Z -> (bx + by_ < 1024)%Z ->
  good x bx -> good y by_ ->
  good (fmul x y) (bx + by_) /\ B2R (fmul x y) = RN (B2R x * B2R y).
Proof.
  intros x y bx by_ Hbx Hby Hs [Fx [X0 X1]] [Fy [Y0 Y1]]. unfold fmul.
  pose proof (Bmult_correct 53 1024 eq_refl eq_refl mode_NE x y) as H.
  change (round_mode mode_NE) with ZnearestE in H.
  assert (Hq : 0 <= B2R x * B2R y <= bpow radix2 (bx + by_)).
  { split.
    - apply Rmult_le_pos; lra.
    - rewrite bpow_plus. apply Rmult_le_compat; lra. }
  rewrite (lt_bpow_emax _ (bx + by_)) in H by (try lia; exact Hq).
  destruct H as (H1 & H2 & _).
  split; [|exact H1]. split; [rewrite H2, Fx, Fy; reflexivity|]. rewrite H1. split.
  - apply RN_nonneg, Hq.
  - apply RN_le_bpow; [lia|apply Hq].
Qed.

Lemma fround_correct : forall x, is_finite x = true ->
  is_finite (fround x) = true /\ B2R (fround x) = RI (B2R x).
Proof.
  intros x Fx. unfold fround.
  destruct (Bnearbyint_correct 53 1024 eq_refl mode_NA x) as (H1 & H2 & _).
  split; [rewrite H2; exact Fx|exact H1].
Qed.

Lemma clamp_mono : forall a b, (a <= b)%Z -> (clamp_u64 a <= clamp_u64 b)%N.
Proof.
  intros a b H. unfold clamp_u64, u64_max, two64.
  destruct (Z.ltb_spec a 0), (Z.ltb_spec b 0); try lia;
  destruct (Z.leb_spec (Z.of_N 18446744073709551616) a), (Z.leb_spec (Z.of_N 18446744073709551616) b); lia.
Qed.

Lemma to_u64_finite : forall x, is_finite x = true -> to_u64 x = clamp_u64 (Btrunc x).
Proof. intros [s|s| |s m e p]; simpl; intros; try discriminate; reflexivity. Qed.

Lemma Btrunc_mono : forall x y : f64, B2R x <= B2R y -> (Btrunc x <= Btrunc y)%Z.
Proof.
  intros x y H. apply le_IZR.
  rewrite !(Btrunc_correct 53 1024 eq_refl).
  apply round_le; [typeclasses eauto|typeclasses eauto|exact H].
Qed.

Lemma to_u64_mono : forall x y, is_finite x = true -> is_finite y = true ->
  B2R x <= B2R y -> (to_u64 x <= to_u64 y)%N.
Proof.
  intros x y Fx Fy H. rewrite !to_u64_finite by assumption.
  apply clamp_mono, Btrunc_mono, H.
Qed.

Lemma of_u64_ge1 : forall n, (1 <= n < two64)%N -> 1 <= B2R (of_u64 n).
Proof.
  intros n [H1 H2]. destruct (of_u64_good n H2) as [_ E]. rewrite E.
  change 1 with (bpow radix2 0). rewrite <- (RN_bpow 0) by lia. apply RN_mono. simpl. apply IZR_le. lia.
Qed.

Lemma of_u64_mono : forall n m, (n <= m)%N -> (m < two64)%N -> B2R (of_u64 n) <= B2R (of_u64 m).
Proof.
  intros n m H Hm.
  destruct (of_u64_good n) as [_ E1]; [lia|]. destruct (of_u64_good m Hm) as [_ E2].
  rewrite E1, E2. apply RN_mono, IZR_le. lia.
Qed.

Lemma c1e8_good : good c1e8 27 /\ 1 <= B2R c1e8.
Proof.
  change c1e8 with (of_u64 100000000).
  destruct (of_u64_good 100000000) as [[F [G0 G1]] E]; [reflexivity|].
  split; [|apply of_u64_ge1; split; [discriminate|reflexivity]].
  split; [exact F|]. split; [exact G0|].
  rewrite E. apply RN_le_bpow; [lia|]. simpl. lra.
Qed.

(* the float pipeline before the final cast *)
Definition work_pre (bf el : N) : f64 :=
  fround (fmul (fdiv (fdiv (of_u64 bf) c1e8) (of_u64 el)) c1e8).

Lemma work_float_pre : forall bf el, work_float bf el = to_u64 (work_pre bf el).
Proof. reflexivity. Qed.

Lemma RI_mono : forall x y, x <= y -> RI x <= RI y.
Proof. intros. apply round_le; [typeclasses eauto|typeclasses eauto|assumption]. Qed.

Lemma div_mono : forall a a' y y', 0 <= a <= a' -> 1 <= y' <= y -> a / y <= a' / y'.
Proof.
  intros a a' y y' [A0 A1] [Y0 Y1]. unfold Rdiv.
  assert (0 < / y <= / y').
  { split; [apply Rinv_0_lt_compat; lra|]. apply Rinv_le_contravar; lra. }
  apply Rmult_le_compat; lra.
Qed.

Lemma work_pre_mono : forall bf bf' el el',
  (bf <= bf')%N -> (bf' < two64)%N -> (1 <= el')%N -> (el' <= el)%N -> (el < two64)%N ->
  is_finite (work_pre bf el) = true /\ is_finite (work_pre bf' el') = true /\
  B2R (work_pre bf el) <= B2R (work_pre bf' el').
Proof.
  intros bf bf' el el' Hb Hb' He1 He He2. unfold work_pre.
  destruct c1e8_good as [Gc C1].
  destruct (of_u64_good bf) as [Gb Eb]; [lia|].
  destruct (of_u64_good bf' Hb') as [Gb' Eb'].
  destruct (of_u64_good el He2) as [Ge Ee].
  destruct (of_u64_good el') as [Ge' Ee']; [lia|].
  assert (L1 : 1 <= B2R (of_u64 el)) by (apply of_u64_ge1; lia).
  assert (L1' : 1 <= B2R (of_u64 el')) by (apply of_u64_ge1; lia).
  assert (Lm : B2R (of_u64 el') <= B2R (of_u64 el)) by (apply of_u64_mono; lia).
  assert (Bm : B2R (of_u64 bf) <= B2R (of_u64 bf')) by (apply of_u64_mono; lia).
  destruct (fdiv_good (of_u64 bf) c1e8 64) as [Ga Ea]; [lia|exact Gb|apply Gc|exact C1|].
  destruct (fdiv_good (of_u64 bf') c1e8 64) as [Ga' Ea']; [lia|exact Gb'|apply Gc|exact C1|].
  set (a := fdiv (of_u64 bf) c1e8) in *. set (a' := fdiv (of_u64 bf') c1e8) in *.
  assert (Am : B2R a <= B2R a').
  { rewrite Ea, Ea'. apply RN_mono. apply div_mono; [|lra]. split; [apply Gb|exact Bm]. }
  destruct (fdiv_good a (of_u64 el) 64) as [Gq Eq]; [lia|exact Ga|apply Ge|exact L1|].
  destruct (fdiv_good a' (of_u64 el') 64) as [Gq' Eq']; [lia|exact Ga'|apply Ge'|exact L1'|].
  set (q := fdiv a (of_u64 el)) in *. set (q' := fdiv a' (of_u64 el')) in *.
  assert (Qm : B2R q <= B2R q').
  { rewrite Eq, Eq'. apply RN_mono. apply div_mono; [|lra]. split; [apply Ga|exact Am]. }
  destruct (fmul_good q c1e8 64 27) as [Gm Em]; [lia|lia|lia|exact Gq|exact Gc|].
  destruct (fmul_good q' c1e8 64 27) as [Gm' Em']; [lia|lia|lia|exact Gq'|exact Gc|].
  set (m := fmul q c1e8) in *. set (m' := fmul q' c1e8) in *.
  assert (Mm : B2R m <= B2R m').
  { rewrite Em, Em'. apply RN_mono. apply Rmult_le_compat_r; [lra|exact Qm]. }
  destruct (fround_correct m) as [Fr Er]; [apply Gm|].
  destruct (fround_correct m') as [Fr' Er']; [apply Gm'|].
  split; [exact Fr|]. split; [exact Fr'|].
  rewrite Er, Er'. apply RI_mono, Mm.
Qed.

Theorem work_float_mono : forall bf bf' el el',
  (bf <= bf')%N -> (bf' < two64)%N -> (1 <= el')%N -> (el' <= el)%N -> (el < two64)%N ->
  (work_float bf el <= work_float bf' el')%N.
Proof.
  intros bf bf' el el' Hb Hb' He1 He He2. rewrite !work_float_pre.
  destruct (work_pre_mono bf bf' el el' Hb Hb' He1 He He2) as (F1 & F2 & M).
  apply to_u64_mono; assumption.
Qed.

(* ------------------------------------------------------------------ *)
(* the two entry points                                                *)

Local Close Scope R_scope.
Local Open Scope N_scope.

(* for every heartbeat whose double fits u64 the profile does not matter *)
Lemma work_needed_r_eq : forall dbg bf ts prev hb,
  2 * hb < two64 -> work_needed_r dbg bf ts prev hb = Ok (work_needed bf ts prev hb).
Proof.
  intros dbg bf ts prev hb H. unfold work_needed_r, work_needed.
  destruct (ts <=? prev); [reflexivity|].
  replace (two64 <=? 2 * hb) with false by (symmetry; apply N.leb_gt; exact H).
  rewrite Bool.andb_false_r.
  rewrite (N.mod_small (2 * hb) two64) by exact H.
  destruct (2 * hb <=? N.max (ts - prev) 1); reflexivity.
Qed.

(* the only panic of the function: 2 * heartbeat overflowing, debug profile *)
Lemma work_needed_r_panic : forall dbg bf ts prev hb site,
  work_needed_r dbg bf ts prev hb = Panic site ->
  dbg = true /\ two64 <= 2 * hb /\ prev < ts /\ site = P_HEARTBEAT_OVERFLOW.
Proof.
  intros dbg bf ts prev hb site. unfold work_needed_r.
  destruct (N.leb_spec ts prev); [discriminate|].
  destruct dbg; cbn [andb].
  - destruct (N.leb_spec two64 (2 * hb)).
    + intros E. injection E as <-. auto.
    + destruct (_ <=? _); discriminate.
  - destruct (_ <=? _); discriminate.
Qed.

Lemma work_needed_r_no_err : forall dbg bf ts prev hb, work_needed_r dbg bf ts prev hb <> Err.
Proof.
  intros. unfold work_needed_r.
  destruct (ts <=? prev); [discriminate|].
  destruct (dbg && _); [discriminate|]. destruct (_ <=? _); discriminate.
Qed.

Theorem work_zero_after_two_heartbeats : forall bf prev ts hb,
  0 < hb -> prev + 2 * hb <= ts -> work_needed bf ts prev hb = 0.
Proof.
  intros bf prev ts hb Hhb H. unfold work_needed.
  destruct (N.leb_spec ts prev); [lia|].
  destruct (N.leb_spec (2 * hb) (N.max (ts - prev) 1)); [reflexivity|lia].
Qed.

Theorem work_r_zero_after_two_heartbeats : forall dbg bf prev ts hb,
  0 < hb -> ts < two64 -> prev + 2 * hb <= ts -> work_needed_r dbg bf ts prev hb = Ok 0.
Proof.
  intros dbg bf prev ts hb Hhb Hts H.
  rewrite work_needed_r_eq by lia.
  f_equal. apply work_zero_after_two_heartbeats; assumption.
Qed.

(* the requirement is positive-homogeneous-free but bounded: at the sentinel's
   own burn fee and the smallest elapsed time the float pipeline is exact *)
Lemma work_float_sentinel : work_float SENTINEL 1 = SENTINEL.
Proof. vm_compute. reflexivity. Qed.

Lemma work_float_le_sentinel : forall bf el,
  bf <= SENTINEL -> 1 <= el -> el < two64 -> work_float bf el <= SENTINEL.
Proof.
  intros bf el Hb H1 H2. rewrite <- work_float_sentinel.
  apply work_float_mono; try assumption; try reflexivity.
Qed.

(* the misordered-timestamp sentinel breaks antitonicity exactly when the
   parent's burn fee exceeds it: elapsed 0 asks for 10^19, elapsed 1 for ~bf *)
Definition Known_C08_sentinel (bf prev t1 : N) : bool := (t1 <=? prev) && (SENTINEL <? bf).

Theorem work_r_antitone : forall dbg bf prev t1 t2 hb w1 w2,
  bf < two64 -> t2 < two64 -> prev <= t1 -> t1 <= t2 ->
  Known_C08_sentinel bf prev t1 = false ->
  work_needed_r dbg bf t1 prev hb = Ok w1 ->
  work_needed_r dbg bf t2 prev hb = Ok w2 ->
  w2 <= w1.
Proof.
  intros dbg bf prev t1 t2 hb w1 w2 Hbf Ht2 Hp H12 HK. unfold work_needed_r.
  destruct (N.leb_spec t1 prev) as [L1|L1].
  - (* t1 = prev: the sentinel *)
    intros E1. injection E1 as <-.
    unfold Known_C08_sentinel in HK.
    replace (t1 <=? prev) with true in HK by (symmetry; apply N.leb_le; exact L1).
    cbn [andb] in HK. apply N.ltb_ge in HK.
    destruct (N.leb_spec t2 prev) as [L2|L2].
    + intros E2. injection E2 as <-. reflexivity.
    + destruct (dbg && _); [discriminate|].
      destruct (_ <=? _).
      * intros E2. injection E2 as <-. unfold SENTINEL. lia.
      * intros E2. injection E2 as <-. apply work_float_le_sentinel; lia.
  - destruct (N.leb_spec t2 prev) as [L2|L2]; [lia|].
    destruct (dbg && _); [discriminate|].
    destruct (N.leb_spec ((2 * hb) mod two64) (N.max (t2 - prev) 1)) as [T2|T2].
    + intros _ E2. injection E2 as <-. lia.
    + destruct (N.leb_spec ((2 * hb) mod two64) (N.max (t1 - prev) 1)) as [T1|T1]; [lia|].
      intros E1 E2. injection E1 as <-. injection E2 as <-.
      apply work_float_mono; lia.
Qed.

Theorem work_antitone : forall bf prev t1 t2 hb,
  bf < two64 -> t2 < two64 -> prev <= t1 -> t1 <= t2 ->
  Known_C08_sentinel bf prev t1 = false ->
  work_needed bf t2 prev hb <= work_needed bf t1 prev hb.
Proof.
  intros bf prev t1 t2 hb Hbf Ht2 Hp H12 HK. unfold work_needed.
  destruct (N.leb_spec t1 prev) as [L1|L1].
  - unfold Known_C08_sentinel in HK.
    replace (t1 <=? prev) with true in HK by (symmetry; apply N.leb_le; exact L1).
    cbn [andb] in HK. apply N.ltb_ge in HK.
    destruct (N.leb_spec t2 prev) as [L2|L2]; [reflexivity|].
    destruct (_ <=? _); [unfold SENTINEL; lia|].
    apply work_float_le_sentinel; lia.
  - destruct (N.leb_spec t2 prev) as [L2|L2]; [lia|].
    destruct (N.leb_spec (2 * hb) (N.max (t2 - prev) 1)) as [T2|T2]; [lia|].
    destruct (N.leb_spec (2 * hb) (N.max (t1 - prev) 1)) as [T1|T1]; [lia|].
    apply work_float_mono; lia.
Qed.

(* strictly after the parent the requirement is antitone without exception *)
Corollary work_antitone_after_parent : forall bf prev t1 t2 hb,
  bf < two64 -> t2 < two64 -> prev < t1 -> t1 <= t2 ->
  work_needed bf t2 prev hb <= work_needed bf t1 prev hb.
Proof.
  intros. apply work_antitone; try lia.
  unfold Known_C08_sentinel. replace (t1 <=? prev) with false; [reflexivity|].
  symmetry. apply N.leb_gt. assumption.
Qed.

(* the unrestricted statement is false on the code as written *)
Theorem work_antitone_refuted : exists bf prev t1 t2 hb,
  bf < two64 /\ prev <= t1 /\ t1 <= t2 /\ t2 < two64 /\ 0 < hb /\ 2 * hb < two64 /\
  work_needed bf t1 prev hb < work_needed bf t2 prev hb.
Proof.
  exists u64_max, 1000, 1000, 1001, 100.
  repeat split; try (vm_compute; reflexivity); try discriminate.
Qed.

(* the requirement is also monotone in the parent's burn fee *)
Theorem work_monotone_in_burnfee : forall bf bf' prev ts hb,
  bf <= bf' -> bf' < two64 -> ts < two64 ->
  work_needed bf ts prev hb <= work_needed bf' ts prev hb.
Proof.
  intros bf bf' prev ts hb Hb Hb' Hts. unfold work_needed.
  destruct (N.leb_spec ts prev); [reflexivity|].
  destruct (_ <=? _); [reflexivity|].
  apply work_float_mono; lia.
Qed.

(* calculate_burnfee_for_block: the documented special cases *)
Lemma burnfee_misordered : forall bf ts prev hb, ts <= prev -> burnfee_for_block bf ts prev hb = SENTINEL.
Proof.
  intros. unfold burnfee_for_block.
  replace (ts <=? prev) with true by (symmetry; apply N.leb_le; assumption). reflexivity.
Qed.

Lemma burnfee_zero_parent : forall ts prev hb, prev < ts -> burnfee_for_block 0 ts prev hb = DEFAULT_BURNFEE.
Proof.
  intros. unfold burnfee_for_block.
  replace (ts <=? prev) with false by (symmetry; apply N.leb_gt; assumption). reflexivity.
Qed.

(* the documented fixed point: elapsed = heartbeat keeps the burn fee (example of the source) *)
Example burnfee_fixed_point : burnfee_for_block 100000000 1000 0 1000 = 100000000.
Proof. vm_compute. reflexivity. Qed.
