(* Lemmas about lib/Bytes.v: big-endian round trips, slicing algebra. *)
From Saito Require Import Base Bytes.

Open Scope N_scope.

(* ------------------------------------------------------------------ *)
(* lengths                                                             *)
(* ------------------------------------------------------------------ *)

Lemma Nlen_app {A} (a b : list A) : Nlen (a ++ b) = Nlen a + Nlen b.
Proof. unfold Nlen. rewrite app_length. lia. Qed.

Lemma Nlen_nil {A} : Nlen (@nil A) = 0.
Proof. reflexivity. Qed.

Lemma Nlen_cons {A} (x : A) l : Nlen (x :: l) = 1 + Nlen l.
Proof. unfold Nlen. cbn [length]. lia. Qed.

Lemma Nlen_0 {A} (l : list A) : Nlen l = 0 -> l = [].
Proof. destruct l; [reflexivity|]. intro H. rewrite Nlen_cons in H. lia. Qed.

Lemma Nlen_firstn {A} n (l : list A) : Nlen (firstn n l) = N.min (N.of_nat n) (Nlen l).
Proof. unfold Nlen. rewrite firstn_length. lia. Qed.

Lemma Nlen_skipn {A} n (l : list A) : Nlen (skipn n l) = Nlen l - N.of_nat n.
Proof. unfold Nlen. rewrite skipn_length. lia. Qed.

(* ------------------------------------------------------------------ *)
(* bytes_ok                                                            *)
(* ------------------------------------------------------------------ *)

Lemma bytes_ok_app a b : bytes_ok (a ++ b) = bytes_ok a && bytes_ok b.
Proof. unfold bytes_ok. apply forallb_app. Qed.

Lemma bytes_ok_cons x l : bytes_ok (x :: l) = byte_ok x && bytes_ok l.
Proof. reflexivity. Qed.

Lemma bytes_ok_firstn n l : bytes_ok l = true -> bytes_ok (firstn n l) = true.
Proof.
  revert l. induction n as [|n IH]; intros [|x l] H; cbn [firstn]; try reflexivity.
  rewrite bytes_ok_cons in *. apply andb_true_iff in H as [Hx Hl].
  rewrite Hx. cbn [andb]. auto.
Qed.

Lemma bytes_ok_skipn n l : bytes_ok l = true -> bytes_ok (skipn n l) = true.
Proof.
  revert l. induction n as [|n IH]; intros [|x l] H; cbn [skipn]; try reflexivity; try assumption.
  rewrite bytes_ok_cons in H. apply andb_true_iff in H as [_ Hl]. auto.
Qed.

Lemma bytes_ok_concat ls : forallb bytes_ok ls = true -> bytes_ok (concat ls) = true.
Proof.
  induction ls as [|a ls IH]; cbn [concat forallb]; intro H; [reflexivity|].
  apply andb_true_iff in H as [Ha Hl]. rewrite bytes_ok_app, Ha. cbn [andb]. auto.
Qed.

Lemma bytes_ok_nth_error l i v : bytes_ok l = true -> nth_error l i = Some v -> v < 256.
Proof.
  revert l. induction i as [|i IH]; intros [|x l] H E; cbn [nth_error] in E; try discriminate.
  - inversion E; subst. rewrite bytes_ok_cons in H. apply andb_true_iff in H as [Hx _].
    unfold byte_ok in Hx. lia.
  - rewrite bytes_ok_cons in H. apply andb_true_iff in H as [_ Hl]. eauto.
Qed.

(* ------------------------------------------------------------------ *)
(* big-endian integers                                                 *)
(* ------------------------------------------------------------------ *)

Lemma be_enc_length n x : length (be_enc n x) = n.
Proof.
  revert x. induction n as [|n IH]; intro x; cbn [be_enc]; [reflexivity|].
  rewrite app_length, IH. cbn [length]. lia.
Qed.

Lemma be_enc_Nlen n x : Nlen (be_enc n x) = N.of_nat n.
Proof. unfold Nlen. now rewrite be_enc_length. Qed.

Lemma be_enc_ok n x : bytes_ok (be_enc n x) = true.
Proof.
  revert x. induction n as [|n IH]; intro x; cbn [be_enc]; [reflexivity|].
  rewrite bytes_ok_app, IH. cbn [andb bytes_ok forallb]. unfold byte_ok.
  assert (x mod 256 < 256) by (apply N.mod_lt; lia).
  destruct (x mod 256 <? 256) eqn:E; [reflexivity|lia].
Qed.

Lemma be_dec_snoc l b : be_dec (l ++ [b]) = be_dec l * 256 + b.
Proof. unfold be_dec. rewrite fold_left_app. reflexivity. Qed.

Lemma pow256_pos n : 0 < pow256 n.
Proof. induction n; cbn [pow256]; lia. Qed.

Lemma be_dec_enc n x : x < pow256 n -> be_dec (be_enc n x) = x.
Proof.
  revert x. induction n as [|n IH]; intros x H; cbn [be_enc pow256] in *.
  - unfold be_dec. cbn [fold_left]. lia.
  - rewrite be_dec_snoc, IH.
    + pose proof (N.div_mod x 256). lia.
    + apply N.div_lt_upper_bound; lia.
Qed.

(* the truncating form: what [x as uN] followed by to_be_bytes gives back *)
Lemma be_dec_enc_mod n x : be_dec (be_enc n x) = x mod pow256 n.
Proof.
  revert x. induction n as [|n IH]; intros x; cbn [be_enc pow256].
  - unfold be_dec. cbn [fold_left]. now rewrite N.mod_1_r.
  - rewrite be_dec_snoc, IH.
    pose proof (pow256_pos n) as Hp.
    rewrite N.mod_mul_r by lia.
    assert (E : x mod 256 + 256 * ((x / 256) mod pow256 n) = (x / 256) mod pow256 n * 256 + x mod 256) by lia.
    now rewrite E.
Qed.

Lemma snoc_inv {A} (l : list A) : l = [] \/ exists l' x, l = l' ++ [x].
Proof.
  induction l as [|a l IH]; [now left|right].
  destruct IH as [->|(l' & x & ->)].
  - exists [], a. reflexivity.
  - exists (a :: l'), x. reflexivity.
Qed.

Lemma be_dec_lt l : bytes_ok l = true -> be_dec l < pow256 (length l).
Proof.
  remember (length l) as n eqn:En. revert l En.
  induction n as [|n IH]; intros l En H.
  - destruct l; [|discriminate]. unfold be_dec. cbn. lia.
  - destruct (snoc_inv l) as [->|(l' & x & ->)]; [discriminate|].
    rewrite app_length in En. cbn [length] in En.
    rewrite bytes_ok_app in H. apply andb_true_iff in H as [Hl Hx].
    cbn [bytes_ok forallb andb] in Hx. unfold byte_ok in Hx.
    rewrite be_dec_snoc. cbn [pow256].
    assert (be_dec l' < pow256 n) by (apply IH; [lia|assumption]).
    destruct (x <? 256) eqn:E; [|discriminate]. lia.
Qed.

Lemma be_enc_dec l : bytes_ok l = true -> be_enc (length l) (be_dec l) = l.
Proof.
  remember (length l) as n eqn:En. revert l En.
  induction n as [|n IH]; intros l En H.
  - destruct l; [reflexivity|discriminate].
  - destruct (snoc_inv l) as [->|(l' & x & ->)]; [discriminate|].
    rewrite app_length in En. cbn [length] in En.
    rewrite bytes_ok_app in H. apply andb_true_iff in H as [Hl Hx].
    cbn [bytes_ok forallb andb] in Hx. unfold byte_ok in Hx.
    destruct (x <? 256) eqn:E; [|discriminate].
    cbn [be_enc]. rewrite be_dec_snoc.
    replace ((be_dec l' * 256 + x) / 256) with (be_dec l').
    2:{ symmetry. rewrite N.div_add_l by lia. rewrite N.div_small by lia. lia. }
    replace ((be_dec l' * 256 + x) mod 256) with x.
    2:{ symmetry. rewrite N.add_comm. rewrite N.mod_add by lia. apply N.mod_small. lia. }
    rewrite IH by (assumption || lia). reflexivity.
Qed.

Lemma be_enc_dec_n n l : length l = n -> bytes_ok l = true -> be_enc n (be_dec l) = l.
Proof. intros <- H. now apply be_enc_dec. Qed.

Lemma be_enc_1 x : x < 256 -> be_enc 1 x = [x].
Proof. intro H. cbn [be_enc app]. now rewrite N.mod_small. Qed.

Lemma be_dec_1 x : be_dec [x] = x.
Proof. unfold be_dec. cbn [fold_left]. lia. Qed.

Lemma be_enc_inj n x y : x < pow256 n -> y < pow256 n -> be_enc n x = be_enc n y -> x = y.
Proof. intros Hx Hy E. rewrite <- (be_dec_enc n x Hx), <- (be_dec_enc n y Hy). now rewrite E. Qed.

Lemma pow256_1 : pow256 1 = 256. Proof. reflexivity. Qed.
Lemma pow256_2 : pow256 2 = 65536. Proof. reflexivity. Qed.
Lemma pow256_4 : pow256 4 = 4294967296. Proof. reflexivity. Qed.
Lemma pow256_8 : pow256 8 = 18446744073709551616. Proof. reflexivity. Qed.

(* ------------------------------------------------------------------ *)
(* slicing                                                             *)
(* ------------------------------------------------------------------ *)

Lemma slice_some a b l x :
  slice a b l = Some x <->
  a <= b /\ b <= Nlen l /\ x = firstn (N.to_nat (b - a)) (skipn (N.to_nat a) l).
Proof.
  unfold slice. destruct ((a <=? b) && (b <=? Nlen l)) eqn:E.
  - split.
    + intro H. inversion H. repeat split; lia.
    + intros (_ & _ & ->). reflexivity.
  - split; [discriminate|]. intros (H1 & H2 & _). lia.
Qed.

Lemma slice_none a b l : slice a b l = None <-> b < a \/ Nlen l < b.
Proof.
  unfold slice. destruct ((a <=? b) && (b <=? Nlen l)) eqn:E.
  - split; [discriminate|lia].
  - split; [lia|reflexivity].
Qed.

Lemma slice_in_range a b l : a <= b -> b <= Nlen l -> exists x, slice a b l = Some x.
Proof.
  intros H1 H2. destruct (slice a b l) eqn:E; [eauto|].
  apply slice_none in E. lia.
Qed.

Lemma slice_Nlen a b l x : slice a b l = Some x -> Nlen x = b - a.
Proof.
  intro H. apply slice_some in H as (H1 & H2 & ->).
  rewrite Nlen_firstn, Nlen_skipn. lia.
Qed.

Lemma slice_length a b l x : slice a b l = Some x -> length x = N.to_nat (b - a).
Proof. intro H. apply slice_Nlen in H. unfold Nlen in H. lia. Qed.

Lemma slice_ok a b l x : bytes_ok l = true -> slice a b l = Some x -> bytes_ok x = true.
Proof.
  intros Hl H. apply slice_some in H as (_ & _ & ->).
  now apply bytes_ok_firstn, bytes_ok_skipn.
Qed.

Lemma slice_full l : slice 0 (Nlen l) l = Some l.
Proof.
  apply slice_some. repeat split; try lia.
  replace (N.to_nat 0) with 0%nat by lia. cbn [skipn].
  replace (N.to_nat (Nlen l - 0)) with (length l) by (unfold Nlen; lia).
  now rewrite firstn_all.
Qed.

Lemma slice_app_here x r : slice 0 (Nlen x) (x ++ r) = Some x.
Proof.
  apply slice_some. rewrite Nlen_app. repeat split; try lia.
  replace (N.to_nat 0) with 0%nat by lia. cbn [skipn].
  replace (N.to_nat (Nlen x - 0)) with (length x + 0)%nat by (unfold Nlen; lia).
  rewrite firstn_app_2. cbn [firstn]. now rewrite app_nil_r.
Qed.

Lemma skipn_app_ge {A} n (x r : list A) : (length x <= n)%nat -> skipn n (x ++ r) = skipn (n - length x) r.
Proof.
  intro H. rewrite skipn_app. rewrite skipn_all2 by lia. reflexivity.
Qed.

Lemma slice_app_skip a b x r :
  Nlen x <= a -> a <= b -> slice a b (x ++ r) = slice (a - Nlen x) (b - Nlen x) r.
Proof.
  intros H1 H2. unfold slice. rewrite Nlen_app.
  destruct ((a <=? b) && (b <=? Nlen x + Nlen r)) eqn:E1;
  destruct ((a - Nlen x <=? b - Nlen x) && (b - Nlen x <=? Nlen r)) eqn:E2; try lia; [|reflexivity].
  f_equal. rewrite skipn_app_ge by (unfold Nlen in *; lia).
  f_equal; [unfold Nlen in *; lia|]. f_equal. unfold Nlen in *. lia.
Qed.

Lemma slice_mid p m s a b :
  Nlen p = a -> b = a + Nlen m -> slice a b (p ++ m ++ s) = Some m.
Proof.
  intros Ha ->. rewrite slice_app_skip by lia.
  replace (a - Nlen p) with 0 by lia. replace (a + Nlen m - Nlen p) with (Nlen m) by lia.
  apply slice_app_here.
Qed.

Lemma slice_mid_end p m a b :
  Nlen p = a -> b = a + Nlen m -> slice a b (p ++ m) = Some m.
Proof. intros Ha Hb. pose proof (slice_mid p m [] a b Ha Hb) as H. now rewrite app_nil_r in H. Qed.

Lemma firstn_firstn_skipn {A} (l : list A) n m :
  firstn n l ++ firstn m (skipn n l) = firstn (n + m) l.
Proof.
  revert l. induction n as [|n IH]; intro l; [reflexivity|].
  destruct l as [|x l]; cbn [firstn skipn Nat.add app].
  - now rewrite firstn_nil.
  - now rewrite IH.
Qed.

Lemma skipn_add {A} (l : list A) a n : skipn n (skipn a l) = skipn (a + n) l.
Proof.
  revert l. induction a as [|a IH]; intro l; [reflexivity|].
  destruct l as [|x l]; cbn [skipn Nat.add]; [now rewrite skipn_nil|apply IH].
Qed.

Lemma firstn_skipn_cat {A} (l : list A) a n m :
  firstn n (skipn a l) ++ firstn m (skipn (a + n) l) = firstn (n + m) (skipn a l).
Proof.
  rewrite <- firstn_firstn_skipn. now rewrite skipn_add.
Qed.

Lemma slice_cat a b c l x y :
  slice a b l = Some x -> slice b c l = Some y -> slice a c l = Some (x ++ y).
Proof.
  intros H1 H2. apply slice_some in H1 as (A1 & A2 & ->). apply slice_some in H2 as (B1 & B2 & ->).
  apply slice_some. repeat split; try lia.
  replace (N.to_nat b) with (N.to_nat a + N.to_nat (b - a))%nat by lia.
  rewrite firstn_skipn_cat. f_equal. lia.
Qed.

Lemma slice_split a b c l z :
  slice a c l = Some z -> a <= b -> b <= c ->
  exists x y, slice a b l = Some x /\ slice b c l = Some y /\ z = x ++ y.
Proof.
  intros H H1 H2. pose proof H as H0. apply slice_some in H as (A1 & A2 & _).
  destruct (slice_in_range a b l) as [x Hx]; try lia.
  destruct (slice_in_range b c l) as [y Hy]; try lia.
  exists x, y. repeat split; try assumption.
  pose proof (slice_cat _ _ _ _ _ _ Hx Hy) as E. rewrite H0 in E. now inversion E.
Qed.

Lemma slice_empty a l : a <= Nlen l -> slice a a l = Some [].
Proof.
  intro H. apply slice_some. repeat split; try lia.
  replace (N.to_nat (a - a)) with 0%nat by lia. reflexivity.
Qed.

(* a whole-buffer slice is the buffer *)
Lemma slice_whole l b x : slice 0 b l = Some x -> b = Nlen l -> x = l.
Proof. intros H ->. rewrite slice_full in H. now inversion H. Qed.

(* the prefix form: l = x ++ rest *)
Lemma slice_prefix l b x : slice 0 b l = Some x -> l = x ++ skipn (N.to_nat b) l.
Proof.
  intro H. apply slice_some in H as (_ & _ & ->).
  replace (N.to_nat 0) with 0%nat by lia. cbn [skipn].
  replace (N.to_nat (b - 0)) with (N.to_nat b) by lia.
  symmetry. apply firstn_skipn.
Qed.

Lemma slice_from_some a l x :
  slice_from a l = Some x <-> a <= Nlen l /\ x = skipn (N.to_nat a) l.
Proof.
  unfold slice_from. destruct (a <=? Nlen l) eqn:E.
  - split; [intro H; inversion H; split; [lia|reflexivity]|intros (_ & ->); reflexivity].
  - split; [discriminate|intros (H & _); lia].
Qed.

Lemma slice_from_none a l : slice_from a l = None <-> Nlen l < a.
Proof. unfold slice_from. destruct (a <=? Nlen l) eqn:E; split; try discriminate; try lia; reflexivity. Qed.

Lemma slice_from_as_slice a l : slice_from a l = slice a (Nlen l) l.
Proof.
  unfold slice_from, slice. destruct (a <=? Nlen l) eqn:E; cbn [andb]; [|reflexivity].
  rewrite N.leb_refl. f_equal. rewrite firstn_all2; [reflexivity|].
  rewrite skipn_length. unfold Nlen. lia.
Qed.

Lemma slice_from_app p r : slice_from (Nlen p) (p ++ r) = Some r.
Proof.
  apply slice_from_some. rewrite Nlen_app. split; [lia|].
  unfold Nlen. rewrite Nat2N.id. rewrite skipn_app, skipn_all, Nat.sub_diag. reflexivity.
Qed.

Lemma nth_error_firstn_skipn {A} (l : list A) n v :
  nth_error l n = Some v <-> firstn 1 (skipn n l) = [v].
Proof.
  revert l. induction n as [|n IH]; intros [|y l]; cbn [nth_error skipn firstn].
  - split; discriminate.
  - split; intro H; inversion H; reflexivity.
  - split; discriminate.
  - apply IH.
Qed.

Lemma index_some i l v : index i l = Some v <-> slice i (i + 1) l = Some [v].
Proof.
  unfold index. destruct (i <? Nlen l) eqn:E.
  - rewrite nth_error_firstn_skipn. split.
    + intro H. apply slice_some. repeat split; try lia.
      replace (N.to_nat (i + 1 - i)) with 1%nat by lia. now rewrite H.
    + intro H. apply slice_some in H as (_ & _ & H).
      replace (N.to_nat (i + 1 - i)) with 1%nat in H by lia. now rewrite <- H.
  - split; [discriminate|]. intro H. apply slice_some in H as (_ & H & _). lia.
Qed.

Lemma index_none i l : index i l = None <-> Nlen l <= i.
Proof.
  unfold index. destruct (i <? Nlen l) eqn:E.
  - split; [|lia]. intro H. apply nth_error_None in H. unfold Nlen in E. lia.
  - split; [lia|reflexivity].
Qed.

Lemma index_ok i l v : bytes_ok l = true -> index i l = Some v -> v < 256.
Proof.
  unfold index. intros Hl H. destruct (i <? Nlen l); [|discriminate].
  eapply bytes_ok_nth_error; eauto.
Qed.

Lemma split_at_some n l a b :
  split_at n l = Some (a, b) <-> n <= Nlen l /\ l = a ++ b /\ Nlen a = n.
Proof.
  unfold split_at. destruct (n <=? Nlen l) eqn:E.
  - split.
    + intro H. inversion H. repeat split; [lia|symmetry; apply firstn_skipn|].
      rewrite Nlen_firstn. lia.
    + intros (_ & -> & <-). unfold Nlen. rewrite Nat2N.id.
      rewrite firstn_app, firstn_all, Nat.sub_diag, skipn_app, skipn_all, Nat.sub_diag.
      cbn [firstn skipn]. now rewrite app_nil_r.
  - split; [discriminate|intros (H & _); lia].
Qed.

Lemma split_at_app a b : split_at (Nlen a) (a ++ b) = Some (a, b).
Proof. apply split_at_some. rewrite Nlen_app. repeat split; lia. Qed.

(* slices of a truncated buffer: a slice that fits is unchanged *)
Lemma slice_firstn_fits a b k l :
  b <= N.of_nat k -> slice a b (firstn k l) = slice a b l.
Proof.
  intro H. unfold slice. rewrite Nlen_firstn.
  destruct (a <=? b) eqn:E1; [|reflexivity]. cbn [andb].
  destruct (b <=? Nlen l) eqn:E2.
  - replace (b <=? N.min (N.of_nat k) (Nlen l)) with true by lia.
    f_equal. rewrite skipn_firstn_comm. rewrite firstn_firstn. f_equal. lia.
  - replace (b <=? N.min (N.of_nat k) (Nlen l)) with false by lia. reflexivity.
Qed.

Lemma slice_firstn_short a b k l :
  N.of_nat k < b -> (k <= length l)%nat -> slice a b (firstn k l) = None.
Proof. intros H1 H2. apply slice_none. rewrite Nlen_firstn. unfold Nlen. lia. Qed.

(* the sl/ix wrappers *)
Lemma sl_ok site a b l x : sl site a b l = Ok x <-> slice a b l = Some x.
Proof. unfold sl. destruct (slice a b l); split; intro H; inversion H; reflexivity. Qed.

Lemma sl_not_err site a b l : sl site a b l <> Err.
Proof. unfold sl. destruct (slice a b l); discriminate. Qed.

Lemma sl_panic site a b l s : sl site a b l = Panic s -> b < a \/ Nlen l < b.
Proof. unfold sl. destruct (slice a b l) eqn:E; [discriminate|]. intros _. now apply slice_none. Qed.

Lemma sl_in_range site a b l : a <= b -> b <= Nlen l -> exists x, sl site a b l = Ok x.
Proof. intros H1 H2. destruct (slice_in_range a b l H1 H2) as [x Hx]. exists x. unfold sl. now rewrite Hx. Qed.

Lemma ix_ok site i l v : ix site i l = Ok v <-> index i l = Some v.
Proof. unfold ix. destruct (index i l); split; intro H; inversion H; reflexivity. Qed.

Lemma ix_panic site i l s : ix site i l = Panic s -> Nlen l <= i.
Proof. unfold ix. destruct (index i l) eqn:E; [discriminate|]. intros _. now apply index_none. Qed.

Lemma ix_in_range site i l : i < Nlen l -> exists v, ix site i l = Ok v.
Proof.
  intro H. unfold ix. destruct (index i l) eqn:E; [eauto|]. apply index_none in E. lia.
Qed.

(* ------------------------------------------------------------------ *)
(* of_hex                                                              *)
(* ------------------------------------------------------------------ *)

Import String.StringSyntax.
Local Open Scope string_scope.
Example of_hex_ex : of_hex "00ff10aB" = [0; 255; 16; 171].
Proof. reflexivity. Qed.
Local Close Scope string_scope.

(* ------------------------------------------------------------------ *)
(* split_on / join_with                                                *)
(* ------------------------------------------------------------------ *)

Lemma split_on_nonempty c l : split_on c l <> [].
Proof.
  destruct l as [|x t]; cbn [split_on]; [discriminate|].
  destruct (split_on c t); [discriminate|]. destruct (x =? c); discriminate.
Qed.

Lemma split_on_no_sep c l : forallb (fun x => negb (x =? c)) l = true -> split_on c l = [l].
Proof.
  induction l as [|x t IH]; cbn [forallb split_on]; intro H; [reflexivity|].
  apply andb_true_iff in H as [Hx Ht]. rewrite (IH Ht).
  destruct (x =? c); [discriminate|reflexivity].
Qed.

Lemma split_on_app c p r :
  forallb (fun x => negb (x =? c)) p = true ->
  split_on c (p ++ c :: r) = p :: split_on c r.
Proof.
  induction p as [|x t IH]; cbn [forallb app]; intro H.
  - cbn [split_on]. destruct (split_on c r) eqn:E; [now apply split_on_nonempty in E|].
    now rewrite N.eqb_refl.
  - apply andb_true_iff in H as [Hx Ht]. cbn [split_on]. rewrite (IH Ht).
    destruct (x =? c); [discriminate|reflexivity].
Qed.

Lemma join_split c l : join_with c (split_on c l) = l.
Proof.
  induction l as [|x t IH]; [reflexivity|]. cbn [split_on].
  destruct (split_on c t) as [|p ps] eqn:E; [now apply split_on_nonempty in E|].
  destruct (x =? c) eqn:Ex.
  - apply N.eqb_eq in Ex. subst x. cbn [join_with app]. cbn [join_with] in IH.
    destruct ps; rewrite <- IH; reflexivity.
  - cbn [join_with]. cbn [join_with] in IH. destruct ps; rewrite <- IH; reflexivity.
Qed.
