(* Lemmas about model/CV.v (generate_consensus_values). *)
From Saito Require Import Base CV.

(* ---------- arithmetic modes ---------- *)
Lemma add_inf : forall s a b, add MInf s a b = Ok (a + b).
Proof. reflexivity. Qed.
Lemma mul_inf : forall s a b, mul MInf s a b = Ok (a * b).
Proof. reflexivity. Qed.
Lemma sub_inf_ok : forall s a b r, sub MInf s a b = Ok r -> b <= a /\ r = a - b.
Proof.
  intros s a b r H. unfold sub in H. destruct (b <=? a) eqn:E.
  - apply N.leb_le in E. inversion H. auto.
  - discriminate.
Qed.
Lemma sub_inf_le : forall s a b, b <= a -> sub MInf s a b = Ok (a - b).
Proof. intros. unfold sub. apply N.leb_le in H. rewrite H. reflexivity. Qed.

(* a u64 operation that does not overflow gives the unbounded result in every mode *)
Lemma add_nowrap : forall m s a b, a + b < two64 -> add m s a b = Ok (a + b).
Proof.
  intros [|dbg] s a b H; cbn [add]; auto.
  apply N.ltb_lt in H. rewrite H. reflexivity.
Qed.
Lemma mul_nowrap : forall m s a b, a * b < two64 -> mul m s a b = Ok (a * b).
Proof.
  intros [|dbg] s a b H; cbn [mul]; auto.
  apply N.ltb_lt in H. rewrite H. reflexivity.
Qed.
Lemma sub_nowrap : forall m s a b, b <= a -> sub m s a b = Ok (a - b).
Proof. intros m s a b H. unfold sub. apply N.leb_le in H. rewrite H. reflexivity. Qed.

(* the debug profile never returns a wrapped sum *)
Lemma add_dbg_exact : forall s a b r, add (M64 true) s a b = Ok r -> r = a + b.
Proof.
  intros s a b r H. cbn [add] in H. destruct (a + b <? two64); inversion H; auto.
Qed.
(* the release profile returns the sum modulo 2^64 *)
Lemma add_rel_mod : forall s a b r, a < two64 -> b < two64 ->
  add (M64 false) s a b = Ok r -> r = (a + b) mod two64.
Proof.
  intros s a b r Ha Hb H. cbn [add] in H. destruct (a + b <? two64) eqn:E; inversion H; auto.
  apply N.ltb_lt in E. symmetry. apply N.mod_small. exact E.
Qed.

(* ---------- i128 smoothing stays between the two values ---------- *)
Lemma smooth_between : forall gp prev x, 0 < gp -> prev < two64 -> x < two64 ->
  N.min prev x <= smooth gp prev x <= N.max prev x.
Proof.
  intros gp prev x Hgp Hp Hx. unfold smooth.
  assert (Hq : (Z.of_N (N.min prev x) <= Z.of_N prev - Z.quot (Z.of_N prev - Z.of_N x) (Z.of_N gp)
                <= Z.of_N (N.max prev x))%Z).
  { destruct (N.le_ge_cases x prev) as [Hle|Hle].
    - assert (0 <= Z.of_N prev - Z.of_N x)%Z by lia.
      assert (0 <= Z.quot (Z.of_N prev - Z.of_N x) (Z.of_N gp) <= Z.of_N prev - Z.of_N x)%Z.
      { split. apply Z.quot_pos; lia.
        rewrite Z.quot_div_nonneg by lia.
        apply Z.div_le_upper_bound; try lia. nia. }
      rewrite N.min_r, N.max_l by lia. lia.
    - assert (Z.of_N prev - Z.of_N x <= 0)%Z by lia.
      assert (Z.of_N prev - Z.of_N x <= Z.quot (Z.of_N prev - Z.of_N x) (Z.of_N gp) <= 0)%Z.
      { replace (Z.of_N prev - Z.of_N x)%Z with (- (Z.of_N x - Z.of_N prev))%Z by lia.
        rewrite Z.quot_opp_l by lia.
        assert (0 <= Z.quot (Z.of_N x - Z.of_N prev) (Z.of_N gp) <= Z.of_N x - Z.of_N prev)%Z.
        { split. apply Z.quot_pos; lia.
          rewrite Z.quot_div_nonneg by lia.
          apply Z.div_le_upper_bound; try lia. nia. }
        lia. }
      rewrite N.min_l, N.max_r by lia. lia. }
  assert (Hb : (0 <= Z.of_N prev - Z.quot (Z.of_N prev - Z.of_N x) (Z.of_N gp) < Z.of_N two64)%Z).
  { split; [lia|]. assert (N.max prev x < two64) by (apply N.max_lub_lt; auto). lia. }
  rewrite Z.mod_small by exact Hb.
  split.
  - apply N2Z.inj_le. rewrite Z2N.id by lia. lia.
  - apply N2Z.inj_le. rewrite Z2N.id by lia. lia.
Qed.

(* ---------- payout split ---------- *)
Lemma capped_sum : forall e mx, fst (capped e mx) + snd (capped e mx) = e.
Proof.
  intros e mx. unfold capped. destruct (mx <? e) eqn:E; cbn [fst snd].
  - apply N.ltb_lt in E. lia.
  - lia.
Qed.
Lemma capped_le : forall e mx, fst (capped e mx) <= mx \/ fst (capped e mx) = e.
Proof.
  intros e mx. unfold capped. destruct (mx <? e) eqn:E; cbn [fst]; auto. left. lia.
Qed.
Lemma half_split : forall f, f / 2 + (f - f / 2) = f.
Proof. intros f. assert (f / 2 <= f) by (apply N.div_le_upper_bound; lia). lia. Qed.

(* ---------- slip equality ---------- *)
Lemma slip_eqb_eq : forall a b, slip_eqb a b = true <-> a = b.
Proof.
  intros [p1 a1 t1 b1 o1 i1] [p2 a2 t2 b2 o2 i2]. unfold slip_eqb. cbn [s_pk s_amt s_ty s_bid s_ord s_idx].
  split.
  - intro H. repeat (apply andb_prop in H; destruct H as [H ?]).
    repeat match goal with H : (_ =? _) = true |- _ => apply N.eqb_eq in H end. subst. reflexivity.
  - intro H. inversion H. subst. rewrite !N.eqb_refl. reflexivity.
Qed.
Lemma slip_eqb_refl : forall a, slip_eqb a a = true.
Proof. intro a. apply slip_eqb_eq. reflexivity. Qed.
Lemma slip_eqb_neq : forall a b, slip_eqb a b = false <-> a <> b.
Proof.
  intros a b. split.
  - intros H E. subst. rewrite slip_eqb_refl in H. discriminate.
  - intros H. destruct (slip_eqb a b) eqn:E; auto. apply slip_eqb_eq in E. contradiction.
Qed.
Lemma slip_eq_dec : forall a b : slip, {a = b} + {a <> b}.
Proof.
  intros a b. destruct (slip_eqb a b) eqn:E.
  - left. apply slip_eqb_eq. exact E.
  - right. apply slip_eqb_neq. exact E.
Qed.

(* ---------- sums ---------- *)
Lemma sumN_cons : forall x l, sumN (x :: l) = x + sumN l.
Proof. reflexivity. Qed.
Lemma sumN_nil : sumN [] = 0.
Proof. reflexivity. Qed.
Lemma sumN_app : forall a b, sumN (a ++ b) = sumN a + sumN b.
Proof.
  induction a as [|x a IH]; intros b.
  - rewrite sumN_nil. cbn [app]. lia.
  - cbn [app]. rewrite !sumN_cons, IH. lia.
Qed.

(* ---------- part 1: the sweep in unbounded arithmetic ---------- *)
Definition counts_fee (t : tx) : bool :=
  negb (t_ty t =? TFee) && negb (t_ty t =? TATR) && negb (t_ty t =? TIssuance) && negb (t_ty t =? TSPV).
Definition fees_new_of (l : list tx) : N := sumN (map total_fees (filter counts_fee l)).
Definition is_ty (ty : N) (t : tx) : bool := t_ty t =? ty.

Fixpoint last_index (f : tx -> bool) (i : N) (l : list tx) (acc : option N) : option N :=
  match l with
  | [] => acc
  | t :: r => last_index f (i + 1) r (if f t then Some i else acc)
  end.

Lemma sweep_inf : forall l a i,
  exists w, sweep MInf a i l = Ok w
    /\ w_fees w = w_fees a + fees_new_of l
    /\ w_ft w = w_ft a + countb (is_ty TFee) l
    /\ w_gt w = w_gt a + countb (is_ty TGolden) l
    /\ w_it w = w_it a + countb (is_ty TIssuance) l
    /\ w_fti w = last_index (is_ty TFee) i l (w_fti a)
    /\ w_gti w = last_index (is_ty TGolden) i l (w_gti a)
    /\ w_nonfee w = w_nonfee a + countb (fun t => negb (is_ty TFee t)) l.
Proof.
  induction l as [|t r IH]; intros a i.
  - exists a. cbn [sweep]. unfold fees_new_of, countb. cbn. repeat split; lia.
  - cbn [sweep]. unfold sweep_step.
    change (negb (t_ty t =? TFee) && negb (t_ty t =? TATR) && negb (t_ty t =? TIssuance) && negb (t_ty t =? TSPV))
      with (counts_fee t).

    set (a' := mkSweep (if t_ty t =? TFee then w_ft a + 1 else w_ft a)
                       (if t_ty t =? TFee then Some i else w_fti a)
                       (if t_ty t =? TGolden then w_gt a + 1 else w_gt a)
                       (if t_ty t =? TGolden then Some i else w_gti a)
                       (if t_ty t =? TStake then w_st a + 1 else w_st a)
                       (if t_ty t =? TStake then Some i else w_sti a)
                       (if t_ty t =? TIssuance then w_it a + 1 else w_it a)
                       (if t_ty t =? TIssuance then Some i else w_iti a)
                       (if counts_fee t then w_fees a + total_fees t else w_fees a)
                       (if counts_fee t then w_bytes a + tx_size t else w_bytes a)
                       (if t_ty t =? TFee then w_nonfee a else w_nonfee a + 1)).
    assert (Hs : (do ft <- (if t_ty t =? TFee then inc8 MInf (w_ft a) else Ok (w_ft a));
                  do bytes <- (if counts_fee t then add MInf P_BYTES_NEW (w_bytes a) (tx_size t) else Ok (w_bytes a));
                  do fees <- (if counts_fee t then add MInf P_FEES_NEW (w_fees a) (total_fees t) else Ok (w_fees a));
                  do gt <- (if t_ty t =? TGolden then inc8 MInf (w_gt a) else Ok (w_gt a));
                  do st <- (if t_ty t =? TStake then inc8 MInf (w_st a) else Ok (w_st a));
                  do itn <- (if t_ty t =? TIssuance then inc8 MInf (w_it a) else Ok (w_it a));
                  Ok (mkSweep ft (if t_ty t =? TFee then Some i else w_fti a) gt
                        (if t_ty t =? TGolden then Some i else w_gti a) st
                        (if t_ty t =? TStake then Some i else w_sti a) itn
                        (if t_ty t =? TIssuance then Some i else w_iti a) fees bytes
                        (if t_ty t =? TFee then w_nonfee a else w_nonfee a + 1))) = Ok a').
    { unfold a'. destruct (t_ty t =? TFee), (counts_fee t), (t_ty t =? TGolden), (t_ty t =? TStake), (t_ty t =? TIssuance); reflexivity. }
    rewrite Hs. cbn [bind].
    destruct (IH a' (i + 1)) as [w [Hw [Hf [Hft [Hgt [Hit [Hfti [Hgti Hnf]]]]]]]].
    exists w. split; [exact Hw|].
    unfold a' in *. cbn [w_fees w_ft w_gt w_it w_fti w_gti w_nonfee] in *.
    unfold fees_new_of, countb, is_ty in *. cbn [filter map last_index].
    destruct (counts_fee t); destruct (t_ty t =? TFee) eqn:Efee; destruct (t_ty t =? TGolden) eqn:Egt;
      destruct (t_ty t =? TIssuance) eqn:Eit; cbn [negb length map] in *;
      rewrite ?sumN_cons, ?Nat2N.inj_succ; repeat split; try assumption; try lia.
Qed.

(* ---------- part 2: the ATR section in unbounded arithmetic, blocks without Bound slips ---------- *)
Definition no_bound (l : list slip) : bool := forallb (fun s => negb (is_bound s)) l.

Lemma collect_no_bound : forall v l, no_bound l = true -> collect v l = filter v l.
Proof.
  intros v. induction l as [|s1 tl IH]; intro H; [reflexivity|].
  cbn [no_bound forallb] in H. apply andb_prop in H. destruct H as [H1 H2].
  apply negb_true_iff in H1. fold (no_bound tl) in H2.
  cbn [collect filter]. rewrite H1. cbn [andb].
  destruct tl as [|s2 [|s3 rest]]; rewrite (IH H2); destruct (v s1); reflexivity.
Qed.

Lemma group_no_bound : forall l, no_bound l = true -> group l = map GSingle l.
Proof.
  induction l as [|s1 tl IH]; intro H; [reflexivity|].
  cbn [no_bound forallb] in H. apply andb_prop in H. destruct H as [H1 H2].
  apply negb_true_iff in H1. fold (no_bound tl) in H2.
  cbn [group map]. rewrite H1. cbn [andb].
  destruct tl as [|s2 [|s3 rest]]; rewrite (IH H2); reflexivity.
Qed.

Lemma group_collect_no_bound : forall v l, no_bound l = true -> group_collect v l = map GSingle (filter v l).
Proof.
  intros v. induction l as [|s1 tl IH]; intro H; [reflexivity|].
  cbn [no_bound forallb] in H. apply andb_prop in H. destruct H as [H1 H2].
  apply negb_true_iff in H1. fold (no_bound tl) in H2.
  cbn [group_collect filter]. rewrite H1. cbn [andb].
  destruct tl as [|s2 [|s3 rest]]; rewrite (IH H2); destruct (v s1); reflexivity.
Qed.

Lemma no_bound_filter : forall v l, no_bound l = true -> no_bound (filter v l) = true.
Proof.
  intros v. induction l as [|s tl IH]; intro H; [reflexivity|].
  cbn [no_bound forallb] in H. apply andb_prop in H. destruct H as [H1 H2]. fold (no_bound tl) in H2.
  cbn [filter]. destruct (v s); [|auto]. cbn [no_bound forallb]. rewrite H1. exact (IH H2).
Qed.

Lemma eligible_sum_inf : forall gs acc, exists r, eligible_sum MInf acc gs = Ok r.
Proof.
  induction gs as [|g r IH]; intro acc; cbn [eligible_sum]; [eauto|].
  cbn [add bind]. apply IH.
Qed.

(* the saturating operations of the payout (fix 812712b) *)
Definition fit (s : slip) : bool := s_amt s <=? U64MAX.
Lemma smul_ge : forall a mult, a <= U64MAX -> 1 <= mult -> a <= smul a mult.
Proof. intros a mult Ha Hm. unfold smul. apply N.min_glb; [nia|exact Ha]. Qed.
Lemma smul_le : forall a mult, smul a mult <= U64MAX.
Proof. intros. unfold smul. apply N.le_min_r. Qed.
Lemma sadd_le : forall a b, sadd a b <= U64MAX.
Proof. intros. unfold sadd. apply N.le_min_r. Qed.
Lemma sadd_sadd : forall x a b, sadd (sadd x a) b = sadd x (a + b).
Proof. intros x a b. unfold sadd. generalize U64MAX. intro M. lia. Qed.
Lemma sadd_0 : forall x, x <= U64MAX -> sadd x 0 = x.
Proof. intros x H. unfold sadd. rewrite N.add_0_r. apply N.min_l. exact H. Qed.
Lemma sadd_exact : forall x b, sadd x b < U64MAX -> sadd x b = x + b.
Proof. intros x b. unfold sadd. generalize U64MAX. intro M. lia. Qed.

(* what happens to one unspent output [s] of a transaction [orig] of the expiring block *)
Definition rebroadcast_of (orig : tx) (mult fee : N) (s : slip) : tx :=
  mk_rebroadcast orig [s] [set_amt (set_ty s SATR) (smul (s_amt s) mult - fee)].
Definition is_rebroadcast (mult fee : N) (s : slip) : bool := fee <? smul (s_amt s) mult.
Definition item_rbs (orig : tx) (mult fee : N) (s : slip) : list tx :=
  if is_rebroadcast mult fee s then [rebroadcast_of orig mult fee s] else [].
Definition item_fee (mult fee : N) (s : slip) : N := if is_rebroadcast mult fee s then fee else s_amt s.
Definition item_dust (mult fee : N) (s : slip) : N := if is_rebroadcast mult fee s then 0 else s_amt s.
Definition item_pay (mult fee : N) (s : slip) : N := if is_rebroadcast mult fee s then smul (s_amt s) mult - s_amt s else 0.
Definition item_slips (mult fee : N) (s : slip) : N := if is_rebroadcast mult fee s then 1 else 0.

(* in unbounded arithmetic the section only goes through when every amount fits 64 bits *)
Lemma atr_groups_fit : forall orig mult fee l a r,
  atr_groups MInf orig mult fee a (map GSingle l) = Ok r -> forallb fit l = true.
Proof.
  intros orig mult fee. induction l as [|s l IH]; intros a r H; [reflexivity|].
  cbn [map atr_groups] in H.
  destruct (atr_group MInf orig mult fee a (GSingle s)) as [a'| |] eqn:E; cbn [bind] in H; try discriminate.
  cbn [forallb]. rewrite (IH _ _ H), andb_true_r.
  unfold atr_group in E.
  destruct (sub MInf P_PAYOUT_MUL (smul (s_amt s) mult) (s_amt s)) as [x| |] eqn:Es; cbn [bind] in E; try discriminate.
  apply sub_inf_ok in Es. destruct Es as [Hle _]. unfold fit. apply N.leb_le.
  pose proof (smul_le (s_amt s) mult). lia.
Qed.

Lemma atr_groups_singles : forall orig mult fee l a, 1 <= mult -> forallb fit l = true -> a_payout a <= U64MAX ->
  atr_groups MInf orig mult fee a (map GSingle l) =
  Ok (mkAtr (a_nolan a + sumN (map s_amt l))
            (a_slips a + sumN (map (item_slips mult fee) l))
            (sadd (a_payout a) (sumN (map (item_pay mult fee) l)))
            (a_fees a + sumN (map (item_fee mult fee) l))
            (a_dust a + sumN (map (item_dust mult fee) l))
            (rev (flat_map (item_rbs orig mult fee) l) ++ a_rbs a)).
Proof.
  intros orig mult fee. induction l as [|s r IH]; intros a Hm Hfit Hp.
  - cbn [map atr_groups sumN fold_right flat_map rev app]. rewrite (sadd_0 _ Hp). destruct a. cbn. f_equal. f_equal; lia.
  - cbn [forallb] in Hfit. apply andb_prop in Hfit. destruct Hfit as [Hs Hfit]. unfold fit in Hs. apply N.leb_le in Hs.
    cbn [map atr_groups]. unfold atr_group.
    pose proof (smul_ge _ _ Hs Hm) as Hle.
    rewrite (sub_inf_le _ _ _ Hle). cbn [bind add].
    cbn [flat_map map]. rewrite !sumN_cons.
    unfold item_rbs, item_fee, item_dust, item_pay, item_slips, is_rebroadcast, rebroadcast_of in *.
    destruct (fee <? smul (s_amt s) mult) eqn:E.
    + apply N.ltb_lt in E.
      assert (Hf : fee <= smul (s_amt s) mult) by lia.
      rewrite (sub_inf_le _ _ _ Hf). cbn [bind].
      rewrite IH by (try assumption; cbn [a_payout]; apply sadd_le).
      cbn [a_nolan a_slips a_payout a_fees a_dust a_rbs].
      cbn [rev app]. rewrite <- app_assoc. cbn [app]. rewrite sadd_sadd.
      f_equal. f_equal; lia.
    + cbn [bind]. rewrite IH by assumption. cbn [a_nolan a_slips a_payout a_fees a_dust a_rbs].
      cbn [app]. rewrite N.add_0_l. f_equal. f_equal; lia.
Qed.

Lemma flat_map_pair : forall (B : Type) (g : tx * slip -> list B) t l,
  flat_map g (map (pair t) l) = flat_map (fun s => g (t, s)) l.
Proof. induction l as [|s l IH]; [reflexivity|]. cbn [map flat_map]. rewrite IH. reflexivity. Qed.

(* the unspent outputs of the expiring block, each with its transaction *)
Definition exp_items (v : slip -> bool) (etxs : list tx) : list (tx * slip) :=
  flat_map (fun t => map (pair t) (filter v (t_to t))) etxs.
Definition it_fee (fpb : N) (it : tx * slip) : N := tx_size (fst it) * fpb.
Definition txs_no_bound (etxs : list tx) : bool := forallb (fun t => no_bound (t_to t)) etxs.

Definition items_fit (items : list (tx * slip)) : bool := forallb (fun it => fit (snd it)) items.

Lemma items_fit_app : forall a b, items_fit (a ++ b) = items_fit a && items_fit b.
Proof. intros. unfold items_fit. apply forallb_app. Qed.
Lemma items_fit_pair : forall t l, items_fit (map (pair t) l) = forallb fit l.
Proof. intros t. induction l as [|s l IH]; [reflexivity|]. cbn [map items_fit forallb snd]. unfold items_fit in IH. rewrite IH. reflexivity. Qed.

Lemma atr_txs_fit : forall v mult fpb etxs a r, txs_no_bound etxs = true ->
  atr_txs MInf v mult fpb a etxs = Ok r -> items_fit (exp_items v etxs) = true.
Proof.
  intros v mult fpb. induction etxs as [|t l IH]; intros a r Hnb H; [reflexivity|].
  cbn [txs_no_bound forallb] in Hnb. apply andb_prop in Hnb. destruct Hnb as [Hnb1 Hnb2]. fold (txs_no_bound l) in Hnb2.
  cbn [atr_txs] in H.
  destruct (atr_tx MInf v mult fpb a t) as [a'| |] eqn:E; cbn [bind] in H; try discriminate.
  unfold exp_items. cbn [flat_map]. rewrite items_fit_app, items_fit_pair.
  fold (exp_items v l). rewrite (IH _ _ Hnb2 H), andb_true_r.
  unfold atr_tx in E.
  destruct (eligible_sum_inf (group_collect v (t_to t)) 0) as [e He]. rewrite He in E. cbn [bind] in E.
  rewrite (collect_no_bound v _ Hnb1) in E.
  destruct (filter v (t_to t)) as [|s0 l0] eqn:Ef; [reflexivity|].
  cbn [mul bind] in E. rewrite <- Ef in *.
  rewrite (group_no_bound _ (no_bound_filter v _ Hnb1)) in E.
  exact (atr_groups_fit _ _ _ _ _ _ E).
Qed.

Lemma atr_txs_no_bound : forall v mult fpb etxs a, 1 <= mult -> txs_no_bound etxs = true ->
  items_fit (exp_items v etxs) = true -> a_payout a <= U64MAX ->
  atr_txs MInf v mult fpb a etxs =
  Ok (mkAtr (a_nolan a + sumN (map (fun it => s_amt (snd it)) (exp_items v etxs)))
            (a_slips a + sumN (map (fun it => item_slips mult (it_fee fpb it) (snd it)) (exp_items v etxs)))
            (sadd (a_payout a) (sumN (map (fun it => item_pay mult (it_fee fpb it) (snd it)) (exp_items v etxs))))
            (a_fees a + sumN (map (fun it => item_fee mult (it_fee fpb it) (snd it)) (exp_items v etxs)))
            (a_dust a + sumN (map (fun it => item_dust mult (it_fee fpb it) (snd it)) (exp_items v etxs)))
            (rev (flat_map (fun it => item_rbs (fst it) mult (it_fee fpb it) (snd it)) (exp_items v etxs)) ++ a_rbs a)).
Proof.
  intros v mult fpb. induction etxs as [|t r IH]; intros a Hm Hnb Hfit Hp.
  - cbn [atr_txs exp_items flat_map map sumN fold_right rev app]. rewrite (sadd_0 _ Hp). destruct a; cbn. f_equal. f_equal; lia.
  - cbn [txs_no_bound forallb] in Hnb. apply andb_prop in Hnb. destruct Hnb as [Hnb1 Hnb2]. fold (txs_no_bound r) in Hnb2.
    unfold exp_items in Hfit. cbn [flat_map] in Hfit. rewrite items_fit_app, items_fit_pair in Hfit.
    fold (exp_items v r) in Hfit. apply andb_prop in Hfit. destruct Hfit as [Hfit1 Hfit2].
    cbn [atr_txs]. unfold atr_tx.
    destruct (eligible_sum_inf (group_collect v (t_to t)) 0) as [e He]. rewrite He. cbn [bind].
    rewrite (collect_no_bound v _ Hnb1).
    assert (Hmap : forall (f : tx * slip -> N),
              sumN (map f (exp_items v (t :: r))) =
              sumN (map (fun s => f (t, s)) (filter v (t_to t))) + sumN (map f (exp_items v r))).
    { intro f. unfold exp_items. cbn [flat_map]. rewrite map_app, sumN_app, map_map. reflexivity. }
    assert (Hrb : flat_map (fun it => item_rbs (fst it) mult (it_fee fpb it) (snd it)) (exp_items v (t :: r)) =
                  flat_map (item_rbs t mult (tx_size t * fpb)) (filter v (t_to t)) ++
                  flat_map (fun it => item_rbs (fst it) mult (it_fee fpb it) (snd it)) (exp_items v r)).
    { unfold exp_items. cbn [flat_map]. rewrite flat_map_app. rewrite flat_map_pair. reflexivity. }
    destruct (filter v (t_to t)) as [|s0 l0] eqn:Ef.
    + cbn [bind]. rewrite IH by assumption. rewrite !Hmap, Hrb. cbn [map flat_map app]. rewrite !sumN_nil.
      f_equal; try (f_equal; lia).
    + cbn [mul bind]. rewrite <- Ef in *.
      rewrite (group_no_bound _ (no_bound_filter v _ Hnb1)).
      rewrite atr_groups_singles by assumption. cbn [bind].
      rewrite IH by (try assumption; cbn [a_payout]; apply sadd_le).
      cbn [a_nolan a_slips a_payout a_fees a_dust a_rbs].
      rewrite !Hmap, Hrb. unfold it_fee. cbn [fst snd].
      rewrite rev_app_distr, <- app_assoc. rewrite sadd_sadd.
      f_equal. f_equal; try (rewrite <- N.add_assoc; reflexivity); try reflexivity.
Qed.

(* per item: what reappears plus what is collected equals the value plus the treasury payout *)
Lemma item_balance : forall orig mult fee s, 1 <= mult -> fit s = true ->
  sumN (map (fun t => sumN (map s_amt (t_to t))) (item_rbs orig mult fee s)) + item_fee mult fee s
  = s_amt s + item_pay mult fee s.
Proof.
  intros orig mult fee s Hm Hs. unfold fit in Hs. apply N.leb_le in Hs.
  pose proof (smul_ge _ _ Hs Hm) as Hge.
  unfold item_rbs, item_fee, item_pay, is_rebroadcast.
  destruct (fee <? smul (s_amt s) mult) eqn:E.
  - apply N.ltb_lt in E. unfold rebroadcast_of, mk_rebroadcast, relocate.
    cbn [t_to relocate_from map set_amt set_ty s_amt sumN fold_right].
    generalize dependent (smul (s_amt s) mult). intros. lia.
  - cbn [map sumN fold_right]. lia.
Qed.

(* ---------- the ATR section as a whole ---------- *)
Definition pv (i : cv_in) (f : hdr -> N) : N := match i_prev i with Some p => f p | None => 0 end.
Definition atr_mult (gp : N) (i : cv_in) : N :=
  let staked := gp * pv i h_avg_nolan in
  1 + (if 0 <? staked then pv i h_treasury / staked else 0).
Definition atr_fpb (i : cv_in) : N := pv i h_avg_fpb.
(* the transactions whose outputs are examined: none while the chain is younger than the window *)
Definition atr_etxs (gp : N) (i : cv_in) : list tx :=
  if i_id i <=? gp + 1 then [] else match i_expiring i with Some e => e | None => [] end.
Definition atr_items (gp : N) (v : slip -> bool) (i : cv_in) : list (tx * slip) := exp_items v (atr_etxs gp i).
Definition items_sum (gp : N) (v : slip -> bool) (i : cv_in) (f : N -> N -> slip -> N) : N :=
  sumN (map (fun it => f (atr_mult gp i) (it_fee (atr_fpb i) it) (snd it)) (atr_items gp v i)).
Definition items_rbs (gp : N) (v : slip -> bool) (i : cv_in) : list tx :=
  flat_map (fun it => item_rbs (fst it) (atr_mult gp i) (it_fee (atr_fpb i) it) (snd it)) (atr_items gp v i).

Lemma atr_mult_ge1 : forall gp i, 1 <= atr_mult gp i.
Proof. intros. unfold atr_mult. lia. Qed.

Lemma atr_section_fit : forall cap05 gp v i fees_new r,
  txs_no_bound (atr_etxs gp i) = true ->
  atr_section cap05 MInf gp v i fees_new = Ok r ->
  items_fit (atr_items gp v i) = true.
Proof.
  intros cap05 gp v i fees_new r Hnb H.
  unfold atr_section in H. cbn [add bind] in H.
  unfold atr_items, atr_etxs in *.
  destruct (i_id i <=? gp + 1); [reflexivity|].
  destruct (i_expiring i) as [etxs|]; [|reflexivity].
  cbn [mul bind add] in H.
  match type of H with (do a <- ?X; _) = _ => destruct X as [a| |] eqn:Ea end; cbn [bind] in H; try discriminate.
  exact (atr_txs_fit _ _ _ _ _ _ Hnb Ea).
Qed.

(* total_payout_atr is accumulated with saturating_add *)
Definition pay_asked (gp : N) (v : slip -> bool) (i : cv_in) : N := N.min (items_sum gp v i item_pay) U64MAX.

Lemma atr_section_inf : forall cap05 gp v i fees_new r,
  txs_no_bound (atr_etxs gp i) = true ->
  atr_section cap05 MInf gp v i fees_new = Ok r ->
  r_cap r = false ->
  pay_asked gp v i <= cap05 (pv i h_treasury)
  /\ r_nolan r = sumN (map (fun it => s_amt (snd it)) (atr_items gp v i))
  /\ r_slips r = items_sum gp v i item_slips
  /\ r_payout r = pay_asked gp v i
  /\ r_fees r = items_sum gp v i item_fee
  /\ r_dust r = items_sum gp v i item_dust
  /\ r_rbs r = items_rbs gp v i
  /\ r_hash r = items_rbs gp v i.
Proof.
  intros cap05 gp v i fees_new r Hnb H Hcap.
  pose proof (atr_section_fit _ _ _ _ _ _ Hnb H) as Hfit.
  unfold atr_section in H. cbn [add bind] in H.
  unfold pay_asked, items_sum, items_rbs, atr_items, atr_etxs in *.
  destruct (i_id i <=? gp + 1) eqn:Eid.
  { inversion H; subst. cbn. repeat split; try reflexivity. lia. }
  destruct (i_expiring i) as [etxs|] eqn:Eexp.
  2:{ inversion H; subst. cbn. repeat split; try reflexivity. lia. }
  cbn [mul bind add] in H.
  fold (pv i h_treasury) (pv i h_avg_nolan) (pv i h_avg_fpb) in H.
  change (1 + (if 0 <? gp * pv i h_avg_nolan then pv i h_treasury / (gp * pv i h_avg_nolan) else 0))
    with (atr_mult gp i) in H.
  rewrite (atr_txs_no_bound v (atr_mult gp i) (pv i h_avg_fpb) etxs atr0 (atr_mult_ge1 gp i) Hnb Hfit) in H
    by (cbn; lia).
  cbn [bind a_nolan a_slips a_payout a_fees a_dust a_rbs atr0] in H.
  rewrite app_nil_r, rev_involutive in H.
  unfold atr_fpb in *.
  destruct (sub MInf P_FEES_CUM _ _) as [cum| |] eqn:Ecum; cbn [bind] in H; try discriminate.
  rewrite !N.add_0_l in *.
  match type of H with (if ?c then _ else _) = _ => destruct c eqn:Ecap end.
  { destruct (_ =? 0); [discriminate|]. cbn [add bind] in H.
    destruct (cap_loop _ _ _ _) as [cr| |]; cbn [bind] in H; try discriminate.
    inversion H; subst. cbn [r_cap] in Hcap. discriminate. }
  apply N.ltb_ge in Ecap.
  unfold sadd in *. rewrite N.add_0_l in *.
  inversion H; subst. cbn [r_nolan r_slips r_payout r_fees r_dust r_rbs r_hash].
  repeat split; try reflexivity. exact Ecap.
Qed.

(* ---------- the 5 % cap branch ---------- *)
(* the outputs that are rebroadcast, in order *)
Definition rb_items (mult fpb : N) (items : list (tx * slip)) : list (tx * slip) :=
  filter (fun it => is_rebroadcast mult (it_fee fpb it) (snd it)) items.
(* a rebroadcast under the cap: value * (1 + limit / volume), no fee *)
Definition capped_rb (orig : tx) (adj : N) (s : slip) : tx :=
  mk_rebroadcast orig [s] [set_amt (set_ty s SATR) (s_amt s * adj)].

Lemma items_rbs_map : forall mult fpb (items : list (tx * slip)),
  flat_map (fun it => item_rbs (fst it) mult (it_fee fpb it) (snd it)) items =
  map (fun it => rebroadcast_of (fst it) mult (it_fee fpb it) (snd it)) (rb_items mult fpb items).
Proof.
  intros mult fpb. induction items as [|it r IH]; [reflexivity|].
  cbn [flat_map rb_items filter]. unfold item_rbs at 1.
  destruct (is_rebroadcast mult (it_fee fpb it) (snd it)); cbn [app map]; fold (rb_items mult fpb r); rewrite IH; reflexivity.
Qed.

Lemma cap_loop_singles : forall mult (f : tx * slip -> N) adj (L : list (tx * slip)) pay, 1 <= adj ->
  cap_loop MInf adj pay (map (fun it => rebroadcast_of (fst it) mult (f it) (snd it)) L) =
  Ok (pay + sumN (map (fun it => s_amt (snd it) * adj - s_amt (snd it)) L),
      map (fun it => capped_rb (fst it) adj (snd it)) L).
Proof.
  intros mult f adj. induction L as [|it r IH]; intros pay Hadj.
  - cbn [map cap_loop]. rewrite sumN_nil, N.add_0_r. reflexivity.
  - cbn [map cap_loop].
    assert (Hnt : is_triple_rb (rebroadcast_of (fst it) mult (f it) (snd it)) = false) by reflexivity.
    rewrite Hnt. cbn [mul bind add].
    change (s_amt (nth_slip (t_from (rebroadcast_of (fst it) mult (f it) (snd it))) 0)) with (s_amt (snd it)).
    assert (Hle : s_amt (snd it) <= pay + s_amt (snd it) * adj) by nia.
    rewrite (sub_inf_le _ _ _ Hle). cbn [bind].
    rewrite IH by exact Hadj. cbn [bind fst snd]. rewrite sumN_cons.
    assert (Hs : set_out_amt (rebroadcast_of (fst it) mult (f it) (snd it)) 0 (s_amt (snd it) * adj)
                 = capped_rb (fst it) adj (snd it)) by reflexivity.
    rewrite Hs. f_equal. f_equal. nia.
Qed.

Lemma sum_filter_if : forall (A : Type) (p : A -> bool) (g : A -> N) (l : list A),
  sumN (map g (filter p l)) = sumN (map (fun x => if p x then g x else 0) l).
Proof.
  intros A p g. induction l as [|x r IH]; [reflexivity|].
  cbn [filter map]. destruct (p x); cbn [map]; rewrite ?sumN_cons, IH; lia.
Qed.

(* the section as a whole, both branches: what the record holds, and the balance
     outputs of the rebroadcasts + collected fees = volume + treasury payout *)
Definition cap_limit (cap05 : N -> N) (i : cv_in) : N := cap05 (pv i h_treasury).
Definition cap_adj (cap05 : N -> N) (gp : N) (v : slip -> bool) (i : cv_in) : N :=
  1 + cap_limit cap05 i / sumN (map (fun it => s_amt (snd it)) (atr_items gp v i)).
Definition capped_rbs (cap05 : N -> N) (gp : N) (v : slip -> bool) (i : cv_in) : list tx :=
  map (fun it => capped_rb (fst it) (cap_adj cap05 gp v i) (snd it))
      (rb_items (atr_mult gp i) (atr_fpb i) (atr_items gp v i)).

Lemma atr_section_cap : forall cap05 gp v i fees_new r,
  txs_no_bound (atr_etxs gp i) = true ->
  atr_section cap05 MInf gp v i fees_new = Ok r ->
  r_cap r = true ->
  cap_limit cap05 i < pay_asked gp v i
  /\ r_nolan r = sumN (map (fun it => s_amt (snd it)) (atr_items gp v i))
  /\ r_slips r = items_sum gp v i item_slips
  /\ r_payout r = sumN (map (fun it => s_amt (snd it) * cap_adj cap05 gp v i - s_amt (snd it))
                            (rb_items (atr_mult gp i) (atr_fpb i) (atr_items gp v i)))
  /\ r_fees r = items_sum gp v i item_dust
  /\ r_dust r = items_sum gp v i item_dust
  /\ r_rbs r = capped_rbs cap05 gp v i
  /\ r_hash r = capped_rbs cap05 gp v i.
Proof.
  intros cap05 gp v i fees_new r Hnb H Hcap.
  pose proof (atr_section_fit _ _ _ _ _ _ Hnb H) as Hfit.
  unfold atr_section in H. cbn [add bind] in H.
  unfold pay_asked, capped_rbs, cap_adj, cap_limit, items_sum, items_rbs, atr_items, atr_etxs in *.
  destruct (i_id i <=? gp + 1) eqn:Eid.
  { inversion H; subst. discriminate. }
  destruct (i_expiring i) as [etxs|] eqn:Eexp.
  2:{ inversion H; subst. discriminate. }
  cbn [mul bind add] in H.
  fold (pv i h_treasury) (pv i h_avg_nolan) (pv i h_avg_fpb) in H.
  change (1 + (if 0 <? gp * pv i h_avg_nolan then pv i h_treasury / (gp * pv i h_avg_nolan) else 0))
    with (atr_mult gp i) in H.
  rewrite (atr_txs_no_bound v (atr_mult gp i) (pv i h_avg_fpb) etxs atr0 (atr_mult_ge1 gp i) Hnb Hfit) in H
    by (cbn; lia).
  cbn [bind a_nolan a_slips a_payout a_fees a_dust a_rbs atr0] in H.
  rewrite app_nil_r, rev_involutive in H.
  unfold atr_fpb in *.
  destruct (sub MInf P_FEES_CUM _ _) as [cum| |] eqn:Ecum; cbn [bind] in H; try discriminate.
  rewrite !N.add_0_l in *.
  match type of H with (if ?c then _ else _) = _ => destruct c eqn:Ecap end.
  2:{ inversion H; subst. discriminate. }
  apply N.ltb_lt in Ecap.
  assert (Ecap' := Ecap). unfold sadd in Ecap'. rewrite N.add_0_l in Ecap'.
  destruct (_ =? 0); [discriminate|]. cbn [add bind] in H.
  rewrite items_rbs_map in H.
  rewrite cap_loop_singles in H by (apply N.le_add_r). cbn [bind fst snd] in H.
  inversion H; subst. cbn [r_nolan r_slips r_payout r_fees r_dust r_rbs r_hash].
  rewrite N.add_0_l. repeat split; try reflexivity. exact Ecap'.
Qed.

(* the 5 % limit is far below 2^64 for every u64 treasury; with the float function left
   abstract this is a premise: then nothing saturates in the branch without the cap *)
Lemma pay_asked_exact : forall cap05 gp v i,
  cap05 (pv i h_treasury) < U64MAX -> pay_asked gp v i <= cap05 (pv i h_treasury) ->
  pay_asked gp v i = items_sum gp v i item_pay.
Proof. intros cap05 gp v i. unfold pay_asked. generalize U64MAX. intros M H1 H2. lia. Qed.

Lemma items_balance : forall mult fpb (items : list (tx * slip)), 1 <= mult -> items_fit items = true ->
  sumN (map (fun t => sumN (map s_amt (t_to t))) (flat_map (fun it => item_rbs (fst it) mult (it_fee fpb it) (snd it)) items))
  + sumN (map (fun it => item_fee mult (it_fee fpb it) (snd it)) items)
  = sumN (map (fun it => s_amt (snd it)) items)
  + sumN (map (fun it => item_pay mult (it_fee fpb it) (snd it)) items).
Proof.
  intros mult fpb items Hm. induction items as [|it r IH]; intro Hfit; [reflexivity|].
  cbn [items_fit forallb] in Hfit. apply andb_prop in Hfit. destruct Hfit as [Hf1 Hf2]. specialize (IH Hf2).
  cbn [flat_map map]. rewrite map_app, sumN_app, !sumN_cons.
  pose proof (item_balance (fst it) mult (it_fee fpb it) (snd it) Hm Hf1) as Hb. lia.
Qed.

(* both branches balance *)
Lemma atr_section_balance : forall cap05 gp v i fees_new r,
  txs_no_bound (atr_etxs gp i) = true ->
  cap05 (pv i h_treasury) < U64MAX ->
  atr_section cap05 MInf gp v i fees_new = Ok r ->
  sumN (map (fun t => sumN (map s_amt (t_to t))) (r_hash r)) + r_fees r
  = sumN (map (fun it => s_amt (snd it)) (atr_items gp v i)) + r_payout r
  /\ r_rbs r = r_hash r
  /\ (forall t, In t (r_hash r) -> exists it, In it (atr_items gp v i) /\ t_from t = [snd it]).
Proof.
  intros cap05 gp v i fees_new r Hnb Hlim H.
  pose proof (atr_section_fit _ _ _ _ _ _ Hnb H) as Hfit.
  destruct (r_cap r) eqn:Hcap.
  - destruct (atr_section_cap _ _ _ _ _ _ Hnb H Hcap) as [_ [_ [_ [Hp [Hf [_ [Hr Hh]]]]]]].
    rewrite Hp, Hf, Hr, Hh. unfold capped_rbs, items_sum. split; [|split; [reflexivity|]].
    + set (items := atr_items gp v i). set (adj := cap_adj cap05 gp v i).
      set (mult := atr_mult gp i). set (fpb := atr_fpb i).
      assert (Hadj : 1 <= adj) by (unfold adj, cap_adj; apply N.le_add_r).
      rewrite map_map. unfold rb_items. rewrite !sum_filter_if.
      clear - Hadj. induction items as [|it l IH]; [reflexivity|].
      cbn [map]. rewrite !sumN_cons. unfold item_dust at 1.
      destruct (is_rebroadcast mult (it_fee fpb it) (snd it)).
      * assert (Ho : sumN (map s_amt (t_to (capped_rb (fst it) adj (snd it)))) = s_amt (snd it) * adj).
        { unfold capped_rb, mk_rebroadcast, relocate. cbn [t_to relocate_from map set_amt set_ty s_amt].
          rewrite sumN_cons, sumN_nil. lia. }
        rewrite Ho. nia.
      * lia.
    + intros t Ht. apply in_map_iff in Ht. destruct Ht as [it [Ht Hit]]. unfold rb_items in Hit.
      apply filter_In in Hit. exists it. split; [tauto|]. subst t. reflexivity.
  - destruct (atr_section_inf _ _ _ _ _ _ Hnb H Hcap) as [Hle [Hn [_ [Hp [Hf [_ [Hr Hh]]]]]]].
    rewrite (pay_asked_exact _ _ _ _ Hlim Hle) in Hp.
    rewrite Hp, Hf, Hr, Hh. unfold items_rbs, items_sum. split; [|split; [reflexivity|]].
    + pose proof (items_balance (atr_mult gp i) (atr_fpb i) (atr_items gp v i) (atr_mult_ge1 gp i) Hfit) as Hb.
      exact Hb.
    + intros t Ht. apply in_flat_map in Ht. destruct Ht as [it [Hit Ht]]. exists it. split; auto.
      unfold item_rbs in Ht. destruct (is_rebroadcast _ _ _); [|destruct Ht].
      destruct Ht as [Ht|[]]. subst t. reflexivity.
Qed.

(* ---------- part 4: the payout split in unbounded arithmetic ---------- *)
Definition outs_sum (t : tx) : N := sumN (map s_amt (t_to t)).
Definition fee_out_sum (f : option tx) : N := match f with Some t => outs_sum t | None => 0 end.
(* what a block with a golden ticket has to distribute: the fees of its parent, and those of
   the grandparent if the parent had no golden ticket *)
Definition due (i : cv_in) : N :=
  match i_prev i with
  | None => 0
  | Some p => h_total_fees p +
              (if h_has_gt p then 0 else match i_prevprev i with Some pp => h_total_fees pp | None => 0 end)
  end.
Definition miner_lost (i : cv_in) (p : pay_out) : N :=
  if o_miner (i_orc i) =? 0 then p_mining p else 0.

Lemma capped_eq : forall e mx a b, capped e mx = (a, b) -> a + b = e.
Proof. intros e mx a b H. pose proof (capped_sum e mx) as Hs. rewrite H in Hs. exact Hs. Qed.

Lemma payouts_gt_inf : forall cap15 i gi nonfee p,
  payouts cap15 MInf i (Some gi) nonfee = Ok p ->
  fee_out_sum (p_fee_tx p) + p_treasury p + p_graveyard p + miner_lost i p = due i
  /\ exists f, p_fee_tx p = Some f /\ t_ty f = TFee /\ t_from f = [].
Proof.
  intros cap15 i gi nonfee p H. unfold payouts in H.
  destruct (negb (t_dlen (nth (N.to_nat gi) (i_txs i) (mkTx 0 0 [] [] 0 0 0 0 false)) =? 97)); [discriminate|].
  unfold due, miner_lost.
  destruct (i_prev i) as [ph|] eqn:Ep.
  - (* a previous block *)
    destruct (capped (h_total_fees ph / 2) (cap15 (h_avg_total_fees ph))) as [miner g1] eqn:E1.
    destruct (capped (h_total_fees ph - h_total_fees ph / 2) (cap15 (h_avg_total_fees ph))) as [router1 g2] eqn:E2.
    apply capped_eq in E1. apply capped_eq in E2.
    pose proof (half_split (h_total_fees ph)) as Hh.
    cbn [add bind] in H.
    destruct (h_has_gt ph) eqn:Egt.
    + cbn [bind add] in H.
      destruct (o_miner (i_orc i) =? 0) eqn:Em; destruct (0 <? miner) eqn:Emp;
        destruct (0 <? router1) eqn:Er1; destruct (o_router1 (i_orc i) =? 0) eqn:Ek1;
        cbn [negb andb bind add N.ltb] in H; inversion H; subst;
        cbn [p_fee_tx p_treasury p_graveyard p_mining fee_out_sum outs_sum t_to t_ty t_from app map fee_slip s_amt sumN fold_right];
        (split; [| eexists; repeat split; reflexivity]);
        try apply N.ltb_ge in Emp; try apply N.ltb_ge in Er1; lia.
    + destruct (i_prevprev i) as [pph|] eqn:Epp.
      * destruct (capped (h_total_fees pph / 2) (cap15 (h_avg_total_fees ph))) as [tc g3] eqn:E3.
        destruct (capped (h_total_fees pph - h_total_fees pph / 2) (cap15 (h_avg_total_fees ph))) as [router2 g4] eqn:E4.
        apply capped_eq in E3. apply capped_eq in E4.
        pose proof (half_split (h_total_fees pph)) as Hh2.
        cbn [bind add] in H.
        destruct (o_miner (i_orc i) =? 0) eqn:Em; destruct (0 <? miner) eqn:Emp;
          destruct (0 <? router1) eqn:Er1; destruct (o_router1 (i_orc i) =? 0) eqn:Ek1;
          destruct (0 <? router2) eqn:Er2; destruct (o_router2 (i_orc i) =? 0) eqn:Ek2;
          cbn [negb andb bind add N.ltb] in H; inversion H; subst;
          cbn [p_fee_tx p_treasury p_graveyard p_mining fee_out_sum outs_sum t_to t_ty t_from app map fee_slip s_amt sumN fold_right];
          (split; [| eexists; repeat split; reflexivity]);
          try apply N.ltb_ge in Emp; try apply N.ltb_ge in Er1; try apply N.ltb_ge in Er2; lia.
      * cbn [bind add] in H.
        destruct (o_miner (i_orc i) =? 0) eqn:Em; destruct (0 <? miner) eqn:Emp;
          destruct (0 <? router1) eqn:Er1; destruct (o_router1 (i_orc i) =? 0) eqn:Ek1;
          cbn [negb andb bind add N.ltb] in H; inversion H; subst;
          cbn [p_fee_tx p_treasury p_graveyard p_mining fee_out_sum outs_sum t_to t_ty t_from app map fee_slip s_amt sumN fold_right];
          (split; [| eexists; repeat split; reflexivity]);
          try apply N.ltb_ge in Emp; try apply N.ltb_ge in Er1; lia.
  - (* no previous block: nothing is paid *)
    cbn [bind add N.eqb N.ltb andb negb] in H. inversion H; subst.
    cbn [p_fee_tx p_treasury p_graveyard p_mining fee_out_sum outs_sum t_to t_ty t_from app map sumN fold_right].
    split; [destruct (o_miner (i_orc i) =? 0); lia | eexists; repeat split; reflexivity].
Qed.

Lemma payouts_nogt_inf : forall cap15 m i nonfee p,
  payouts cap15 m i None nonfee = Ok p ->
  p_fee_tx p = None /\ p_treasury p = 0 /\ p_mining p = 0 /\ p_routing p = 0 /\
  p_graveyard p =
    match i_prev i with
    | Some ph => if h_has_gt ph then 0 else match i_prevprev i with Some _ => h_unpaid ph | None => 0 end
    | None => 0
    end.
Proof.
  intros cap15 m i nonfee p H. unfold payouts in H. inversion H; subst. cbn. repeat split; reflexivity.
Qed.

(* ---------- generate_consensus_values in unbounded arithmetic ---------- *)
Lemma gcv_inf : forall cap15 cap05 gp v i c,
  gcv cap15 cap05 MInf gp v i = Ok c ->
  gp <> 0
  /\ c_fees_new c = fees_new_of (i_txs i)
  /\ c_total_fees c = c_fees_new c + c_fees_atr c
  /\ c_ft_num c = countb (is_ty TFee) (i_txs i)
  /\ c_ft_index c = last_index (is_ty TFee) 0 (i_txs i) None
  /\ c_gt_index c = last_index (is_ty TGolden) 0 (i_txs i) None
  /\ c_it_num c = countb (is_ty TIssuance) (i_txs i)
  /\ (exists r, atr_section cap05 MInf gp v i (c_fees_new c) = Ok r
        /\ c_fees_atr c = r_fees r /\ c_pay_atr c = r_payout r /\ c_rb_hash c = r_hash r
        /\ c_rebroadcasts c = r_rbs r /\ c_rb_slips c = r_slips r /\ c_rb_nolan c = r_nolan r
        /\ c_dust_fees c = r_dust r /\ c_cap c = r_cap r)
  /\ exists p nonfee, payouts cap15 MInf i (c_gt_index c) nonfee = Ok p
       /\ c_pay_treasury c = p_treasury p /\ c_pay_graveyard c = p_graveyard p
       /\ c_pay_mining c = p_mining p /\ c_fee_tx c = p_fee_tx p.
Proof.
  intros cap15 cap05 gp v i c H. unfold gcv in H.
  destruct (sweep_inf (i_txs i) sweep0 0) as [w [Hw [Hf [Hft [Hgt [Hit [Hfti [Hgti Hnf]]]]]]]].
  rewrite Hw in H. cbn [bind] in H.
  cbn [sweep0 w_fees w_ft w_gt w_it w_fti w_gti w_nonfee] in *. rewrite N.add_0_l in *.
  match type of H with (do bd <- ?X; _) = _ => destruct X as [[bf d]| |] eqn:Ebd end; cbn [bind] in H; try discriminate.
  destruct (atr_section cap05 MInf gp v i (w_fees w)) as [a| |] eqn:Ea; cbn [bind] in H; try discriminate.
  cbn [add bind] in H.
  destruct (gp =? 0) eqn:Egp; [discriminate|]. apply N.eqb_neq in Egp.
  destruct (payouts cap15 MInf i (w_gti w) (w_nonfee w)) as [p| |] eqn:Ep; cbn [bind] in H; try discriminate.
  inversion H; subst c; clear H.
  cbn [c_fees_new c_fees_atr c_pay_atr c_total_fees c_rb_hash c_rebroadcasts c_rb_slips c_rb_nolan c_dust_fees
       c_ft_num c_ft_index c_gt_index c_it_num c_pay_treasury c_pay_graveyard c_pay_mining c_fee_tx c_cap].
  split; [exact Egp|].
  repeat (split; [congruence|]).
  split.
  - exists a. repeat split; auto.
  - exists p, (w_nonfee w). repeat split; auto.
Qed.
