(* C02 / C13 — concrete chains (non-vacuity of the theorems) and concrete accepted blocks
   on which the pinned code violates the properties (witnesses of the *_refuted theorems).
   Everything is computed with the model itself: blocks are built by Supply.produce_m
   (the model of Block::create) and offered to Supply.validate_m / add_block.
   The two float caps are instantiated with exact rational versions (3x/2 and x/20): the
   theorems hold for every instance, the witnesses need one. *)
From Saito Require Import Base CV Supply Known CVProofs LedgerProofs SupplyProofs.

Definition c15 (x : N) : N := 3 * x / 2.
Definition c05 (x : N) : N := x / 20.
Definition cfw : config := mkConfig 3 8 true.     (* genesis_period 3, debug profile *)
Definition cfr : config := mkConfig 3 8 false.    (* release profile *)
Definition BF : N := 50000000.

Definition hdr0 (id ts : N) : hdr :=
  mkHdr id ts 0 0 0 0 0 0 0 0 0 0 0 0 0 0 0 0 0 0 0 0 0 0 0 0 0 false.
Definition iss (i pk amt : N) : tx :=
  mkTx TIssuance 0 [] [mkSlip pk amt SNormal 1 i 0] 0 0 0 (100 + i) true.
Definition genesis : block :=
  mkBlock (hdr0 1 1000)
          [iss 0 1 3000000; iss 1 2 90000; iss 2 2 500; iss 3 3 40000; iss 4 1 800000]
          0 (mkOracle 0 0 0) true true true true.

Definition out (pk amt : N) : slip := mkSlip pk amt SNormal 0 0 0.
Definition pay (ser ts : N) (from : list slip) (to : list slip) : tx :=
  mkTx TNormal ts from to 0 0 0 ser true.
Definition gtx (ser ts pk : N) : tx :=
  mkTx TGolden ts [mkSlip pk 0 SNormal 0 0 0] [mkSlip pk 0 SNormal 0 0 0] 97 0 (ser + 1) ser true.

Definition dummy_block : block := mkBlock (hdr0 0 0) [] 0 (mkOracle 0 0 0) false false false false.

Definition build (cf : config) (st : state) (ts : N) (has_gt : bool) (txs : list tx) (orc : oracle) : block :=
  match produce_m c15 c05 cf MInf st ts has_gt txs BF orc with
  | Ok (h, txs') => mkBlock h txs' BF orc true true true true
  | _ => dummy_block
  end.
Definition boot (cf : config) (g : block) : state :=
  let st0 := genesis_state g in
  match check_total_supply cf (st_utxo st0) (b_hdr g) 0 with
  | Ok i => mkState (st_utxo st0) (st_chain st0) i
  | _ => st0
  end.
Definition next (cf : config) (st : state) (b : block) : state :=
  match add_block c15 c05 cf st b with Added st' => st' | _ => st end.
Definition added (cf : config) (st : state) (b : block) : bool :=
  match add_block c15 c05 cf st b with Added _ => true | _ => false end.
Definition crashed (cf : config) (st : state) (b : block) : bool :=
  match add_block c15 c05 cf st b with Crashed s _ => s =? P_SUPPLY | _ => false end.

(* ---------- an honest chain: payments with fees, golden tickets, the window wraps ---------- *)
Definition s1 : state := Eval vm_compute in boot cfw genesis.
(* block 2: key 1 moves its 3_000_000, fee 100_000; no golden ticket *)
Definition b2 : block := Eval vm_compute in
  build cfw s1 2000 false [pay 201 2000 [mkSlip 1 3000000 SNormal 1 0 0] [out 1 2900000]] (mkOracle 0 0 0).
Definition s2 : state := Eval vm_compute in next cfw s1 b2.
(* block 3: golden ticket of key 2, router key 1; key 1 pays key 3, fee 100_000 *)
Definition b3 : block := Eval vm_compute in
  build cfw s2 3000 true [gtx 301 3000 2; pay 302 3000 [mkSlip 1 2900000 SNormal 2 0 0] [out 3 1000000; out 1 1800000]]
        (mkOracle 2 1 0).
Definition s3 : state := Eval vm_compute in next cfw s2 b3.
(* block 4: no golden ticket; fee 100_000 *)
Definition b4 : block := Eval vm_compute in
  build cfw s3 4000 false [pay 401 4000 [mkSlip 1 1800000 SNormal 3 1 1] [out 1 1700000]] (mkOracle 0 0 0).
Definition s4 : state := Eval vm_compute in next cfw s3 b4.
(* block 5: golden ticket; the genesis block leaves the window: 90_000, 40_000 and 800_000 are
   rebroadcast, the 500 is too small and is collected *)
Definition b5 : block := Eval vm_compute in
  build cfw s4 5000 true [gtx 501 5000 3; pay 502 5000 [mkSlip 1 1700000 SNormal 4 0 0] [out 1 1600000]]
        (mkOracle 3 1 1).
Definition s5 : state := Eval vm_compute in next cfw s4 b5.
(* block 6: no golden ticket *)
Definition b6 : block := Eval vm_compute in
  build cfw s5 6000 false [pay 601 6000 [mkSlip 1 1600000 SNormal 5 1 0] [out 2 600000; out 1 900000]] (mkOracle 0 0 0).
Definition s6 : state := Eval vm_compute in next cfw s5 b6.

Ltac solve_located :=
  split; [vm_compute; reflexivity |
  split; [ let t := fresh in let Ht := fresh in intros t Ht; vm_compute in Ht;
           repeat (destruct Ht as [Ht|Ht]; [subst t; vm_compute; discriminate|]); destruct Ht
         | vm_compute; reflexivity ]].

Lemma genesis_is_ok : genesis_ok genesis.
Proof.
  split; [reflexivity|]. split; [solve_located|]. split; [reflexivity|].
  intros s Hs. vm_compute in Hs. destruct Hs.
Qed.

Lemma located_b2 : located b2. Proof. solve_located. Qed.
Lemma located_b3 : located b3. Proof. solve_located. Qed.
Lemma located_b4 : located b4. Proof. solve_located. Qed.
Lemma located_b5 : located b5. Proof. solve_located. Qed.
Lemma located_b6 : located b6. Proof. solve_located. Qed.

(* the ledger part of a state (initial_token_supply is a field of the node, not of the ledger) *)
Definition ledger (st : state) : list slip * list block := (st_utxo st, st_chain st).

Lemma wind_next : forall cf st b st', add_block c15 c05 cf st b = Added st' -> ledger st' = ledger (wind cf st b).
Proof.
  intros cf st b st' H. unfold add_block in H.
  destruct (validate c15 c05 cf st b) as [[|]| |]; try discriminate.
  destruct (check_total_supply cf _ _ _); try discriminate. inversion H. reflexivity.
Qed.

(* Reach speaks about [wind]; states that differ only in the latched initial supply have the same ledger *)
Definition honest_chain : list block := [b6; b5; b4; b3; b2; genesis].

Definition w1 : state := genesis_state genesis.
Definition w2 : state := wind cfw w1 b2.
Definition w3 : state := wind cfw w2 b3.
Definition w4 : state := wind cfw w3 b4.
Definition w5 : state := wind cfw w4 b5.
Definition w6 : state := wind cfw w5 b6.

Lemma reach_w6 : Reach c15 c05 cfw genesis w6.
Proof.
  unfold w6, w5, w4, w3, w2, w1.
  apply reach_step; [|exact located_b6 | vm_compute; reflexivity | vm_compute; reflexivity].
  apply reach_step; [|exact located_b5 | vm_compute; reflexivity | vm_compute; reflexivity].
  apply reach_step; [|exact located_b4 | vm_compute; reflexivity | vm_compute; reflexivity].
  apply reach_step; [|exact located_b3 | vm_compute; reflexivity | vm_compute; reflexivity].
  apply reach_step; [|exact located_b2 | vm_compute; reflexivity | vm_compute; reflexivity].
  apply reach_genesis.
Qed.
Lemma reach_w4 : Reach c15 c05 cfw genesis w4.
Proof.
  unfold w4, w3, w2, w1.
  apply reach_step; [|exact located_b4 | vm_compute; reflexivity | vm_compute; reflexivity].
  apply reach_step; [|exact located_b3 | vm_compute; reflexivity | vm_compute; reflexivity].
  apply reach_step; [|exact located_b2 | vm_compute; reflexivity | vm_compute; reflexivity].
  apply reach_genesis.
Qed.
Lemma reach_w2 : Reach c15 c05 cfw genesis w2.
Proof.
  unfold w2, w1.
  apply reach_step; [|exact located_b2 | vm_compute; reflexivity | vm_compute; reflexivity].
  apply reach_genesis.
Qed.

(* ================= blocks the pinned code accepts although they break conservation ================= *)
Definition drop_fee (b : block) : block :=
  mkBlock (b_hdr b) (filter (fun t => negb (t_ty t =? TFee)) (b_txs b)) (b_bf_calc b) (b_orc b) true true true true.

(* 1. golden ticket, payout due, fee transaction left out (on the honest chain, instead of b5) *)
Definition b5_nofee : block := Eval vm_compute in drop_fee b5.
Lemma located_b5_nofee : located b5_nofee. Proof. solve_located. Qed.

(* 2. golden ticket naming the all-zero key *)
Definition b5_zero : block := Eval vm_compute in
  build cfw s4 5000 true [gtx 501 5000 0; pay 502 5000 [mkSlip 1 1700000 SNormal 4 0 0] [out 1 1600000]]
        (mkOracle 0 1 1).
Lemma located_b5_zero : located b5_zero. Proof. solve_located. Qed.

(* 3. a BlockStake-typed transaction paying a fee of 10_000 (block 3 of the honest chain plus that transaction) *)
Definition b3_stake : block := Eval vm_compute in
  build cfw s2 3000 true
        [gtx 301 3000 2;
         pay 302 3000 [mkSlip 1 2900000 SNormal 2 0 0] [out 3 1000000; out 1 1800000];
         mkTx TStake 3000 [mkSlip 3 40000 SNormal 1 3 0] [mkSlip 3 30000 SBlockStake 0 0 0] 0 0 0 303 true]
        (mkOracle 2 1 0).
Lemma located_b3_stake : located b3_stake. Proof. solve_located. Qed.

(* 4. the 500 of key 2 was collected as fees by block 5; block 6 spends it *)
Definition b6_stale : block := Eval vm_compute in
  build cfw s5 6000 false
        [pay 601 6000 [mkSlip 1 1600000 SNormal 5 1 0] [out 2 600000; out 1 900000];
         pay 602 6000 [mkSlip 2 500 SNormal 1 2 0] [out 2 500]] (mkOracle 0 0 0).
Lemma located_b6_stale : located b6_stale. Proof. solve_located. Qed.

(* 5. an NFT group (Bound, payload, Bound) created in block 2 leaves the window at block 6 *)
Definition n2 : block := Eval vm_compute in
  build cfw s1 2000 false
        [pay 201 2000 [mkSlip 1 3000000 SNormal 1 0 0] [out 1 2900000];
         mkTx TBound 2000 [mkSlip 1 800000 SNormal 1 4 0]
              [mkSlip 1 1 SBound 0 0 0; mkSlip 1 700000 SNormal 0 0 0; mkSlip 77 0 SBound 0 0 0; mkSlip 1 100000 SNormal 0 0 0]
              0 0 0 202 true]
        (mkOracle 0 0 0).
Definition t2 : state := Eval vm_compute in next cfw s1 n2.
Definition n3 : block := Eval vm_compute in
  build cfw t2 3000 true [gtx 301 3000 2; pay 302 3000 [mkSlip 1 2900000 SNormal 2 0 0] [out 1 2800000]] (mkOracle 2 1 0).
Definition t3 : state := Eval vm_compute in next cfw t2 n3.
Definition n4 : block := Eval vm_compute in
  build cfw t3 4000 false [pay 401 4000 [mkSlip 1 2800000 SNormal 3 1 0] [out 1 2700000]] (mkOracle 0 0 0).
Definition t4 : state := Eval vm_compute in next cfw t3 n4.
Definition n5 : block := Eval vm_compute in
  build cfw t4 5000 true [gtx 501 5000 3; pay 502 5000 [mkSlip 1 2700000 SNormal 4 0 0] [out 1 2600000]] (mkOracle 3 1 1).
Definition t5 : state := Eval vm_compute in next cfw t4 n5.
Definition n6 : block := Eval vm_compute in
  build cfw t5 6000 false [pay 601 6000 [mkSlip 1 2600000 SNormal 5 1 0] [out 1 2500000]] (mkOracle 0 0 0).
Lemma located_n6 : located n6. Proof. solve_located. Qed.

(* 6. treasury >= genesis_period * average rebroadcast volume: the payout multiplier exceeds 1 and the
      block the producer builds is refused by the validator *)
Definition hg : block :=
  mkBlock (hdr0 1 1000) [iss 0 1 3000000; iss 1 2 60000; iss 2 3 5] 0 (mkOracle 0 0 0) true true true true.
Definition h1 : state := Eval vm_compute in boot cfw hg.
Definition hb2 : block := Eval vm_compute in
  build cfw h1 2000 true [gtx 201 2000 2; pay 202 2000 [mkSlip 1 3000000 SNormal 1 0 0] [out 1 2950000]] (mkOracle 2 1 0).
Definition h2 : state := Eval vm_compute in next cfw h1 hb2.
Definition hb3 : block := Eval vm_compute in
  build cfw h2 3000 false [pay 301 3000 [mkSlip 1 2950000 SNormal 2 1 0] [out 1 2900000]] (mkOracle 0 0 0).
Definition h3 : state := Eval vm_compute in next cfw h2 hb3.
Definition hb4 : block := Eval vm_compute in
  build cfw h3 4000 true [gtx 401 4000 2; pay 402 4000 [mkSlip 1 2900000 SNormal 3 0 0] [out 1 2850000]] (mkOracle 2 1 1).
Definition h4 : state := Eval vm_compute in next cfw h3 hb4.
Definition hb5 : block := Eval vm_compute in
  build cfw h4 5000 false [pay 501 5000 [mkSlip 1 2850000 SNormal 4 1 0] [out 1 2800000]] (mkOracle 0 0 0).
Definition h5 : state := Eval vm_compute in next cfw h4 hb5.
Definition hb6 : block := Eval vm_compute in
  build cfw h5 6000 true [gtx 601 6000 2; pay 602 6000 [mkSlip 1 2800000 SNormal 5 0 0] [out 1 2750000]] (mkOracle 2 1 1).
Definition h6 : state := Eval vm_compute in next cfw h5 hb6.
Definition hb7 : block := Eval vm_compute in
  build cfw h6 7000 false [pay 701 7000 [mkSlip 1 2750000 SNormal 6 1 0] [out 1 2700000]] (mkOracle 0 0 0).
Definition h7 : state := Eval vm_compute in next cfw h6 hb7.
Definition hb8 : block := Eval vm_compute in
  build cfw h7 8000 true [gtx 801 8000 2; pay 802 8000 [mkSlip 1 2700000 SNormal 7 0 0] [out 1 2650000]] (mkOracle 2 1 1).

(* 7. (stray-bound-output-becomes-value, repaired by 5a3c1b6) an NFT-creating transaction with
      an extra Bound output of 1_000_000: Transaction::validate refuses it now (the oracle field
      t_ok, as observed on the real node by the scripted case stray-bound-output) *)
Definition m2 : block := Eval vm_compute in
  build cfw s1 2000 false
        [pay 201 2000 [mkSlip 1 3000000 SNormal 1 0 0] [out 1 2900000];
         mkTx TBound 2000 [mkSlip 1 800000 SNormal 1 4 0]
              [mkSlip 1 1 SBound 0 0 0; mkSlip 1 700000 SNormal 0 0 0; mkSlip 77 0 SBound 0 0 0;
               mkSlip 1 100000 SNormal 0 0 0; mkSlip 1 1000000 SBound 0 0 0]
              0 0 0 202 false]
        (mkOracle 0 0 0).

(* 8. (spv-transaction-spends-bound-slip, repaired by 66d7fd0) block 3 carries an SPV-typed
      transaction of key 3 whose input is the first Bound slip (2:1:0, amount 1) of key 1's NFT
      group: an SPV transaction with a valued input is refused by Transaction::validate now *)
Definition q3 : block := Eval vm_compute in
  build cfw t2 3000 true
        [gtx 301 3000 2; pay 302 3000 [mkSlip 1 2900000 SNormal 2 0 0] [out 1 2800000];
         mkTx TSPV 3000 [mkSlip 1 1 SBound 2 1 0] [mkSlip 3 0 SNormal 0 0 0] 0 0 0 303 false]
        (mkOracle 2 1 0).

(* ---------- the witnesses as statements ---------- *)
(* the blocks [bs] (oldest first) are accepted one after the other by the model's node *)
Fixpoint run (cf : config) (st : state) (bs : list block) : option state :=
  match bs with
  | [] => Some st
  | b :: r => match add_block c15 c05 cf st b with Added st' => run cf st' r | _ => None end
  end.

(* [b] is accepted on top of the chain [bs] and changes the supply; the node then panics in
   check_total_supply *)
Definition breaks_conservation (cf : config) (g : block) (bs : list block) (b : block) : Prop :=
  exists st, run cf (boot cf g) bs = Some st /\
             validate c15 c05 cf st b = Ok true /\
             supply (cf_gp cf) (wind cf st b) <> supply (cf_gp cf) st /\
             crashed cf st b = true.
(* [b] is refused on top of the chain [bs] *)
Definition refused (cf : config) (g : block) (bs : list block) (b : block) : Prop :=
  exists st, run cf (boot cf g) bs = Some st /\ validate c15 c05 cf st b = Ok false.
(* [b] is accepted on top of the chain [bs], the supply is unchanged, the node's check passes *)
Definition accepted_conserving (cf : config) (g : block) (bs : list block) (b : block) : Prop :=
  exists st, run cf (boot cf g) bs = Some st /\
             validate c15 c05 cf st b = Ok true /\
             supply (cf_gp cf) (wind cf st b) = supply (cf_gp cf) st /\
             added cf st b = true.

(* regressions: the witnesses of the defects repaired by 60ba6d1, b8552b5, 1fdb9e1, bb88717, e1b5241 *)
Lemma fee_tx_omitted_refused : refused cfw genesis [b2; b3; b4] b5_nofee.
Proof. exists s4; split; vm_compute; reflexivity. Qed.
Lemma zero_miner_refused : refused cfw genesis [b2; b3; b4] b5_zero.
Proof. exists s4; split; vm_compute; reflexivity. Qed.
Lemma stake_fee_conserved : accepted_conserving cfw genesis [b2] b3_stake.
Proof. exists s2; repeat split; vm_compute; reflexivity. Qed.
Lemma stale_spend_refused : refused cfw genesis [b2; b3; b4; b5] b6_stale.
Proof. exists s5; split; vm_compute; reflexivity. Qed.
Lemma nft_expiring_conserved : accepted_conserving cfw genesis [n2; n3; n4; n5] n6.
Proof. exists t5; repeat split; vm_compute; reflexivity. Qed.
(* multiplier 2 at block 8: the block the producer builds is accepted, under the 5 % cap *)
Lemma producer_block_accepted :
  accepted_conserving cfw hg [hb2; hb3; hb4; hb5; hb6; hb7] hb8 /\
  atr_mult 3 (the_input cfw h7 hb8) = 2 /\
  match cv_inf c15 c05 cfw h7 hb8 with Ok c => c_cap c | _ => false end = true.
Proof. split; [exists h7; repeat split; vm_compute; reflexivity | split; vm_compute; reflexivity]. Qed.

(* regressions of 5a3c1b6 and 66d7fd0 *)
Lemma stray_bound_refused : refused cfw genesis [] m2.
Proof. exists s1; split; vm_compute; reflexivity. Qed.
Lemma spv_bound_refused : refused cfw genesis [n2] q3.
Proof. exists t2; split; vm_compute; reflexivity. Qed.

(* the node's own check cannot see a change of 2^64 (release profile) *)
Definition big_slip (i : N) : slip := mkSlip 9 9223372036854775808 SNormal 6 9 i.
Lemma check_blind_to_2_64 :
  let u := st_utxo s6 in let h := b_hdr b6 in
  check_total_supply cfr u h (st_init s6) = Ok (st_init s6) /\
  check_total_supply cfr (big_slip 0 :: big_slip 1 :: u) h (st_init s6) = Ok (st_init s6) /\
  big_node_supply cfr (big_slip 0 :: big_slip 1 :: u) h = big_node_supply cfr u h + two64.
Proof. repeat split; vm_compute; reflexivity. Qed.

(* regression of 8712765: the age test saturates, a transaction naming block id 2^64-1 is
   refused in both profiles (it was a panic in the debug profile) *)
Definition b3_far : block := Eval vm_compute in
  match build cfr s2 3000 true
        [gtx 301 3000 2; pay 302 3000 [mkSlip 1 2900000 SNormal 18446744073709551615 0 0] [out 1 2900000]]
        (mkOracle 2 1 0) with b => b end.
Lemma age_sum_saturates :
  validate c15 c05 cfw s2 b3_far = Ok false /\ validate c15 c05 cfr s2 b3_far = Ok false.
Proof. split; vm_compute; reflexivity. Qed.

(* regression of 812712b: value * multiplier saturates at 2^64-1 instead of overflowing (debug
   profile: it was a panic in Block::create for outputs above 2^63 once the multiplier reached 2) *)
Lemma payout_product_saturates :
  match atr_group (M64 true) (pay 1 1 [] []) 2 10 atr0 (GSingle (mkSlip 1 9223372036854775813 SNormal 1 0 0)) with
  | Ok a => a_payout a = 9223372036854775802 /\ map (fun t => map s_amt (t_to t)) (a_rbs a) = [[18446744073709551605]]
  | _ => False
  end.
Proof. vm_compute. split; reflexivity. Qed.
