(* add_block of model/Chain.v: the chain computations, fork choice and the
   full case analysis of one call under the invariant. *)
From Saito Require Import Base Chain ChainBasics ChainInv ChainWind.

(* ------------------------------------------------------------------ *)
(* add_block, cut into phases (verbatim pieces of the model)           *)
(* ------------------------------------------------------------------ *)
Definition ins_block (c : cfg) (st : state) (b : blk) : state :=
  let st1 := if ring_contains c (ring st) (b_id b) (b_hash b) then st
             else set_ring st (ring_add c (ring st) (b_id b) (b_hash b)) (ring_lc st) in
  set_blocks st1 (aset (b_hash b) (mkSB b false) (blocks st1)).

Definition add_finish (c : cfg) (b : blk) (st3 : state) (new old : list N) : res (state * add_result) :=
  do lid3 <- latest_id st3;
  do longest <- (if lid3 - gp_of c <? b_id b then is_new_chain_longest st3 new old else Ok false);
  let st4 := set_not_empty st3 in
  if longest then
    let st5 := set_lc_flag st4 (b_hash b) true in
    do v <- validate c st5 new old;
    let '(st6, ok) := v in
    if ok then Ok (st6, OnChain)
    else Ok (add_block_failure c (set_lc_flag st6 (b_hash b) false) b, Invalid)
  else Ok (st4, OffChain).

Definition add_chains (c : cfg) (b : blk) (lhash : N) (st2 : state) : res (state * list N * list N) :=
  let gp := gp_of c in
  let fuel := S (length (blocks st2)) in
  let '(found, shared, new) := new_chain_from fuel st2 (b_hash b) [] in
  do r3 <-
    (if found then Ok (st2, old_chain_from fuel st2 lhash shared [])
     else
       do st3 <-
         (if ring_empty st2 then Ok st2
          else
            do lh <- latest_hash st2;
            do lid <- latest_id st2;
            if negb (lhash =? 0) && (lhash =? lh) && (lid - gp <? b_id b) then
              disconnect c st2 (b_id b + 1) (N.to_nat (lid - b_id b))
            else Ok st2);
       Ok (st3, old_chain_upto fuel st3 lhash (length new) []));
  let '(st3, old) := r3 in Ok (st3, new, old).

Definition add_tail (c : cfg) (b : blk) (lhash : N) (st2 : state) : res (state * add_result) :=
  do r <- add_chains c b lhash st2;
  let '(st3, new, old) := r in add_finish c b st3 new old.

Lemma add_block_unfold c st b :
  add_block c st b =
  if 2 * gp_of c <? b_id b then Err else
  do lhash <- latest_hash st;
  match get_block st (b_hash b) with
  | Some _ => Ok (st, Exists)
  | None =>
      do lid0 <- latest_id st;
      let parent_missing :=
        negb (ring_empty st) && match get_block st (b_prev b) with Some _ => false | None => true end in
      if parent_missing && negb (b_prev b =? 0) && snd c then
        if N.max 1 (lid0 - gp_of c) <? b_id b then Ok (st, Retry) else Ok (st, Invalid)
      else add_tail c b lhash (ins_block c st b)
  end.
Proof.
  unfold add_block, add_tail, add_chains, add_finish, ins_block. cbv zeta.
  destruct (2 * gp_of c <? b_id b); [reflexivity|].
  destruct (latest_hash st) as [lhash| |]; cbn [bind]; try reflexivity.
  destruct (get_block st (b_hash b)); [reflexivity|].
  destruct (latest_id st) as [lid0| |]; cbn [bind]; try reflexivity.
  match goal with |- (if ?g then _ else _) = _ => destruct g end; [reflexivity|].
  match goal with |- context [new_chain_from ?f ?s ?h ?a] => destruct (new_chain_from f s h a) as [[found shared] new] end.
  match goal with |- bind ?r _ = _ => destruct r as [[st3 old]| |] end; reflexivity.
Qed.

(* ------------------------------------------------------------------ *)
(* linked lists of blocks of U: ids go down by one                     *)
(* ------------------------------------------------------------------ *)
Fixpoint plinked (l : list blk) : Prop :=
  match l with
  | a :: t => match t with b :: _ => b_prev a = b_hash b | [] => True end /\ plinked t
  | [] => True
  end.

Lemma plinked_ids c U l : univ_ok c U -> (forall a, In a l -> In a U) -> plinked l ->
  forall i a t, nth_error l 0 = Some t -> nth_error l i = Some a -> b_id a + N.of_nat i = b_id t.
Proof.
  intros HU. induction l as [|x l IH]; intros Hin Hc i a t H0 Hi; [destruct i; discriminate|].
  cbn [nth_error] in H0. injection H0 as ->.
  destruct i as [|i]; cbn [nth_error] in Hi; [injection Hi as ->; lia|].
  destruct l as [|p l]; [destruct i; discriminate|].
  destruct Hc as [Hl Hc'].
  assert (Hin' : forall a, In a (p :: l) -> In a U) by (intros; apply Hin; now right).
  specialize (IH Hin' Hc' i a p eq_refl Hi).
  pose proof (u_link _ _ HU t p (Hin t (or_introl eq_refl)) (Hin' p (or_introl eq_refl)) Hl). lia.
Qed.

Lemma plinked_nodup c U l : univ_ok c U -> (forall a, In a l -> In a U) -> plinked l -> NoDup (hashes l).
Proof.
  intros HU Hin Hp.
  assert (Hinj : forall i j a b0, nth_error l i = Some a -> nth_error l j = Some b0 -> b_hash a = b_hash b0 -> i = j).
  { intros i j a b0 Hi Hj E.
    assert (a = b0) by (eapply hash_inj; eauto using nth_error_In). subst b0.
    destruct l as [|t l']; [destruct i; discriminate|].
    pose proof (plinked_ids c U _ HU Hin Hp i a t eq_refl Hi).
    pose proof (plinked_ids c U _ HU Hin Hp j a t eq_refl Hj). lia. }
  unfold hashes. apply (NoDup_nth_error (map b_hash l)). intros i j Hi E.
  rewrite map_length in Hi. rewrite !nth_error_map in E.
  destruct (nth_error l i) as [a|] eqn:Ei; [|apply nth_error_None in Ei; lia].
  destruct (nth_error l j) as [b0|] eqn:Ej; [|discriminate].
  cbn [option_map] in E. injection E as E. eauto.
Qed.

Lemma chain_ok_plinked U l : chain_ok U l -> plinked l.
Proof.
  induction l as [|a l IH]; [constructor|]. intros (_ & _ & Hl & Hc). cbn [plinked]. split; [|auto].
  destruct l; [exact I|exact Hl].
Qed.

Lemma linked_dn_plinked U l s below : linked_dn U l (s :: below) -> plinked (s :: below) -> plinked (l ++ s :: below).
Proof.
  induction l as [|a l IH]; cbn [app linked_dn]; [auto|]. intros [H1 H2] Hp.
  cbn [plinked]. split; [|auto]. unfold link_to in H1. destruct (l ++ s :: below) eqn:E; [|exact H1].
  destruct l; discriminate.
Qed.

Definition bf_total (l : list blk) : N := fold_left (fun a y => a + b_bf y) l 0.

Section Add.
  Variables (c : cfg) (U : list blk).
  Hypothesis HU : univ_ok c U.
  Hypothesis HWF : valid_wf U.

  Lemma stored_nz st lcr x h sb : WInv c U st lcr x -> get_block st h = Some sb -> h <> 0.
  Proof.
    intros W G. destruct (w_stored_in c U _ _ _ _ _ W G) as [E Hin]. rewrite <- E. now apply (u_nz _ _ HU).
  Qed.

  Lemma lc_flag_iff st lcr h sb : WInv c U st lcr 0 -> get_block st h = Some sb ->
    (s_lc sb = true <-> In (s_b sb) lcr).
  Proof.
    intros W G. split.
    - intros F. destruct (w_flags _ _ _ _ _ W h sb G F) as [Hi|E].
      + apply in_hashes in Hi as (y & Hy & E). pose proof (w_lc _ _ _ _ _ W y Hy) as Gy.
        rewrite E, G in Gy. injection Gy as ->. exact Hy.
      + exfalso. exact (stored_nz _ _ _ _ _ W G E).
    - intros Hi. pose proof (w_lc _ _ _ _ _ W _ Hi) as Gy.
      destruct (w_stored_in c U _ _ _ _ _ W G) as [E _]. rewrite E, G in Gy. now injection Gy as ->.
  Qed.

  Lemma stored_keys st h sb : get_block st h = Some sb -> In h (map fst (blocks st)).
  Proof. intros G. apply aget_in in G. apply (in_map fst) in G. exact G. Qed.

  (* a duplicate-free list of stored hashes is no longer than the store *)
  Lemma stored_length st (l : list blk) :
    NoDup (hashes l) -> (forall y, In y l -> get_block st (b_hash y) <> None) ->
    (length l <= length (blocks st))%nat.
  Proof.
    intros Hnd Hst. rewrite <- (map_length b_hash l), <- (map_length fst (blocks st)).
    apply NoDup_incl_length; [exact Hnd|]. intros h Hh. apply in_map_iff in Hh as (y & <- & Hy).
    specialize (Hst y Hy). destruct (get_block st (b_hash y)) eqn:G; [|contradiction].
    eapply stored_keys; eauto.
  Qed.

  (* ---------------- new_chain_from: path to the first lc ancestor ---------------- *)
  Lemma ncf_found st lcr : WInv c U st lcr 0 -> forall n h y acc,
    sget (blocks st) h = Some y -> (N.to_nat (b_id y) <= n)%nat ->
    exists path above s below,
      lcr = above ++ s :: below
      /\ linked_dn U path (s :: below)
      /\ (forall z, In z path -> sget (blocks st) (b_hash z) = Some z /\ ~ In z lcr)
      /\ hd_error (path ++ [s]) = Some y
      /\ (forall fuel, (length path < fuel)%nat ->
            new_chain_from fuel st h acc = (true, b_hash s, rev acc ++ hashes path)).
  Proof.
    intros W. induction n as [|n IH]; intros h y acc Hs Hn.
    { exfalso. destruct (proj2 (w_store _ _ _ _ _ W) h y Hs) as [_ Hy].
      pose proof (u_id _ _ HU y Hy). lia. }
    destruct (sget_get _ _ _ Hs) as (f & G).
    destruct (proj2 (w_store _ _ _ _ _ W) h y Hs) as [Eh HyU].
    destruct f.
    - assert (Hy : In y lcr) by (apply (proj1 (lc_flag_iff _ _ _ _ W G)); reflexivity).
      destruct (in_split _ _ Hy) as (above & below & E).
      exists [], above, y, below. split; [exact E|]. split; [exact I|]. split; [intros z []|].
      split; [reflexivity|]. intros [|fuel] Hf; [cbn in Hf; lia|].
      cbn [new_chain_from]. rewrite G. cbn [s_lc hashes map]. now rewrite app_nil_r, Eh.
    - assert (Hny : ~ In y lcr).
      { intros Hy. apply (proj2 (lc_flag_iff _ _ _ _ W G)) in Hy. discriminate. }
      destruct (w_closed _ _ _ _ _ W h _ G) as [Hi|[E|Hp]].
      { exfalso. apply in_hashes in Hi as (y' & Hy' & E). pose proof (w_lc _ _ _ _ _ W y' Hy') as Gy.
        rewrite E, G in Gy. discriminate. }
      { exfalso. exact (stored_nz _ _ _ _ _ W G E). }
      cbn [s_b] in Hp. destruct (get_block st (b_prev y)) as [[p fp]|] eqn:Gp; [|contradiction].
      pose proof (get_sget _ _ _ Gp) as Sp. cbn [s_b] in Sp.
      destruct (proj2 (w_store _ _ _ _ _ W) _ p Sp) as [Ep HpU].
      pose proof (u_link _ _ HU y p HyU HpU (eq_sym Ep)) as Hid.
      destruct (IH (b_prev y) p (h :: acc) Sp) as (path & above & s & below & E & Hl & Hst & Hhd & Hn').
      { lia. }
      exists (y :: path), above, s, below. split; [exact E|]. split.
      { cbn [linked_dn]. split; [|exact Hl]. unfold link_to.
        destruct (path ++ s :: below) as [|q l'] eqn:Eq; [destruct path; discriminate|].
        destruct path as [|q' path']; cbn [app hd_error] in Hhd, Eq; injection Hhd as ->; injection Eq as -> _; auto. }
      split.
      { intros z [<-|Hz]; [|auto]. split; [now rewrite Eh|exact Hny]. }
      split; [reflexivity|].
      intros [|fuel] Hf; [cbn in Hf; lia|]. cbn [new_chain_from]. rewrite G. cbn [s_lc s_b].
      destruct (N.eqb_spec h 0) as [E0|_]; [exfalso; exact (stored_nz _ _ _ _ _ W G E0)|].
      rewrite Hn' by (cbn [length] in Hf; lia). cbn [rev hashes map]. now rewrite <- app_assoc, Eh.
  Qed.

  (* ---------------- old_chain_from: the lc segment above the shared ancestor ---------------- *)
  Lemma ocf_spec st lcr x s : WInv c U st lcr x -> forall above below acc fuel,
    (forall y, In y (above ++ [s]) -> In y lcr) -> plinked (above ++ s :: below) ->
    ~ In (b_hash s) (hashes above) -> (length above < fuel)%nat ->
    old_chain_from fuel st (match above with a :: _ => b_hash a | [] => b_hash s end) (b_hash s) acc
    = rev acc ++ hashes above.
  Proof.
    intros W. induction above as [|a above IH]; intros below acc fuel Hin Hp Hns Hf.
    - destruct fuel; [lia|]. cbn [old_chain_from hashes map]. now rewrite N.eqb_refl, app_nil_r.
    - destruct fuel as [|fuel]; [cbn in Hf; lia|]. cbn [old_chain_from].
      destruct (N.eqb_spec (b_hash s) (b_hash a)) as [E|_].
      { exfalso. apply Hns. cbn [hashes map]. left. now symmetry. }
      rewrite (w_lc _ _ _ _ _ W a (Hin a (or_introl eq_refl))). cbn [s_b].
      cbn [app plinked] in Hp. destruct Hp as [Hl Hp].
      assert (Hnext : b_prev a = match above with a' :: _ => b_hash a' | [] => b_hash s end).
      { destruct above; exact Hl. }
      destruct (N.eqb_spec (b_prev a) 0) as [E0|_].
      { exfalso. rewrite Hnext in E0.
        assert (Hq : exists q, In q lcr /\ b_hash q = 0).
        { destruct above as [|a' ab']; [exists s|exists a']; (split; [|exact E0]); apply Hin; cbn; auto. }
        destruct Hq as (q & Hq & Eq). apply (u_nz _ _ HU q); [|exact Eq].
        eapply chain_ok_in; [apply (w_chain _ _ _ _ _ W)|exact Hq]. }
      rewrite Hnext, (IH below (b_hash a :: acc) fuel).
      + cbn [rev hashes map]. now rewrite <- app_assoc.
      + intros y Hy. apply Hin. now right.
      + exact Hp.
      + intros Hi. apply Hns. cbn [hashes map]. now right.
      + cbn [length] in Hf. lia.
  Qed.

  (* ---------------- burn-fee sums ---------------- *)
  Lemma sum_bf_gen st l : forall a, (forall y, In y l -> sget (blocks st) (b_hash y) = Some y) ->
    fold_left (fun a h => match a, get_block st h with
                          | Some a, Some sb => Some (a + b_bf (s_b sb))
                          | _, _ => None
                          end) (hashes l) (Some a)
    = Some (fold_left (fun a y => a + b_bf y) l a).
  Proof.
    induction l as [|y l IH]; intros a Hst; [reflexivity|].
    cbn [hashes map fold_left].
    destruct (sget_get _ _ _ (Hst y (or_introl eq_refl))) as (f & ->). cbn [s_b].
    apply IH. intros z Hz. apply Hst. now right.
  Qed.

  Lemma sum_bf_stored st l : (forall y, In y l -> sget (blocks st) (b_hash y) = Some y) ->
    sum_bf st (hashes l) = Some (bf_total l).
  Proof. intros H. unfold sum_bf, bf_total. now apply sum_bf_gen. Qed.

  Definition longest_spec (re : bool) (lid : N) (b : blk) (newb oldb : list blk) : bool :=
    (lid - gp_of c <? b_id b)
    && (re || (negb (b_id b <=? lid) && Nat.ltb (length oldb) (length newb)
               && (bf_total oldb <=? bf_total newb))).

  Lemma longest_eq st b newtl oldb lid :
    (forall y, In y (b :: newtl) -> sget (blocks st) (b_hash y) = Some y) ->
    (forall y, In y oldb -> sget (blocks st) (b_hash y) = Some y) ->
    latest_id st = Ok lid ->
    (if lid - gp_of c <? b_id b then is_new_chain_longest st (hashes (b :: newtl)) (hashes oldb) else Ok false)
    = Ok (longest_spec (ring_empty st) lid b (b :: newtl) oldb).
  Proof.
    intros Hn Ho Hl. unfold longest_spec. destruct (lid - gp_of c <? b_id b); [|reflexivity].
    cbn [andb]. unfold is_new_chain_longest. destruct (ring_empty st); [reflexivity|]. cbn [orb].
    unfold hashes at 1 2. rewrite !map_length.
    destruct (Nat.ltb_spec (length (b :: newtl)) (length oldb)) as [Hlt|Hge].
    { destruct (Nat.ltb_spec (length oldb) (length (b :: newtl))); [lia|]. now rewrite andb_false_r. }
    cbn [hashes map]. destruct (sget_get _ _ _ (Hn b (or_introl eq_refl))) as (f & ->).
    rewrite Hl. cbn [bind s_b]. destruct (b_id b <=? lid); [reflexivity|]. cbn [negb andb].
    rewrite (sum_bf_stored st oldb Ho).
    change (b_hash b :: map b_hash newtl) with (hashes (b :: newtl)).
    rewrite (sum_bf_stored st (b :: newtl) Hn). unfold hashes. now rewrite !map_length.
  Qed.

  (* ---------------- inserting the new block (store + ring) ---------------- *)
  Lemma ring_contains_false bs r rl lcr b :
    ring_ok c bs r rl lcr -> In b U -> sget bs (b_hash b) = None ->
    ring_contains c r (b_id b) (b_hash b) = false.
  Proof.
    intros Hr Hb Hn. unfold ring_contains.
    destruct (existsb _ _) eqn:E; [|reflexivity]. exfalso.
    apply existsb_exists in E as (e & He & Ee). apply N.eqb_eq in Ee.
    destruct (r_sound _ _ _ _ _ Hr _ e (slot_lt c (b_id b) (gp_pos c U HU b Hb)) He) as (b0 & H1 & _).
    rewrite Ee, Hn in H1. discriminate.
  Qed.

  Definition inserted (st : state) (b : blk) : state :=
    mkSt (aset (b_hash b) (mkSB b false) (blocks st)) (ring_add c (ring st) (b_id b) (b_hash b))
         (ring_lc st) (ring_empty st) (utxo st) (last_id st) (last_hash st) (wsteps st).

  Lemma ins_block_eq st lcr b : WInv c U st lcr 0 -> In b U -> get_block st (b_hash b) = None ->
    ins_block c st b = inserted st b.
  Proof.
    intros W Hb Hn. unfold ins_block.
    rewrite (ring_contains_false _ _ _ _ b (w_ring _ _ _ _ _ W) Hb); [reflexivity|].
    now apply sget_none.
  Qed.

  Lemma sget_inserted st b h :
    sget (blocks (inserted st b)) h = if h =? b_hash b then Some b else sget (blocks st) h.
  Proof. unfold inserted, sget; cbn [blocks]. rewrite aget_aset. now destruct (h =? b_hash b). Qed.

  Lemma inserted_inv st lcr b : WInv c U st lcr 0 -> In b U -> get_block st (b_hash b) = None ->
    WInv c U (inserted st b) lcr (b_hash b).
  Proof.
    intros W Hb Hn.
    assert (Hg : forall h, get_block (inserted st b) h =
                   if h =? b_hash b then Some (mkSB b false) else get_block st h).
    { intros h. unfold get_block, inserted; cbn [blocks]. apply aget_aset. }
    split.
    - split; [unfold inserted; cbn [blocks]; apply aset_sorted, (w_store _ _ _ _ _ W)|].
      intros h y. rewrite sget_inserted. destruct (N.eqb_spec h (b_hash b)) as [->|_].
      + intros [= <-]. auto.
      + apply (proj2 (w_store _ _ _ _ _ W)).
    - apply (w_chain _ _ _ _ _ W).
    - intros y Hy. rewrite Hg. destruct (N.eqb_spec (b_hash y) (b_hash b)) as [E|_].
      + pose proof (w_lc _ _ _ _ _ W y Hy) as G. rewrite E, Hn in G. discriminate.
      + now apply (w_lc _ _ _ _ _ W).
    - intros h sb. rewrite Hg. destruct (N.eqb_spec h (b_hash b)) as [->|_]; [auto|].
      intros G F. destruct (w_flags _ _ _ _ _ W h sb G F) as [?|E]; [auto|].
      exfalso. exact (stored_nz _ _ _ _ _ W G E).
    - intros h sb. rewrite Hg. destruct (N.eqb_spec h (b_hash b)) as [->|_]; [auto|].
      intros G. destruct (w_closed _ _ _ _ _ W h sb G) as [?|[E|Hp]]; [auto| |].
      + exfalso. exact (stored_nz _ _ _ _ _ W G E).
      + right; right. rewrite Hg. now destruct (b_prev (s_b sb) =? b_hash b).
    - apply (w_utxo _ _ _ _ _ W).
    - unfold inserted; cbn [blocks ring ring_lc].
      apply (ring_add_ok c U HU); auto; [apply (w_store _ _ _ _ _ W)|apply (w_ring _ _ _ _ _ W)].
  Qed.

  (* the exception [x] can be dropped when x is on the chain, or is an ordinary off-chain block *)
  Lemma WInv_drop_on st l x : WInv c U st l x -> In x (hashes l) -> WInv c U st l 0.
  Proof.
    intros [H1 H2 H3 H4 H5 H6 H7] Hx. split; auto.
    - intros h sb G F. destruct (H4 h sb G F) as [?| ->]; auto.
    - intros h sb G. destruct (H5 h sb G) as [?|[ ->|?]]; auto.
  Qed.

  Lemma WInv_drop_off st l x :
    WInv c U st l x ->
    (forall sb, get_block st x = Some sb -> s_lc sb = false /\ get_block st (b_prev (s_b sb)) <> None) ->
    WInv c U st l 0.
  Proof.
    intros [H1 H2 H3 H4 H5 H6 H7] Hx. split; auto.
    - intros h sb G F. destruct (H4 h sb G F) as [?| ->]; auto.
      destruct (Hx sb G) as [F' _]. congruence.
    - intros h sb G. destruct (H5 h sb G) as [?|[ ->|?]]; auto.
      destruct (Hx sb G) as [_ Hp]. auto.
  Qed.

  Lemma WInv_weaken st l x : WInv c U st l 0 -> WInv c U st l x.
  Proof.
    intros W. pose proof W as [H1 H2 H3 H4 H5 H6 H7]. split; auto.
    - intros h sb G F. destruct (H4 h sb G F) as [?|E]; auto. exfalso. exact (stored_nz _ _ _ _ _ W G E).
    - intros h sb G. destruct (H5 h sb G) as [?|[E|?]]; auto. exfalso. exact (stored_nz _ _ _ _ _ W G E).
  Qed.

  (* changing the flag of the block in flight *)
  Lemma reflag_inv st st' l x b f f' :
    WInv c U st l x -> get_block st x = Some (mkSB b f) -> ~ In x (hashes l) ->
    blocks st' = aset x (mkSB b f') (blocks st) -> ring st' = ring st -> ring_lc st' = ring_lc st ->
    utxo st' = utxo st -> WInv c U st' l x.
  Proof.
    intros W G Hx E1 E2 E3 E4.
    assert (Hss : same_store (blocks st) (blocks st')).
    { rewrite E1. apply (same_store_flag _ _ _ f' G). }
    assert (Hg : forall h, get_block st' h = if h =? x then Some (mkSB b f') else get_block st h).
    { intros h. unfold get_block. rewrite E1. apply aget_aset. }
    split.
    - eapply store_ok_same; [|exact Hss|apply (w_store _ _ _ _ _ W)].
      rewrite E1. apply aset_sorted, (w_store _ _ _ _ _ W).
    - apply (w_chain _ _ _ _ _ W).
    - intros y Hy. rewrite Hg. destruct (N.eqb_spec (b_hash y) x) as [E|_].
      + exfalso. apply Hx. rewrite <- E. now apply in_map.
      + now apply (w_lc _ _ _ _ _ W).
    - intros h sb. rewrite Hg. destruct (N.eqb_spec h x) as [->|_]; [auto|]. apply (w_flags _ _ _ _ _ W).
    - intros h sb. rewrite Hg. destruct (N.eqb_spec h x) as [->|_]; [auto|].
      intros G'. destruct (w_closed _ _ _ _ _ W h sb G') as [?|[?|Hp]]; auto.
      right; right. rewrite Hg. now destruct (b_prev (s_b sb) =? x).
    - rewrite E4. apply (w_utxo _ _ _ _ _ W).
    - rewrite E2, E3. eapply ring_ok_same; [exact Hss|apply (w_ring _ _ _ _ _ W)].
  Qed.

  (* no stored block is a child of a block of U that is not stored *)
  Lemma chain_next l y : chain_ok U l -> In y l ->
    is_root U y \/ exists p, In p l /\ b_prev y = b_hash p.
  Proof.
    induction l as [|t l IH]; [contradiction|]. intros Hc [->|Hy].
    - destruct Hc as (_ & _ & Hl & _). destruct l as [|p l]; [now left|].
      right. exists p. split; [right; now left|exact Hl].
    - destruct (IH (chain_ok_tail _ _ _ Hc) Hy) as [?|(p & Hp & E)]; [now left|].
      right. exists p. split; [now right|exact E].
  Qed.

  Lemma no_child st lcr b : WInv c U st lcr 0 -> In b U -> get_block st (b_hash b) = None ->
    forall h sb, get_block st h = Some sb -> b_prev (s_b sb) <> b_hash b.
  Proof.
    intros W Hb Hn h sb G E.
    destruct (w_closed _ _ _ _ _ W h sb G) as [Hi|[E0|Hp]].
    - apply in_hashes in Hi as (y & Hy & Ey). pose proof (w_lc _ _ _ _ _ W y Hy) as Gy.
      rewrite Ey, G in Gy. injection Gy as ->. cbn [s_b] in E.
      destruct (chain_next _ _ (w_chain _ _ _ _ _ W) Hy) as [Hr|(p & Hp & Ep)].
      + apply (Hr b Hb). now symmetry.
      + pose proof (w_lc _ _ _ _ _ W p Hp) as Gp. congruence.
    - exact (stored_nz _ _ _ _ _ W G E0).
    - rewrite E in Hp. contradiction.
  Qed.

  (* ---------------- add_block_failure: the rejected block is removed again ---------------- *)
  Definition failed (st6 : state) (b : blk) : state :=
    mkSt (adel (b_hash b) (aset (b_hash b) (mkSB b false) (blocks st6)))
         (ring_delete c (ring st6) (b_id b) (b_hash b)) (ring_lc st6) (ring_empty st6) (utxo st6)
         (last_id st6) (last_hash st6) (wsteps st6).

  Lemma failure_eq st6 b f : get_block st6 (b_hash b) = Some (mkSB b f) ->
    add_block_failure c (set_lc_flag st6 (b_hash b) false) b = failed st6 b.
  Proof.
    intros G. unfold set_lc_flag. rewrite G. cbn [s_b].
    unfold add_block_failure, get_block, set_blocks. cbn [blocks]. now rewrite aget_aset, N.eqb_refl.
  Qed.

  Lemma sget_failed st6 b h : asorted (blocks st6) ->
    sget (blocks (failed st6 b)) h = if h =? b_hash b then None else sget (blocks st6) h.
  Proof.
    intros Hs. unfold failed, sget; cbn [blocks]. rewrite aget_adel by now apply aset_sorted.
    rewrite aget_aset. now destruct (h =? b_hash b).
  Qed.

  Lemma failed_inv st6 lcr b f :
    WInv c U st6 lcr (b_hash b) -> get_block st6 (b_hash b) = Some (mkSB b f) ->
    ~ In (b_hash b) (hashes lcr) -> In b U ->
    (forall h sb, get_block st6 h = Some sb -> b_prev (s_b sb) <> b_hash b) ->
    WInv c U (failed st6 b) lcr 0.
  Proof.
    intros W G Hx Hb Hnc.
    pose proof (proj1 (w_store _ _ _ _ _ W)) as Hsort.
    assert (Hg : forall h, get_block (failed st6 b) h = if h =? b_hash b then None else get_block st6 h).
    { intros h. unfold get_block, failed; cbn [blocks]. rewrite aget_adel by now apply aset_sorted.
      rewrite aget_aset. now destruct (h =? b_hash b). }
    split.
    - split; [unfold failed; cbn [blocks]; now apply adel_sorted, aset_sorted|].
      intros h y. rewrite sget_failed by assumption. destruct (h =? b_hash b); [discriminate|].
      apply (proj2 (w_store _ _ _ _ _ W)).
    - apply (w_chain _ _ _ _ _ W).
    - intros y Hy. rewrite Hg. destruct (N.eqb_spec (b_hash y) (b_hash b)) as [E|_].
      + exfalso. apply Hx. rewrite <- E. now apply in_map.
      + now apply (w_lc _ _ _ _ _ W).
    - intros h sb. rewrite Hg. destruct (N.eqb_spec h (b_hash b)) as [->|Hne]; [discriminate|].
      intros G' F. destruct (w_flags _ _ _ _ _ W h sb G' F); [now left|contradiction].
    - intros h sb. rewrite Hg. destruct (N.eqb_spec h (b_hash b)) as [->|Hne]; [discriminate|].
      intros G'. destruct (w_closed _ _ _ _ _ W h sb G') as [?|[?|Hp]]; [now left|contradiction|].
      right; right. rewrite Hg. destruct (N.eqb_spec (b_prev (s_b sb)) (b_hash b)) as [E|_]; [|exact Hp].
      exfalso. exact (Hnc h sb G' E).
    - apply (w_utxo _ _ _ _ _ W).
    - unfold failed; cbn [blocks ring ring_lc].
      assert (Hss : same_store (blocks st6) (aset (b_hash b) (mkSB b false) (blocks st6))).
      { apply (same_store_flag _ _ _ false G). }
      apply (ring_delete_ok c U HU); auto.
      + eapply store_ok_same; [now apply aset_sorted|exact Hss|apply (w_store _ _ _ _ _ W)].
      + eapply ring_ok_same; [exact Hss|apply (w_ring _ _ _ _ _ W)].
      + rewrite <- Hss. apply (get_sget _ _ _ G).
  Qed.

  Lemma latest_id_spec st lcr x : WInv c U st lcr x ->
    latest_id st = Ok (match lcr with [] => 0 | t :: _ => b_id t end).
  Proof.
    intros W. unfold latest_id.
    rewrite (latest_entry_spec c U HU st lcr (w_store _ _ _ _ _ W) (w_ring _ _ _ _ _ W) (w_chain _ _ _ _ _ W)).
    - now destruct lcr.
    - eapply w_lc_sget; eauto.
  Qed.

  Lemma latest_hash_spec st lcr x : WInv c U st lcr x ->
    latest_hash st = Ok (match lcr with [] => 0 | t :: _ => b_hash t end).
  Proof.
    intros W. unfold latest_hash.
    rewrite (latest_entry_spec c U HU st lcr (w_store _ _ _ _ _ W) (w_ring _ _ _ _ _ W) (w_chain _ _ _ _ _ W)).
    - now destruct lcr.
    - eapply w_lc_sget; eauto.
  Qed.


  (* ---------------- the decision and its execution ---------------- *)
  Lemma add_finish_ok st2 b newtl oldb common :
    WInv c U st2 (oldb ++ common) (b_hash b) ->
    In b U ->
    get_block st2 (b_hash b) = Some (mkSB b false) ->
    ~ In (b_hash b) (hashes (oldb ++ common)) ->
    (forall y, In y (b :: newtl) -> sget (blocks st2) (b_hash y) = Some y) ->
    linked_dn U (b :: newtl) common ->
    ((common <> [] /\ get_block st2 (b_prev b) <> None) \/ (common = [] /\ oldb = [] /\ newtl = [])) ->
    (forall h sb, get_block st2 h = Some sb -> b_prev (s_b sb) <> b_hash b) ->
    last_id st2 = tip_id (oldb ++ common) -> last_hash st2 = tip_hash (oldb ++ common) ->
    (ring_empty st2 = true -> oldb ++ common = []) ->
    let lg := longest_spec (ring_empty st2) (tip_id (oldb ++ common)) b (b :: newtl) oldb in
    let gv := gt_count_valid st2 (b_prev b) (b_gt b) && forallb b_valid (b :: newtl) in
    exists st' r, add_finish c b st2 (hashes (b :: newtl)) (hashes oldb) = Ok (st', r)
      /\ ring_empty st' = false
      /\ r = (if lg then if gv then OnChain else Invalid else OffChain)
      /\ WInv c U st' (if lg && gv then (b :: newtl) ++ common else oldb ++ common) 0
      /\ (forall h, sget (blocks st') h =
                    if (h =? b_hash b) && lg && negb gv then None else sget (blocks st2) h)
      /\ (if lg then wsteps st' <= 2 * (Nlen (hashes (b :: newtl)) + Nlen (hashes oldb))
          else wsteps st' = wsteps st2)
      /\ last_id st' = tip_id (if lg && gv then (b :: newtl) ++ common else oldb ++ common)
      /\ last_hash st' = tip_hash (if lg && gv then (b :: newtl) ++ common else oldb ++ common).
  Proof.
    intros W Hb G Hx Hst Hl Hcm Hnc Hla1 Hla2 Hre lg gv.
    unfold add_finish. rewrite (latest_id_spec _ _ _ W). cbn [bind]. fold (tip_id (oldb ++ common)).
    rewrite (longest_eq st2 b newtl oldb (tip_id (oldb ++ common))); auto.
    2:{ intros y Hy. eapply w_lc_sget; [exact W|]. apply in_app_iff. now left. }
    2:{ apply (latest_id_spec _ _ _ W). }
    fold lg. cbn [bind].
    assert (Hlg : common = [] -> lg = true).
    { intros ->. destruct Hcm as [[? _]|(_ & -> & ->)]; [contradiction|].
      unfold lg, longest_spec. cbn [app tip_id length bf_total fold_left].
      pose proof (u_id _ _ HU b Hb).
      replace (0 - gp_of c <? b_id b) with true by (symmetry; apply N.ltb_lt; lia).
      replace (b_id b <=? 0) with false by (symmetry; apply N.leb_gt; lia).
      cbn. replace (0 <=? 0 + b_bf b) with true by (symmetry; apply N.leb_le; lia). now rewrite orb_true_r. }
    assert (Hlt : lg = true -> tip_id (oldb ++ common) < b_id b).
    { unfold lg, longest_spec. intros H. apply andb_true_iff in H as [_ H].
      destruct (ring_empty st2).
      - rewrite (Hre eq_refl). cbn [tip_id]. pose proof (u_id _ _ HU b Hb). lia.
      - cbn [orb] in H. apply andb_true_iff in H as [H _]. apply andb_true_iff in H as [H _].
        now apply negb_true_iff, N.leb_gt in H. }
    destruct lg eqn:Elg.
    - (* longest: flag, validate *)
      set (st5 := set_lc_flag (set_not_empty st2) (b_hash b) true).
      assert (E5 : st5 = set_blocks (set_not_empty st2) (aset (b_hash b) (mkSB b true) (blocks st2))).
      { unfold st5, set_lc_flag. unfold get_block in *. cbn [set_not_empty blocks]. now rewrite G. }
      assert (W5 : WInv c U st5 (oldb ++ common) (b_hash b)).
      { eapply (reflag_inv st2 st5 _ _ b false true W G Hx); rewrite E5; reflexivity. }
      assert (S5 : same_store (blocks st2) (blocks st5)).
      { rewrite E5. cbn [set_blocks blocks]. apply (same_store_flag _ _ _ true G). }
      destruct (validate_ok c U HU HWF st5 b newtl oldb common (b_hash b) W5) as (st6 & ok & Ev & S6 & R6 & Eok & W6 & La6 & Lb6).
      { intros y Hy. rewrite <- S5. now apply Hst. }
      { exact Hl. }
      { destruct Hcm as [[? _]|(_ & ? & ?)]; auto. }
      rewrite Ev. cbn [bind].
      rewrite <- (gt_count_valid_same st2 st5 _ _ S5) in Eok. fold gv in Eok. subst ok.
      assert (R5 : ring_empty st5 = false) by (rewrite E5; reflexivity).
      assert (L5 : last_id st5 = last_id st2) by (rewrite E5; reflexivity).
      assert (H5 : last_hash st5 = last_hash st2) by (rewrite E5; reflexivity).
      destruct gv eqn:Egv.
      + exists st6, OnChain. split; [reflexivity|]. split; [congruence|]. split; [reflexivity|].
        cbn [andb negb]. split; [|split; [|split; [|split]]].
        * eapply WInv_drop_on; [exact W6|]. cbn [app hashes map]. now left.
        * intros h. rewrite andb_false_r. rewrite <- S6. now rewrite <- S5.
        * apply (validate_steps _ _ _ _ _ _ Ev).
        * cbn [app tip_id]. apply La6; [reflexivity|]. rewrite L5, Hla1. now apply Hlt.
        * cbn [app tip_hash]. apply La6; [reflexivity|]. rewrite L5, Hla1. now apply Hlt.
      + assert (G6 : exists f6, get_block st6 (b_hash b) = Some (mkSB b f6)).
        { apply sget_get. rewrite <- S6, <- S5. apply (get_sget _ _ _ G). }
        destruct G6 as (f6 & G6).
        rewrite (failure_eq _ _ _ G6).
        exists (failed st6 b), Invalid. split; [reflexivity|]. split; [cbn [failed ring_empty]; congruence|].
        split; [reflexivity|]. cbn [andb negb]. split; [|split; [|split; [|split]]].
        * apply (failed_inv st6 _ b f6 W6 G6 Hx Hb).
          intros h sb G' E. pose proof (get_sget _ _ _ G') as S'.
          rewrite <- S6, <- S5 in S'. destruct (sget_get _ _ _ S') as (f' & G2).
          exact (Hnc h _ G2 E).
        * intros h. rewrite sget_failed by apply (w_store _ _ _ _ _ W6).
          rewrite andb_true_r. destruct (h =? b_hash b); [reflexivity|]. rewrite <- S6. now rewrite <- S5.
        * cbn [failed wsteps]. apply (validate_steps _ _ _ _ _ _ Ev).
        * cbn [failed last_id]. destruct (Lb6 eq_refl) as [[F1 _]|[F1 _]]; congruence.
        * cbn [failed last_hash]. destruct (Lb6 eq_refl) as [[_ F2]|[_ F2]]; congruence.
    - exists (set_not_empty st2), OffChain. split; [reflexivity|]. split; [reflexivity|].
      split; [reflexivity|]. cbn [andb]. split; [|split; [|split; [reflexivity|split; [exact Hla1|exact Hla2]]]].
      + apply (WInv_ext c U st2 (set_not_empty st2)); [reflexivity..|].
        eapply WInv_drop_off; [exact W|]. intros sb Gs. rewrite G in Gs. injection Gs as <-.
        cbn [s_lc s_b]. split; [reflexivity|].
        destruct Hcm as [[_ Hp]|(E & _)]; [exact Hp|]. specialize (Hlg E). discriminate.
      + intros h. now rewrite andb_false_r.
  Qed.

  (* ---------------- the two chains, parent known ---------------- *)
  Lemma NoDup_app_intro {A} (l l' : list A) :
    NoDup l -> NoDup l' -> (forall a, In a l -> ~ In a l') -> NoDup (l ++ l').
  Proof.
    induction l as [|a l IH]; intros H1 H2 Hd; [exact H2|]. cbn [app].
    inversion H1 as [|? ? Ha Hl]; subst. constructor.
    - rewrite in_app_iff. intros [?|Hi]; [contradiction|]. apply (Hd a); [now left|exact Hi].
    - apply IH; auto. intros y Hy. apply Hd. now right.
  Qed.

  Lemma NoDup_app_l {A} (l l' : list A) : NoDup (l ++ l') -> NoDup l.
  Proof.
    induction l as [|a l IH]; intros H; [constructor|]. cbn [app] in H.
    inversion H as [|? ? Ha Hl]; subst. constructor; [|auto].
    intros Hi. apply Ha. apply in_app_iff. now left.
  Qed.

  Lemma add_chains_B st lcr b :
    WInv c U st lcr 0 -> In b U -> get_block st (b_hash b) = None ->
    get_block st (b_prev b) <> None ->
    exists newtl above s below,
      lcr = above ++ s :: below
      /\ add_chains c b (tip_hash lcr) (inserted st b)
         = Ok (inserted st b, hashes (b :: newtl), hashes above)
      /\ linked_dn U (b :: newtl) (s :: below)
      /\ (forall y, In y newtl -> sget (blocks st) (b_hash y) = Some y /\ ~ In y lcr)
      /\ (length (b :: newtl) + length lcr <= S (length (blocks st)))%nat.
  Proof.
    intros W Hb Hn Hp.
    set (st2 := inserted st b).
    pose proof (inserted_inv st lcr b W Hb Hn) as W2. fold st2 in W2.
    assert (G2 : get_block st2 (b_hash b) = Some (mkSB b false)).
    { unfold get_block, st2, inserted; cbn [blocks]. now rewrite aget_aset, N.eqb_refl. }
    assert (Hkeep : forall h, get_block st h <> None -> get_block st2 h <> None).
    { intros h Hh. unfold get_block, st2, inserted; cbn [blocks]. rewrite aget_aset.
      destruct (h =? b_hash b); [discriminate|exact Hh]. }
    assert (W20 : WInv c U st2 lcr 0).
    { eapply WInv_drop_off; [exact W2|]. intros sb Gs. rewrite G2 in Gs. injection Gs as <-.
      cbn [s_lc s_b]. auto. }
    assert (Hnl : ~ In b lcr).
    { intros Hi. pose proof (w_lc _ _ _ _ _ W b Hi). congruence. }
    destruct (ncf_found st2 lcr W20 (N.to_nat (b_id b)) (b_hash b) b []) as
      (path & above & s & below & E & Hl & Hst & Hhd & Hncf).
    { apply (get_sget _ _ _ G2). }
    { lia. }
    destruct path as [|b' newtl].
    { exfalso. cbn [app hd_error] in Hhd. injection Hhd as ->. apply Hnl. rewrite E. apply in_elt. }
    cbn [app hd_error] in Hhd. injection Hhd as ->.
    assert (HinU : forall a, In a ((b :: newtl) ++ s :: below) -> In a U).
    { intros a Ha. apply in_app_iff in Ha as [Ha|Ha].
      - destruct (Hst a Ha) as [Hs _]. apply (proj2 (w_store _ _ _ _ _ W20) _ _ Hs).
      - eapply chain_ok_in; [apply (w_chain _ _ _ _ _ W)|]. rewrite E. apply in_app_iff. now right. }
    assert (Hpl : plinked ((b :: newtl) ++ s :: below)).
    { apply (linked_dn_plinked U); [exact Hl|].
      apply (chain_ok_plinked U), (chain_ok_app_r U above). rewrite <- E. apply (w_chain _ _ _ _ _ W). }
    assert (Hlen2 : length (blocks st2) = S (length (blocks st))).
    { unfold st2, inserted; cbn [blocks]. apply length_aset_new. exact Hn. }
    assert (Hnd : NoDup (hashes ((b :: newtl) ++ lcr))).
    { unfold hashes. rewrite map_app. apply NoDup_app_intro.
      - pose proof (plinked_nodup c U _ HU HinU Hpl) as Hnd. unfold hashes in Hnd. rewrite map_app in Hnd.
        eapply NoDup_app_l; eauto.
      - apply (chain_hashes_nodup c U _ HU (w_chain _ _ _ _ _ W)).
      - intros h Hh Hh'. apply in_map_iff in Hh as (y & <- & Hy). apply in_hashes in Hh' as (z & Hz & Ez).
        assert (z = y).
        { eapply hash_inj; eauto.
          - eapply chain_ok_in; [apply (w_chain _ _ _ _ _ W)|exact Hz].
          - apply HinU. apply in_app_iff. now left. }
        subst z. destruct (Hst y Hy) as [_ Hny]. contradiction. }
    assert (Hbound : (length ((b :: newtl) ++ lcr) <= length (blocks st2))%nat).
    { apply stored_length; [exact Hnd|]. intros y Hy. apply in_app_iff in Hy as [Hy|Hy].
      - destruct (Hst y Hy) as [Hs _]. destruct (sget_get _ _ _ Hs) as (f & ->). discriminate.
      - rewrite (w_lc _ _ _ _ _ W20 y Hy). discriminate. }
    rewrite app_length in Hbound.
    exists newtl, above, s, below. split; [exact E|]. split.
    - unfold add_chains. cbv zeta. fold st2.
      rewrite Hncf by (rewrite E, app_length in Hbound; cbn [length] in *; lia).
      cbn [rev app bind].
      replace (tip_hash lcr) with (match above with a :: _ => b_hash a | [] => b_hash s end)
        by (rewrite E; now destruct above).
      rewrite (ocf_spec st2 lcr 0 s W20 above below []); [reflexivity| | | |].
      + intros y Hy. rewrite E. apply in_app_iff in Hy as [Hy|[<-|[]]]; apply in_app_iff; [now left|right; now left].
      + apply (chain_ok_plinked U). rewrite <- E. apply (w_chain _ _ _ _ _ W).
      + pose proof (chain_hashes_nodup c U _ HU (w_chain _ _ _ _ _ W)) as Hnd'.
        rewrite E in Hnd'. unfold hashes in Hnd'. rewrite map_app in Hnd'. cbn [map] in Hnd'.
        apply NoDup_remove_2 in Hnd'. intros Hi. apply Hnd'. apply in_app_iff. now left.
      + rewrite E, app_length in Hbound. cbn [length] in *. lia.
    - split; [exact Hl|]. split; [|lia].
      intros y Hy. destruct (Hst y (or_intror Hy)) as [Hs Hny]. split; [|exact Hny].
      unfold st2 in Hs. rewrite sget_inserted in Hs. destruct (N.eqb_spec (b_hash y) (b_hash b)) as [Ey|_]; [|exact Hs].
      exfalso. injection Hs as <-.
      (* b would occur twice in a list with distinct hashes *)
      pose proof (plinked_nodup c U _ HU HinU Hpl) as Hnd'. cbn [app hashes map] in Hnd'.
      inversion Hnd' as [|? ? Hx _]; subst. apply Hx. apply in_map_iff. exists b. split; [reflexivity|].
      apply in_app_iff. now left.
  Qed.

  (* ---------------- the two chains, empty store ---------------- *)
  Lemma add_chains_A st b :
    WInv c U st [] 0 -> In b U -> blocks st = [] -> is_root U b ->
    add_chains c b 0 (inserted st b) = Ok (inserted st b, [b_hash b], []).
  Proof.
    intros W Hb Hbl Hr.
    assert (Hn : get_block st (b_hash b) = None) by (unfold get_block; now rewrite Hbl).
    pose proof (inserted_inv st [] b W Hb Hn) as W2.
    set (st2 := inserted st b) in *.
    assert (Hbl2 : blocks st2 = [(b_hash b, mkSB b false)]).
    { unfold st2, inserted; cbn [blocks]. now rewrite Hbl. }
    assert (Hpb : b_prev b <> b_hash b) by (intros E; apply (Hr b Hb); now symmetry).
    pose proof (u_nz _ _ HU b Hb) as Hnz.
    unfold add_chains. cbv zeta. rewrite Hbl2. cbn [length new_chain_from].
    unfold get_block at 1. rewrite Hbl2. cbn [aget]. rewrite N.eqb_refl. cbn [s_lc s_b].
    destruct (N.eqb_spec (b_hash b) 0) as [?|_]; [contradiction|].
    unfold get_block at 1. rewrite Hbl2. cbn [aget].
    destruct (N.eqb_spec (b_prev b) (b_hash b)) as [?|_]; [contradiction|].
    cbn [rev app bind length].
    rewrite (latest_hash_spec _ _ _ W2), (latest_id_spec _ _ _ W2). cbn [bind].
    rewrite N.eqb_refl. cbn [negb andb].
    assert (Eo : old_chain_upto 2 st2 0 1 [] = []).
    { cbn [old_chain_upto length Nat.leb]. unfold get_block. rewrite Hbl2. cbn [aget].
      destruct (N.eqb_spec 0 (b_hash b)) as [E|_]; [congruence|reflexivity]. }
    destruct (ring_empty st2); cbn [bind]; now rewrite Eo.
  Qed.

  (* ---------------- the golden-ticket walk from the parent does not see the new block ---------------- *)
  Lemma gt_walk_ins st b n : In b U ->
    store_ok U (blocks st) -> forall h d f,
    (forall y, sget (blocks (inserted st b)) h = Some y -> b_id y < b_id b) ->
    gt_walk n (inserted st b) h d f = gt_walk n st h d f.
  Proof.
    intros Hb Hso. induction n as [|n IH]; intros h d f Hlt; cbn [gt_walk]; [reflexivity|].
    assert (Hne : h <> b_hash b).
    { intros ->. specialize (Hlt b). rewrite sget_inserted, N.eqb_refl in Hlt. specialize (Hlt eq_refl). lia. }
    assert (Eg : get_block (inserted st b) h = get_block st h).
    { unfold get_block, inserted; cbn [blocks]. rewrite aget_aset.
      destruct (N.eqb_spec h (b_hash b)); [contradiction|reflexivity]. }
    rewrite Eg. destruct (get_block st h) as [sb|] eqn:G; [|reflexivity].
    apply IH. intros y' Hy'.
    pose proof (get_sget _ _ _ G) as Sy. destruct (proj2 Hso _ _ Sy) as [_ HyU].
    assert (Hy'U : In y' U /\ b_hash y' = b_prev (s_b sb)).
    { rewrite sget_inserted in Hy'. destruct (N.eqb_spec (b_prev (s_b sb)) (b_hash b)) as [E|_].
      - injection Hy' as <-. split; [exact Hb|now symmetry].
      - destruct (proj2 Hso _ _ Hy') as [E' HU']. auto. }
    destruct Hy'U as [Hy'U Ey'].
    pose proof (u_link _ _ HU _ _ HyU Hy'U (eq_sym Ey')).
    assert (b_id (s_b sb) < b_id b).
    { apply Hlt. rewrite sget_inserted. destruct (N.eqb_spec h (b_hash b)); [contradiction|exact Sy]. }
    lia.
  Qed.

  Lemma gt_count_valid_ins st b : In b U -> store_ok U (blocks st) ->
    gt_count_valid (inserted st b) (b_prev b) (b_gt b) = gt_count_valid st (b_prev b) (b_gt b).
  Proof.
    intros Hb Hso. unfold gt_count_valid. rewrite (gt_walk_ins st b _ Hb Hso); [reflexivity|].
    intros y Hy. rewrite sget_inserted in Hy.
    destruct (N.eqb_spec (b_prev b) (b_hash b)) as [E|_].
    - injection Hy as <-. pose proof (u_link _ _ HU b b Hb Hb E). lia.
    - destruct (proj2 Hso _ _ Hy) as [E' HyU]. pose proof (u_link _ _ HU b y Hb HyU (eq_sym E')). lia.
  Qed.
End Add.
