(* Basic facts used by the proofs about model/Chain.v:
   sorted utxo sets (uins / udel), the ledger algebra (apply / undo of a block),
   sorted association lists (aget / aset / adel), set_nth. *)
From Saito Require Import Base Chain.
From Coq Require Import Sorted.

(* ------------------------------------------------------------------ *)
(* sorted duplicate-free lists of N                                    *)
(* ------------------------------------------------------------------ *)
Definition usorted (u : list N) : Prop := StronglySorted N.lt u.

Lemma usorted_nil : usorted [].
Proof. constructor. Qed.

Lemma usorted_inv x t : usorted (x :: t) -> usorted t /\ Forall (N.lt x) t.
Proof. intros H; inversion H; subst; split; assumption. Qed.

Lemma usorted_ext u v :
  usorted u -> usorted v -> (forall x, In x u <-> In x v) -> u = v.
Proof.
  revert v; induction u as [|a u IH]; intros v Hu Hv Hx.
  - destruct v as [|b v]; [reflexivity|]. exfalso. apply (Hx b). now left.
  - destruct v as [|b v]; [exfalso; apply (Hx a); now left|].
    apply usorted_inv in Hu as [Hu Ha]. apply usorted_inv in Hv as [Hv Hb].
    rewrite Forall_forall in Ha, Hb.
    assert (a = b) as ->.
    { destruct (proj1 (Hx a) (or_introl eq_refl)) as [E|I]; [now symmetry|].
      destruct (proj2 (Hx b) (or_introl eq_refl)) as [E|I']; [assumption|].
      specialize (Ha _ I'). specialize (Hb _ I). lia. }
    f_equal. apply IH; try assumption.
    intros x; split; intros I.
    + destruct (proj1 (Hx x) (or_intror I)) as [E|I']; [|assumption].
      subst x. specialize (Ha _ I). lia.
    + destruct (proj2 (Hx x) (or_intror I)) as [E|I']; [|assumption].
      subst x. specialize (Hb _ I). lia.
Qed.

Lemma In_uins x k u : In x (uins k u) <-> x = k \/ In x u.
Proof.
  induction u as [|a t IH]; cbn [uins In].
  - intuition.
  - destruct (N.eqb_spec k a) as [->|Hne].
    + cbn [In]. intuition.
    + destruct (k <? a); cbn [In]; rewrite ?IH; intuition.
Qed.

Lemma uins_sorted k u : usorted u -> usorted (uins k u).
Proof.
  induction u as [|a t IH]; cbn [uins]; intros Hs.
  - constructor; constructor.
  - destruct (N.eqb_spec k a) as [->|Hne]; [assumption|].
    destruct (N.ltb_spec k a) as [Hlt|Hge].
    + constructor; [assumption|]. constructor; [assumption|].
      apply usorted_inv in Hs as [_ Ha]. eapply Forall_impl; [|exact Ha].
      intros; cbn beta in *; lia.
    + apply usorted_inv in Hs as [Ht Ha]. constructor; [apply IH; assumption|].
      rewrite Forall_forall in *. intros y Hy. apply In_uins in Hy as [->|Hy]; [lia|auto].
Qed.

Lemma In_udel x k u : usorted u -> (In x (udel k u) <-> x <> k /\ In x u).
Proof.
  induction u as [|a t IH]; cbn [udel In]; intros Hs.
  - intuition.
  - apply usorted_inv in Hs as [Ht Ha]. rewrite Forall_forall in Ha.
    destruct (N.eqb_spec k a) as [->|Hne].
    + split.
      * intros I. split; [|now right]. specialize (Ha _ I). lia.
      * intros [Hn [E|I]]; [congruence|assumption].
    + destruct (N.ltb_spec k a) as [Hlt|Hge]; cbn [In].
      * split; [|intuition]. intros [E|I]; split; auto.
        -- lia.
        -- specialize (Ha _ I). lia.
      * rewrite (IH Ht). intuition.
Qed.

Lemma udel_sorted k u : usorted u -> usorted (udel k u).
Proof.
  induction u as [|a t IH]; cbn [udel]; intros Hs; [assumption|].
  pose proof (usorted_inv _ _ Hs) as [Ht Ha].
  destruct (k =? a); [assumption|]. destruct (k <? a); [assumption|].
  constructor; [apply IH; assumption|].
  rewrite Forall_forall in *. intros y Hy. apply (In_udel _ _ _ Ht) in Hy as [_ Hy]. auto.
Qed.

(* folds of inserts / deletes *)
Lemma fold_uins_sorted l u : usorted u -> usorted (fold_left (fun u k => uins k u) l u).
Proof. revert u; induction l as [|k l IH]; intros u Hs; cbn [fold_left]; [assumption|]. apply IH, uins_sorted, Hs. Qed.

Lemma fold_udel_sorted l u : usorted u -> usorted (fold_left (fun u k => udel k u) l u).
Proof. revert u; induction l as [|k l IH]; intros u Hs; cbn [fold_left]; [assumption|]. apply IH, udel_sorted, Hs. Qed.

Lemma In_fold_uins x l u : In x (fold_left (fun u k => uins k u) l u) <-> In x l \/ In x u.
Proof.
  revert u; induction l as [|k l IH]; intros u; cbn [fold_left In]; [intuition|].
  rewrite IH, In_uins. intuition.
Qed.

Lemma In_fold_udel x l u : usorted u ->
  (In x (fold_left (fun u k => udel k u) l u) <-> ~ In x l /\ In x u).
Proof.
  revert u; induction l as [|k l IH]; intros u Hs; cbn [fold_left In]; [intuition|].
  rewrite (IH _ (udel_sorted k u Hs)), (In_udel _ _ _ Hs). intuition.
Qed.

(* ------------------------------------------------------------------ *)
(* ledger algebra                                                      *)
(* ------------------------------------------------------------------ *)
Definition blk_ins (b : blk) : list N := concat (map fst (b_txs b)).
Definition blk_outs (b : blk) : list N := concat (map snd (b_txs b)).

Lemma apply_tx_sorted u tx : usorted u -> usorted (apply_tx u tx).
Proof. intros; unfold apply_tx. now apply fold_uins_sorted, fold_udel_sorted. Qed.
Lemma undo_tx_sorted u tx : usorted u -> usorted (undo_tx u tx).
Proof. intros; unfold undo_tx. now apply fold_udel_sorted, fold_uins_sorted. Qed.

Lemma In_apply_tx x u tx : usorted u ->
  (In x (apply_tx u tx) <-> In x (snd tx) \/ (In x u /\ ~ In x (fst tx))).
Proof. intros Hs; unfold apply_tx. rewrite In_fold_uins, (In_fold_udel _ _ _ Hs). intuition. Qed.

Lemma In_undo_tx x u tx : usorted u ->
  (In x (undo_tx u tx) <-> (In x u \/ In x (fst tx)) /\ ~ In x (snd tx)).
Proof.
  intros Hs; unfold undo_tx.
  rewrite In_fold_udel by (now apply fold_uins_sorted). rewrite In_fold_uins. intuition.
Qed.

Lemma apply_block_sorted u b : usorted u -> usorted (apply_block u b).
Proof.
  unfold apply_block. generalize (b_txs b) as txs. intros txs; revert u.
  induction txs as [|tx txs IH]; intros u Hs; cbn [fold_left]; [assumption|].
  apply IH, apply_tx_sorted, Hs.
Qed.

Lemma undo_block_sorted u b : usorted u -> usorted (undo_block u b).
Proof.
  unfold undo_block. generalize (b_txs b) as txs. intros txs; revert u.
  induction txs as [|tx txs IH]; intros u Hs; cbn [fold_left]; [assumption|].
  apply IH, undo_tx_sorted, Hs.
Qed.

(* inputs and outputs of one block are disjoint *)
Definition io_disjoint (b : blk) : Prop := forall x, In x (blk_ins b) -> ~ In x (blk_outs b).

Lemma In_apply_txs x txs u : usorted u ->
  (forall y, In y (concat (map fst txs)) -> ~ In y (concat (map snd txs))) ->
  (In x (fold_left apply_tx txs u) <->
   In x (concat (map snd txs)) \/ (In x u /\ ~ In x (concat (map fst txs)))).
Proof.
  revert u; induction txs as [|tx txs IH]; intros u Hs Hd; cbn [fold_left map concat].
  - cbn [In]. intuition.
  - rewrite IH; [|now apply apply_tx_sorted|].
    2:{ intros y Hy Ho. apply (Hd y); cbn [map concat]; rewrite in_app_iff; auto. }
    rewrite (In_apply_tx _ _ _ Hs), !in_app_iff.
    assert (Hx : In x (snd tx) -> ~ In x (concat (map fst txs))).
    { intros Ho Hi. apply (Hd x); cbn [map concat]; rewrite in_app_iff; auto. }
    intuition.
Qed.

Lemma In_undo_txs x txs u : usorted u ->
  (forall y, In y (concat (map fst txs)) -> ~ In y (concat (map snd txs))) ->
  (In x (fold_left undo_tx txs u) <->
   (In x u \/ In x (concat (map fst txs))) /\ ~ In x (concat (map snd txs))).
Proof.
  revert u; induction txs as [|tx txs IH]; intros u Hs Hd; cbn [fold_left map concat].
  - cbn [In]. intuition.
  - rewrite IH; [|now apply undo_tx_sorted|].
    2:{ intros y Hy Ho. apply (Hd y); cbn [map concat]; rewrite in_app_iff; auto. }
    rewrite (In_undo_tx _ _ _ Hs), !in_app_iff.
    assert (Hx : In x (concat (map fst txs)) -> ~ In x (snd tx)).
    { intros Hi Ho. apply (Hd x); cbn [map concat]; rewrite in_app_iff; auto. }
    intuition.
Qed.

Lemma In_apply_block x u b : usorted u -> io_disjoint b ->
  (In x (apply_block u b) <-> In x (blk_outs b) \/ (In x u /\ ~ In x (blk_ins b))).
Proof. intros; now apply In_apply_txs. Qed.

Lemma In_undo_block x u b : usorted u -> io_disjoint b ->
  (In x (undo_block u b) <-> (In x u \/ In x (blk_ins b)) /\ ~ In x (blk_outs b)).
Proof. intros; now apply In_undo_txs. Qed.

(* what block validation is supposed to guarantee about the value-carrying
   slips of a block relative to the spendable set it is wound on (C01):
   inputs spendable, outputs fresh, no slip both consumed and created.
   (Pairwise distinctness of inputs / of outputs is NOT needed: the spendable
   set is a set, inserting / deleting twice is idempotent.) *)
Definition wf_against (u : list N) (b : blk) : Prop :=
  (forall x, In x (blk_ins b) -> In x u)
  /\ (forall x, In x (blk_outs b) -> ~ In x u)
  /\ io_disjoint b.

(* the mirror condition on a state in which b is applied *)
Definition wf_applied (u : list N) (b : blk) : Prop :=
  (forall x, In x (blk_outs b) -> In x u)
  /\ (forall x, In x (blk_ins b) -> ~ In x u)
  /\ io_disjoint b.

Theorem undo_apply u b : usorted u -> wf_against u b ->
  undo_block (apply_block u b) b = u.
Proof.
  intros Hs (Hi & Ho & Hd).
  apply usorted_ext; [now apply undo_block_sorted, apply_block_sorted|assumption|].
  intros x. rewrite In_undo_block by (auto using apply_block_sorted).
  rewrite In_apply_block by assumption.
  specialize (Hi x). specialize (Ho x). specialize (Hd x).
  destruct (in_dec N.eq_dec x (blk_ins b)); destruct (in_dec N.eq_dec x (blk_outs b)); intuition.
Qed.

Theorem apply_undo u b : usorted u -> wf_applied u b ->
  apply_block (undo_block u b) b = u.
Proof.
  intros Hs (Ho & Hi & Hd).
  apply usorted_ext; [now apply apply_block_sorted, undo_block_sorted|assumption|].
  intros x. rewrite In_apply_block by (auto using undo_block_sorted).
  rewrite In_undo_block by assumption.
  specialize (Hi x). specialize (Ho x). specialize (Hd x).
  destruct (in_dec N.eq_dec x (blk_ins b)); destruct (in_dec N.eq_dec x (blk_outs b)); intuition.
Qed.

Lemma wf_against_applied u b : usorted u -> wf_against u b -> wf_applied (apply_block u b) b.
Proof.
  intros Hs (Hi & Ho & Hd). repeat split; [| |assumption]; intros x Hx.
  - rewrite In_apply_block by assumption. now left.
  - rewrite In_apply_block by assumption. intros [H|[_ H]]; [exact (Hd x Hx H)|exact (H Hx)].
Qed.

(* ------------------------------------------------------------------ *)
(* association lists sorted by key                                     *)
(* ------------------------------------------------------------------ *)
Section AMapFacts.
  Context {V : Type}.
  Implicit Types m : list (N * V).

  Definition asorted m : Prop := usorted (map fst m).

  Lemma asorted_nil : asorted (@nil (N * V)).
  Proof. constructor. Qed.

  Lemma asorted_inv k v m : asorted ((k, v) :: m) -> asorted m /\ forall k', In k' (map fst m) -> k < k'.
  Proof.
    unfold asorted; cbn [map fst]; intros H. apply usorted_inv in H as [H1 H2].
    split; [assumption|]. now rewrite Forall_forall in H2.
  Qed.

  Lemma aget_none k m : aget k m = None <-> ~ In k (map fst m).
  Proof.
    induction m as [|[k' v'] t IH]; cbn [aget map fst In]; [intuition|].
    destruct (N.eqb_spec k k') as [->|Hne]; [split; [discriminate|intuition]|].
    rewrite IH. intuition.
  Qed.

  Lemma aget_in k v m : aget k m = Some v -> In (k, v) m.
  Proof.
    induction m as [|[k' v'] t IH]; cbn [aget In]; [discriminate|].
    destruct (N.eqb_spec k k') as [->|Hne]; [intros [= ->]; now left|auto].
  Qed.

  Lemma in_aget k v m : asorted m -> In (k, v) m -> aget k m = Some v.
  Proof.
    induction m as [|[k' v'] t IH]; cbn [aget In]; [intuition|].
    intros Hs [[= -> ->]|Hi]; [now rewrite N.eqb_refl|].
    apply asorted_inv in Hs as [Ht Hk].
    destruct (N.eqb_spec k k') as [->|Hne]; [|auto].
    exfalso. assert (k' < k') by (apply Hk, (in_map fst _ _ Hi)). lia.
  Qed.

  Lemma aget_aset k' k v m : aget k' (aset k v m) = if k' =? k then Some v else aget k' m.
  Proof.
    induction m as [|[k1 v1] t IH]; cbn [aset aget]; [reflexivity|].
    destruct (N.eqb_spec k k1) as [->|Hne]; cbn [aget]; [now destruct (k' =? k1)|].
    destruct (k <? k1); cbn [aget]; [reflexivity|].
    destruct (N.eqb_spec k' k1) as [->|Hne'].
    - destruct (N.eqb_spec k1 k); [congruence|reflexivity].
    - exact IH.
  Qed.

  Lemma keys_aset k' k v m : In k' (map fst (aset k v m)) <-> k' = k \/ In k' (map fst m).
  Proof.
    induction m as [|[k1 v1] t IH]; cbn [aset map fst In]; [intuition|].
    destruct (N.eqb_spec k k1) as [->|Hne]; cbn [map fst In]; [intuition|].
    destruct (k <? k1); cbn [map fst In]; [intuition|]. rewrite IH. intuition.
  Qed.

  Lemma aset_sorted k v m : asorted m -> asorted (aset k v m).
  Proof.
    unfold asorted. induction m as [|[k1 v1] t IH]; cbn [aset map fst]; intros Hs.
    - constructor; constructor.
    - destruct (N.eqb_spec k k1) as [->|Hne]; [exact Hs|].
      destruct (N.ltb_spec k k1) as [Hlt|Hge]; cbn [map fst].
      + constructor; [exact Hs|]. constructor; [assumption|].
        apply usorted_inv in Hs as [_ Ha]. eapply Forall_impl; [|exact Ha]. intros; cbn beta in *; lia.
      + apply usorted_inv in Hs as [Ht Ha]. constructor; [now apply IH|].
        rewrite Forall_forall in *. intros y Hy. apply keys_aset in Hy as [->|Hy]; [lia|auto].
  Qed.

  Lemma aget_adel k' k m : asorted m -> aget k' (adel k m) = if k' =? k then None else aget k' m.
  Proof.
    induction m as [|[k1 v1] t IH]; cbn [adel aget]; intros Hs.
    - now destruct (k' =? k).
    - apply asorted_inv in Hs as [Ht Hk].
      destruct (N.eqb_spec k k1) as [->|Hne]; cbn [aget].
      + destruct (N.eqb_spec k' k1) as [->|Hne']; [|reflexivity].
        apply aget_none. intros Hi. specialize (Hk _ Hi). lia.
      + destruct (N.eqb_spec k' k1) as [->|Hne'].
        * destruct (N.eqb_spec k1 k); [congruence|reflexivity].
        * now apply IH.
  Qed.

  Lemma keys_adel k' k m : In k' (map fst (adel k m)) -> In k' (map fst m).
  Proof.
    induction m as [|[k1 v1] t IH]; cbn [adel map fst In]; [intuition|].
    destruct (k =? k1); cbn [map fst In]; intuition.
  Qed.

  Lemma adel_sorted k m : asorted m -> asorted (adel k m).
  Proof.
    unfold asorted. induction m as [|[k1 v1] t IH]; cbn [adel map fst]; intros Hs; [assumption|].
    pose proof (usorted_inv _ _ Hs) as [Ht Ha].
    destruct (k =? k1); cbn [map fst]; [assumption|].
    constructor; [now apply IH|]. rewrite Forall_forall in *. intros y Hy. apply Ha, (keys_adel _ _ _ Hy).
  Qed.

  Lemma asorted_ext m1 m2 : asorted m1 -> asorted m2 ->
    (forall k, aget k m1 = aget k m2) -> m1 = m2.
  Proof.
    revert m2; induction m1 as [|[k1 v1] t1 IH]; intros m2 H1 H2 Hg.
    - destruct m2 as [|[k2 v2] t2]; [reflexivity|].
      specialize (Hg k2). cbn [aget] in Hg. rewrite N.eqb_refl in Hg. discriminate.
    - destruct m2 as [|[k2 v2] t2].
      { specialize (Hg k1). cbn [aget] in Hg. rewrite N.eqb_refl in Hg. discriminate. }
      pose proof (asorted_inv _ _ _ H1) as [Ht1 Hk1]. pose proof (asorted_inv _ _ _ H2) as [Ht2 Hk2].
      assert (k1 = k2) as ->.
      { pose proof (Hg k1) as G1. pose proof (Hg k2) as G2. cbn [aget] in G1, G2.
        rewrite N.eqb_refl in G1, G2.
        destruct (N.eqb_spec k1 k2) as [|Hne]; [assumption|].
        destruct (N.eqb_spec k2 k1) as [|_]; [congruence|].
        symmetry in G1. apply aget_in, (in_map fst) in G1. apply aget_in, (in_map fst) in G2.
        cbn [fst] in G1, G2. specialize (Hk1 _ G2). specialize (Hk2 _ G1). lia. }
      pose proof (Hg k2) as G. cbn [aget] in G. rewrite N.eqb_refl in G. injection G as ->.
      f_equal. apply IH; try assumption.
      intros k. specialize (Hg k). cbn [aget] in Hg.
      destruct (N.eqb_spec k k2) as [E|Hne]; [clear Hg; subst k|assumption].
      transitivity (@None V); [|symmetry]; apply aget_none; intros Hi.
      + specialize (Hk1 _ Hi). lia.
      + specialize (Hk2 _ Hi). lia.
  Qed.

  Lemma length_aset_new k v m : aget k m = None -> length (aset k v m) = S (length m).
  Proof.
    induction m as [|[k1 v1] t IH]; cbn [aset aget length]; [reflexivity|].
    destruct (k =? k1); [discriminate|]. destruct (k <? k1); cbn [length]; [reflexivity|].
    intros H. now rewrite IH.
  Qed.

  Lemma asorted_keys_nodup m : asorted m -> NoDup (map fst m).
  Proof.
    unfold asorted. induction (map fst m) as [|a l IH]; intros Hs; constructor.
    - apply usorted_inv in Hs as [_ Ha]. rewrite Forall_forall in Ha. intros Hi. specialize (Ha _ Hi). lia.
    - apply IH. now apply usorted_inv in Hs.
  Qed.
End AMapFacts.

(* ------------------------------------------------------------------ *)
(* set_nth                                                             *)
(* ------------------------------------------------------------------ *)
Lemma length_set_nth {A} p (x : A) l : length (set_nth p x l) = length l.
Proof. revert p; induction l as [|y t IH]; intros [|p]; cbn [set_nth length]; auto. Qed.

Lemma nth_set_nth_eq {A} p (x d : A) l : (p < length l)%nat -> nth p (set_nth p x l) d = x.
Proof.
  revert p; induction l as [|y t IH]; intros [|p] H; cbn [set_nth nth length] in *; try lia; auto.
  apply IH. lia.
Qed.

Lemma nth_set_nth_neq {A} p p' (x d : A) l : p' <> p -> nth p' (set_nth p x l) d = nth p' l d.
Proof.
  revert p p'; induction l as [|y t IH]; intros [|p] [|p'] H; cbn [set_nth nth]; try congruence; auto.
Qed.
