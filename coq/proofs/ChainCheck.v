(* Executable checkers for the hypotheses of the chain theorems (universe
   well-formedness, ledger well-formedness of valid blocks, orphan-free delivery
   orders) with their soundness proofs, and the concrete witnesses of the
   refuted statements. *)
From Saito Require Import Base Chain ChainBasics ChainInv ChainWind ChainAdd ChainProofs.

(* ------------------------------------------------------------------ *)
(* universe checker                                                    *)
(* ------------------------------------------------------------------ *)
Fixpoint nodup_b (l : list N) : bool :=
  match l with [] => true | x :: t => negb (existsb (N.eqb x) t) && nodup_b t end.

Lemma nodup_b_ok l : nodup_b l = true -> NoDup l.
Proof.
  induction l as [|x t IH]; cbn [nodup_b]; intros H; constructor.
  - apply andb_true_iff in H as [H _]. apply negb_true_iff in H. intros Hi.
    assert (existsb (N.eqb x) t = true); [|congruence].
    apply existsb_exists. exists x. split; [exact Hi|apply N.eqb_refl].
  - apply IH. now apply andb_true_iff in H as [_ H].
Qed.

Definition univ_check (c : cfg) (U : list blk) : bool :=
  nodup_b (hashes U)
  && forallb (fun b => negb (b_hash b =? 0) && (1 <=? b_id b) && (b_id b <=? 2 * gp_of c)) U
  && forallb (fun b => forallb (fun p => negb (b_prev b =? b_hash p) || (b_id b =? b_id p + 1)) U) U.

Lemma univ_check_ok c U : univ_check c U = true -> univ_ok c U.
Proof.
  unfold univ_check. intros H. apply andb_true_iff in H as [H H3]. apply andb_true_iff in H as [H1 H2].
  rewrite forallb_forall in H2, H3. split.
  - now apply nodup_b_ok.
  - intros b Hb. specialize (H2 b Hb). apply andb_true_iff in H2 as [H2 _]. apply andb_true_iff in H2 as [H2 _].
    now apply negb_true_iff, N.eqb_neq in H2.
  - intros b Hb. specialize (H2 b Hb). apply andb_true_iff in H2 as [H2 Hc]. apply andb_true_iff in H2 as [_ Hb'].
    apply N.leb_le in Hb', Hc. lia.
  - intros b p Hb Hp E. specialize (H3 b Hb). rewrite forallb_forall in H3. specialize (H3 p Hp).
    apply orb_true_iff in H3 as [H3|H3].
    + apply negb_true_iff, N.eqb_neq in H3. contradiction.
    + now apply N.eqb_eq in H3.
Qed.

(* ------------------------------------------------------------------ *)
(* ledger well-formedness checker                                      *)
(* ------------------------------------------------------------------ *)
Definition memb (x : N) (u : list N) : bool := existsb (N.eqb x) u.

Lemma memb_In x u : memb x u = true <-> In x u.
Proof.
  unfold memb. rewrite existsb_exists. split.
  - intros (y & Hy & E). apply N.eqb_eq in E. now subst.
  - intros H. exists x. split; [exact H|apply N.eqb_refl].
Qed.

Definition wf_dec (u : list N) (b : blk) : bool :=
  forallb (fun x => memb x u) (blk_ins b)
  && forallb (fun x => negb (memb x u)) (blk_outs b)
  && forallb (fun x => negb (memb x (blk_outs b))) (blk_ins b).

Lemma wf_dec_ok u b : wf_dec u b = true -> wf_against u b.
Proof.
  unfold wf_dec. intros H. apply andb_true_iff in H as [H H3]. apply andb_true_iff in H as [H1 H2].
  rewrite forallb_forall in H1, H2, H3. repeat split.
  - intros x Hx. now apply memb_In, H1.
  - intros x Hx Hi. specialize (H2 x Hx). apply negb_true_iff in H2. apply memb_In in Hi. congruence.
  - intros x Hx Hi. specialize (H3 x Hx). apply negb_true_iff in H3. apply memb_In in Hi. congruence.
Qed.

(* ancestors of b inside U, nearest first *)
Fixpoint anc (U : list blk) (fuel : nat) (b : blk) : option (list blk) :=
  match fuel with
  | O => None
  | S f => match find_blk U (b_prev b) with
           | None => Some []
           | Some p => option_map (cons p) (anc U f p)
           end
  end.

Lemma find_blk_some U h p : find_blk U h = Some p -> In p U /\ b_hash p = h.
Proof.
  induction U as [|x U IH]; cbn [find_blk]; [discriminate|].
  destruct (N.eqb_spec (b_hash x) h) as [E|_].
  - intros [= <-]. split; [now left|exact E].
  - intros H. destruct (IH H). split; [now right|assumption].
Qed.

Lemma find_blk_in U p : NoDup (hashes U) -> In p U -> find_blk U (b_hash p) = Some p.
Proof.
  induction U as [|x U IH]; [contradiction|]. cbn [hashes map find_blk]. intros Hnd Hp.
  inversion Hnd as [|? ? Hx Hnd']; subst.
  destruct (N.eqb_spec (b_hash x) (b_hash p)) as [E|Hne].
  - destruct Hp as [->|Hp]; [reflexivity|]. exfalso. apply Hx. rewrite E. now apply in_map.
  - destruct Hp as [->|Hp]; [congruence|auto].
Qed.

Lemma chain_ok_anc c U : univ_ok c U -> forall rest b fuel,
  chain_ok U (b :: rest) -> (length rest < fuel)%nat -> anc U fuel b = Some rest.
Proof.
  intros HU. induction rest as [|p rest IH]; intros b fuel Hc Hf; (destruct fuel as [|fuel]; [cbn in Hf; lia|]);
    cbn [anc]; destruct Hc as (Hb & _ & Hl & Hc).
  - destruct (find_blk U (b_prev b)) as [p|] eqn:F; [|reflexivity].
    apply find_blk_some in F as [Hp E]. exfalso. exact (Hl p Hp E).
  - rewrite Hl. pose proof Hc as (Hp & _).
    rewrite (find_blk_in U p (u_nodup _ _ HU) Hp).
    rewrite (IH p fuel Hc); [reflexivity|]. cbn [length] in Hf. lia.
Qed.

Definition wf_check (U : list blk) : bool :=
  forallb (fun b => match anc U (S (length U)) b with
                    | Some rest => if b_valid b && forallb b_valid rest then wf_dec (replay rest) b else true
                    | None => false
                    end) U.

Lemma wf_check_ok c U : univ_ok c U -> wf_check U = true -> valid_wf U.
Proof.
  intros HU H b rest Hc. unfold wf_check in H. rewrite forallb_forall in H.
  pose proof Hc as (Hb & Hv & _ & Hc').
  specialize (H b Hb).
  assert (Hlen : (length rest < S (length U))%nat).
  { assert (length rest <= length U)%nat; [|lia].
    rewrite <- (map_length b_hash rest), <- (map_length b_hash U).
    apply NoDup_incl_length; [apply (chain_hashes_nodup c U _ HU Hc')|].
    intros h Hh. apply in_map_iff in Hh as (y & <- & Hy). apply in_map. eapply chain_ok_in; eauto. }
  rewrite (chain_ok_anc c U HU rest b _ Hc Hlen) in H.
  rewrite Hv in H. cbn [andb] in H.
  replace (forallb b_valid rest) with true in H.
  - now apply wf_dec_ok.
  - symmetry. apply forallb_forall. intros y Hy. eapply chain_ok_valid; eauto.
Qed.

(* ------------------------------------------------------------------ *)
(* orphan-free delivery orders (by hash, looked up in U)               *)
(* ------------------------------------------------------------------ *)
Definition is_root_b (U : list blk) (b : blk) : bool :=
  forallb (fun p => negb (b_hash p =? b_prev b)) U.

Lemma is_root_b_ok U b : is_root_b U b = true -> is_root U b.
Proof.
  unfold is_root_b. rewrite forallb_forall. intros H p Hp E. specialize (H p Hp).
  apply negb_true_iff, N.eqb_neq in H. contradiction.
Qed.

Definition parent_ok_b (U : list blk) (st : state) (b : blk) : bool :=
  (match blocks st with [] => is_root_b U b | _ => false end)
  || (match get_block st (b_prev b) with Some _ => true | None => false end).

Lemma parent_ok_b_ok U st b : parent_ok_b U st b = true -> parent_ok U st b.
Proof.
  unfold parent_ok_b, parent_ok. intros H. apply orb_true_iff in H as [H|H].
  - left. destruct (blocks st); [|discriminate]. split; [reflexivity|now apply is_root_b_ok].
  - right. destruct (get_block st (b_prev b)); [discriminate|discriminate].
Qed.

(* blocks named by a list of hashes *)
Fixpoint lookup (U : list blk) (order : list N) : option (list blk) :=
  match order with
  | [] => Some []
  | h :: t => match find_blk U h, lookup U t with
              | Some b, Some l => Some (b :: l)
              | _, _ => None
              end
  end.

Fixpoint orphan_free_b (c : cfg) (U : list blk) (st : state) (bs : list blk) : bool :=
  match bs with
  | [] => true
  | b :: t => parent_ok_b U st b
              && match add_block c st b with Ok (st', _) => orphan_free_b c U st' t | _ => true end
  end.

Lemma orphan_free_b_ok c U bs : forall st, (forall b, In b bs -> In b U) ->
  orphan_free_b c U st bs = true -> orphan_free c U st bs.
Proof.
  induction bs as [|b t IH]; intros st Hin H; cbn [orphan_free orphan_free_b] in *; [exact I|].
  apply andb_true_iff in H as [H1 H2]. split; [apply Hin; now left|].
  split; [now apply parent_ok_b_ok|].
  destruct (add_block c st b) as [[st' r]| |]; auto. apply IH; [|exact H2]. intros y Hy. apply Hin. now right.
Qed.

Lemma lookup_in U order : forall bs, lookup U order = Some bs -> forall b, In b bs -> In b U.
Proof.
  induction order as [|h t IH]; cbn [lookup]; intros bs H b Hb.
  - injection H as <-. contradiction.
  - destruct (find_blk U h) as [x|] eqn:F; [|discriminate].
    destruct (lookup U t) as [l|]; [|discriminate]. injection H as <-.
    destruct Hb as [<-|Hb]; [now apply find_blk_some in F|eauto].
Qed.

(* everything needed to apply the theorems to a concrete universe and order *)
Definition history_check (c : cfg) (U : list blk) (order : list N) : bool :=
  univ_check c U && wf_check U
  && match lookup U order with Some bs => orphan_free_b c U (init c) bs | None => false end.

Lemma history_check_ok c U order : history_check c U order = true ->
  univ_ok c U /\ valid_wf U
  /\ exists bs, lookup U order = Some bs /\ (forall b, In b bs -> In b U) /\ orphan_free c U (init c) bs.
Proof.
  unfold history_check. intros H. apply andb_true_iff in H as [H H3]. apply andb_true_iff in H as [H1 H2].
  pose proof (univ_check_ok _ _ H1) as HU. split; [exact HU|]. split; [now apply (wf_check_ok c)|].
  destruct (lookup U order) as [bs|] eqn:L; [|discriminate].
  exists bs. split; [reflexivity|]. pose proof (lookup_in U order bs L) as Hin. split; [exact Hin|].
  now apply orphan_free_b_ok.
Qed.

(* ------------------------------------------------------------------ *)
(* witnesses of the refuted statements                                 *)
(* ------------------------------------------------------------------ *)
Definition wit_cfg : cfg := (5, false).
Definition wB (h p i bf : N) (g v : bool) : blk := mkB h p i bf g v [].

(* (a) a block arriving before its parent (out-of-order branch, loading not completed):
   chain 1 <- 2 <- 3 delivered in order, then block 20 with id 2 and unknown parent 19 *)
Definition wit_orphan_U : list blk :=
  [wB 1 0 1 1 true true; wB 2 1 2 1 true true; wB 3 2 3 1 true true].
Definition wit_orphan_b : blk := wB 20 19 2 1 true true.

Lemma orphan_disturbs_witness :
  exists st st' r,
    history_check wit_cfg wit_orphan_U [1; 2; 3] = true
    /\ deliver wit_cfg (init wit_cfg) wit_orphan_U = Ok st
    /\ snd wit_cfg = false /\ b_prev wit_orphan_b <> 0
    /\ get_block st (b_prev wit_orphan_b) = None /\ get_block st (b_hash wit_orphan_b) = None
    /\ add_block wit_cfg st wit_orphan_b = Ok (st', r)
    /\ latest_id st = Ok 3 /\ latest_hash st = Ok 3
    /\ latest_id st' = Ok 2 /\ latest_hash st' = Ok 2
    /\ lc_hash_at wit_cfg (ring st) 3 = Some 3 /\ lc_hash_at wit_cfg (ring st') 3 = None
    /\ (exists sb, get_block st' 3 = Some sb /\ s_lc sb = false).
Proof.
  eexists. eexists. eexists.
  split; [vm_compute; reflexivity|]. split; [vm_compute; reflexivity|].
  split; [reflexivity|]. split; [discriminate|].
  split; [vm_compute; reflexivity|]. split; [vm_compute; reflexivity|].
  split; [vm_compute; reflexivity|].
  repeat (split; [vm_compute; reflexivity|]).
  eexists. split; vm_compute; reflexivity.
Qed.

(* (b) golden-ticket density is only examined for the window that ends at the new tip:
   main chain 1..7 (all with tickets), side chain 12..18 on block 1 with tickets only
   in its last two blocks; the side chain is adopted when 18 arrives although the six
   consecutive blocks 12..17 contain one ticket *)
Definition wit_gt_U : list blk :=
  [wB 1 0 1 1 true true; wB 2 1 2 1 true true; wB 3 2 3 1 true true; wB 4 3 4 1 true true;
   wB 5 4 5 1 true true; wB 6 5 6 1 true true; wB 7 6 7 1 true true;
   wB 12 1 2 1 false true; wB 13 12 3 1 false true; wB 14 13 4 1 false true; wB 15 14 5 1 false true;
   wB 16 15 6 1 false true; wB 17 16 7 1 true true; wB 18 17 8 1 true true].
Definition wit_gt_chain : list blk :=   (* root first *)
  [wB 1 0 1 1 true true; wB 12 1 2 1 false true; wB 13 12 3 1 false true; wB 14 13 4 1 false true;
   wB 15 14 5 1 false true; wB 16 15 6 1 false true; wB 17 16 7 1 true true; wB 18 17 8 1 true true].

Lemma gt_window_witness :
  exists st,
    history_check wit_cfg wit_gt_U (hashes wit_gt_U) = true
    /\ deliver wit_cfg (init wit_cfg) wit_gt_U = Ok st
    /\ latest_hash st = Ok 18
    /\ (forall b, In b wit_gt_chain -> get_block st (b_hash b) = Some (mkSB b true))
    /\ chain_ok wit_gt_U (rev wit_gt_chain)
    /\ length (firstn 6 (skipn 1 wit_gt_chain)) = 6%nat
    /\ countb b_gt (firstn 6 (skipn 1 wit_gt_chain)) = 1
    (* the same blocks offered one by one on their own: block 16 is refused *)
    /\ (exists st5 st6, deliver wit_cfg (init wit_cfg) (firstn 5 wit_gt_chain) = Ok st5
          /\ add_block wit_cfg st5 (wB 16 15 6 1 false true) = Ok (st6, Invalid)).
Proof.
  eexists.
  split; [vm_compute; reflexivity|]. split; [vm_compute; reflexivity|].
  split; [vm_compute; reflexivity|]. split.
  { intros b Hb. cbn [wit_gt_chain In] in Hb.
    repeat (destruct Hb as [<-|Hb]; [vm_compute; reflexivity|]). contradiction. }
  split.
  { cbn [wit_gt_chain rev app chain_ok]. unfold wit_gt_U, wB.
    repeat (split; [cbn [In]; tauto|split; [reflexivity|split; [reflexivity|]]]).
    split; [cbn [In]; tauto|]. split; [reflexivity|]. split; [|exact I].
    intros p Hp. cbn [In] in Hp. cbn [b_prev].
    repeat (destruct Hp as [<-|Hp]; [cbn [b_hash]; discriminate|]). contradiction. }
  split; [reflexivity|]. split; [reflexivity|].
  eexists. eexists. split; vm_compute; reflexivity.
Qed.

(* (c) regression example for the repaired defect (last_block_id / last_block_hash used to
   be only raised, never restored): a reorganisation attempt winds 12, 13, 14 of a longer
   candidate chain and fails at 15; FinishWithFailure now points last_block_* at the tip
   again, and they follow the next extension of the restored chain *)
Definition wit_last_U : list blk :=
  [wB 1 0 1 10 true true; wB 2 1 2 10 true true; wB 3 2 3 10 true true;
   wB 12 1 2 1 true true; wB 13 12 3 1 true true; wB 14 13 4 1 true true; wB 15 14 5 100 true false;
   wB 4 3 4 10 true true].

Lemma last_is_tip_example :
  exists st7 st,
    history_check wit_cfg wit_last_U (hashes wit_last_U) = true
    /\ deliver wit_cfg (init wit_cfg) (firstn 7 wit_last_U) = Ok st7
    /\ latest_id st7 = Ok 3 /\ latest_hash st7 = Ok 3 /\ last_id st7 = 3 /\ last_hash st7 = 3
    /\ wsteps st7 = 11
    /\ deliver wit_cfg (init wit_cfg) wit_last_U = Ok st
    /\ latest_id st = Ok 4 /\ latest_hash st = Ok 4
    /\ last_id st = 4 /\ last_hash st = 4.
Proof.
  eexists. eexists. split; [vm_compute; reflexivity|]. split; [vm_compute; reflexivity|].
  repeat (split; [vm_compute; reflexivity|]). vm_compute; reflexivity.
Qed.

(* ------------------------------------------------------------------ *)
(* a worked universe: transfers, two forks, rejected blocks            *)
(* ------------------------------------------------------------------ *)
Definition ex_cfg : cfg := (5, false).
Definition ex_U : list blk :=
  [ mkB 1 0 1 10 true true [([], [10; 11; 12])];
    mkB 2 1 2 10 true true [([10], [20; 21])];
    mkB 3 2 3 10 true true [([20; 11], [30])];
    (* fork b: spends 10 again, later adopted *)
    mkB 12 1 2 10 true true [([10], [40])];
    mkB 13 12 3 10 true true [([40], [41; 42])];
    mkB 14 13 4 10 true true [([41; 12], [43])];
    mkB 15 14 5 10 true false [([43], [44])];
    (* invalid child of the tip *)
    mkB 24 3 4 10 true false [([99], [98])];
    (* fork d: MIDDLE block invalid, heavy last block *)
    mkB 32 1 2 5 true true [([11], [50])];
    mkB 33 32 3 5 true false [];
    mkB 34 33 4 5 true true [];
    mkB 35 34 5 50 true true [];
    (* fork e: FIRST block invalid *)
    mkB 42 1 2 5 true false [];
    mkB 43 42 3 5 true true [];
    mkB 44 43 4 50 true true [];
    (* fork f: LAST block invalid *)
    mkB 52 1 2 5 true true [([12], [60])];
    mkB 53 52 3 5 true true [([60], [61])];
    mkB 54 53 4 50 true false [] ].
Definition ex_order : list N :=
  [1; 2; 3; 24; 32; 33; 34; 35; 42; 43; 44; 52; 53; 54; 12; 13; 14; 15; 2].

(* result code and step counter of every delivery *)
Definition ex_results : list (list N) :=
  map (fun rows => match rows with a :: _ => a | _ => [] end) (run_trace ex_cfg ex_U ex_order).

(* (d) with initial_loading_completed: once the very first block offered has been
   rejected (the store is empty again but the ring is marked non-empty), a valid root
   whose previous-block hash is not zero is never adopted: the hypothesis
   [ring_empty st = true \/ b_prev b = 0 \/ snd c = false] of adopts_first is needed *)
Definition wit_boot_cfg : cfg := (5, true).
Definition wit_boot_U : list blk := [wB 1 0 1 1 true false; wB 2 77 3 1 true true].

Lemma bootstrap_after_rejected_first_witness :
  exists st st',
    history_check wit_boot_cfg wit_boot_U [1; 2] = true
    /\ deliver wit_boot_cfg (init wit_boot_cfg) [wB 1 0 1 1 true false] = Ok st
    /\ blocks st = [] /\ ring_empty st = false
    /\ is_root wit_boot_U (wB 2 77 3 1 true true)
    /\ add_block wit_boot_cfg st (wB 2 77 3 1 true true) = Ok (st', Retry) /\ st' = st.
Proof.
  eexists. eexists. split; [vm_compute; reflexivity|]. split; [vm_compute; reflexivity|].
  split; [reflexivity|]. split; [reflexivity|]. split.
  { apply is_root_b_ok. vm_compute. reflexivity. }
  split; vm_compute; reflexivity.
Qed.
