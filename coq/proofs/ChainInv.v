(* Definitions for the proofs about model/Chain.v: block universe, the chain
   (tip first) that a state describes, the ring invariant, the invariant
   [WInv] / [Inv]; facts about slots and about the ring operations. *)
From Saito Require Import Base Chain ChainBasics.
From Coq Require Import Sorted.

Definition nslots (c : cfg) : nat := N.to_nat (2 * gp_of c).
Definition hashes (l : list blk) : list N := map b_hash l.

(* ------------------------------------------------------------------ *)
(* universe of blocks                                                  *)
(* ------------------------------------------------------------------ *)
Record univ_ok (c : cfg) (U : list blk) : Prop := {
  u_nodup : NoDup (hashes U);
  u_nz : forall b, In b U -> b_hash b <> 0;
  u_id : forall b, In b U -> 1 <= b_id b <= 2 * gp_of c;
  u_link : forall b p, In b U -> In p U -> b_prev b = b_hash p -> b_id b = b_id p + 1
}.

Definition is_root (U : list blk) (b : blk) : Prop := forall p, In p U -> b_hash p <> b_prev b.

(* a chain, tip first, of valid blocks of U, linked by b_prev, ending in a root of U *)
Fixpoint chain_ok (U : list blk) (l : list blk) : Prop :=
  match l with
  | [] => True
  | t :: rest =>
      In t U /\ b_valid t = true
      /\ match rest with [] => is_root U t | p :: _ => b_prev t = b_hash p end
      /\ chain_ok U rest
  end.

(* the spendable set obtained by applying the blocks of a chain (tip first) from the root *)
Definition replay (l : list blk) : list N := fold_right (fun b u => apply_block u b) [] l.

Lemma replay_rev l : replay l = fold_left apply_block (rev l) [].
Proof. unfold replay. rewrite <- fold_left_rev_right, rev_involutive. reflexivity. Qed.

Lemma replay_sorted l : usorted (replay l).
Proof. induction l; cbn [replay fold_right]; [constructor|now apply apply_block_sorted]. Qed.

(* what validation of the value-carrying slips is supposed to guarantee (C01) *)
Definition valid_wf (U : list blk) : Prop :=
  forall b rest, chain_ok U (b :: rest) -> wf_against (replay rest) b.

Lemma hash_inj c U a b : univ_ok c U -> In a U -> In b U -> b_hash a = b_hash b -> a = b.
Proof.
  intros [Hnd _ _ _] Ha Hb E. unfold hashes in Hnd. clear -Hnd Ha Hb E.
  induction U as [|x U IH]; [contradiction|]. cbn [map] in Hnd. inversion Hnd as [|? ? Hx Hnd']; subst.
  destruct Ha as [->|Ha], Hb as [->|Hb]; auto.
  - exfalso. apply Hx. rewrite E. now apply in_map.
  - exfalso. apply Hx. rewrite <- E. now apply in_map.
Qed.

Lemma chain_ok_in U l : chain_ok U l -> forall b, In b l -> In b U.
Proof. induction l as [|t l IH]; cbn [chain_ok]; [contradiction|]. intros (Ht & _ & _ & Hc) b [<-|Hb]; auto. Qed.

Lemma chain_ok_valid U l : chain_ok U l -> forall b, In b l -> b_valid b = true.
Proof. induction l as [|t l IH]; cbn [chain_ok]; [contradiction|]. intros (_ & Hv & _ & Hc) b [<-|Hb]; auto. Qed.

Lemma chain_ok_tail U t l : chain_ok U (t :: l) -> chain_ok U l.
Proof. cbn [chain_ok]. tauto. Qed.

Lemma chain_ok_app_r U l1 l2 : chain_ok U (l1 ++ l2) -> chain_ok U l2.
Proof. induction l1 as [|t l1 IH]; [auto|]. intros H. apply IH. now apply chain_ok_tail in H. Qed.

(* ids go down by one along a chain *)
Lemma chain_ids c U l : univ_ok c U -> chain_ok U l ->
  forall i a t, nth_error l 0 = Some t -> nth_error l i = Some a -> b_id a + N.of_nat i = b_id t.
Proof.
  intros HU. induction l as [|x l IH]; intros Hc i a t H0 Hi; [destruct i; discriminate|].
  cbn [nth_error] in H0. injection H0 as ->.
  destruct i as [|i]; cbn [nth_error] in Hi; [injection Hi as ->; lia|].
  destruct l as [|p l]; [destruct i; discriminate|].
  pose proof Hc as (Ht & _ & Hl & Hc').
  specialize (IH Hc' i a p eq_refl Hi).
  assert (In p U) by (apply (chain_ok_in _ _ Hc'); now left).
  pose proof (u_link _ _ HU _ _ Ht H Hl). lia.
Qed.

Lemma chain_id_lt c U t l : univ_ok c U -> chain_ok U (t :: l) -> forall a, In a l -> b_id a < b_id t.
Proof.
  intros HU Hc a Ha. apply In_nth_error in Ha as [i Hi].
  pose proof (chain_ids c U (t :: l) HU Hc (S i) a t eq_refl Hi). lia.
Qed.

Lemma chain_hashes_nodup c U l : univ_ok c U -> chain_ok U l -> NoDup (hashes l).
Proof.
  intros HU. induction l as [|t l IH]; intros Hc; cbn [hashes map]; constructor.
  - intros Hi. apply in_map_iff in Hi as (a & E & Ha).
    pose proof (chain_id_lt c U t l HU Hc a Ha).
    assert (a = t).
    { eapply hash_inj; eauto. apply (chain_ok_in _ _ Hc); now right. apply (chain_ok_in _ _ Hc); now left. }
    subst. lia.
  - apply IH. eapply chain_ok_tail; eauto.
Qed.

Lemma in_hashes h l : In h (hashes l) <-> exists b, In b l /\ b_hash b = h.
Proof. unfold hashes. rewrite in_map_iff. split; intros (b & H1 & H2); eauto. Qed.

(* ------------------------------------------------------------------ *)
(* slots: in the regime 1 <= id <= 2 gp they are not shared            *)
(* ------------------------------------------------------------------ *)
Lemma slot_lt c id : 1 <= 2 * gp_of c -> (slot c id < nslots c)%nat.
Proof. intros H. unfold slot, nslots. pose proof (N.mod_upper_bound id (2 * gp_of c)). lia. Qed.

Lemma slot_inj c a b : 1 <= a <= 2 * gp_of c -> 1 <= b <= 2 * gp_of c -> slot c a = slot c b -> a = b.
Proof.
  unfold slot. intros Ha Hb E. apply N2Nat.inj in E.
  set (m := 2 * gp_of c) in *.
  destruct (N.eq_dec a m) as [->|Na], (N.eq_dec b m) as [->|Nb]; auto.
  - rewrite N.mod_same in E by lia. rewrite (N.mod_small b m) in E by lia. lia.
  - rewrite N.mod_same in E by lia. rewrite (N.mod_small a m) in E by lia. lia.
  - rewrite !N.mod_small in E by lia. assumption.
Qed.

Lemma slot_prev c t : 2 <= t <= 2 * gp_of c ->
  match slot c t with O => (N.to_nat (2 * gp_of c) - 1)%nat | S k => k end = slot c (t - 1).
Proof.
  unfold slot. intros Ht. set (m := 2 * gp_of c) in *.
  rewrite (N.mod_small (t - 1) m) by lia.
  destruct (N.eq_dec t m) as [->|Nt].
  - rewrite N.mod_same by lia. cbn. lia.
  - rewrite (N.mod_small t m) by lia. destruct (N.to_nat t) eqn:E; lia.
Qed.

(* ------------------------------------------------------------------ *)
(* position / nth_error                                                *)
(* ------------------------------------------------------------------ *)
Lemma position_spec h id (l : list (N * N)) :
  NoDup (map fst l) -> In (h, id) l ->
  exists q, position h l = Some q /\ nth_error l q = Some (h, id).
Proof.
  induction l as [|e l IH]; [contradiction|]. cbn [map position]. intros Hnd Hi.
  inversion Hnd as [|? ? Hx Hnd']; subst.
  destruct Hi as [->|Hi].
  - cbn [fst]. rewrite N.eqb_refl. exists O. auto.
  - destruct (N.eqb_spec (fst e) h) as [E|Hne].
    + exfalso. apply Hx. rewrite E. apply (in_map fst _ _ Hi).
    + destruct (IH Hnd' Hi) as (q & -> & Hq). exists (S q). auto.
Qed.

Lemma NoDup_snoc {A} (x : A) l : ~ In x l -> NoDup l -> NoDup (l ++ [x]).
Proof.
  intros Hx Hnd. induction l as [|a l IH]; cbn [app]; [constructor; [intros []|constructor]|].
  inversion Hnd as [|? ? Ha Hnd']; subst. constructor.
  - rewrite in_app_iff. intros [H|[->|[]]]; [auto|]. apply Hx. now left.
  - apply IH; [|assumption]. intros H. apply Hx. now right.
Qed.

Lemma nth_error_app_l {A} (l l' : list A) q e : nth_error l q = Some e -> nth_error (l ++ l') q = Some e.
Proof. intros H. rewrite nth_error_app1; [assumption|]. apply nth_error_Some. congruence. Qed.

(* ------------------------------------------------------------------ *)
(* stored blocks without their flags                                   *)
(* ------------------------------------------------------------------ *)
Definition sget (bs : list (N * sblk)) (h : N) : option blk := option_map s_b (aget h bs).

Definition same_store (bs bs' : list (N * sblk)) : Prop := forall h, sget bs h = sget bs' h.

Lemma same_store_refl bs : same_store bs bs.
Proof. intros h; reflexivity. Qed.
Lemma same_store_trans a b c : same_store a b -> same_store b c -> same_store a c.
Proof. intros H1 H2 h. now rewrite H1. Qed.
Lemma same_store_sym a b : same_store a b -> same_store b a.
Proof. intros H h. now rewrite H. Qed.

Lemma sget_some bs h b : sget bs h = Some b <-> exists f, aget h bs = Some (mkSB b f).
Proof.
  unfold sget. destruct (aget h bs) as [[b' f]|]; cbn [option_map s_b]; split.
  - intros [= ->]. eauto.
  - intros (f' & [= -> ->]). reflexivity.
  - discriminate.
  - intros (f' & H). discriminate.
Qed.

Lemma sget_none bs h : sget bs h = None <-> aget h bs = None.
Proof. unfold sget. destruct (aget h bs); cbn [option_map]; split; congruence. Qed.

(* every stored block is filed under its own hash and belongs to U *)
Definition store_ok (U : list blk) (bs : list (N * sblk)) : Prop :=
  asorted bs /\ forall h b, sget bs h = Some b -> b_hash b = h /\ In b U.

Lemma store_ok_same U bs bs' : asorted bs' -> same_store bs bs' -> store_ok U bs -> store_ok U bs'.
Proof. intros Hs' Hss [_ H]. split; [assumption|]. intros h b Hg. apply H. now rewrite Hss. Qed.

(* ------------------------------------------------------------------ *)
(* ring invariant                                                      *)
(* ------------------------------------------------------------------ *)
Record ring_ok (c : cfg) (bs : list (N * sblk)) (r : list ritem) (rl : option nat) (lcr : list blk) : Prop := {
  r_len : length r = nslots c;
  r_sound : forall p e, (p < nslots c)%nat -> In e (ri_ent (item_at r p)) ->
            exists b, sget bs (fst e) = Some b /\ b_id b = snd e /\ slot c (snd e) = p;
  r_complete : forall h b, sget bs h = Some b -> In (h, b_id b) (ri_ent (item_at r (slot c (b_id b))));
  r_nodup : forall p, (p < nslots c)%nat -> NoDup (map fst (ri_ent (item_at r p)));
  r_lc : forall p, (p < nslots c)%nat ->
         match ri_lc (item_at r p) with
         | Some q => exists e, nth_error (ri_ent (item_at r p)) q = Some e /\ In (fst e) (hashes lcr)
         | None => forall b, In b lcr -> slot c (b_id b) <> p
         end;
  r_tip : rl = match lcr with [] => None | t :: _ => Some (slot c (b_id t)) end
}.

Lemma ring_ok_same c bs bs' r rl lcr : same_store bs bs' -> ring_ok c bs r rl lcr -> ring_ok c bs' r rl lcr.
Proof.
  intros Hss [H1 H2 H3 H4 H5 H6]. split; auto.
  - intros p e Hp He. destruct (H2 p e Hp He) as (b & Hb). exists b. now rewrite <- Hss.
  - intros h b Hg. apply H3. now rewrite Hss.
Qed.

Definition ring_mark (c : cfg) (r : list ritem) (id h : N) : list ritem :=
  let it := item_at r (slot c id) in set_nth (slot c id) (mkRI (position h (ri_ent it)) (ri_ent it)) r.
Definition ring_unmark (c : cfg) (r : list ritem) (id : N) : list ritem :=
  let it := item_at r (slot c id) in set_nth (slot c id) (mkRI None (ri_ent it)) r.

Lemma ring_reorg_true c st id h :
  ring_reorg c st id h true = Ok (set_ring st (ring_mark c (ring st) id h) (Some (slot c id))).
Proof. reflexivity. Qed.

Lemma item_at_set_eq r p it : (p < length r)%nat -> item_at (set_nth p it r) p = it.
Proof. intros; unfold item_at. now apply nth_set_nth_eq. Qed.
Lemma item_at_set_neq r p p' it : p' <> p -> item_at (set_nth p it r) p' = item_at r p'.
Proof. intros; unfold item_at. now apply nth_set_nth_neq. Qed.

Section RingOps.
  Variables (c : cfg) (U : list blk).
  Hypothesis HU : univ_ok c U.

  Lemma gp_pos b : In b U -> 1 <= 2 * gp_of c.
  Proof. intros Hb. pose proof (u_id _ _ HU b Hb). lia. Qed.

  (* the entry of a stored lc block *)
  Lemma lc_entry bs r rl lcr x :
    store_ok U bs -> ring_ok c bs r rl lcr -> chain_ok U lcr ->
    (forall b, In b lcr -> sget bs (b_hash b) = Some b) ->
    In x lcr ->
    exists q, ri_lc (item_at r (slot c (b_id x))) = Some q
              /\ nth_error (ri_ent (item_at r (slot c (b_id x)))) q = Some (b_hash x, b_id x).
  Proof.
    intros [_ Hst] Hr Hc Hlc Hx.
    assert (HxU : In x U) by (eapply chain_ok_in; eauto).
    pose proof (slot_lt c (b_id x) (gp_pos x HxU)) as Hp.
    pose proof (r_lc _ _ _ _ _ Hr _ Hp) as Hl.
    destruct (ri_lc (item_at r (slot c (b_id x)))) as [q|]; [|exfalso; eapply Hl; eauto].
    destruct Hl as (e & Hq & He). exists q. split; [reflexivity|]. rewrite Hq. f_equal.
    apply in_hashes in He as (y & Hy & Ey).
    destruct (r_sound _ _ _ _ _ Hr _ e Hp (nth_error_In _ _ Hq)) as (b & Hb & Hid & Hs).
    rewrite <- Ey, (Hlc y Hy) in Hb. injection Hb as <-.
    assert (HyU : In y U) by (eapply chain_ok_in; eauto).
    rewrite <- Hid in Hs.
    apply slot_inj in Hs; [|apply (u_id _ _ HU); assumption|apply (u_id _ _ HU); assumption].
    assert (y = x).
    { destruct (In_nth_error _ _ Hx) as [i Hi]. destruct (In_nth_error _ _ Hy) as [j Hj].
      destruct lcr as [|t l]; [contradiction|].
      pose proof (chain_ids c U _ HU Hc i x t eq_refl Hi).
      pose proof (chain_ids c U _ HU Hc j y t eq_refl Hj).
      assert (i = j) by lia. subst. congruence. }
    subst y. destruct e as [eh eid]; cbn [fst snd] in *. congruence.
  Qed.

  (* lc_hash_at is the by-height index of the chain *)
  Lemma lc_hash_at_spec bs r rl lcr id :
    store_ok U bs -> ring_ok c bs r rl lcr -> chain_ok U lcr ->
    (forall b, In b lcr -> sget bs (b_hash b) = Some b) ->
    1 <= 2 * gp_of c ->
    lc_hash_at c r id = match find (fun b => b_id b =? id) lcr with Some b => Some (b_hash b) | None => None end.
  Proof.
    intros Hst Hr Hc Hlc Hgp.
    destruct (find (fun b => b_id b =? id) lcr) as [x|] eqn:Hf.
    - apply find_some in Hf as [Hx Hid]. apply N.eqb_eq in Hid. subst id.
      destruct (lc_entry bs r rl lcr x Hst Hr Hc Hlc Hx) as (q & Hq1 & Hq2).
      unfold lc_hash_at. rewrite Hq1, Hq2. cbn [snd fst]. now rewrite N.eqb_refl.
    - unfold lc_hash_at.
      pose proof (slot_lt c id Hgp) as Hp. pose proof (r_lc _ _ _ _ _ Hr _ Hp) as Hl.
      destruct (ri_lc (item_at r (slot c id))) as [q|]; [|reflexivity].
      destruct Hl as (e & Hq & He). rewrite Hq.
      destruct (N.eqb_spec (snd e) id) as [E|]; [|reflexivity]. exfalso.
      apply in_hashes in He as (y & Hy & Ey).
      destruct (r_sound _ _ _ _ _ Hr _ e Hp (nth_error_In _ _ Hq)) as (b & Hb & Hid & Hs).
      rewrite <- Ey, (Hlc y Hy) in Hb. injection Hb as <-.
      pose proof (find_none _ _ Hf y Hy) as Hn. cbn beta in Hn. rewrite Hid, E, N.eqb_refl in Hn. discriminate.
  Qed.

  Lemma latest_entry_spec st lcr :
    store_ok U (blocks st) -> ring_ok c (blocks st) (ring st) (ring_lc st) lcr -> chain_ok U lcr ->
    (forall b, In b lcr -> sget (blocks st) (b_hash b) = Some b) ->
    latest_entry st = Ok (match lcr with [] => None | t :: _ => Some (b_hash t, b_id t) end).
  Proof.
    intros Hst Hr Hc Hlc. unfold latest_entry. rewrite (r_tip _ _ _ _ _ Hr).
    destruct lcr as [|t l]; [reflexivity|].
    destruct (lc_entry _ _ _ _ t Hst Hr Hc Hlc (or_introl eq_refl)) as (q & Hq1 & Hq2).
    now rewrite Hq1, Hq2.
  Qed.

  (* ---- ring_add ---- *)
  Lemma ring_add_ok bs r rl lcr b f :
    store_ok U bs -> ring_ok c bs r rl lcr -> In b U -> aget (b_hash b) bs = None ->
    ring_ok c (aset (b_hash b) (mkSB b f) bs) (ring_add c r (b_id b) (b_hash b)) rl lcr.
  Proof.
    intros Hst Hr Hb Hnone.
    pose proof (slot_lt c (b_id b) (gp_pos b Hb)) as Hp.
    assert (Hg : forall h, sget (aset (b_hash b) (mkSB b f) bs) h = if h =? b_hash b then Some b else sget bs h).
    { intros h. unfold sget. rewrite aget_aset. now destruct (h =? b_hash b). }
    assert (Hlen := r_len _ _ _ _ _ Hr).
    assert (Hit : forall p, ri_ent (item_at (ring_add c r (b_id b) (b_hash b)) p) =
                  if Nat.eqb p (slot c (b_id b)) then ri_ent (item_at r p) ++ [(b_hash b, b_id b)]
                  else ri_ent (item_at r p)).
    { intros p. unfold ring_add. destruct (Nat.eqb_spec p (slot c (b_id b))) as [->|Hne].
      - rewrite item_at_set_eq by lia. reflexivity.
      - now rewrite item_at_set_neq. }
    assert (Hlc : forall p, ri_lc (item_at (ring_add c r (b_id b) (b_hash b)) p) = ri_lc (item_at r p)).
    { intros p. unfold ring_add. destruct (Nat.eq_dec p (slot c (b_id b))) as [->|Hne].
      - rewrite item_at_set_eq by lia. reflexivity.
      - now rewrite item_at_set_neq. }
    split.
    - unfold ring_add. now rewrite length_set_nth.
    - intros p e Hpn He. rewrite Hit in He.
      assert (Hold : In e (ri_ent (item_at r p)) ->
                exists b0, sget (aset (b_hash b) (mkSB b f) bs) (fst e) = Some b0 /\ b_id b0 = snd e /\ slot c (snd e) = p).
      { intros Hi. destruct (r_sound _ _ _ _ _ Hr p e Hpn Hi) as (b0 & H1 & H2 & H3).
        exists b0. rewrite Hg. destruct (N.eqb_spec (fst e) (b_hash b)) as [E|]; [|auto].
        rewrite E in H1. apply sget_some in H1 as (f0 & H1). congruence. }
      destruct (Nat.eqb_spec p (slot c (b_id b))) as [->|Hne]; [|auto].
      apply in_app_iff in He as [He|[<-|[]]]; [auto|].
      exists b. cbn [fst snd]. rewrite Hg, N.eqb_refl. auto.
    - intros h b0 Hs. rewrite Hg in Hs. rewrite Hit.
      destruct (N.eqb_spec h (b_hash b)) as [->|Hne].
      + injection Hs as <-. rewrite Nat.eqb_refl. apply in_app_iff. right. now left.
      + pose proof (r_complete _ _ _ _ _ Hr h b0 Hs).
        destruct (Nat.eqb (slot c (b_id b0)) (slot c (b_id b))); [apply in_app_iff; now left|assumption].
    - intros p Hpn. rewrite Hit. pose proof (r_nodup _ _ _ _ _ Hr p Hpn) as Hnd.
      destruct (Nat.eqb_spec p (slot c (b_id b))) as [->|Hne]; [|assumption].
      rewrite map_app. cbn [map fst]. apply NoDup_snoc; [|assumption].
      intros Hi. apply in_map_iff in Hi as (e & E & He).
      destruct (r_sound _ _ _ _ _ Hr _ e Hpn He) as (b0 & H1 & _).
      rewrite E in H1. apply sget_some in H1 as (f0 & H1). congruence.
    - intros p Hpn. rewrite Hlc, Hit. pose proof (r_lc _ _ _ _ _ Hr p Hpn) as Hl.
      destruct (ri_lc (item_at r p)) as [q|]; [|assumption].
      destruct Hl as (e & Hq & He). exists e. split; [|assumption].
      destruct (Nat.eqb p (slot c (b_id b))); [now apply nth_error_app_l|assumption].
    - apply (r_tip _ _ _ _ _ Hr).
  Qed.

  (* ---- marking a block as the lc block of its height (wind) ---- *)
  Lemma ring_mark_ok bs r rl rest b :
    store_ok U bs -> ring_ok c bs r rl rest -> In b U -> sget bs (b_hash b) = Some b ->
    ring_ok c bs (ring_mark c r (b_id b) (b_hash b)) (Some (slot c (b_id b))) (b :: rest).
  Proof.
    intros Hst Hr Hb Hs.
    pose proof (slot_lt c (b_id b) (gp_pos b Hb)) as Hp.
    assert (Hlen := r_len _ _ _ _ _ Hr).
    assert (Hit : forall p, ri_ent (item_at (ring_mark c r (b_id b) (b_hash b)) p) = ri_ent (item_at r p)).
    { intros p. unfold ring_mark. destruct (Nat.eq_dec p (slot c (b_id b))) as [->|Hne].
      - rewrite item_at_set_eq by lia. reflexivity.
      - now rewrite item_at_set_neq. }
    split.
    - unfold ring_mark. now rewrite length_set_nth.
    - intros p e Hpn He. rewrite Hit in He. eapply r_sound; eauto.
    - intros h b0 H0. rewrite Hit. eapply r_complete; eauto.
    - intros p Hpn. rewrite Hit. eapply r_nodup; eauto.
    - intros p Hpn. rewrite Hit. destruct (Nat.eq_dec p (slot c (b_id b))) as [->|Hne].
      + unfold ring_mark at 1. rewrite item_at_set_eq by lia. cbn [ri_lc].
        destruct (position_spec (b_hash b) (b_id b) (ri_ent (item_at r (slot c (b_id b)))))
          as (q & -> & Hq).
        * eapply r_nodup; eauto.
        * eapply r_complete; eauto.
        * exists (b_hash b, b_id b). split; [assumption|]. cbn [fst hashes map]. now left.
      + unfold ring_mark at 1. rewrite item_at_set_neq by assumption.
        pose proof (r_lc _ _ _ _ _ Hr p Hpn) as Hl.
        destruct (ri_lc (item_at r p)) as [q|].
        * destruct Hl as (e & Hq & He). exists e. split; [assumption|]. cbn [hashes map]. now right.
        * intros y [<-|Hy]; [congruence|auto].
    - reflexivity.
  Qed.

  (* ---- unmarking the tip (unwind); the parent stays on the chain ---- *)
  Lemma ring_unmark_ok bs r rl t p rest :
    store_ok U bs -> ring_ok c bs r rl (t :: p :: rest) -> chain_ok U (t :: p :: rest) ->
    (forall b, In b (t :: p :: rest) -> sget bs (b_hash b) = Some b) ->
    ring_ok c bs (ring_unmark c r (b_id t)) (Some (slot c (b_id p))) (p :: rest).
  Proof.
    intros Hst Hr Hc Hlc.
    assert (Ht : In t U) by (apply (chain_ok_in _ _ Hc); now left).
    pose proof (slot_lt c (b_id t) (gp_pos t Ht)) as Hp.
    assert (Hlen := r_len _ _ _ _ _ Hr).
    assert (Hit : forall p, ri_ent (item_at (ring_unmark c r (b_id t)) p) = ri_ent (item_at r p)).
    { intros p0. unfold ring_unmark. destruct (Nat.eq_dec p0 (slot c (b_id t))) as [->|Hne].
      - rewrite item_at_set_eq by lia. reflexivity.
      - now rewrite item_at_set_neq. }
    split.
    - unfold ring_unmark. now rewrite length_set_nth.
    - intros p0 e Hpn He. rewrite Hit in He. eapply r_sound; eauto.
    - intros h b0 H0. rewrite Hit. eapply r_complete; eauto.
    - intros p0 Hpn. rewrite Hit. eapply r_nodup; eauto.
    - intros p0 Hpn. rewrite Hit. destruct (Nat.eq_dec p0 (slot c (b_id t))) as [->|Hne].
      + unfold ring_unmark at 1. rewrite item_at_set_eq by lia. cbn [ri_lc].
        intros y Hy E.
        assert (HyU : In y U) by (apply (chain_ok_in _ _ Hc); now right).
        apply slot_inj in E; try (apply (u_id _ _ HU); assumption).
        pose proof (chain_id_lt c U t _ HU Hc y Hy). lia.
      + unfold ring_unmark at 1. rewrite item_at_set_neq by assumption.
        pose proof (r_lc _ _ _ _ _ Hr p0 Hpn) as Hl.
        destruct (ri_lc (item_at r p0)) as [q|].
        * destruct Hl as (e & Hq & He). exists e. split; [assumption|].
          cbn [hashes map In] in He. destruct He as [He|He]; [exfalso|exact He].
          destruct (r_sound _ _ _ _ _ Hr p0 e Hpn (nth_error_In _ _ Hq)) as (b0 & H1 & H2 & H3).
          rewrite <- He, (Hlc t (or_introl eq_refl)) in H1. injection H1 as <-. congruence.
        * intros y Hy. apply Hl. now right.
    - reflexivity.
  Qed.

  Lemma ring_reorg_false_tip st t p rest :
    store_ok U (blocks st) -> ring_ok c (blocks st) (ring st) (ring_lc st) (t :: p :: rest) ->
    chain_ok U (t :: p :: rest) ->
    (forall b, In b (t :: p :: rest) -> sget (blocks st) (b_hash b) = Some b) ->
    ring_reorg c st (b_id t) (b_hash t) false
    = Ok (set_ring st (ring_unmark c (ring st) (b_id t)) (Some (slot c (b_id p)))).
  Proof.
    intros Hst Hr Hc Hlc.
    assert (Ht : In t U) by (apply (chain_ok_in _ _ Hc); now left).
    assert (Hpu : In p U) by (apply (chain_ok_in _ _ Hc); right; now left).
    pose proof (u_id _ _ HU t Ht) as Hidt. pose proof (u_id _ _ HU p Hpu) as Hidp.
    assert (Hid : b_id t = b_id p + 1).
    { destruct Hc as (_ & _ & Hl & _). eapply u_link; eauto. }
    assert (Hlen := r_len _ _ _ _ _ Hr).
    pose proof (slot_lt c (b_id t) (gp_pos t Ht)) as Hp.
    unfold ring_reorg. rewrite (r_tip _ _ _ _ _ Hr), Nat.eqb_refl.
    cbv zeta. rewrite slot_prev by lia.
    replace (b_id t - 1) with (b_id p) by lia.
    destruct (N.eqb_spec (b_id t) 0) as [E|_]; [lia|].
    assert (Hne : slot c (b_id p) <> slot c (b_id t)).
    { intros E. apply slot_inj in E; lia. }
    rewrite item_at_set_neq by assumption.
    destruct (lc_entry _ _ _ _ p Hst Hr Hc Hlc (or_intror (or_introl eq_refl))) as (q & Hq1 & Hq2).
    rewrite Hq1, Hq2. cbn [snd]. rewrite N.eqb_refl. reflexivity.
  Qed.

  (* ---- RingItem::delete_block ---- *)
  Definition rkeep (id h : N) (e : N * N) : bool := negb ((snd e =? id) && (fst e =? h)).

  Lemma ri_delete_fst id h ents i lc k : fst (ri_delete id h ents i lc k) = filter (rkeep id h) ents.
  Proof.
    revert i k; induction ents as [|e t IH]; intros i k; cbn [ri_delete filter]; [reflexivity|].
    unfold rkeep at 1. destruct ((snd e =? id) && (fst e =? h)); cbn [negb]; [apply IH|].
    specialize (IH (S i) (S k)). destruct (ri_delete id h t (S i) lc (S k)) as [t' lc'].
    cbn [fst] in *. now rewrite IH.
  Qed.

  Lemma ri_delete_some id h ents i lc k q' :
    snd (ri_delete id h ents i lc k) = Some q' ->
    exists q e, lc = Some q /\ (i <= q)%nat /\ nth_error ents (q - i) = Some e /\ rkeep id h e = true
                /\ (k <= q')%nat /\ nth_error (filter (rkeep id h) ents) (q' - k) = Some e.
  Proof.
    revert i k; induction ents as [|e t IH]; intros i k; cbn [ri_delete filter]; [discriminate|].
    unfold rkeep at 2. destruct ((snd e =? id) && (fst e =? h)) eqn:Em; cbn [negb].
    - intros H. destruct (IH _ _ H) as (q & e' & H1 & H2 & H3 & H4 & H5 & H6).
      exists q, e'. repeat split; auto; try lia.
      replace (q - i)%nat with (S (q - S i)) by lia. exact H3.
    - specialize (IH (S i) (S k)). destruct (ri_delete id h t (S i) lc (S k)) as [t' lc'].
      cbn [snd] in *. destruct lc as [q|].
      + destruct (Nat.eqb_spec q i) as [->|Hne].
        * intros [= <-]. exists i, e. rewrite !Nat.sub_diag. cbn [nth_error].
          repeat split; auto. unfold rkeep. now rewrite Em.
        * intros H. destruct (IH H) as (q0 & e' & H1 & H2 & H3 & H4 & H5 & H6).
          injection H1 as <-. exists q, e'. repeat split; auto; try lia.
          -- replace (q - i)%nat with (S (q - S i)) by lia. exact H3.
          -- replace (q' - k)%nat with (S (q' - S k)) by lia. exact H6.
      + intros H. destruct (IH H) as (q0 & e' & H1 & _). discriminate.
  Qed.

  Lemma ri_delete_none id h ents i lc k :
    snd (ri_delete id h ents i lc k) = None ->
    forall q e, lc = Some q -> (i <= q)%nat -> nth_error ents (q - i) = Some e -> rkeep id h e = false.
  Proof.
    revert i k; induction ents as [|e t IH]; intros i k; cbn [ri_delete].
    - intros _ q e _ _ H. destruct (q - i)%nat; discriminate.
    - destruct ((snd e =? id) && (fst e =? h)) eqn:Em.
      + intros H q e' Hl Hq Hn. destruct (Nat.eq_dec q i) as [->|Hne].
        * rewrite Nat.sub_diag in Hn. injection Hn as <-. unfold rkeep. now rewrite Em.
        * eapply (IH _ _ H q e' Hl); [lia|]. replace (q - i)%nat with (S (q - S i)) in Hn by lia. exact Hn.
      + specialize (IH (S i) (S k)). destruct (ri_delete id h t (S i) lc (S k)) as [t' lc'].
        cbn [snd] in *. intros H q e' Hl Hq Hn. subst lc.
        destruct (Nat.eqb_spec q i) as [->|Hne]; [discriminate|].
        eapply (IH H q e' eq_refl); [lia|]. replace (q - i)%nat with (S (q - S i)) in Hn by lia. exact Hn.
  Qed.

  Lemma NoDup_map_filter {A B} (f : A -> B) g l : NoDup (map f l) -> NoDup (map f (filter g l)).
  Proof.
    induction l as [|a l IH]; cbn [map filter]; intros H; [constructor|].
    inversion H as [|? ? Ha Hl]; subst. destruct (g a); cbn [map]; [constructor|]; auto.
    intros Hi. apply Ha. apply in_map_iff in Hi as (y & E & Hy). apply filter_In in Hy as [Hy _].
    rewrite <- E. now apply in_map.
  Qed.

  Lemma sget_adel bs h k : asorted bs -> sget (adel k bs) h = if h =? k then None else sget bs h.
  Proof. intros Hs. unfold sget. rewrite aget_adel by assumption. now destruct (h =? k). Qed.

  Lemma ring_delete_ok bs r rl lcr b :
    store_ok U bs -> ring_ok c bs r rl lcr -> In b U -> sget bs (b_hash b) = Some b ->
    ~ In (b_hash b) (hashes lcr) ->
    ring_ok c (adel (b_hash b) bs) (ring_delete c r (b_id b) (b_hash b)) rl lcr.
  Proof.
    intros [Hsort Hst] Hr Hb Hs Hnl.
    pose proof (slot_lt c (b_id b) (gp_pos b Hb)) as Hp.
    assert (Hlen := r_len _ _ _ _ _ Hr).
    set (p0 := slot c (b_id b)) in *.
    set (ents := ri_ent (item_at r p0)).
    assert (Hitem : item_at (ring_delete c r (b_id b) (b_hash b)) p0 =
              mkRI (snd (ri_delete (b_id b) (b_hash b) ents O (ri_lc (item_at r p0)) O))
                   (filter (rkeep (b_id b) (b_hash b)) ents)).
    { unfold ring_delete. fold p0. fold ents.
      pose proof (ri_delete_fst (b_id b) (b_hash b) ents O (ri_lc (item_at r p0)) O) as Hf.
      destruct (ri_delete (b_id b) (b_hash b) ents 0 (ri_lc (item_at r p0)) 0) as [e' l'].
      cbn [fst snd] in *. rewrite item_at_set_eq by lia. now rewrite Hf. }
    assert (Hother : forall p, p <> p0 -> item_at (ring_delete c r (b_id b) (b_hash b)) p = item_at r p).
    { intros p Hne. unfold ring_delete. fold p0.
      destruct (ri_delete (b_id b) (b_hash b) (ri_ent (item_at r p0)) 0 (ri_lc (item_at r p0)) 0).
      now rewrite item_at_set_neq. }
    split.
    - unfold ring_delete. destruct (ri_delete _ _ _ _ _ _). now rewrite length_set_nth.
    - intros p e Hpn He. destruct (Nat.eq_dec p p0) as [->|Hne].
      + rewrite Hitem in He. cbn [ri_ent] in He. apply filter_In in He as [He Hk].
        destruct (r_sound _ _ _ _ _ Hr p0 e Hpn He) as (b0 & H1 & H2 & H3).
        exists b0. rewrite sget_adel by assumption.
        destruct (N.eqb_spec (fst e) (b_hash b)) as [E|]; [|auto]. exfalso.
        rewrite E, Hs in H1. injection H1 as <-. unfold rkeep in Hk.
        rewrite E, H2, !N.eqb_refl in Hk. discriminate.
      + rewrite Hother in He by assumption.
        destruct (r_sound _ _ _ _ _ Hr p e Hpn He) as (b0 & H1 & H2 & H3).
        exists b0. rewrite sget_adel by assumption.
        destruct (N.eqb_spec (fst e) (b_hash b)) as [E|]; [|auto]. exfalso.
        rewrite E, Hs in H1. injection H1 as <-. apply Hne. unfold p0. congruence.
    - intros h b0 H0. rewrite sget_adel in H0 by assumption.
      destruct (N.eqb_spec h (b_hash b)) as [|Hne]; [discriminate|].
      pose proof (r_complete _ _ _ _ _ Hr h b0 H0) as Hi.
      destruct (Nat.eq_dec (slot c (b_id b0)) p0) as [E|Hne'].
      + rewrite E in *. rewrite Hitem. cbn [ri_ent]. apply filter_In. split; [assumption|].
        unfold rkeep. cbn [fst snd]. destruct (N.eqb_spec h (b_hash b)); [contradiction|].
        now rewrite andb_false_r.
      + now rewrite Hother.
    - intros p Hpn. destruct (Nat.eq_dec p p0) as [->|Hne].
      + rewrite Hitem. cbn [ri_ent]. apply NoDup_map_filter. eapply r_nodup; eauto.
      + rewrite Hother by assumption. eapply r_nodup; eauto.
    - intros p Hpn. pose proof (r_lc _ _ _ _ _ Hr p Hpn) as Hl.
      destruct (Nat.eq_dec p p0) as [->|Hne]; [|now rewrite Hother].
      rewrite Hitem. cbn [ri_lc ri_ent].
      destruct (snd (ri_delete (b_id b) (b_hash b) ents 0 (ri_lc (item_at r p0)) 0)) as [q'|] eqn:Ed.
      + apply ri_delete_some in Ed as (q & e & H1 & _ & H3 & _ & _ & H6).
        rewrite H1 in Hl. destruct Hl as (e0 & Hq & He0). rewrite Nat.sub_0_r in H3, H6.
        fold ents in Hq. rewrite H3 in Hq. injection Hq as <-. exists e. auto.
      + destruct (ri_lc (item_at r p0)) as [q|] eqn:El; [exfalso|assumption].
        destruct Hl as (e0 & Hq & He0).
        pose proof (ri_delete_none _ _ _ _ _ _ Ed q e0 eq_refl (Nat.le_0_l _)) as Hk.
        rewrite Nat.sub_0_r in Hk. specialize (Hk Hq). unfold rkeep in Hk.
        apply negb_false_iff, andb_true_iff in Hk as [_ Hk]. apply N.eqb_eq in Hk.
        apply Hnl. now rewrite <- Hk.
    - apply (r_tip _ _ _ _ _ Hr).
  Qed.
End RingOps.
