(* Theorems about Blockchain::add_block (model/Chain.v) for C03, C04, C05. *)
From Saito Require Import Base Chain ChainBasics ChainInv ChainWind ChainAdd.

(* a block is delivered after its parent; the very first block is a root of the universe *)
Definition parent_ok (U : list blk) (st : state) (b : blk) : Prop :=
  (blocks st = [] /\ is_root U b) \/ get_block st (b_prev b) <> None.

(* the invariant at quiescent points; the witness is the longest chain, tip first *)
Definition InvW (c : cfg) (U : list blk) (st : state) (lcr : list blk) : Prop :=
  WInv c U st lcr 0 /\ (ring_empty st = true -> blocks st = [])
  /\ last_id st = tip_id lcr /\ last_hash st = tip_hash lcr.
Definition Inv (c : cfg) (U : list blk) (st : state) : Prop := exists lcr, InvW c U st lcr.

(* what one call of add_block does in the main (non-trivial) case: the candidate
   chain b :: newtl (tip first) sits on the chain block [hd common]; oldb is the
   part of the current chain above it *)
Definition fork_choice (c : cfg) (st : state) (lcr : list blk) (b : blk) (newtl oldb : list blk) : bool :=
  longest_spec c (ring_empty st) (tip_id lcr) b (b :: newtl) oldb.
Definition cand_valid (st : state) (b : blk) (newtl : list blk) : bool :=
  gt_count_valid st (b_prev b) (b_gt b) && forallb b_valid (b :: newtl).

Record main_case (c : cfg) (U : list blk) (st : state) (lcr : list blk) (b : blk)
       (st' : state) (r : add_result) (newtl oldb common : list blk) : Prop := {
  m_split : lcr = oldb ++ common;
  m_link : linked_dn U (b :: newtl) common;
  m_new : forall y, In y newtl -> sget (blocks st) (b_hash y) = Some y /\ ~ In y lcr;
  m_first : common = [] -> newtl = [] /\ blocks st = [] /\ is_root U b;
  m_parent : common <> [] -> get_block st (b_prev b) <> None;
  m_len : (length (b :: newtl) + length lcr <= S (length (blocks st)))%nat;
  m_eq : add_block c st b = add_finish c b (inserted c st b) (hashes (b :: newtl)) (hashes oldb);
  m_res : r = if fork_choice c st lcr b newtl oldb
              then if cand_valid st b newtl then OnChain else Invalid else OffChain;
  m_inv : InvW c U st' (if fork_choice c st lcr b newtl oldb && cand_valid st b newtl
                        then (b :: newtl) ++ common else lcr);
  m_store : forall h, sget (blocks st') h =
              if h =? b_hash b
              then if fork_choice c st lcr b newtl oldb && negb (cand_valid st b newtl) then None else Some b
              else sget (blocks st) h;
  m_steps : if fork_choice c st lcr b newtl oldb
            then wsteps st' <= 2 * (Nlen (b :: newtl) + Nlen oldb) else wsteps st' = wsteps st
}.

Section Main.
  Variables (c : cfg) (U : list blk).
  Hypothesis HU : univ_ok c U.
  Hypothesis HWF : valid_wf U.

  Lemma lcr_nil_of_empty st lcr x : WInv c U st lcr x -> blocks st = [] -> lcr = [].
  Proof.
    intros W E. destruct lcr as [|t l]; [reflexivity|].
    pose proof (w_lc _ _ _ _ _ W t (or_introl eq_refl)) as G. unfold get_block in G. rewrite E in G. discriminate.
  Qed.

  Theorem add_block_spec st lcr b :
    InvW c U st lcr -> In b U -> parent_ok U st b ->
    exists st' r, add_block c st b = Ok (st', r) /\
      ((get_block st (b_hash b) <> None /\ r = Exists /\ st' = st)
       \/ (get_block st (b_hash b) = None /\ (r = Retry \/ r = Invalid) /\ st' = st
           /\ blocks st = [] /\ ring_empty st = false /\ b_prev b <> 0 /\ snd c = true)
       \/ (get_block st (b_hash b) = None
           /\ (blocks st = [] -> ring_empty st = true \/ b_prev b = 0 \/ snd c = false)
           /\ exists newtl oldb common, main_case c U st lcr b st' r newtl oldb common)).
  Proof.
    intros (W & Hre & Hla1 & Hla2) Hb Hpo.
    pose proof (u_id _ _ HU b Hb) as Hid.
    pose proof (add_block_unfold c st b) as Eadd.
    replace (2 * gp_of c <? b_id b) with false in Eadd by (symmetry; apply N.ltb_ge; lia).
    rewrite (latest_hash_spec c U HU _ _ _ W), (latest_id_spec c U HU _ _ _ W) in Eadd. cbn [bind] in Eadd.
    fold (tip_hash lcr) in Eadd.
    destruct (get_block st (b_hash b)) as [sb|] eqn:G.
    { exists st, Exists. split; [exact Eadd|]. left. repeat split; discriminate. }
    cbv zeta in Eadd.
    assert (Hpb : b_prev b <> b_hash b).
    { intros E. pose proof (u_link _ _ HU b b Hb Hb E). lia. }
    (* common preparation for the main path *)
    pose proof (inserted_inv c U HU st lcr b W Hb G) as W2.
    assert (G2 : get_block (inserted c st b) (b_hash b) = Some (mkSB b false)).
    { unfold get_block, inserted; cbn [blocks]. now rewrite aget_aset, N.eqb_refl. }
    assert (Hx : ~ In (b_hash b) (hashes lcr)).
    { intros Hi. apply in_hashes in Hi as (y & Hy & E). pose proof (w_lc _ _ _ _ _ W y Hy). congruence. }
    assert (Hnc2 : forall h sb, get_block (inserted c st b) h = Some sb -> b_prev (s_b sb) <> b_hash b).
    { intros h sb. unfold get_block, inserted; cbn [blocks]. rewrite aget_aset.
      destruct (h =? b_hash b).
      - intros [= <-]. exact Hpb.
      - apply (no_child c U HU st lcr b W Hb G). }
    assert (Hgt : gt_count_valid (inserted c st b) (b_prev b) (b_gt b) = gt_count_valid st (b_prev b) (b_gt b)).
    { apply (gt_count_valid_ins c U HU); [exact Hb|apply (w_store _ _ _ _ _ W)]. }
    destruct Hpo as [[Hbl Hroot]|Hp].
    - (* empty store *)
      pose proof (lcr_nil_of_empty _ _ _ W Hbl) as ->.
      destruct (negb (ring_empty st) && match get_block st (b_prev b) with Some _ => false | None => true end
                && negb (b_prev b =? 0) && snd c) eqn:Econd.
      + apply andb_true_iff in Econd as [Econd Hc]. apply andb_true_iff in Econd as [Econd Hz].
        apply andb_true_iff in Econd as [He _].
        apply negb_true_iff in He. apply negb_true_iff, N.eqb_neq in Hz.
        destruct (N.max 1 (0 - gp_of c) <? b_id b) eqn:Em.
        * exists st, Retry. split; [exact Eadd|]. right; left. repeat split; auto.
        * exists st, Invalid. split; [exact Eadd|]. right; left. repeat split; auto.
      + rewrite (ins_block_eq c U HU st [] b W Hb G) in Eadd.
        unfold add_tail in Eadd. cbn [tip_hash] in Eadd.
        rewrite (add_chains_A c U HU st b W Hb Hbl Hroot) in Eadd. cbn [bind] in Eadd.
        destruct (add_finish_ok c U HU HWF (inserted c st b) b [] [] [] W2 Hb G2 Hx) as
          (st' & r & Ef & Rf & Er & Wf & Sf & Tf & Lf1 & Lf2).
        { intros y [<-|[]]. now rewrite sget_inserted, N.eqb_refl. }
        { cbn [linked_dn link_to app]. auto. }
        { right. auto. }
        { exact Hnc2. }
        { exact Hla1. }
        { exact Hla2. }
        { reflexivity. }
        change (hashes [b]) with [b_hash b] in Ef. change (hashes []) with (@nil N) in Ef.
        exists st', r. split; [now rewrite Eadd|]. right; right. split; [reflexivity|]. split.
        { intros _. destruct (ring_empty st); [now left|]. cbn [negb andb] in Econd.
          unfold get_block in Econd. rewrite Hbl in Econd. cbn [aget andb] in Econd.
          apply andb_false_iff in Econd as [Hz|Hc]; [|auto].
          apply negb_false_iff, N.eqb_eq in Hz. auto. }
        exists [], [], []. rewrite Hgt in *. cbn [app] in *. split.
        * reflexivity.
        * cbn [linked_dn link_to app]. auto.
        * intros y [].
        * auto.
        * intros H; contradiction.
        * rewrite Hbl. cbn [length]. lia.
        * rewrite Eadd. reflexivity.
        * exact Er.
        * unfold fork_choice, cand_valid. cbn [inserted ring_empty] in Wf, Lf1, Lf2.
          split; [exact Wf|]. split; [intros Hr'; congruence|]. split; [exact Lf1|exact Lf2].
        * intros h. rewrite Sf, sget_inserted. unfold fork_choice, cand_valid. cbn [inserted ring_empty].
          destruct (h =? b_hash b); cbn [andb]; [|reflexivity].
          match goal with |- (if ?a && negb ?b then _ else _) = _ => destruct (a && negb b) end; reflexivity.
        * unfold fork_choice. cbn [inserted ring_empty wsteps] in Tf. unfold Nlen, hashes in *.
          rewrite !map_length in Tf. exact Tf.
    - (* parent stored *)
      destruct (get_block st (b_prev b)) as [sbp|] eqn:Gp; [|contradiction].
      rewrite andb_false_r in Eadd. cbn [andb] in Eadd.
      rewrite (ins_block_eq c U HU st lcr b W Hb G) in Eadd.
      destruct (add_chains_B c U HU st lcr b W Hb G) as (newtl & above & s & below & E & Ec & Hl & Hst & Hlen).
      { congruence. }
      unfold add_tail in Eadd. rewrite Ec in Eadd. cbn [bind] in Eadd.
      assert (Hbl : blocks st <> []).
      { intros Hbl. unfold get_block in Gp. rewrite Hbl in Gp. discriminate. }
      rewrite E in W2, Hx.
      destruct (add_finish_ok c U HU HWF (inserted c st b) b newtl above (s :: below) W2 Hb G2 Hx) as
        (st' & r & Ef & Rf & Er & Wf & Sf & Tf & Lf1 & Lf2).
      { intros y [<-|Hy]; [now rewrite sget_inserted, N.eqb_refl|].
        destruct (Hst y Hy) as [Hs _]. rewrite sget_inserted.
        destruct (N.eqb_spec (b_hash y) (b_hash b)) as [Ey|_]; [|exact Hs].
        rewrite Ey in Hs. apply sget_get in Hs as (f & Hs). congruence. }
      { exact Hl. }
      { left. split; [discriminate|]. unfold get_block, inserted; cbn [blocks]. rewrite aget_aset.
        destruct (b_prev b =? b_hash b); [discriminate|]. unfold get_block in Gp. now rewrite Gp. }
      { exact Hnc2. }
      { rewrite <- E. exact Hla1. }
      { rewrite <- E. exact Hla2. }
      { intros Hr0. exfalso. apply Hbl. apply Hre. exact Hr0. }
      exists st', r. split; [now rewrite Eadd|]. right; right. split; [reflexivity|].
      split; [intros; contradiction|].
      exists newtl, above, (s :: below). rewrite Hgt, <- E in *. split.
      * exact E.
      * exact Hl.
      * exact Hst.
      * discriminate.
      * intros _. congruence.
      * exact Hlen.
      * rewrite Eadd. reflexivity.
      * exact Er.
      * unfold fork_choice, cand_valid. cbn [inserted ring_empty] in Wf, Lf1, Lf2.
        split; [exact Wf|]. split; [intros Hr'; congruence|]. split; [exact Lf1|exact Lf2].
      * intros h. rewrite Sf, sget_inserted. unfold fork_choice, cand_valid. cbn [inserted ring_empty].
        destruct (h =? b_hash b); cbn [andb]; [|reflexivity].
        match goal with |- (if ?a && negb ?b then _ else _) = _ => destruct (a && negb b) end; reflexivity.
      * unfold fork_choice. cbn [inserted ring_empty wsteps] in Tf. unfold Nlen, hashes in *.
        rewrite !map_length in Tf. exact Tf.
  Qed.

  (* ================================================================== *)
  (* C03                                                                *)
  (* ================================================================== *)
  Lemma item_at_init p : item_at (ring (init c)) p = mkRI None [].
  Proof.
    unfold item_at, init; cbn [ring]. generalize (N.to_nat (2 * gp_of c)) as n. intros n; revert p.
    induction n as [|n IH]; intros [|p]; cbn [repeat nth]; auto.
  Qed.

  Theorem inv_init : InvW c U (init c) [].
  Proof.
    split; [|repeat split]. split.
    - split; [constructor|]. intros h b H. discriminate.
    - exact I.
    - intros b [].
    - intros h sb H. discriminate.
    - intros h sb H. discriminate.
    - reflexivity.
    - split.
      + unfold init; cbn [ring]. apply repeat_length.
      + intros p e _. rewrite item_at_init. intros [].
      + intros h b H. discriminate.
      + intros p _. rewrite item_at_init. constructor.
      + intros p _. rewrite item_at_init. cbn [ri_lc]. intros b [].
      + reflexivity.
  Qed.

  Lemma main_case_inv st lcr b st' r newtl oldb common :
    main_case c U st lcr b st' r newtl oldb common -> Inv c U st'.
  Proof. intros M. eexists. apply (m_inv _ _ _ _ _ _ _ _ _ _ M). Qed.

  Theorem inv_step st b st' r :
    Inv c U st -> In b U -> parent_ok U st b -> add_block c st b = Ok (st', r) -> Inv c U st'.
  Proof.
    intros [lcr HI] Hb Hp E.
    destruct (add_block_spec st lcr b HI Hb Hp) as (st1 & r1 & E1 & [C|[C|C]]);
      rewrite E in E1; injection E1 as <- <-.
    - destruct C as (_ & _ & ->). now exists lcr.
    - destruct C as (_ & _ & -> & _). now exists lcr.
    - destruct C as (_ & _ & newtl & oldb & common & M). eapply main_case_inv; eauto.
  Qed.

  Theorem add_block_total st b :
    Inv c U st -> In b U -> parent_ok U st b -> exists st' r, add_block c st b = Ok (st', r).
  Proof.
    intros [lcr HI] Hb Hp.
    destruct (add_block_spec st lcr b HI Hb Hp) as (st1 & r1 & E1 & _). eauto.
  Qed.

  (* orphan-free delivery lists *)
  Fixpoint orphan_free (st : state) (bs : list blk) : Prop :=
    match bs with
    | [] => True
    | b :: t => In b U /\ parent_ok U st b
                /\ match add_block c st b with Ok (st', _) => orphan_free st' t | _ => True end
    end.

  Theorem deliver_inv bs : forall st, Inv c U st -> orphan_free st bs ->
    exists st', deliver c st bs = Ok st' /\ Inv c U st'.
  Proof.
    induction bs as [|b t IH]; intros st HI Hof; cbn [deliver].
    - eauto.
    - destruct Hof as (Hb & Hp & Hof).
      destruct (add_block_total st b HI Hb Hp) as (st1 & r1 & E1). rewrite E1 in *. cbn [bind fst].
      apply IH; [|exact Hof]. eapply inv_step; eauto.
  Qed.

  (* what the invariant says, for the chain listed root first *)
  Definition chain_index (lc : list blk) (id : N) (h : N) : Prop :=
    exists b, In b lc /\ b_id b = id /\ b_hash b = h.

  Lemma find_id_spec l id : NoDup (map b_id l) ->
    forall h, (match find (fun b => b_id b =? id) l with Some b => Some (b_hash b) | None => None end) = Some h
              <-> chain_index l id h.
  Proof.
    intros Hnd h. destruct (find (fun b => b_id b =? id) l) as [x|] eqn:F; split.
    - intros [= <-]. apply find_some in F as [Hx Ex]. apply N.eqb_eq in Ex. exists x. auto.
    - intros (y & Hy & Ey & <-). f_equal. f_equal.
      apply find_some in F as [Hx Ex]. apply N.eqb_eq in Ex.
      assert (Exy : b_id x = b_id y) by congruence.
      clear -Hnd Hx Hy Exy. induction l as [|a l IH]; [contradiction|].
      cbn [map] in Hnd. inversion Hnd as [|? ? Ha Hl]; subst.
      destruct Hx as [->|Hx], Hy as [->|Hy]; auto.
      + exfalso. apply Ha. rewrite Exy. now apply in_map.
      + exfalso. apply Ha. rewrite <- Exy. now apply in_map.
    - discriminate.
    - intros (y & Hy & Ey & _). pose proof (find_none _ _ F y Hy) as Hn. cbn beta in Hn.
      rewrite Ey, N.eqb_refl in Hn. discriminate.
  Qed.

  Lemma chain_ids_nodup l : chain_ok U l -> NoDup (map b_id l).
  Proof.
    induction l as [|t l IH]; intros Hc; cbn [map]; constructor.
    - intros Hi. apply in_map_iff in Hi as (a & E & Ha).
      pose proof (chain_id_lt c U t l HU Hc a Ha). lia.
    - apply IH. eapply chain_ok_tail; eauto.
  Qed.

  Theorem inv_meaning st lcr : InvW c U st lcr -> 1 <= 2 * gp_of c ->
    let lc := rev lcr in
    chain_ok U lcr
    /\ (forall b, In b lc -> get_block st (b_hash b) = Some (mkSB b true))
    /\ (forall h sb, get_block st h = Some sb -> s_lc sb = true -> In h (hashes lc))
    /\ utxo st = fold_left apply_block lc []
    /\ (forall id h, lc_hash_at c (ring st) id = Some h <-> chain_index lc id h)
    /\ latest_id st = Ok (tip_id lcr) /\ latest_hash st = Ok (tip_hash lcr)
    /\ last_id st = tip_id lcr /\ last_hash st = tip_hash lcr
    /\ (forall h sb, get_block st h = Some sb ->
          In (h, b_id (s_b sb)) (ri_ent (item_at (ring st) (slot c (b_id (s_b sb))))))
    /\ (forall p e, (p < nslots c)%nat -> In e (ri_ent (item_at (ring st) p)) ->
          exists sb, get_block st (fst e) = Some sb /\ b_id (s_b sb) = snd e /\ slot c (snd e) = p)
    /\ (forall p, (p < nslots c)%nat -> NoDup (map fst (ri_ent (item_at (ring st) p))))
    /\ length (ring st) = nslots c.
  Proof.
    intros (W & _ & Hla1 & Hla2) Hgp lc. pose proof (w_ring _ _ _ _ _ W) as Hr.
    split; [apply (w_chain _ _ _ _ _ W)|].
    split; [intros b Hb; apply (w_lc _ _ _ _ _ W); now apply in_rev|].
    split.
    { intros h sb G F. destruct (w_flags _ _ _ _ _ W h sb G F) as [Hi|E].
      - unfold lc, hashes. rewrite map_rev. now apply -> in_rev.
      - exfalso. exact (stored_nz c U HU _ _ _ _ _ W G E). }
    split; [rewrite (w_utxo _ _ _ _ _ W); apply replay_rev|].
    split.
    { intros id h.
      rewrite (lc_hash_at_spec c U HU (blocks st) (ring st) (ring_lc st) lcr id
                 (w_store _ _ _ _ _ W) Hr (w_chain _ _ _ _ _ W) (w_lc_sget c U _ _ _ W) Hgp).
      rewrite (find_id_spec lcr id (chain_ids_nodup _ (w_chain _ _ _ _ _ W)) h).
      unfold chain_index, lc. split; intros (y & Hy & Ey); exists y; (split; [|exact Ey]);
        [now apply -> in_rev|now apply in_rev]. }
    split; [apply (latest_id_spec c U HU _ _ _ W)|].
    split; [apply (latest_hash_spec c U HU _ _ _ W)|].
    split; [exact Hla1|]. split; [exact Hla2|].
    split.
    { intros h sb G. apply (r_complete _ _ _ _ _ Hr). apply (get_sget _ _ _ G). }
    split.
    { intros p e Hp He. destruct (r_sound _ _ _ _ _ Hr p e Hp He) as (y & Hy & Ey).
      destruct (sget_get _ _ _ Hy) as (f & G). exists (mkSB y f). auto. }
    split; [apply (r_nodup _ _ _ _ _ Hr)|apply (r_len _ _ _ _ _ Hr)].
  Qed.

  (* ================================================================== *)
  (* C04                                                                *)
  (* ================================================================== *)
  Definition obs_eq (st st' : state) : Prop :=
    blocks st' = blocks st /\ utxo st' = utxo st
    /\ (forall id, lc_hash_at c (ring st') id = lc_hash_at c (ring st) id)
    /\ latest_id st' = latest_id st /\ latest_hash st' = latest_hash st
    /\ last_id st' = last_id st /\ last_hash st' = last_hash st.

  Lemma obs_eq_refl st : obs_eq st st.
  Proof. repeat split. Qed.

  Lemma obs_same_chain st st' lcr : 1 <= 2 * gp_of c ->
    InvW c U st lcr -> InvW c U st' lcr -> same_store (blocks st) (blocks st') -> obs_eq st st'.
  Proof.
    intros Hgp (W & _ & La1 & La2) (W' & _ & Lb1 & Lb2) Hss. split.
    { apply asorted_ext; [apply (w_store _ _ _ _ _ W')|apply (w_store _ _ _ _ _ W)|].
      intros k. pose proof (Hss k) as Ek. unfold sget in Ek.
      destruct (aget k (blocks st)) as [sb|] eqn:G, (aget k (blocks st')) as [sb'|] eqn:G';
        cbn [option_map] in Ek; try discriminate; [|reflexivity].
      injection Ek as Ek. f_equal.
      pose proof (lc_flag_iff c U HU st lcr k sb W G) as F.
      pose proof (lc_flag_iff c U HU st' lcr k sb' W' G') as F'.
      destruct sb as [y f], sb' as [y' f']. cbn [s_b s_lc] in *. subst y'. f_equal.
      destruct f, f'; auto.
      - apply F'. apply F. reflexivity.
      - symmetry. apply F. apply F'. reflexivity. }
    split; [now rewrite (w_utxo _ _ _ _ _ W), (w_utxo _ _ _ _ _ W')|].
    split.
    { intros id.
      rewrite (lc_hash_at_spec c U HU _ _ _ lcr id (w_store _ _ _ _ _ W') (w_ring _ _ _ _ _ W')
                 (w_chain _ _ _ _ _ W') (w_lc_sget c U _ _ _ W') Hgp).
      now rewrite (lc_hash_at_spec c U HU _ _ _ lcr id (w_store _ _ _ _ _ W) (w_ring _ _ _ _ _ W)
                 (w_chain _ _ _ _ _ W) (w_lc_sget c U _ _ _ W) Hgp). }
    split; [now rewrite (latest_id_spec c U HU _ _ _ W), (latest_id_spec c U HU _ _ _ W')|].
    split; [now rewrite (latest_hash_spec c U HU _ _ _ W), (latest_hash_spec c U HU _ _ _ W')|].
    split; congruence.
  Qed.

  Theorem rejected_no_trace st b st' r :
    Inv c U st -> In b U -> parent_ok U st b -> add_block c st b = Ok (st', r) ->
    r = Invalid \/ r = Exists \/ r = Retry -> obs_eq st st'.
  Proof.
    intros [lcr HI] Hb Hp E Hr.
    destruct (add_block_spec st lcr b HI Hb Hp) as (st1 & r1 & E1 & [C|[C|C]]);
      rewrite E in E1; injection E1 as <- <-.
    - destruct C as (_ & _ & ->). apply obs_eq_refl.
    - destruct C as (_ & _ & -> & _). apply obs_eq_refl.
    - destruct C as (G & _ & newtl & oldb & common & M).
      pose proof (m_res _ _ _ _ _ _ _ _ _ _ M) as Er.
      pose proof (m_inv _ _ _ _ _ _ _ _ _ _ M) as HI'.
      pose proof (m_store _ _ _ _ _ _ _ _ _ _ M) as Hs.
      destruct (fork_choice c st lcr b newtl oldb); [|subst r; destruct Hr as [?|[?|?]]; discriminate].
      destruct (cand_valid st b newtl); [subst r; destruct Hr as [?|[?|?]]; discriminate|].
      cbn [andb negb] in *.
      apply (obs_same_chain st st' lcr (gp_pos c U HU b Hb) HI HI').
      intros h. rewrite Hs. destruct (N.eqb_spec h (b_hash b)) as [->|_]; [|reflexivity].
      now apply sget_none.
  Qed.

  Theorem steps_bounded st b st' r :
    Inv c U st -> In b U -> parent_ok U st b -> add_block c st b = Ok (st', r) ->
    wsteps st' = wsteps st
    \/ exists new old : list blk, (length new + length old <= S (length (blocks st)))%nat
                       /\ wsteps st' <= 2 * (Nlen new + Nlen old).
  Proof.
    intros [lcr HI] Hb Hp E.
    destruct (add_block_spec st lcr b HI Hb Hp) as (st1 & r1 & E1 & [C|[C|C]]);
      rewrite E in E1; injection E1 as <- <-.
    - destruct C as (_ & _ & ->). now left.
    - destruct C as (_ & _ & -> & _). now left.
    - destruct C as (G & _ & newtl & oldb & common & M).
      pose proof (m_steps _ _ _ _ _ _ _ _ _ _ M) as Hs.
      destruct (fork_choice c st lcr b newtl oldb); [|now left].
      right. exists (b :: newtl), oldb. split; [|exact Hs].
      pose proof (m_len _ _ _ _ _ _ _ _ _ _ M) as Hl.
      rewrite (m_split _ _ _ _ _ _ _ _ _ _ M), app_length in Hl. lia.
  Qed.

  (* the reported last block IS the tip (0 / 0 for the empty chain) *)
  Theorem last_is_tip st : Inv c U st ->
    exists i h, latest_id st = Ok i /\ latest_hash st = Ok h /\ last_id st = i /\ last_hash st = h.
  Proof.
    intros (lcr & W & _ & L1 & L2). exists (tip_id lcr), (tip_hash lcr).
    split; [apply (latest_id_spec c U HU _ _ _ W)|]. split; [apply (latest_hash_spec c U HU _ _ _ W)|].
    auto.
  Qed.

  Theorem ledger_is_replay bs : 1 <= 2 * gp_of c -> orphan_free (init c) bs ->
    exists st lc,
      deliver c (init c) bs = Ok st
      /\ chain_ok U (rev lc)
      /\ (forall b, In b lc -> get_block st (b_hash b) = Some (mkSB b true))
      /\ (forall h sb, get_block st h = Some sb -> s_lc sb = true -> In h (hashes lc))
      /\ utxo st = fold_left apply_block lc []
      /\ (forall id h, lc_hash_at c (ring st) id = Some h <-> chain_index lc id h)
      /\ latest_id st = Ok (tip_id (rev lc)) /\ latest_hash st = Ok (tip_hash (rev lc))
      /\ last_id st = tip_id (rev lc) /\ last_hash st = tip_hash (rev lc)
      /\ (forall h sb, get_block st h = Some sb ->
            In (h, b_id (s_b sb)) (ri_ent (item_at (ring st) (slot c (b_id (s_b sb))))))
      /\ (forall p e, (p < nslots c)%nat -> In e (ri_ent (item_at (ring st) p)) ->
            exists sb, get_block st (fst e) = Some sb /\ b_id (s_b sb) = snd e /\ slot c (snd e) = p)
      /\ (forall p, (p < nslots c)%nat -> NoDup (map fst (ri_ent (item_at (ring st) p))))
      /\ length (ring st) = nslots c.
  Proof.
    intros Hgp Hof.
    destruct (deliver_inv bs (init c) (ex_intro _ [] inv_init) Hof) as (st & E & lcr & HI).
    exists st, (rev lcr). split; [exact E|].
    pose proof (inv_meaning st lcr HI Hgp) as H. cbv zeta in H. rewrite rev_involutive. exact H.
  Qed.
End Main.

(* ================================================================== *)
(* C05                                                                *)
(* ================================================================== *)
Section ForkChoice.
  Variables (c : cfg) (U : list blk).
  Hypothesis HU : univ_ok c U.
  Hypothesis HWF : valid_wf U.

  Lemma fork_choice_true st lcr b newtl oldb common :
    InvW c U st lcr -> In b U -> lcr = oldb ++ common ->
    fork_choice c st lcr b newtl oldb = true ->
    tip_id lcr - gp_of c < b_id b /\ tip_id lcr < b_id b
    /\ (length oldb < length (b :: newtl))%nat /\ bf_total oldb <= bf_total (b :: newtl).
  Proof.
    intros (W & Hre & _) Hb E H. unfold fork_choice, longest_spec in H.
    apply andb_true_iff in H as [H1 H2]. apply N.ltb_lt in H1. split; [exact H1|].
    destruct (ring_empty st) eqn:Ere.
    - pose proof (lcr_nil_of_empty c U _ _ _ W (Hre eq_refl)) as Hn. rewrite Hn in *.
      symmetry in E. apply app_eq_nil in E as [-> _].
      pose proof (u_id _ _ HU b Hb). cbn [tip_id length bf_total fold_left]. repeat split; lia.
    - cbn [orb] in H2. apply andb_true_iff in H2 as [H2 H4]. apply andb_true_iff in H2 as [H2 H3].
      apply negb_true_iff, N.leb_gt in H2. apply Nat.ltb_lt in H3. apply N.leb_le in H4. auto.
  Qed.

  Theorem tip_moves_only_if st lcr b st' r :
    InvW c U st lcr -> In b U -> parent_ok U st b -> add_block c st b = Ok (st', r) ->
    latest_hash st' <> latest_hash st ->
    r = OnChain
    /\ exists newtl oldb common,
         lcr = oldb ++ common /\ InvW c U st' ((b :: newtl) ++ common)
         /\ linked_dn U (b :: newtl) common
         /\ (forall y, In y newtl -> sget (blocks st) (b_hash y) = Some y /\ ~ In y lcr)
         /\ (length oldb < length (b :: newtl))%nat
         /\ bf_total oldb <= bf_total (b :: newtl)
         /\ forallb b_valid (b :: newtl) = true
         /\ gt_count_valid st (b_prev b) (b_gt b) = true
         /\ tip_id lcr - gp_of c < b_id b /\ tip_id lcr < b_id b
         /\ latest_hash st' = Ok (b_hash b).
  Proof.
    intros HI Hb Hp E Hne.
    destruct (add_block_spec c U HU HWF st lcr b HI Hb Hp) as (st1 & r1 & E1 & [C|[C|C]]);
      rewrite E in E1; injection E1 as <- <-.
    - destruct C as (_ & _ & ->). contradiction.
    - destruct C as (_ & _ & -> & _). contradiction.
    - destruct C as (G & _ & newtl & oldb & common & M).
      pose proof (m_res _ _ _ _ _ _ _ _ _ _ M) as Er.
      pose proof (m_inv _ _ _ _ _ _ _ _ _ _ M) as HI'.
      assert (Hsame : InvW c U st' lcr -> False).
      { intros [W' _]. apply Hne. destruct HI as [W _].
        now rewrite (latest_hash_spec c U HU _ _ _ W), (latest_hash_spec c U HU _ _ _ W'). }
      destruct (fork_choice c st lcr b newtl oldb) eqn:Efc; [|exfalso; auto].
      destruct (cand_valid st b newtl) eqn:Ecv; [|exfalso; auto].
      cbn [andb] in HI'. split; [exact Er|].
      exists newtl, oldb, common.
      destruct (fork_choice_true st lcr b newtl oldb common HI Hb (m_split _ _ _ _ _ _ _ _ _ _ M) Efc)
        as (F1 & F2 & F3 & F4).
      apply andb_true_iff in Ecv as [Eg Ev].
      split; [apply (m_split _ _ _ _ _ _ _ _ _ _ M)|]. split; [exact HI'|].
      split; [apply (m_link _ _ _ _ _ _ _ _ _ _ M)|]. split; [apply (m_new _ _ _ _ _ _ _ _ _ _ M)|].
      repeat (split; [assumption|]).
      destruct HI' as [W' _]. now rewrite (latest_hash_spec c U HU _ _ _ W').
  Qed.

  Theorem height_monotone st lcr b st' r :
    InvW c U st lcr -> In b U -> parent_ok U st b -> add_block c st b = Ok (st', r) ->
    exists i i', latest_id st = Ok i /\ latest_id st' = Ok i' /\ i <= i'.
  Proof.
    intros HI Hb Hp E.
    pose proof HI as [W _].
    exists (tip_id lcr). rewrite (latest_id_spec c U HU _ _ _ W).
    destruct (add_block_spec c U HU HWF st lcr b HI Hb Hp) as (st1 & r1 & E1 & [C|[C|C]]);
      rewrite E in E1; injection E1 as <- <-.
    - destruct C as (_ & _ & ->). exists (tip_id lcr). rewrite (latest_id_spec c U HU _ _ _ W).
      repeat split; lia.
    - destruct C as (_ & _ & -> & _). exists (tip_id lcr). rewrite (latest_id_spec c U HU _ _ _ W).
      repeat split; lia.
    - destruct C as (G & _ & newtl & oldb & common & M).
      pose proof (m_inv _ _ _ _ _ _ _ _ _ _ M) as [W' _].
      rewrite (latest_id_spec c U HU _ _ _ W').
      destruct (fork_choice c st lcr b newtl oldb) eqn:Efc; cbn [andb].
      2:{ exists (tip_id lcr). repeat split; lia. }
      destruct (cand_valid st b newtl).
      2:{ exists (tip_id lcr). repeat split; lia. }
      destruct (fork_choice_true st lcr b newtl oldb common HI Hb (m_split _ _ _ _ _ _ _ _ _ _ M) Efc)
        as (_ & F2 & _).
      exists (b_id b). cbn [app tip_id]. repeat split; lia.
  Qed.

  (* the answer OnChain always comes with a move of the tip to the new block *)
  Theorem onchain_moves_tip st lcr b st' :
    InvW c U st lcr -> In b U -> parent_ok U st b -> add_block c st b = Ok (st', OnChain) ->
    latest_hash st' = Ok (b_hash b) /\ latest_hash st' <> latest_hash st.
  Proof.
    intros HI Hb Hp E. pose proof HI as [W _].
    destruct (add_block_spec c U HU HWF st lcr b HI Hb Hp) as (st1 & r1 & E1 & [C|[C|C]]);
      rewrite E in E1; injection E1 as <- <-.
    - destruct C as (_ & C & _). discriminate.
    - destruct C as (_ & [C|C] & _); discriminate.
    - destruct C as (G & _ & newtl & oldb & common & M).
      pose proof (m_res _ _ _ _ _ _ _ _ _ _ M) as Er.
      pose proof (m_inv _ _ _ _ _ _ _ _ _ _ M) as HI'.
      destruct (fork_choice c st lcr b newtl oldb); [|discriminate].
      destruct (cand_valid st b newtl); [|discriminate].
      cbn [andb] in HI'. destruct HI' as [W' _].
      rewrite (latest_hash_spec c U HU _ _ _ W'), (latest_hash_spec c U HU _ _ _ W).
      cbn [app]. split; [reflexivity|]. intros [= Eh].
      destruct lcr as [|t l]; cbn in Eh.
      + now apply (u_nz _ _ HU b Hb).
      + pose proof (w_lc _ _ _ _ _ W t (or_introl eq_refl)) as Gt. rewrite <- Eh in Gt. congruence.
  Qed.

  (* ---- uniqueness of the decomposition, for the converse ---- *)
  Lemma split_unique (l : list blk) : NoDup (hashes l) ->
    forall o1 s1 c1 o2 s2 c2, l = o1 ++ s1 :: c1 -> l = o2 ++ s2 :: c2 -> b_hash s1 = b_hash s2 ->
    o1 = o2 /\ s1 = s2 /\ c1 = c2.
  Proof.
    induction l as [|a l IH]; intros Hnd o1 s1 c1 o2 s2 c2 E1 E2 Eh.
    - destruct o1; discriminate.
    - cbn [hashes map] in Hnd. inversion Hnd as [|? ? Ha Hl]; subst.
      destruct o1 as [|x1 o1], o2 as [|x2 o2]; cbn [app] in E1, E2.
      + injection E1 as <- <-. injection E2 as <- <-. auto.
      + injection E1 as <- <-. injection E2 as <- E2. exfalso. apply Ha. rewrite Eh, E2.
        apply in_map, in_elt.
      + injection E1 as <- E1. injection E2 as <- <-. exfalso. apply Ha. rewrite <- Eh, E1.
        apply in_map, in_elt.
      + injection E1 as <- E1. injection E2 as <- E2.
        destruct (IH Hl o1 s1 c1 o2 s2 c2 E1 E2 Eh) as (-> & -> & ->). auto.
  Qed.

  Lemma newchain_unique (lcr : list blk) : (forall y, In y lcr -> In y U) ->
    forall l1 l2 a s1 r1 s2 r2,
    linked_dn U (a :: l1) (s1 :: r1) -> linked_dn U (a :: l2) (s2 :: r2) ->
    (forall y, In y l1 -> In y U /\ ~ In y lcr) -> (forall y, In y l2 -> In y U /\ ~ In y lcr) ->
    In s1 lcr -> In s2 lcr -> l1 = l2 /\ b_hash s1 = b_hash s2.
  Proof.
    intros HlU. induction l1 as [|x l1 IH]; intros l2 a s1 r1 s2 r2 L1 L2 H1 H2 Hs1 Hs2.
    - destruct l2 as [|y l2]; cbn [linked_dn link_to app] in L1, L2.
      + split; [reflexivity|]. destruct L1 as [L1 _], L2 as [L2 _]. congruence.
      + exfalso. destruct L1 as [L1 _], L2 as [L2 _]. destruct (H2 y (or_introl eq_refl)) as [HyU Hny].
        apply Hny. replace y with s1; [exact Hs1|].
        eapply hash_inj; eauto. congruence.
    - destruct l2 as [|y l2]; cbn [linked_dn link_to app] in L1, L2.
      + exfalso. destruct L1 as [L1 _], L2 as [L2 _]. destruct (H1 x (or_introl eq_refl)) as [HxU Hnx].
        apply Hnx. replace x with s2; [exact Hs2|].
        eapply hash_inj; eauto. congruence.
      + destruct L1 as [L1 L1'], L2 as [L2 L2'].
        assert (x = y).
        { eapply hash_inj; eauto; [apply H1; now left|apply H2; now left|congruence]. }
        subst y. destruct (IH l2 x s1 r1 s2 r2) as [-> Eh]; auto.
        * intros z Hz. apply H1. now right.
        * intros z Hz. apply H2. now right.
  Qed.

  Lemma id_along l p s q : (forall a, In a l -> In a U) -> plinked l -> l = p ++ s :: q ->
    tip_id l = b_id s + N.of_nat (length p).
  Proof.
    intros Hin Hp E.
    assert (Hn : nth_error l (length p) = Some s).
    { rewrite E, nth_error_app2, Nat.sub_diag by lia. reflexivity. }
    destruct l as [|t l']; [destruct p; discriminate|].
    cbn [tip_id]. symmetry. apply (plinked_ids c U _ HU Hin Hp (length p) s t eq_refl Hn).
  Qed.

  Theorem adopts st lcr b newtl oldb common :
    InvW c U st lcr -> In b U -> get_block st (b_hash b) = None ->
    lcr = oldb ++ common -> common <> [] ->
    linked_dn U (b :: newtl) common ->
    (forall y, In y newtl -> sget (blocks st) (b_hash y) = Some y /\ ~ In y lcr) ->
    (length oldb < length (b :: newtl))%nat ->
    bf_total oldb <= bf_total (b :: newtl) ->
    forallb b_valid (b :: newtl) = true ->
    gt_count_valid st (b_prev b) (b_gt b) = true ->
    tip_id lcr - gp_of c < b_id b ->
    exists st', add_block c st b = Ok (st', OnChain)
                /\ InvW c U st' ((b :: newtl) ++ common) /\ latest_hash st' = Ok (b_hash b).
  Proof.
    intros HI Hb G E Hcn Hl Hnew Hlen Hbf Hval Hgt Hwin.
    pose proof HI as [W _].
    destruct common as [|s r0]; [contradiction|].
    assert (Hs : In s lcr) by (rewrite E; apply in_elt).
    assert (HlU : forall y, In y lcr -> In y U) by (apply chain_ok_in, (w_chain _ _ _ _ _ W)).
    assert (HnU : forall y, In y newtl -> In y U /\ ~ In y lcr).
    { intros y Hy. destruct (Hnew y Hy) as [Hsy Hny]. split; [|exact Hny].
      apply (proj2 (w_store _ _ _ _ _ W) _ _ Hsy). }
    assert (Hp : parent_ok U st b).
    { right. destruct Hl as [Hl _]. destruct newtl as [|y newtl']; cbn [app link_to] in Hl; rewrite Hl.
      - rewrite (w_lc _ _ _ _ _ W s Hs). discriminate.
      - destruct (Hnew y (or_introl eq_refl)) as [Hsy _]. apply sget_get in Hsy as (f & ->). discriminate. }
    destruct (add_block_spec c U HU HWF st lcr b HI Hb Hp) as (st' & r & E1 & [C|[C|C]]).
    { destruct C as (C & _). contradiction. }
    { destruct C as (_ & _ & _ & Hbl & _). destruct Hp as [[? _]|Hp]; [|unfold get_block in Hp; rewrite Hbl in Hp; now contradiction Hp].
      exfalso. pose proof (w_lc _ _ _ _ _ W s Hs) as Gs. unfold get_block in Gs. rewrite Hbl in Gs. discriminate. }
    destruct C as (_ & _ & newtl' & oldb' & common' & M).
    destruct common' as [|s' r'].
    { exfalso. destruct (m_first _ _ _ _ _ _ _ _ _ _ M eq_refl) as (_ & Hbl & _).
      pose proof (w_lc _ _ _ _ _ W s Hs) as Gs. unfold get_block in Gs. rewrite Hbl in Gs. discriminate. }
    pose proof (m_split _ _ _ _ _ _ _ _ _ _ M) as E'.
    assert (Hs' : In s' lcr) by (rewrite E'; apply in_elt).
    assert (HnU' : forall y, In y newtl' -> In y U /\ ~ In y lcr).
    { intros y Hy. destruct (m_new _ _ _ _ _ _ _ _ _ _ M y Hy) as [Hsy Hny]. split; [|exact Hny].
      apply (proj2 (w_store _ _ _ _ _ W) _ _ Hsy). }
    destruct (newchain_unique lcr HlU newtl newtl' b s r0 s' r' Hl (m_link _ _ _ _ _ _ _ _ _ _ M) HnU HnU' Hs Hs')
      as [<- Eh].
    destruct (split_unique lcr (chain_hashes_nodup c U _ HU (w_chain _ _ _ _ _ W)) oldb s r0 oldb' s' r' E E' Eh)
      as (<- & <- & <-).
    (* the criteria hold *)
    assert (Hid : tip_id lcr < b_id b).
    { assert (T1 : tip_id lcr = b_id s + N.of_nat (length oldb)).
      { apply (id_along lcr oldb s r0 HlU (chain_ok_plinked U _ (w_chain _ _ _ _ _ W)) E). }
      assert (T2 : tip_id ((b :: newtl) ++ s :: r0) = b_id s + N.of_nat (length (b :: newtl))).
      { apply (id_along _ (b :: newtl) s r0); [| |reflexivity].
        - intros a Ha. apply in_app_iff in Ha as [[<-|Ha]|Ha]; [exact Hb|apply HnU, Ha|].
          apply HlU. rewrite E. apply in_app_iff. now right.
        - apply (linked_dn_plinked U); [exact Hl|].
          apply (chain_ok_plinked U), (chain_ok_app_r U oldb). rewrite <- E. apply (w_chain _ _ _ _ _ W). }
      cbn [app tip_id] in T2. lia. }
    assert (Efc : fork_choice c st lcr b newtl oldb = true).
    { unfold fork_choice, longest_spec. apply andb_true_iff. split; [now apply N.ltb_lt|].
      apply orb_true_iff. right. rewrite !andb_true_iff. repeat split.
      - apply negb_true_iff, N.leb_gt. exact Hid.
      - now apply Nat.ltb_lt.
      - now apply N.leb_le. }
    assert (Ecv : cand_valid st b newtl = true) by (unfold cand_valid; now rewrite Hgt, Hval).
    pose proof (m_res _ _ _ _ _ _ _ _ _ _ M) as Er. pose proof (m_inv _ _ _ _ _ _ _ _ _ _ M) as HI'.
    rewrite Efc, Ecv in Er, HI'. cbn [andb] in HI'. subst r.
    exists st'. split; [exact E1|]. split; [exact HI'|].
    destruct HI' as [W' _]. now rewrite (latest_hash_spec c U HU _ _ _ W').
  Qed.

  Theorem adopts_first st b :
    Inv c U st -> In b U -> blocks st = [] -> is_root U b -> b_valid b = true ->
    (ring_empty st = true \/ b_prev b = 0 \/ snd c = false) ->
    exists st', add_block c st b = Ok (st', OnChain)
                /\ InvW c U st' [b] /\ latest_hash st' = Ok (b_hash b).
  Proof.
    intros [lcr HI] Hb Hbl Hroot Hv Hcfg.
    pose proof HI as [W _].
    pose proof (lcr_nil_of_empty c U _ _ _ W Hbl) as ->.
    assert (Hp : parent_ok U st b) by (left; auto).
    destruct (add_block_spec c U HU HWF st [] b HI Hb Hp) as (st' & r & E1 & [C|[C|C]]).
    { destruct C as (C & _). unfold get_block in C. rewrite Hbl in C. now contradiction C. }
    { destruct C as (_ & _ & _ & _ & He & Hz & Hc). destruct Hcfg as [?|[?|?]]; congruence. }
    destruct C as (_ & _ & newtl & oldb & common & M).
    destruct common as [|s r0].
    2:{ exfalso. assert (Hne : s :: r0 <> []) by discriminate.
        pose proof (m_parent _ _ _ _ _ _ _ _ _ _ M Hne) as Hpp. unfold get_block in Hpp.
        rewrite Hbl in Hpp. now contradiction Hpp. }
    destruct (m_first _ _ _ _ _ _ _ _ _ _ M eq_refl) as (-> & _ & _).
    pose proof (m_split _ _ _ _ _ _ _ _ _ _ M) as E. symmetry in E. apply app_eq_nil in E as [-> _].
    pose proof (u_id _ _ HU b Hb) as Hid.
    assert (Efc : fork_choice c st [] b [] [] = true).
    { unfold fork_choice, longest_spec. cbn [tip_id length bf_total fold_left].
      replace (0 - gp_of c <? b_id b) with true by (symmetry; apply N.ltb_lt; lia).
      replace (b_id b <=? 0) with false by (symmetry; apply N.leb_gt; lia).
      replace (0 <=? 0 + b_bf b) with true by (symmetry; apply N.leb_le; lia).
      cbn. now rewrite orb_true_r. }
    assert (Ecv : cand_valid st b [] = true).
    { unfold cand_valid, gt_count_valid. cbn [forallb]. rewrite Hv.
      replace (gt_walk (N.to_nat (GT_DEN - 1)) st (b_prev b) 0 0) with (0, 0); [reflexivity|].
      change (N.to_nat (GT_DEN - 1)) with 5%nat. cbn [gt_walk]. unfold get_block. now rewrite Hbl. }
    pose proof (m_res _ _ _ _ _ _ _ _ _ _ M) as Er. pose proof (m_inv _ _ _ _ _ _ _ _ _ _ M) as HI'.
    rewrite Efc, Ecv in Er, HI'. cbn [andb app] in HI'. subst r.
    exists st'. split; [exact E1|]. split; [exact HI'|].
    destruct HI' as [W' _]. now rewrite (latest_hash_spec c U HU _ _ _ W').
  Qed.

  (* with initial_loading_completed a block whose non-zero parent is unknown is answered
     Retry / Invalid and nothing changes *)
  Theorem orphan_inert_loading_completed st b :
    Inv c U st -> snd c = true -> ring_empty st = false -> b_id b <= 2 * gp_of c ->
    get_block st (b_hash b) = None -> get_block st (b_prev b) = None -> b_prev b <> 0 ->
    add_block c st b = Ok (st, Retry) \/ add_block c st b = Ok (st, Invalid).
  Proof.
    intros [lcr [W _]] Hc He Hid G Gp Hz.
    rewrite add_block_unfold.
    replace (2 * gp_of c <? b_id b) with false by (symmetry; apply N.ltb_ge; lia).
    rewrite (latest_hash_spec c U HU _ _ _ W), (latest_id_spec c U HU _ _ _ W). cbn [bind].
    rewrite G, Gp, He, Hc. cbv zeta. cbn [negb andb].
    destruct (N.eqb_spec (b_prev b) 0) as [?|_]; [contradiction|]. cbn [negb].
    destruct (N.max 1 _ <? b_id b); auto.
  Qed.
End ForkChoice.

(* ================================================================== *)
(* C04: the step bound holds in every state (no invariant needed)     *)
(* ================================================================== *)
Section Steps.
  Variable c : cfg.

  Lemma ncf_len fuel : forall st h acc,
    (length (snd (new_chain_from fuel st h acc)) <= fuel + length acc)%nat.
  Proof.
    induction fuel as [|f IH]; intros st h acc; cbn [new_chain_from].
    - cbn [snd]. rewrite rev_length. lia.
    - destruct (get_block st h) as [sb|]; [|cbn [snd]; rewrite rev_length; lia].
      destruct (s_lc sb); [cbn [snd]; rewrite rev_length; lia|].
      destruct (h =? 0); [cbn [snd]; rewrite rev_length; lia|].
      specialize (IH st (b_prev (s_b sb)) (h :: acc)). cbn [length] in IH. lia.
  Qed.

  Lemma ocf_len fuel : forall st h sh acc,
    (length (old_chain_from fuel st h sh acc) <= fuel + length acc)%nat.
  Proof.
    induction fuel as [|f IH]; intros st h sh acc; cbn [old_chain_from].
    - rewrite rev_length. lia.
    - destruct (sh =? h); [rewrite rev_length; lia|].
      destruct (get_block st h) as [sb|]; [|rewrite rev_length; lia].
      destruct (b_prev (s_b sb) =? 0); [rewrite rev_length; cbn [length]; lia|].
      specialize (IH st (b_prev (s_b sb)) sh (h :: acc)). cbn [length] in IH. lia.
  Qed.

  Lemma ocu_len fuel : forall st h len acc,
    (length (old_chain_upto fuel st h len acc) <= fuel + length acc)%nat.
  Proof.
    induction fuel as [|f IH]; intros st h len acc; cbn [old_chain_upto].
    - rewrite rev_length. lia.
    - destruct (Nat.leb (length acc) len); [|rewrite rev_length; lia].
      destruct (get_block st h) as [sb|]; [|rewrite rev_length; lia].
      destruct (b_prev (s_b sb) =? 0); [rewrite rev_length; cbn [length]; lia|].
      specialize (IH st (b_prev (s_b sb)) len (h :: acc)). cbn [length] in IH. lia.
  Qed.

  Lemma wsteps_set_lc_flag st h f : wsteps (set_lc_flag st h f) = wsteps st.
  Proof. unfold set_lc_flag. now destruct (get_block st h). Qed.

  Lemma wsteps_ring_reorg st id h lc st' : ring_reorg c st id h lc = Ok st' -> wsteps st' = wsteps st.
  Proof.
    unfold ring_reorg. cbv zeta. destruct lc; [now intros [= <-]|].
    destruct (ring_lc st) as [lp|]; [|now intros [= <-]].
    destruct (Nat.eqb lp (slot c id)); [|now intros [= <-]].
    destruct (id =? 0).
    - destruct (ri_lc _) as [q|]; [|now intros [= <-]].
      destruct (Nat.ltb q _); [discriminate|now intros [= <-]].
    - destruct (ri_lc _) as [q|]; [|now intros [= <-]].
      destruct (nth_error _ q) as [e|]; [|now intros [= <-]].
      destruct (snd e =? id - 1); now intros [= <-].
  Qed.

  Lemma wsteps_disconnect n : forall st from st', disconnect c st from n = Ok st' -> wsteps st' = wsteps st.
  Proof.
    induction n as [|n IH]; intros st from st'; cbn [disconnect]; [now intros [= <-]|].
    destruct (lc_hash_at c (ring st) from) as [h|]; [|apply IH].
    destruct (h =? 0); [apply IH|].
    destruct (ring_reorg c st from h false) as [st1| |] eqn:E; cbn [bind]; try discriminate.
    intros H. apply IH in H. rewrite H, wsteps_set_lc_flag. eapply wsteps_ring_reorg; eauto.
  Qed.

  Lemma add_finish_steps b st3 new old st' r :
    add_finish c b st3 new old = Ok (st', r) ->
    wsteps st' = wsteps st3 \/ wsteps st' <= 2 * (Nlen new + Nlen old).
  Proof.
    unfold add_finish. destruct (latest_id st3) as [lid| |]; cbn [bind]; try discriminate.
    destruct (if lid - gp_of c <? b_id b then is_new_chain_longest st3 new old else Ok false)
      as [longest| |]; cbn [bind]; try discriminate.
    destruct longest; [|intros [= <- _]; now left].
    destruct (validate c _ new old) as [[st6 ok]| |] eqn:Ev; cbn [bind]; try discriminate.
    apply validate_steps in Ev. right.
    destruct ok; injection H as <- _; [exact Ev|].
    unfold add_block_failure. destruct (get_block _ (b_hash b)); cbn [set_ring set_blocks wsteps];
      now rewrite wsteps_set_lc_flag.
  Qed.

  Lemma length_aset_le {V} k (v : V) m : (length (aset k v m) <= S (length m))%nat.
  Proof.
    induction m as [|[k1 v1] t IH]; cbn [aset length]; [lia|].
    destruct (k =? k1); [cbn [length]; lia|]. destruct (k <? k1); cbn [length]; lia.
  Qed.

  Theorem steps_bounded_any st b st' r :
    add_block c st b = Ok (st', r) ->
    wsteps st' = wsteps st \/ wsteps st' <= 4 * N.of_nat (length (blocks st)) + 8.
  Proof.
    rewrite add_block_unfold.
    destruct (2 * gp_of c <? b_id b); [discriminate|].
    destruct (latest_hash st) as [lhash| |]; cbn [bind]; try discriminate.
    destruct (get_block st (b_hash b)); [intros [= <- _]; now left|].
    destruct (latest_id st) as [lid0| |]; cbn [bind]; try discriminate. cbv zeta.
    match goal with |- (if ?g then _ else _) = _ -> _ => destruct g end.
    { destruct (_ <? _); intros [= <- _]; now left. }
    set (st2 := ins_block c st b).
    assert (Hw2 : wsteps st2 = wsteps st).
    { unfold st2, ins_block. now destruct (ring_contains c (ring st) (b_id b) (b_hash b)). }
    assert (Hl2 : (length (blocks st2) <= S (length (blocks st)))%nat).
    { unfold st2, ins_block. destruct (ring_contains c (ring st) (b_id b) (b_hash b));
        cbn [set_blocks set_ring blocks]; apply length_aset_le. }
    unfold add_tail, add_chains. cbv zeta.
    pose proof (ncf_len (S (length (blocks st2))) st2 (b_hash b) []) as Hn.
    destruct (new_chain_from (S (length (blocks st2))) st2 (b_hash b) []) as [[found shared] new].
    cbn [snd length] in Hn.
    destruct found; cbn [bind].
    - pose proof (ocf_len (S (length (blocks st2))) st2 lhash shared []) as Ho. cbn [length] in Ho.
      intros H. apply add_finish_steps in H as [H|H]; [left; congruence|right].
      unfold Nlen in H. lia.
    - match goal with |- context [bind (if ring_empty st2 then ?a else ?b0) _] =>
        destruct (if ring_empty st2 then a else b0) as [st3| |] eqn:E3 end;
        cbn [bind]; try discriminate.
      assert (Hw3 : wsteps st3 = wsteps st2).
      { destruct (ring_empty st2); [now injection E3 as <-|].
        destruct (latest_hash st2) as [lh| |]; cbn [bind] in E3; try discriminate.
        destruct (latest_id st2) as [lid| |]; cbn [bind] in E3; try discriminate.
        destruct (negb (lhash =? 0) && (lhash =? lh) && (lid - gp_of c <? b_id b)).
        - eapply wsteps_disconnect; eauto.
        - now injection E3 as <-. }
      pose proof (ocu_len (S (length (blocks st2))) st3 lhash (length new) []) as Ho. cbn [length] in Ho.
      intros H. apply add_finish_steps in H as [H|H]; [left; congruence|right].
      unfold Nlen in H. lia.
  Qed.
End Steps.
