(* The invariant of model/Chain.v and its preservation by wind / unwind,
   wind_list / unwind_all and validate. *)
From Saito Require Import Base Chain ChainBasics ChainInv.

(* [lcr]: the longest chain, tip first.  [x]: hash of a block "in flight"
   (stored, possibly flagged, not yet wound); 0 when there is none. *)
Record WInv (c : cfg) (U : list blk) (st : state) (lcr : list blk) (x : N) : Prop := {
  w_store : store_ok U (blocks st);
  w_chain : chain_ok U lcr;
  w_lc : forall b, In b lcr -> get_block st (b_hash b) = Some (mkSB b true);
  w_flags : forall h sb, get_block st h = Some sb -> s_lc sb = true -> In h (hashes lcr) \/ h = x;
  w_closed : forall h sb, get_block st h = Some sb ->
             In h (hashes lcr) \/ h = x \/ get_block st (b_prev (s_b sb)) <> None;
  w_utxo : utxo st = replay lcr;
  w_ring : ring_ok c (blocks st) (ring st) (ring_lc st) lcr
}.

Definition link_to (U : list blk) (b : blk) (rest : list blk) : Prop :=
  match rest with [] => is_root U b | p :: _ => b_prev b = b_hash p end.

(* blocks to wind, deepest first, on top of [cur] *)
Fixpoint linked_up (U : list blk) (tb cur : list blk) : Prop :=
  match tb with [] => True | b :: tb' => link_to U b cur /\ linked_up U tb' (b :: cur) end.

(* a segment, tip first, sitting on top of [cur] *)
Fixpoint linked_dn (U : list blk) (l cur : list blk) : Prop :=
  match l with [] => True | a :: l' => link_to U a (l' ++ cur) /\ linked_dn U l' cur end.

Lemma linked_up_snoc U a t cur :
  linked_up U (a ++ [t]) cur <-> linked_up U a cur /\ link_to U t (rev a ++ cur).
Proof.
  revert cur; induction a as [|y a IH]; intros cur; cbn [app linked_up rev].
  - tauto.
  - rewrite IH, <- app_assoc. cbn [app]. tauto.
Qed.

Lemma linked_dn_up U l cur : linked_dn U l cur -> linked_up U (rev l) cur.
Proof.
  induction l as [|a l IH]; cbn [linked_dn rev]; [constructor|].
  intros [H1 H2]. apply linked_up_snoc. rewrite rev_involutive. auto.
Qed.

Lemma chain_ok_linked_dn U l cur : chain_ok U (l ++ cur) -> linked_dn U l cur.
Proof.
  induction l as [|a l IH]; cbn [app linked_dn]; [constructor|].
  intros H. pose proof H as (_ & _ & Hl & Hc). split; [exact Hl|auto].
Qed.

Lemma bc_reorg_false st b : bc_reorg st b false = st.
Proof. unfold bc_reorg. now destruct (b_id b <=? last_id st). Qed.

Lemma get_sget st h sb : get_block st h = Some sb -> sget (blocks st) h = Some (s_b sb).
Proof. unfold get_block, sget. now intros ->. Qed.

Lemma sget_get st h b : sget (blocks st) h = Some b -> exists f, get_block st h = Some (mkSB b f).
Proof. intros H. now apply sget_some in H. Qed.

Lemma same_store_flag bs h sb f : aget h bs = Some sb -> same_store bs (aset h (mkSB (s_b sb) f) bs).
Proof.
  intros H k. unfold sget. rewrite aget_aset.
  destruct (N.eqb_spec k h) as [->|]; [now rewrite H|reflexivity].
Qed.

Lemma same_store_stored bs bs' h : same_store bs bs' -> aget h bs <> None -> aget h bs' <> None.
Proof.
  intros Hss Hn E. apply sget_none in E. rewrite <- Hss in E. apply sget_none in E. contradiction.
Qed.

(* WInv looks only at these fields *)
Lemma WInv_ext c U st st' lcr x :
  blocks st' = blocks st -> ring st' = ring st -> ring_lc st' = ring_lc st -> utxo st' = utxo st ->
  WInv c U st lcr x -> WInv c U st' lcr x.
Proof.
  intros E1 E2 E3 E4 [H1 H2 H3 H4 H5 H6 H7].
  split; unfold get_block in *; rewrite ?E1, ?E2, ?E3, ?E4; assumption.
Qed.

Definition tip_id (l : list blk) : N := match l with [] => 0 | t :: _ => b_id t end.
Definition tip_hash (l : list blk) : N := match l with [] => 0 | t :: _ => b_hash t end.

Section Wind.
  Variables (c : cfg) (U : list blk).
  Hypothesis HU : univ_ok c U.
  Hypothesis HWF : valid_wf U.

  Lemma w_lc_sget st lcr x : WInv c U st lcr x -> forall b, In b lcr -> sget (blocks st) (b_hash b) = Some b.
  Proof. intros W b Hb. apply (get_sget st _ _ (w_lc _ _ _ _ _ W b Hb)). Qed.

  Lemma w_stored_in st lcr x h sb : WInv c U st lcr x -> get_block st h = Some sb ->
    b_hash (s_b sb) = h /\ In (s_b sb) U.
  Proof. intros W H. apply (proj2 (w_store _ _ _ _ _ W)). now apply get_sget. Qed.

  (* ---------------- unwind one block ---------------- *)
  Definition unwound (st : state) (t p : blk) : state :=
    mkSt (aset (b_hash t) (mkSB t false) (blocks st)) (ring_unmark c (ring st) (b_id t))
         (Some (slot c (b_id p))) (ring_empty st) (undo_block (utxo st) t)
         (last_id st) (last_hash st) (wsteps st).

  Lemma unwind_block_eq st t p rest x :
    WInv c U st (t :: p :: rest) x -> unwind_block c st t = Ok (unwound st t p).
  Proof.
    intros W.
    pose proof (w_lc _ _ _ _ _ W t (or_introl eq_refl)) as Gt.
    unfold unwind_block, set_lc_flag, get_block, set_utxo. cbn [blocks].
    unfold get_block in Gt. rewrite Gt. cbn [s_b].
    match goal with |- context [ring_reorg c ?s _ _ _] => set (st2 := s) end.
    assert (Hss : same_store (blocks st) (blocks st2)).
    { unfold st2, set_blocks; cbn [blocks]. apply (same_store_flag _ _ _ false Gt). }
    assert (Hso : store_ok U (blocks st2)).
    { eapply store_ok_same; [|exact Hss|apply (w_store _ _ _ _ _ W)].
      unfold st2, set_blocks; cbn [blocks]. apply aset_sorted, (w_store _ _ _ _ _ W). }
    rewrite (ring_reorg_false_tip c U HU st2 t p rest); try assumption.
    - cbn [bind]. rewrite bc_reorg_false. reflexivity.
    - unfold st2 at 2 3, set_blocks; cbn [ring ring_lc].
      eapply ring_ok_same; [exact Hss|apply (w_ring _ _ _ _ _ W)].
    - apply (w_chain _ _ _ _ _ W).
    - intros b Hb. rewrite <- Hss. eapply w_lc_sget; eauto.
  Qed.

  Lemma unwound_inv st t p rest x :
    WInv c U st (t :: p :: rest) x -> WInv c U (unwound st t p) (p :: rest) x.
  Proof.
    intros W.
    pose proof (w_lc _ _ _ _ _ W t (or_introl eq_refl)) as Gt. unfold get_block in Gt.
    pose proof (w_chain _ _ _ _ _ W) as Hc.
    pose proof (chain_hashes_nodup c U _ HU Hc) as Hnd. cbn [hashes map] in Hnd.
    inversion Hnd as [|? ? Hnt Hnd']; subst.
    assert (Hss : same_store (blocks st) (aset (b_hash t) (mkSB t false) (blocks st))).
    { apply (same_store_flag _ _ _ false Gt). }
    assert (Hg : forall h, get_block (unwound st t p) h =
                   if h =? b_hash t then Some (mkSB t false) else get_block st h).
    { intros h. unfold get_block, unwound; cbn [blocks]. apply aget_aset. }
    split.
    - unfold unwound; cbn [blocks]. eapply store_ok_same; [|exact Hss|apply (w_store _ _ _ _ _ W)].
      apply aset_sorted, (w_store _ _ _ _ _ W).
    - eapply chain_ok_tail; eauto.
    - intros b Hb. rewrite Hg. destruct (N.eqb_spec (b_hash b) (b_hash t)) as [E|_].
      + exfalso. apply Hnt. rewrite <- E. exact (in_map b_hash _ _ Hb).
      + apply (w_lc _ _ _ _ _ W). now right.
    - intros h sb. rewrite Hg. destruct (N.eqb_spec h (b_hash t)) as [->|Hne].
      + intros [= <-]. cbn [s_lc]. discriminate.
      + intros G F. destruct (w_flags _ _ _ _ _ W h sb G F) as [[E|Hi]|E]; auto. congruence.
    - intros h sb. rewrite Hg. destruct (N.eqb_spec h (b_hash t)) as [->|Hne].
      + intros [= <-]. cbn [s_b]. right; right. destruct Hc as (_ & _ & -> & _).
        rewrite Hg. destruct (b_hash p =? b_hash t); [discriminate|].
        rewrite (w_lc _ _ _ _ _ W p); [discriminate|right; now left].
      + intros G. destruct (w_closed _ _ _ _ _ W h sb G) as [[E|Hi]|[E|Hp]].
        * congruence.
        * left. exact Hi.
        * right; left; exact E.
        * right; right. rewrite Hg. now destruct (b_prev (s_b sb) =? b_hash t).
    - unfold unwound; cbn [utxo]. rewrite (w_utxo _ _ _ _ _ W).
      change (replay (t :: p :: rest)) with (apply_block (replay (p :: rest)) t).
      apply undo_apply; [apply replay_sorted|]. apply HWF, Hc.
    - unfold unwound; cbn [blocks ring ring_lc].
      eapply ring_ok_same; [exact Hss|].
      eapply ring_unmark_ok; eauto.
      + apply (w_store _ _ _ _ _ W).
      + apply (w_ring _ _ _ _ _ W).
      + eapply w_lc_sget; eauto.
  Qed.

  (* ---------------- wind one block ---------------- *)
  Definition wound (st : state) (b : blk) : state :=
    bc_reorg
      (mkSt (aset (b_hash b) (mkSB b true) (blocks st)) (ring_mark c (ring st) (b_id b) (b_hash b))
            (Some (slot c (b_id b))) (ring_empty st) (apply_block (utxo st) b)
            (last_id st) (last_hash st) (wsteps st)) b true.

  Lemma wind_block_eq st b f :
    get_block st (b_hash b) = Some (mkSB b f) -> wind_block c st b = Ok (wound st b).
  Proof.
    intros G. unfold wind_block. rewrite ring_reorg_true. cbn [bind].
    unfold set_lc_flag, get_block, set_utxo, set_ring. cbn [blocks utxo].
    unfold get_block in G. rewrite G. reflexivity.
  Qed.

  Lemma bc_reorg_fields st b l :
    blocks (bc_reorg st b l) = blocks st /\ ring (bc_reorg st b l) = ring st
    /\ ring_lc (bc_reorg st b l) = ring_lc st /\ utxo (bc_reorg st b l) = utxo st
    /\ ring_empty (bc_reorg st b l) = ring_empty st /\ wsteps (bc_reorg st b l) = wsteps st.
  Proof. unfold bc_reorg. destruct (b_id b <=? last_id st); [auto 10|]. destruct l; cbn; auto 10. Qed.

  Lemma wound_inv st b f rest x :
    WInv c U st rest x -> get_block st (b_hash b) = Some (mkSB b f) -> b_valid b = true ->
    link_to U b rest -> WInv c U (wound st b) (b :: rest) x.
  Proof.
    intros W G Hv Hl.
    destruct (bc_reorg_fields
      (mkSt (aset (b_hash b) (mkSB b true) (blocks st)) (ring_mark c (ring st) (b_id b) (b_hash b))
            (Some (slot c (b_id b))) (ring_empty st) (apply_block (utxo st) b)
            (last_id st) (last_hash st) (wsteps st)) b true) as (E1 & E2 & E3 & E4 & _).
    eapply WInv_ext; [exact E1|exact E2|exact E3|exact E4|]. clear E1 E2 E3 E4.
    match goal with |- WInv _ _ ?s _ _ => set (st' := s) end.
    pose proof (w_stored_in _ _ _ _ _ W G) as [_ HbU]. cbn [s_b] in HbU.
    unfold get_block in G.
    assert (Hss : same_store (blocks st) (blocks st')).
    { unfold st'; cbn [blocks]. apply (same_store_flag _ _ _ true G). }
    assert (Hg : forall h, get_block st' h = if h =? b_hash b then Some (mkSB b true) else get_block st h).
    { intros h. unfold get_block, st'; cbn [blocks]. apply aget_aset. }
    split.
    - eapply store_ok_same; [|exact Hss|apply (w_store _ _ _ _ _ W)].
      unfold st'; cbn [blocks]. apply aset_sorted, (w_store _ _ _ _ _ W).
    - cbn [chain_ok]. repeat split; auto. apply (w_chain _ _ _ _ _ W).
    - intros y Hy. rewrite Hg. destruct (N.eqb_spec (b_hash y) (b_hash b)) as [E|Hne].
      + f_equal. f_equal. symmetry. eapply hash_inj; eauto.
        destruct Hy as [<-|Hy]; [assumption|]. eapply chain_ok_in; [apply (w_chain _ _ _ _ _ W)|assumption].
      + destruct Hy as [<-|Hy]; [congruence|]. now apply (w_lc _ _ _ _ _ W).
    - intros h sb. rewrite Hg. cbn [hashes map In]. destruct (N.eqb_spec h (b_hash b)) as [->|Hne]; [auto|].
      intros G' F. destruct (w_flags _ _ _ _ _ W h sb G' F); auto.
    - intros h sb. rewrite Hg. cbn [hashes map In]. destruct (N.eqb_spec h (b_hash b)) as [->|Hne]; [auto|].
      intros G'. destruct (w_closed _ _ _ _ _ W h sb G') as [Hi|[E|Hp]]; auto.
      right; right. rewrite Hg. now destruct (b_prev (s_b sb) =? b_hash b).
    - unfold st'; cbn [utxo]. now rewrite (w_utxo _ _ _ _ _ W).
    - unfold st'; cbn [blocks ring ring_lc]. eapply ring_ok_same; [exact Hss|].
      eapply ring_mark_ok; eauto.
      + apply (w_store _ _ _ _ _ W).
      + apply (w_ring _ _ _ _ _ W).
      + unfold sget. now rewrite G.
  Qed.

  Lemma wound_same st b f : get_block st (b_hash b) = Some (mkSB b f) ->
    same_store (blocks st) (blocks (wound st b)) /\ ring_empty (wound st b) = ring_empty st
    /\ wsteps (wound st b) = wsteps st.
  Proof.
    intros G. unfold wound.
    match goal with |- context [bc_reorg ?s b true] =>
      destruct (bc_reorg_fields s b true) as (E1 & _ & _ & _ & E5 & E6) end.
    rewrite E1, E5, E6. cbn [blocks ring_empty wsteps]. repeat split.
    apply (same_store_flag _ _ _ true G).
  Qed.

  Lemma wound_last st b : last_id st <= last_id (wound st b) /\ b_id b <= last_id (wound st b).
  Proof.
    unfold wound, bc_reorg. cbn [last_id].
    destruct (N.leb_spec (b_id b) (last_id st)); cbn [last_id]; lia.
  Qed.

  (* where last_id / last_hash can come from after winding the blocks Wd *)
  Definition last_from (st st' : state) (Wd : list blk) : Prop :=
    (forall M, last_id st <= M -> (forall y, In y Wd -> b_id y <= M) -> last_id st' <= M)
    /\ ((last_id st' = last_id st /\ last_hash st' = last_hash st)
        \/ exists y, In y Wd /\ last_id st' = b_id y /\ last_hash st' = b_hash y).

  Lemma last_from_refl st : last_from st st [].
  Proof. split; [intros M H _; exact H|left; split; reflexivity]. Qed.

  Lemma last_from_wound st b : last_from st (wound st b) [b].
  Proof.
    unfold wound, bc_reorg. cbn [last_id].
    destruct (N.leb_spec (b_id b) (last_id st)) as [Hle|Hlt]; cbn [last_id last_hash]; split.
    - intros M HM _. exact HM.
    - left. split; reflexivity.
    - intros M _ HM. apply HM. now left.
    - right. exists b. split; [now left|split; reflexivity].
  Qed.

  Lemma last_from_trans st st1 st2 W1 W2 :
    last_from st st1 W1 -> last_from st1 st2 W2 -> last_from st st2 (W1 ++ W2).
  Proof.
    intros [A1 A2] [B1 B2]. split.
    - intros M H HW. apply B1; [apply A1; [exact H|]|]; intros y Hy; apply HW, in_app_iff; auto.
    - destruct B2 as [[E1 E2]|(y & Hy & E1 & E2)].
      + destruct A2 as [[F1 F2]|(y & Hy & F1 & F2)].
        * left. split; congruence.
        * right. exists y. split; [apply in_app_iff; now left|split; congruence].
      + right. exists y. split; [apply in_app_iff; now right|auto].
  Qed.

  (* ---------------- unwind_all ---------------- *)
  Lemma unwind_all_ok pre : forall st rest x,
    WInv c U st (pre ++ rest) x -> (rest <> [] \/ pre = []) ->
    exists st', unwind_all c st (hashes pre) = Ok st' /\ WInv c U st' rest x
                /\ same_store (blocks st) (blocks st') /\ ring_empty st' = ring_empty st
                /\ last_id st' = last_id st /\ last_hash st' = last_hash st.
  Proof.
    induction pre as [|t pre IH]; intros st rest x W Hne; cbn [hashes map unwind_all].
    - exists st. split; [reflexivity|]. split; [exact W|]. split; [apply same_store_refl|repeat split].
    - destruct Hne as [Hne|]; [|discriminate].
      rewrite (w_lc _ _ _ _ _ W t (or_introl eq_refl)). cbn [s_b].
      assert (exists p rest', pre ++ rest = p :: rest') as (p & rest' & E).
      { destruct pre as [|p pre']; cbn [app]; [|eauto]. destruct rest; [contradiction|eauto]. }
      cbn [app] in W. rewrite E in W.
      rewrite (unwind_block_eq _ _ _ _ _ W). cbn [bind].
      pose proof (unwound_inv _ _ _ _ _ W) as W'. rewrite <- E in W'.
      destruct (IH _ _ _ W' (or_introl Hne)) as (st' & H1 & H2 & H3 & H4 & H5 & H6).
      exists st'. split; [exact H1|]. split; [exact H2|].
      split; [|split; [rewrite H4; reflexivity|split; [rewrite H5; reflexivity|rewrite H6; reflexivity]]].
      eapply same_store_trans; [|exact H3]. unfold unwound; cbn [blocks].
      apply (same_store_flag _ _ _ false (w_lc _ _ _ _ _ W t (or_introl eq_refl))).
  Qed.

  (* ---------------- wind_list ---------------- *)
  Lemma wind_list_ok tb : forall st cur wnd x,
    WInv c U st cur x ->
    (forall b, In b tb -> sget (blocks st) (b_hash b) = Some b) ->
    linked_up U tb cur ->
    exists st' r, wind_list c st (hashes tb) wnd = Ok (st', r)
      /\ same_store (blocks st) (blocks st') /\ ring_empty st' = ring_empty st
      /\ last_id st <= last_id st'
      /\ ((forallb b_valid tb = true /\ r = None /\ WInv c U st' (rev tb ++ cur) x
           /\ (forall y, In y tb -> b_id y <= last_id st') /\ last_from st st' tb)
          \/ (exists tb1 bad tb2, tb = tb1 ++ bad :: tb2 /\ forallb b_valid tb1 = true
                /\ b_valid bad = false /\ r = Some (rev (hashes tb1) ++ wnd)
                /\ WInv c U st' (rev tb1 ++ cur) x /\ last_from st st' tb1)).
  Proof.
    induction tb as [|b tb IH]; intros st cur wnd x W Hst Hl; cbn [hashes map wind_list].
    - exists st, None. split; [reflexivity|]. split; [apply same_store_refl|]. split; [reflexivity|].
      split; [lia|].
      left. split; [reflexivity|]. split; [reflexivity|]. split; [exact W|]. split; [intros y []|apply last_from_refl].
    - destruct (sget_get _ _ _ (Hst b (or_introl eq_refl))) as (f & G). rewrite G. cbn [s_b].
      destruct (b_valid b) eqn:Hv.
      + rewrite (wind_block_eq _ _ _ G). cbn [bind].
        destruct Hl as [Hl1 Hl2].
        pose proof (wound_inv _ _ _ _ _ W G Hv Hl1) as W'.
        destruct (wound_same _ _ _ G) as (S1 & S2 & _).
        destruct (wound_last st b) as [L1 L2].
        destruct (IH (wound st b) (b :: cur) (b_hash b :: wnd) x W') as (st' & r & H1 & H2 & H3 & H5 & H4); auto.
        { intros y Hy. rewrite <- S1. apply Hst. now right. }
        exists st', r. split; [exact H1|]. split; [eapply same_store_trans; eauto|]. split; [congruence|].
        split; [lia|].
        pose proof (last_from_wound st b) as LF.
        destruct H4 as [(A1 & A2 & A3 & A4 & A6)|(tb1 & bad & tb2 & A1 & A2 & A3 & A4 & A5 & A6)].
        * left. cbn [forallb rev]. rewrite Hv, A1, <- app_assoc.
          split; [reflexivity|]. split; [exact A2|]. split; [exact A3|].
          split; [intros y [<-|Hy]; [lia|auto]|].
          apply (last_from_trans _ _ _ [b] tb LF A6).
        * right. exists (b :: tb1), bad, tb2. cbn [forallb rev hashes map app].
          rewrite Hv, A2, <- !app_assoc. cbn [app]. subst tb.
          split; [reflexivity|]. split; [reflexivity|]. split; [exact A3|]. split; [exact A4|].
          split; [exact A5|]. apply (last_from_trans _ _ _ [b] tb1 LF A6).
      + exists st, (Some wnd). split; [reflexivity|]. split; [apply same_store_refl|]. split; [reflexivity|].
        split; [lia|].
        right. exists [], b, tb. cbn [app forallb rev hashes map].
        split; [reflexivity|]. split; [reflexivity|]. split; [exact Hv|]. split; [reflexivity|].
        split; [exact W|apply last_from_refl].
  Qed.

  (* ---------------- golden-ticket walk reads only the stored blocks ---------------- *)
  Lemma gt_walk_same n : forall st st' h d f, same_store (blocks st) (blocks st') ->
    gt_walk n st h d f = gt_walk n st' h d f.
  Proof.
    induction n as [|n IH]; intros st st' h d f Hss; cbn [gt_walk]; [reflexivity|].
    pose proof (Hss h) as E. unfold sget, get_block in *.
    destruct (aget h (blocks st)) as [sb|], (aget h (blocks st')) as [sb'|]; cbn [option_map] in E;
      try discriminate; [|reflexivity].
    injection E as ->. now apply IH.
  Qed.

  Lemma gt_count_valid_same st st' p g : same_store (blocks st) (blocks st') ->
    gt_count_valid st p g = gt_count_valid st' p g.
  Proof. intros Hss. unfold gt_count_valid. now rewrite (gt_walk_same _ st st' p 0 0 Hss). Qed.

  Lemma rev_hashes l : rev (hashes l) = hashes (rev l).
  Proof. unfold hashes. symmetry. apply map_rev. Qed.

  Lemma forallb_rev {A} (f : A -> bool) l : forallb f (rev l) = forallb f l.
  Proof.
    destruct (forallb f l) eqn:E.
    - apply forallb_forall. intros y Hy. apply in_rev in Hy. rewrite forallb_forall in E. auto.
    - destruct (forallb f (rev l)) eqn:E'; [|reflexivity].
      rewrite <- E. symmetry. apply forallb_forall. intros y Hy. rewrite forallb_forall in E'.
      apply E'. now apply -> in_rev.
  Qed.

  Lemma forallb_app_false {A} (f : A -> bool) l1 x l2 : f x = false -> forallb f (l1 ++ x :: l2) = false.
  Proof. intros H. rewrite forallb_app. cbn [forallb]. rewrite H. now rewrite andb_false_r. Qed.

  Lemma chain_ok_forallb_valid l : chain_ok U l -> forallb b_valid l = true.
  Proof. intros Hc. apply forallb_forall. intros y Hy. eapply chain_ok_valid; eauto. Qed.

  (* ---------------- resync_last ---------------- *)
  Lemma resync_ok st l x : WInv c U st l x ->
    exists st', resync_last st = Ok st'
      /\ blocks st' = blocks st /\ ring st' = ring st /\ ring_lc st' = ring_lc st /\ utxo st' = utxo st
      /\ ring_empty st' = ring_empty st /\ wsteps st' = wsteps st
      /\ match l with
         | [] => last_id st' = last_id st /\ last_hash st' = last_hash st
         | t :: _ => last_id st' = b_id t /\ last_hash st' = b_hash t
         end.
  Proof.
    intros W. unfold resync_last.
    rewrite (latest_entry_spec c U HU st l (w_store _ _ _ _ _ W) (w_ring _ _ _ _ _ W) (w_chain _ _ _ _ _ W)
               (w_lc_sget _ _ _ W)).
    cbn [bind]. destruct l as [|t l']; eexists; (split; [reflexivity|]); cbn; repeat split.
  Qed.

  (* ---------------- validate ---------------- *)
  Lemma validate_ok st b newtl oldb common x :
    WInv c U st (oldb ++ common) x ->
    (forall y, In y (b :: newtl) -> sget (blocks st) (b_hash y) = Some y) ->
    linked_dn U (b :: newtl) common ->
    (common <> [] \/ (oldb = [] /\ newtl = [])) ->
    exists st' ok, validate c st (hashes (b :: newtl)) (hashes oldb) = Ok (st', ok)
      /\ same_store (blocks st) (blocks st') /\ ring_empty st' = ring_empty st
      /\ ok = (gt_count_valid st (b_prev b) (b_gt b) && forallb b_valid (b :: newtl))
      /\ WInv c U st' (if ok then (b :: newtl) ++ common else oldb ++ common) x
      /\ (ok = true -> last_id st < b_id b -> last_id st' = b_id b /\ last_hash st' = b_hash b)
      /\ (ok = false ->
            (last_id st' = last_id st /\ last_hash st' = last_hash st)
            \/ (last_id st' = tip_id (oldb ++ common) /\ last_hash st' = tip_hash (oldb ++ common))).
  Proof.
    intros W Hst Hl Hcm.
    set (newb := b :: newtl) in *.
    destruct (sget_get _ _ _ (Hst b (or_introl eq_refl))) as (f & G).
    unfold validate. change (hashes newb) with (b_hash b :: hashes newtl). cbv iota beta.
    rewrite G. cbn [s_b]. change (b_hash b :: hashes newtl) with (hashes newb).
    set (st0 := set_steps st 0).
    assert (W0 : WInv c U st0 (oldb ++ common) x) by (eapply WInv_ext; [..|exact W]; reflexivity).
    assert (S0 : same_store (blocks st) (blocks st0)) by apply same_store_refl.
    rewrite <- (gt_count_valid_same st st0 _ _ S0).
    destruct (gt_count_valid st (b_prev b) (b_gt b)) eqn:Egt; cbn [negb andb].
    2:{ exists st0, false. split; [reflexivity|]. split; [exact S0|]. split; [reflexivity|].
        split; [reflexivity|]. split; [exact W0|]. split; [discriminate|].
        intros _. left. split; reflexivity. }
    destruct (unwind_all_ok oldb st0 common x W0) as (st1 & E1 & W1 & S1 & R1 & L1 & H1).
    { destruct Hcm as [?|[? _]]; auto. }
    assert (L0 : last_id st1 = last_id st) by (rewrite L1; reflexivity).
    assert (H0 : last_hash st1 = last_hash st) by (rewrite H1; reflexivity). clear L1 H1.
    rewrite E1. cbn [bind]. rewrite rev_hashes.
    destruct (wind_list_ok (rev newb) st1 common [] x W1) as (st2 & r & E2 & S2 & R2 & L2 & D2).
    { intros y Hy. rewrite <- S1. apply Hst. now apply in_rev. }
    { now apply linked_dn_up. }
    rewrite E2. cbn [bind].
    destruct D2 as [(A1 & -> & W2 & Lb & LF)|(tb1 & bad & tb2 & A1 & A2 & A3 & -> & W2 & LF)].
    - rewrite forallb_rev in A1. rewrite rev_involutive in W2.
      exists (set_steps st2 (Nlen (hashes oldb) + Nlen (hashes newb))), true.
      split; [reflexivity|]. split; [eapply same_store_trans; [exact S1|exact S2]|].
      split; [cbn [set_steps ring_empty]; rewrite R2, R1; reflexivity|]. split; [now rewrite A1|].
      split; [eapply WInv_ext; [..|exact W2]; reflexivity|].
      split; [|discriminate]. intros _ Hlt. cbn [set_steps last_id last_hash].
      assert (Hids : forall y, In y newtl -> b_id y < b_id b).
      { intros y Hy. apply (chain_id_lt c U b (newtl ++ common) HU (w_chain _ _ _ _ _ W2)).
        apply in_app_iff. now left. }
      destruct LF as [LF1 LF2].
      assert (Hle : last_id st2 <= b_id b).
      { apply LF1; [lia|]. intros y Hy. apply in_rev in Hy. destruct Hy as [<-|Hy]; [lia|].
        specialize (Hids y Hy). lia. }
      assert (Hge : b_id b <= last_id st2) by (apply Lb; apply -> in_rev; now left).
      destruct LF2 as [[F1 F2]|(y & Hy & F1 & F2)]; [lia|].
      apply in_rev in Hy. destruct Hy as [<-|Hy]; [auto|]. specialize (Hids y Hy). lia.
    - assert (Hf : forallb b_valid newb = false).
      { rewrite <- forallb_rev, A1. now apply forallb_app_false. }
      rewrite Hf. rewrite app_nil_r, rev_hashes.
      assert (Htb1 : common = [] -> tb1 = []).
      { intros Hc0. destruct Hcm as [?|[_ Hn]]; [contradiction|].
        unfold newb in A1. rewrite Hn in A1. cbn [rev app] in A1.
        destruct tb1 as [|? tb1]; [reflexivity|]. destruct tb1; discriminate. }
      destruct (unwind_all_ok (rev tb1) st2 common x W2) as (st3 & E3 & W3 & S3 & R3 & L3 & H3).
      { destruct common; [right; now rewrite Htb1|left; discriminate]. }
      rewrite E3. cbn [bind].
      assert (S03 : same_store (blocks st) (blocks st3)).
      { eapply same_store_trans; [exact S1|]. eapply same_store_trans; [exact S2|exact S3]. }
      destruct oldb as [|o oldb'].
      + cbn [hashes map app] in *.
        destruct (resync_ok st3 common x W3) as (st4 & E4 & B1 & B2 & B3 & B4 & B5 & _ & B6).
        rewrite E4. cbn [bind].
        eexists (set_steps st4 _), false. split; [reflexivity|].
        split; [cbn [set_steps blocks]; rewrite B1; exact S03|].
        split; [cbn [set_steps ring_empty]; rewrite B5, R3, R2, R1; reflexivity|]. split; [reflexivity|].
        split; [apply (WInv_ext c U st3); auto|].
        split; [discriminate|]. intros _. cbn [set_steps last_id last_hash].
        destruct common as [|t l'].
        * left. rewrite (Htb1 eq_refl) in LF. destruct LF as [_ [[F1 F2]|(y & [] & _)]].
          destruct B6 as [-> ->]. rewrite L3, H3, F1, F2, L0, H0. split; reflexivity.
        * right. exact B6.
      + set (oldb := o :: oldb') in *.
        change (hashes oldb) with (b_hash o :: hashes oldb') at 5. cbv iota beta.
        change (b_hash o :: hashes oldb') with (hashes oldb). rewrite rev_hashes.
        destruct (wind_list_ok (rev oldb) st3 common [] x W3) as (st4 & r4 & E4 & S4 & R4 & L4 & D4).
        { intros y Hy. rewrite <- S03. eapply w_lc_sget; [exact W|]. apply in_app_iff. left. now apply in_rev. }
        { apply linked_dn_up, chain_ok_linked_dn, (w_chain _ _ _ _ _ W). }
        rewrite E4. cbn [bind fst snd].
        assert (Hvo : forallb b_valid (rev oldb) = true).
        { apply forallb_forall. intros y Hy. apply in_rev in Hy.
          eapply chain_ok_valid; [apply (w_chain _ _ _ _ _ W)|]. apply in_app_iff. now left. }
        destruct D4 as [(B1 & -> & W4 & _)|(tc1 & bad' & tc2 & B1 & B2 & B3 & _)].
        * rewrite rev_involutive in W4.
          destruct (resync_ok st4 (oldb ++ common) x W4) as (st5 & E5 & C1 & C2 & C3 & C4 & C5 & _ & C6).
          rewrite E5. cbn [bind].
          eexists (set_steps st5 _), false. split; [reflexivity|].
          split; [cbn [set_steps blocks]; rewrite C1; eapply same_store_trans; [exact S03|exact S4]|].
          split; [cbn [set_steps ring_empty]; rewrite C5, R4, R3, R2, R1; reflexivity|]. split; [reflexivity|].
          split; [apply (WInv_ext c U st4); auto|].
          split; [discriminate|]. intros _. right. exact C6.
        * exfalso. rewrite B1 in Hvo. rewrite (forallb_app_false _ _ _ _ B3) in Hvo. discriminate.
  Qed.
End Wind.

(* ---------------- the step counter of validate (no invariant needed) ---------------- *)
Lemma wind_list_wound c todo : forall st wnd st' w,
  wind_list c st todo wnd = Ok (st', Some w) -> (length w + 1 <= length todo + length wnd)%nat.
Proof.
  induction todo as [|h t IH]; intros st wnd st' w; cbn [wind_list]; [discriminate|].
  destruct (get_block st h) as [sb|]; [|discriminate].
  destruct (b_valid (s_b sb)).
  - destruct (wind_block c st (s_b sb)) as [st1| |]; cbn [bind]; try discriminate.
    intros H. apply IH in H. cbn [length] in *. lia.
  - intros [= _ <-]. cbn [length]. lia.
Qed.

Lemma wsteps_resync st st' : resync_last st = Ok st' -> wsteps st' = wsteps st.
Proof.
  unfold resync_last. destruct (latest_entry st) as [[[h id]|]| |]; cbn [bind]; try discriminate;
    now intros [= <-].
Qed.

Lemma validate_steps c st new old st' ok :
  validate c st new old = Ok (st', ok) -> wsteps st' <= 2 * (Nlen new + Nlen old).
Proof.
  unfold validate. destruct new as [|h0 new']; [discriminate|].
  destruct (get_block st h0) as [sb0|]; [|discriminate].
  set (new := h0 :: new'). set (st0 := set_steps st 0).
  destruct (negb (gt_count_valid st0 (b_prev (s_b sb0)) (b_gt (s_b sb0)))).
  { intros [= <- _]. cbn [st0 set_steps wsteps]. lia. }
  destruct (unwind_all c st0 old) as [st1| |]; cbn [bind]; try discriminate.
  destruct (wind_list c st1 (rev new) []) as [[st2 [wound|]]| |] eqn:E2; cbn [bind]; try discriminate.
  2:{ intros [= <- _]. cbn [set_steps wsteps]. lia. }
  apply wind_list_wound in E2. rewrite rev_length in E2. cbn [length] in E2.
  destruct (unwind_all c st2 wound) as [st3| |]; cbn [bind]; try discriminate.
  destruct old as [|o old'].
  { destruct (resync_last st3) as [st4| |]; cbn [bind]; try discriminate.
    intros [= <- _]. cbn [set_steps wsteps]. unfold Nlen in *. cbn [length]. lia. }
  set (old := o :: old') in *.
  destruct (wind_list c st3 (rev old) []) as [[st4 r4]| |] eqn:E4; cbn [bind]; try discriminate.
  cbn [fst snd]. destruct (resync_last st4) as [st5| |]; cbn [bind]; try discriminate.
  intros [= <- _]. cbn [set_steps wsteps].
  assert (attempts old r4 <= Nlen old).
  { destruct r4 as [w4|]; cbn [attempts]; [|lia].
    apply wind_list_wound in E4. rewrite rev_length in E4. cbn [length] in E4. unfold Nlen. lia. }
  unfold Nlen in *. lia.
Qed.
