(* Round-trip lemmas for the small formats and for Message (property C09). *)
From Saito Require Import Base Bytes BytesProofs Codec CodecProofs.

Open Scope N_scope.

(* ------------------------------------------------------------------ *)
(* more field tools                                                    *)
(* ------------------------------------------------------------------ *)

Lemma sumN_firstn_all ws k : (length ws <= k)%nat -> sumN (firstn k ws) = sumN ws.
Proof. intro H. now rewrite firstn_all2. Qed.

Lemma fields_rest fs ws : has_widths fs ws -> forall k, (k <= length ws)%nat ->
  concat fs = concat (firstn k fs) ++ concat (skipn k fs)
  /\ Nlen (concat (firstn k fs)) = sumN (firstn k ws).
Proof.
  induction 1 as [fs|f fs w ws Hf Hw IH]; intros k Hk; cbn [length] in Hk.
  - replace k with 0%nat by lia. cbn [firstn skipn concat app sumN]. split; reflexivity.
  - destruct k as [|k].
    + cbn [firstn skipn concat app sumN]. split; reflexivity.
    + destruct (IH k ltac:(lia)) as (E1 & E2). cbn [firstn skipn concat sumN]. split.
      * rewrite E1 at 1. now rewrite <- app_assoc.
      * rewrite Nlen_app. lia.
Qed.

(* bytes[a..len] = the remaining fields *)
Lemma sl_fields_rest fs ws k site a b :
  has_widths fs ws -> (k <= length ws)%nat ->
  a = sumN (firstn k ws) -> b = Nlen (concat fs) ->
  sl site a b (concat fs) = Ok (concat (skipn k fs)).
Proof.
  intros HW Hk -> ->. destruct (fields_rest fs ws HW k Hk) as (E1 & E2).
  unfold sl. rewrite E1 at 2. rewrite (slice_mid_end _ (concat (skipn k fs)) (sumN (firstn k ws))); auto.
  rewrite E1 at 1. rewrite Nlen_app. lia.
Qed.

Lemma sl_from_fields_rest fs ws k site a :
  has_widths fs ws -> (k <= length ws)%nat ->
  a = sumN (firstn k ws) ->
  sl_from site a (concat fs) = Ok (concat (skipn k fs)).
Proof.
  intros HW Hk ->. destruct (fields_rest fs ws HW k Hk) as (E1 & E2).
  unfold sl_from. rewrite E1, <- E2. now rewrite slice_from_app.
Qed.

(* ------------------------------------------------------------------ *)
(* dec_chunks                                                          *)
(* ------------------------------------------------------------------ *)

Section ChunkFacts.
  Context {A : Type} (site size : N) (f : list N -> A) (enc : A -> list N).

  Lemma dec_chunks_encode_gen :
    forall items pre i,
      (forall x, In x items -> Nlen (enc x) = size /\ f (enc x) = x) ->
      Nlen pre = i * size ->
      dec_chunks site size f (length items) i (pre ++ concat (map enc items)) = Ok items.
  Proof.
    induction items as [|x items IH]; intros pre i Hx Hp; cbn [length dec_chunks]; [reflexivity|].
    destruct (Hx x (or_introl eq_refl)) as (Hs & Hf).
    cbn [map concat]. unfold sl.
    rewrite (slice_mid pre (enc x) _ (i * size) ((i + 1) * size)) by (try assumption; rewrite Hs; lia).
    cbn [bind].
    replace (pre ++ enc x ++ concat (map enc items)) with ((pre ++ enc x) ++ concat (map enc items))
      by now rewrite <- app_assoc.
    rewrite IH; [cbn [bind]; now rewrite Hf| |].
    - intros y Hy. apply Hx. now right.
    - rewrite Nlen_app, Hs, Hp. lia.
  Qed.

  Lemma dec_chunks_encode items :
    (forall x, In x items -> Nlen (enc x) = size /\ f (enc x) = x) ->
    dec_chunks site size f (length items) 0 (concat (map enc items)) = Ok items.
  Proof.
    intro H. apply (dec_chunks_encode_gen items [] 0 H). rewrite Nlen_nil. lia.
  Qed.
End ChunkFacts.

Lemma map_id {A} (l : list A) : map (fun x => x) l = l.
Proof. induction l; cbn [map]; congruence. Qed.

(* ------------------------------------------------------------------ *)
(* Version                                                             *)
(* ------------------------------------------------------------------ *)

Lemma get4 a b c d :
  (Nlen [a; b; c; d] <? 4) = false /\ get_or_err 0 [a; b; c; d] = Ok a /\ get_or_err 1 [a; b; c; d] = Ok b
  /\ get_or_err 2 [a; b; c; d] = Ok c /\ get_or_err 3 [a; b; c; d] = Ok d.
Proof. repeat split; reflexivity. Qed.

Lemma encode_version_eq v :
  wf_version v = true ->
  encode_version v = [v_major v; v_minor v; v_patch v / 256 mod 256; v_patch v mod 256].
Proof. intros _. reflexivity. Qed.

Lemma version_size v : Nlen (encode_version v) = 4.
Proof. reflexivity. Qed.

Lemma version_decode_encode v : wf_version v = true -> decode_version (encode_version v) = Ok v.
Proof.
  intro W. rewrite (encode_version_eq v W). unfold wf_version, two16 in W. split_and.
  unfold decode_version.
  destruct (get4 (v_major v) (v_minor v) (v_patch v / 256 mod 256) (v_patch v mod 256))
    as (E0 & E1 & E2 & E3 & E4).
  rewrite E0, E1, E2, E3, E4. cbn [bind].
  change [v_patch v / 256 mod 256; v_patch v mod 256] with (be_enc 2 (v_patch v)).
  rewrite be_dec_enc by (rewrite pow256_2; lia). destruct v; reflexivity.
Qed.

(* trailing bytes are ignored: canonical only for 4-byte buffers *)
Lemma version_canonical_refuted :
  exists bs v, bytes_ok bs = true /\ decode_version bs = Ok v /\ encode_version v <> bs.
Proof. exists [1; 2; 0; 3; 9]. eexists. split; [reflexivity|split; [vm_compute; reflexivity|vm_compute; discriminate]]. Qed.

(* ------------------------------------------------------------------ *)
(* BlockchainRequest, GoldenTicket, Wallet, HandshakeChallenge         *)
(* ------------------------------------------------------------------ *)

Lemma bc_request_has_widths r : wf_bc_request r = true ->
  has_widths [be_enc 8 (rq_id r); rq_hash r; rq_fork r] [8; 32; 32].
Proof.
  intro W. unfold wf_bc_request in W. split_and.
  repeat constructor; rewrite ?be_enc_Nlen; try reflexivity; now apply arr_ok_len.
Qed.

Lemma bc_request_size r : wf_bc_request r = true -> Nlen (encode_bc_request r) = 72.
Proof.
  intro W. unfold encode_bc_request.
  now rewrite (has_widths_total _ _ (bc_request_has_widths r W)) by reflexivity.
Qed.

Lemma bc_request_decode_encode r :
  wf_bc_request r = true -> decode_bc_request (encode_bc_request r) = Ok r.
Proof.
  intro W. pose proof (bc_request_has_widths r W) as HW. pose proof (bc_request_size r W) as HL.
  unfold decode_bc_request. rewrite HL. cbn [negb]. replace (72 =? 72) with true by reflexivity. cbn [negb].
  unfold encode_bc_request. unfold wf_bc_request in W. split_and. unfold two64 in *.
  field 0%nat. field 1%nat. field 2%nat.
  rewrite be_dec_enc by (rewrite pow256_8; lia). destruct r; reflexivity.
Qed.

Lemma bc_request_canonical bs r :
  bytes_ok bs = true -> decode_bc_request bs = Ok r -> encode_bc_request r = bs.
Proof.
  intros Hb H. unfold decode_bc_request in H.
  destruct (negb (Nlen bs =? 72)) eqn:EL; [discriminate|].
  assert (HL : Nlen bs = 72) by lia.
  inv_bind H. inv_bind H. inv_bind H. inversion H; subst r; clear H.
  rewrite sl_ok in *. unfold encode_bc_request. cbn [rq_id rq_hash rq_fork concat].
  rewrite (be_enc_dec_slice 8 _ _ _ _ Hb E eq_refl).
  merge_slices. rewrite app_nil_r.
  match goal with H : slice 0 72 bs = Some ?y |- _ =>
    apply slice_whole in H; [|now rewrite HL]; rewrite <- H end.
  now rewrite <- ?app_assoc.
Qed.

Lemma gt_has_widths g : wf_gt g = true -> has_widths [gt_target g; gt_random g; gt_pk g] [32; 32; 33].
Proof. intro W. unfold wf_gt in W. split_and. repeat constructor; now apply arr_ok_len. Qed.

Lemma gt_size g : wf_gt g = true -> Nlen (encode_gt g) = 97.
Proof.
  intro W. unfold encode_gt. now rewrite (has_widths_total _ _ (gt_has_widths g W)) by reflexivity.
Qed.

Lemma gt_decode_encode g : wf_gt g = true -> decode_gt (encode_gt g) = Ok g.
Proof.
  intro W. pose proof (gt_has_widths g W) as HW. pose proof (gt_size g W) as HL.
  unfold decode_gt. rewrite HL. replace (97 =? 97) with true by reflexivity. cbn [negb].
  unfold encode_gt. field 0%nat. field 1%nat. field 2%nat. destruct g; reflexivity.
Qed.

Lemma gt_canonical bs g : decode_gt bs = Ok g -> encode_gt g = bs.
Proof.
  intros H. unfold decode_gt in H.
  destruct (negb (Nlen bs =? 97)) eqn:EL; [discriminate|].
  assert (HL : Nlen bs = 97) by lia.
  inv_bind H. inv_bind H. inv_bind H. inversion H; subst g; clear H.
  rewrite sl_ok in *. unfold encode_gt. cbn [gt_target gt_random gt_pk concat].
  merge_slices. rewrite app_nil_r.
  match goal with H : slice 0 97 bs = Some ?y |- _ =>
    apply slice_whole in H; [|now rewrite HL]; rewrite <- H end.
  now rewrite <- ?app_assoc.
Qed.

Lemma wallet_size w : wf_wallet w = true -> Nlen (encode_wallet w) = WALLET_SIZE.
Proof.
  intro W. unfold wf_wallet in W. split_and. unfold encode_wallet.
  rewrite Nlen_app, (arr_ok_len 32 _ H), (arr_ok_len 33 _ H0). reflexivity.
Qed.

Lemma wallet_decode_encode w : wf_wallet w = true -> decode_wallet (encode_wallet w) = Ok w.
Proof.
  intro W. unfold wf_wallet in W. split_and. unfold decode_wallet, encode_wallet, sl.
  pose proof (arr_ok_len 32 _ H) as L1. pose proof (arr_ok_len 33 _ H0) as L2.
  replace (w_private w ++ w_public w) with ([] ++ w_private w ++ w_public w) by reflexivity.
  rewrite (slice_mid [] (w_private w) (w_public w) 0 32) by (rewrite ?L1; reflexivity).
  cbn [bind app].
  rewrite (slice_mid_end (w_private w) (w_public w) 32 65) by (rewrite ?L1, ?L2; reflexivity).
  cbn [bind]. destruct w; reflexivity.
Qed.

(* trailing bytes of the wallet file are ignored *)
Lemma wallet_canonical_prefix bs w :
  decode_wallet bs = Ok w -> slice 0 65 bs = Some (encode_wallet w).
Proof.
  intro H. unfold decode_wallet in H. inv_bind H. inv_bind H. inversion H; subst w; clear H.
  rewrite sl_ok in *. unfold encode_wallet. cbn [w_private w_public]. eapply slice_cat; eauto.
Qed.

Lemma hs_challenge_decode_encode c :
  arr_ok 32 c = true -> decode_hs_challenge (encode_hs_challenge c) = Ok c.
Proof.
  intro W. pose proof (arr_ok_len 32 c W) as L. unfold decode_hs_challenge, encode_hs_challenge.
  rewrite L. replace (32 <? 32) with false by reflexivity.
  unfold sl. rewrite <- L at 1. now rewrite slice_full.
Qed.

(* ------------------------------------------------------------------ *)
(* ApiMessage                                                          *)
(* ------------------------------------------------------------------ *)

Lemma api_has_widths a : has_widths [be_enc 4 (am_index a); am_data a] [4; Nlen (am_data a)].
Proof. repeat constructor. Qed.

Lemma api_size a : Nlen (encode_api a) = 4 + Nlen (am_data a).
Proof.
  unfold encode_api. rewrite (has_widths_total _ _ (api_has_widths a)) by reflexivity. cbn [sumN]. lia.
Qed.

Lemma api_decode_encode a : wf_api a = true -> decode_api (encode_api a) = Ok a.
Proof.
  intro W. unfold wf_api, two32 in W. split_and. pose proof (api_has_widths a) as HW.
  unfold decode_api, encode_api. field 0%nat.
  rewrite (sl_from_fields _ _ 1%nat 1002 4 HW) by reflexivity. cbn [bind nth].
  rewrite be_dec_enc by (rewrite pow256_4; lia). destruct a; reflexivity.
Qed.

Lemma api_canonical bs a : bytes_ok bs = true -> decode_api bs = Ok a -> encode_api a = bs.
Proof.
  intros Hb H. unfold decode_api in H. inv_bind H. inv_bind H. inversion H; subst a; clear H.
  rewrite sl_ok in E. unfold sl_from in E0. destruct (slice_from 4 bs) eqn:E1; [|discriminate].
  inversion E0; subst l; clear E0. rewrite slice_from_as_slice in E1.
  unfold encode_api. cbn [am_index am_data concat].
  rewrite (be_enc_dec_slice 4 _ _ _ _ Hb E eq_refl), app_nil_r.
  pose proof (slice_cat _ _ _ _ _ _ E E1) as S. rewrite slice_full in S. now inversion S.
Qed.

Lemma api_guarded_decode_encode a :
  wf_api a = true -> decode_api_guarded (encode_api a) = Ok a.
Proof.
  intro W. unfold decode_api_guarded. rewrite api_size.
  replace (4 + Nlen (am_data a) <? 4) with false by lia. now apply api_decode_encode.
Qed.

(* ------------------------------------------------------------------ *)
(* GhostChainSync                                                      *)
(* ------------------------------------------------------------------ *)

Notation ghost_fields g :=
  [ g_start g; be_enc 4 (Nlen (g_prehashes g)); concat (g_prehashes g); concat (g_prev_hashes g);
    concat (map (be_enc 8) (g_block_ids g)); concat (map (be_enc 8) (g_block_ts g));
    concat (map (fun b => be_enc 1 (b2n b)) (g_txs g));
    concat (map (fun b => be_enc 1 (b2n b)) (g_gts g)) ] (only parsing).

Notation ghost_widths n := [32; 4; 32 * n; 32 * n; 8 * n; 8 * n; 1 * n; 1 * n] (only parsing).

Lemma Nlen_concat_const (l : list (list N)) c :
  forallb (arr_ok c) l = true -> Nlen (concat l) = c * Nlen l.
Proof.
  intro H. rewrite <- (map_id l) at 1. apply Nlen_concat_map_const.
  intros x Hx. apply arr_ok_len. eapply forallb_In; eauto.
Qed.

Lemma ghost_has_widths g : wf_ghost g = true ->
  has_widths (ghost_fields g) (ghost_widths (Nlen (g_prehashes g))).
Proof.
  intro W. unfold wf_ghost in W. split_and.
  repeat constructor; rewrite ?be_enc_Nlen; try reflexivity.
  - now apply arr_ok_len.
  - now apply Nlen_concat_const.
  - rewrite (Nlen_concat_const _ 32) by assumption. lia.
  - rewrite (Nlen_concat_map_const (be_enc 8) 8) by (intros; apply be_enc_Nlen). lia.
  - rewrite (Nlen_concat_map_const (be_enc 8) 8) by (intros; apply be_enc_Nlen). lia.
  - rewrite (Nlen_concat_map_const _ 1) by (intros; apply be_enc_Nlen). lia.
  - rewrite (Nlen_concat_map_const _ 1) by (intros; apply be_enc_Nlen). lia.
Qed.

Lemma ghost_size g : wf_ghost g = true -> Nlen (encode_ghost g) = 36 + 82 * Nlen (g_prehashes g).
Proof.
  intro W. unfold encode_ghost.
  rewrite (has_widths_total _ _ (ghost_has_widths g W)) by reflexivity. cbn [sumN]. lia.
Qed.

Lemma nonzero_b2n b : nonzero_byte (be_enc 1 (b2n b)) = b.
Proof. destruct b; reflexivity. Qed.

Lemma ghost_decode_encode g : wf_ghost g = true -> decode_ghost (encode_ghost g) = Ok g.
Proof.
  intro W. pose proof (ghost_has_widths g W) as HW. pose proof (ghost_size g W) as HL.
  unfold wf_ghost in W. split_and. unfold two32, two64 in *.
  set (n := Nlen (g_prehashes g)) in *.
  assert (Ln : forall {A} (l : list A), Nlen l = n -> N.to_nat n = length l)
    by (intros A l <-; unfold Nlen; lia).
  unfold decode_ghost, encode_ghost in *.
  field 0%nat. field 1%nat. rewrite be_dec_enc by (rewrite pow256_4; lia).
  match goal with HW : has_widths ?fs ?ws |- context [sl 903 ?a ?b (concat ?fs)] =>
    rewrite (sl_fields_rest fs ws 2%nat 903 a b HW) by (first [reflexivity | cbn [length]; lia]) end.
  rewrite bind_Ok. cbv beta. cbn [skipn].
  assert (HW2 : has_widths
            [concat (g_prehashes g); concat (g_prev_hashes g);
             concat (map (be_enc 8) (g_block_ids g)); concat (map (be_enc 8) (g_block_ts g));
             concat (map (fun b => be_enc 1 (b2n b)) (g_txs g));
             concat (map (fun b => be_enc 1 (b2n b)) (g_gts g))]
            [32 * n; 32 * n; 8 * n; 8 * n; 1 * n; 1 * n]).
  { inversion HW; subst. match goal with H : has_widths _ (4 :: _) |- _ => inversion H; subst end.
    assumption. }
  clear HW.
  field 0%nat.
  rewrite (Ln _ (g_prehashes g) eq_refl).
  rewrite <- (map_id (g_prehashes g)) at 2.
  rewrite (dec_chunks_encode 905 32 (fun x => x) (fun x => x))
    by (intros x Hx; split; [apply arr_ok_len; eapply forallb_In; eauto|reflexivity]).
  rewrite bind_Ok. cbv beta.
  field 1%nat.
  rewrite (Ln _ (g_prev_hashes g)) by lia.
  rewrite <- (map_id (g_prev_hashes g)) at 2.
  rewrite (dec_chunks_encode 907 32 (fun x => x) (fun x => x))
    by (intros x Hx; split; [apply arr_ok_len; eapply forallb_In; eauto|reflexivity]).
  rewrite bind_Ok. cbv beta.
  field 2%nat.
  rewrite (Ln _ (g_block_ids g)) by lia.
  rewrite (dec_chunks_encode 909 8 be_dec (be_enc 8))
    by (intros x Hx; split; [apply be_enc_Nlen|apply be_dec_enc; rewrite pow256_8;
        pose proof (forallb_In _ _ x ltac:(eassumption) Hx) as Hlt; cbv beta in Hlt; lia]).
  rewrite bind_Ok. cbv beta.
  field 3%nat.
  rewrite (Ln _ (g_block_ts g)) by lia.
  rewrite (dec_chunks_encode 911 8 be_dec (be_enc 8))
    by (intros x Hx; split; [apply be_enc_Nlen|apply be_dec_enc; rewrite pow256_8;
        pose proof (forallb_In _ _ x ltac:(eassumption) Hx) as Hlt; cbv beta in Hlt; lia]).
  rewrite bind_Ok. cbv beta.
  field 4%nat.
  rewrite (Ln _ (g_txs g)) by lia.
  rewrite (dec_chunks_encode 913 1 nonzero_byte (fun b => be_enc 1 (b2n b)))
    by (intros x Hx; split; [apply be_enc_Nlen|apply nonzero_b2n]).
  rewrite bind_Ok. cbv beta.
  field 5%nat.
  rewrite (Ln _ (g_gts g)) by lia.
  rewrite (dec_chunks_encode 915 1 nonzero_byte (fun b => be_enc 1 (b2n b)))
    by (intros x Hx; split; [apply be_enc_Nlen|apply nonzero_b2n]).
  rewrite bind_Ok. cbv beta.
  destruct g; reflexivity.
Qed.

(* is_lite-style booleans: any non-zero byte decodes to true *)
Lemma ghost_canonical_refuted :
  exists bs g, bytes_ok bs = true /\ decode_ghost bs = Ok g /\ encode_ghost g <> bs.
Proof.
  exists (repeat 0 35 ++ [1] ++ repeat 0 80 ++ [7; 0]). eexists.
  split; [reflexivity|split; [vm_compute; reflexivity|vm_compute; discriminate]].
Qed.
