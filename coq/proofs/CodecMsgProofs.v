(* Round-trip lemmas for the small formats and for Message (property C09). *)
From Saito Require Import Base Bytes BytesProofs Codec CodecProofs.

Open Scope N_scope.

(* ------------------------------------------------------------------ *)
(* more field tools                                                    *)
(* ------------------------------------------------------------------ *)

Lemma sumN_firstn_all ws k : (length ws <= k)%nat -> sumN (firstn k ws) = sumN ws.
Proof. intro H. now rewrite firstn_all2. Qed.

Lemma fields_rest fs ws : has_widths fs ws -> forall k, (k <= length ws)%nat ->
  concat fs = concat (firstn k fs) ++ concat (skipn k fs)
  /\ Nlen (concat (firstn k fs)) = sumN (firstn k ws).
Proof.
  induction 1 as [fs|f fs w ws Hf Hw IH]; intros k Hk; cbn [length] in Hk.
  - replace k with 0%nat by lia. cbn [firstn skipn concat app sumN]. split; reflexivity.
  - destruct k as [|k].
    + cbn [firstn skipn concat app sumN]. split; reflexivity.
    + destruct (IH k ltac:(lia)) as (E1 & E2). cbn [firstn skipn concat sumN]. split.
      * rewrite E1 at 1. now rewrite <- app_assoc.
      * rewrite Nlen_app. lia.
Qed.

(* bytes[a..len] = the remaining fields *)
Lemma sl_fields_rest fs ws k site a b :
  has_widths fs ws -> (k <= length ws)%nat ->
  a = sumN (firstn k ws) -> b = Nlen (concat fs) ->
  sl site a b (concat fs) = Ok (concat (skipn k fs)).
Proof.
  intros HW Hk -> ->. destruct (fields_rest fs ws HW k Hk) as (E1 & E2).
  unfold sl. rewrite E1 at 2. rewrite (slice_mid_end _ (concat (skipn k fs)) (sumN (firstn k ws))); auto.
  rewrite E1 at 1. rewrite Nlen_app. lia.
Qed.

Lemma sl_from_fields_rest fs ws k site a :
  has_widths fs ws -> (k <= length ws)%nat ->
  a = sumN (firstn k ws) ->
  sl_from site a (concat fs) = Ok (concat (skipn k fs)).
Proof.
  intros HW Hk ->. destruct (fields_rest fs ws HW k Hk) as (E1 & E2).
  unfold sl_from. rewrite E1, <- E2. now rewrite slice_from_app.
Qed.

(* ------------------------------------------------------------------ *)
(* dec_chunks                                                          *)
(* ------------------------------------------------------------------ *)

Section ChunkFacts.
  Context {A : Type} (site size : N) (f : list N -> A) (enc : A -> list N).

  Lemma dec_chunks_encode_gen :
    forall items pre i,
      (forall x, In x items -> Nlen (enc x) = size /\ f (enc x) = x) ->
      Nlen pre = i * size ->
      dec_chunks site size f (length items) i (pre ++ concat (map enc items)) = Ok items.
  Proof.
    induction items as [|x items IH]; intros pre i Hx Hp; cbn [length dec_chunks]; [reflexivity|].
    destruct (Hx x (or_introl eq_refl)) as (Hs & Hf).
    cbn [map concat]. unfold sl.
    rewrite (slice_mid pre (enc x) _ (i * size) ((i + 1) * size)) by (try assumption; rewrite Hs; lia).
    cbn [bind].
    replace (pre ++ enc x ++ concat (map enc items)) with ((pre ++ enc x) ++ concat (map enc items))
      by now rewrite <- app_assoc.
    rewrite IH; [cbn [bind]; now rewrite Hf| |].
    - intros y Hy. apply Hx. now right.
    - rewrite Nlen_app, Hs, Hp. lia.
  Qed.

  Lemma dec_chunks_encode items :
    (forall x, In x items -> Nlen (enc x) = size /\ f (enc x) = x) ->
    dec_chunks site size f (length items) 0 (concat (map enc items)) = Ok items.
  Proof.
    intro H. apply (dec_chunks_encode_gen items [] 0 H). rewrite Nlen_nil. lia.
  Qed.

  Lemma dec_chunks_encode_k items k :
    k = length items ->
    (forall x, In x items -> Nlen (enc x) = size /\ f (enc x) = x) ->
    dec_chunks site size f k 0 (concat (map enc items)) = Ok items.
  Proof. intros ->. apply dec_chunks_encode. Qed.
End ChunkFacts.

Lemma map_id {A} (l : list A) : map (fun x => x) l = l.
Proof. induction l; cbn [map]; congruence. Qed.

(* ------------------------------------------------------------------ *)
(* Version                                                             *)
(* ------------------------------------------------------------------ *)

Lemma get4 a b c d :
  (Nlen [a; b; c; d] <? 4) = false /\ get_or_err 0 [a; b; c; d] = Ok a /\ get_or_err 1 [a; b; c; d] = Ok b
  /\ get_or_err 2 [a; b; c; d] = Ok c /\ get_or_err 3 [a; b; c; d] = Ok d.
Proof. repeat split; reflexivity. Qed.

Lemma encode_version_eq v :
  wf_version v = true ->
  encode_version v = [v_major v; v_minor v; v_patch v / 256 mod 256; v_patch v mod 256].
Proof. intros _. reflexivity. Qed.

Lemma version_size v : Nlen (encode_version v) = 4.
Proof. reflexivity. Qed.

Lemma version_decode_encode v : wf_version v = true -> decode_version (encode_version v) = Ok v.
Proof.
  intro W. rewrite (encode_version_eq v W). unfold wf_version in W. split_and. unfold two16 in *.
  unfold decode_version.
  destruct (get4 (v_major v) (v_minor v) (v_patch v / 256 mod 256) (v_patch v mod 256))
    as (E0 & E1 & E2 & E3 & E4).
  rewrite E0, E1, E2, E3, E4. cbn [bind].
  change [v_patch v / 256 mod 256; v_patch v mod 256] with (be_enc 2 (v_patch v)).
  rewrite be_dec_enc by (rewrite pow256_2; lia). destruct v; reflexivity.
Qed.

(* trailing bytes are ignored: canonical only for 4-byte buffers *)
Lemma version_canonical_refuted :
  exists bs v, bytes_ok bs = true /\ decode_version bs = Ok v /\ encode_version v <> bs.
Proof. exists [1; 2; 0; 3; 9]. eexists. split; [reflexivity|split; [vm_compute; reflexivity|vm_compute; discriminate]]. Qed.

(* ------------------------------------------------------------------ *)
(* BlockchainRequest, GoldenTicket, Wallet, HandshakeChallenge         *)
(* ------------------------------------------------------------------ *)

Lemma bc_request_has_widths r : wf_bc_request r = true ->
  has_widths [be_enc 8 (rq_id r); rq_hash r; rq_fork r] [8; 32; 32].
Proof.
  intro W. unfold wf_bc_request in W. split_and.
  repeat constructor; rewrite ?be_enc_Nlen; try reflexivity; now apply arr_ok_len.
Qed.

Lemma bc_request_size r : wf_bc_request r = true -> Nlen (encode_bc_request r) = 72.
Proof.
  intro W. unfold encode_bc_request.
  now rewrite (has_widths_total _ _ (bc_request_has_widths r W)) by reflexivity.
Qed.

Lemma bc_request_decode_encode r :
  wf_bc_request r = true -> decode_bc_request (encode_bc_request r) = Ok r.
Proof.
  intro W. pose proof (bc_request_has_widths r W) as HW. pose proof (bc_request_size r W) as HL.
  unfold decode_bc_request. rewrite HL. cbn [negb]. replace (72 =? 72) with true by reflexivity. cbn [negb].
  unfold encode_bc_request. unfold wf_bc_request in W. split_and. unfold two64 in *.
  field 0%nat. field 1%nat. field 2%nat.
  rewrite be_dec_enc by (rewrite pow256_8; lia). destruct r; reflexivity.
Qed.

Lemma bc_request_canonical bs r :
  bytes_ok bs = true -> decode_bc_request bs = Ok r -> encode_bc_request r = bs.
Proof.
  intros Hb H. unfold decode_bc_request in H.
  destruct (negb (Nlen bs =? 72)) eqn:EL; [discriminate|].
  assert (HL : Nlen bs = 72) by lia.
  inv_bind H. inv_bind H. inv_bind H. inversion H; subst r; clear H.
  rewrite sl_ok in *. unfold encode_bc_request. cbn [rq_id rq_hash rq_fork concat].
  rewrite (be_enc_dec_slice 8 _ _ _ _ Hb E eq_refl).
  merge_slices. rewrite app_nil_r.
  match goal with H : slice 0 72 bs = Some ?y |- _ =>
    apply slice_whole in H; [|now rewrite HL]; rewrite <- H end.
  now rewrite <- ?app_assoc.
Qed.

Lemma gt_has_widths g : wf_gt g = true -> has_widths [gt_target g; gt_random g; gt_pk g] [32; 32; 33].
Proof. intro W. unfold wf_gt in W. split_and. repeat constructor; now apply arr_ok_len. Qed.

Lemma gt_size g : wf_gt g = true -> Nlen (encode_gt g) = 97.
Proof.
  intro W. unfold encode_gt. now rewrite (has_widths_total _ _ (gt_has_widths g W)) by reflexivity.
Qed.

Lemma gt_decode_encode g : wf_gt g = true -> decode_gt (encode_gt g) = Ok g.
Proof.
  intro W. pose proof (gt_has_widths g W) as HW. pose proof (gt_size g W) as HL.
  unfold decode_gt. rewrite HL. replace (97 =? 97) with true by reflexivity. cbn [negb].
  unfold encode_gt. field 0%nat. field 1%nat. field 2%nat. destruct g; reflexivity.
Qed.

Lemma gt_canonical bs g : decode_gt bs = Ok g -> encode_gt g = bs.
Proof.
  intros H. unfold decode_gt in H.
  destruct (negb (Nlen bs =? 97)) eqn:EL; [discriminate|].
  assert (HL : Nlen bs = 97) by lia.
  inv_bind H. inv_bind H. inv_bind H. inversion H; subst g; clear H.
  rewrite sl_ok in *. unfold encode_gt. cbn [gt_target gt_random gt_pk concat].
  merge_slices. rewrite app_nil_r.
  match goal with H : slice 0 97 bs = Some ?y |- _ =>
    apply slice_whole in H; [|now rewrite HL]; rewrite <- H end.
  now rewrite <- ?app_assoc.
Qed.

Lemma wallet_size w : wf_wallet w = true -> Nlen (encode_wallet w) = WALLET_SIZE.
Proof.
  intro W. unfold wf_wallet in W. split_and. unfold encode_wallet.
  rewrite Nlen_app, (arr_ok_len 32 _ H), (arr_ok_len 33 _ H0). reflexivity.
Qed.

Lemma wallet_decode_encode w : wf_wallet w = true -> decode_wallet (encode_wallet w) = Ok w.
Proof.
  intro W. unfold wf_wallet in W. split_and. unfold decode_wallet, encode_wallet, sl.
  pose proof (arr_ok_len 32 _ H) as L1. pose proof (arr_ok_len 33 _ H0) as L2.
  replace (w_private w ++ w_public w) with ([] ++ w_private w ++ w_public w) by reflexivity.
  rewrite (slice_mid [] (w_private w) (w_public w) 0 32) by (rewrite ?L1; reflexivity).
  cbn [bind app].
  rewrite (slice_mid_end (w_private w) (w_public w) 32 65) by (rewrite ?L1, ?L2; reflexivity).
  cbn [bind]. destruct w; reflexivity.
Qed.

(* trailing bytes of the wallet file are ignored *)
Lemma wallet_canonical_prefix bs w :
  decode_wallet bs = Ok w -> slice 0 65 bs = Some (encode_wallet w).
Proof.
  intro H. unfold decode_wallet in H. inv_bind H. inv_bind H. inversion H; subst w; clear H.
  rewrite sl_ok in *. unfold encode_wallet. cbn [w_private w_public]. eapply slice_cat; eauto.
Qed.

Lemma hs_challenge_decode_encode c :
  arr_ok 32 c = true -> decode_hs_challenge (encode_hs_challenge c) = Ok c.
Proof.
  intro W. pose proof (arr_ok_len 32 c W) as L. unfold decode_hs_challenge, encode_hs_challenge.
  rewrite L. replace (32 <? 32) with false by reflexivity.
  unfold sl. rewrite <- L at 1. now rewrite slice_full.
Qed.

(* ------------------------------------------------------------------ *)
(* ApiMessage                                                          *)
(* ------------------------------------------------------------------ *)

Lemma api_has_widths a : has_widths [be_enc 4 (am_index a); am_data a] [4; Nlen (am_data a)].
Proof. repeat constructor. Qed.

Lemma api_size a : Nlen (encode_api a) = 4 + Nlen (am_data a).
Proof.
  unfold encode_api. rewrite (has_widths_total _ _ (api_has_widths a)) by reflexivity. cbn [sumN]. lia.
Qed.

Lemma api_decode_encode a : wf_api a = true -> decode_api (encode_api a) = Ok a.
Proof.
  intro W. unfold wf_api in W. split_and. unfold two32 in *. pose proof (api_has_widths a) as HW.
  unfold decode_api. rewrite api_size. replace (4 + Nlen (am_data a) <? 4) with false by lia.
  unfold encode_api. field 0%nat.
  rewrite (sl_from_fields _ _ 1%nat 1002 4 HW) by reflexivity. cbn [bind nth].
  rewrite be_dec_enc by (rewrite pow256_4; lia). destruct a; reflexivity.
Qed.

Lemma api_canonical bs a : bytes_ok bs = true -> decode_api bs = Ok a -> encode_api a = bs.
Proof.
  intros Hb H. unfold decode_api in H. destruct (Nlen bs <? 4); [discriminate|].
  inv_bind H. inv_bind H. inversion H; subst a; clear H.
  rewrite sl_ok in E. unfold sl_from in E0. destruct (slice_from 4 bs) eqn:E1; [|discriminate].
  inversion E0; subst l; clear E0. rewrite slice_from_as_slice in E1.
  unfold encode_api. cbn [am_index am_data concat].
  rewrite (be_enc_dec_slice 4 _ _ _ _ Hb E eq_refl), app_nil_r.
  pose proof (slice_cat _ _ _ _ _ _ E E1) as S. rewrite slice_full in S. now inversion S.
Qed.

Lemma api_guarded_decode_encode a :
  wf_api a = true -> decode_api_guarded (encode_api a) = Ok a.
Proof.
  intro W. unfold decode_api_guarded. rewrite api_size.
  replace (4 + Nlen (am_data a) <? 4) with false by lia. now apply api_decode_encode.
Qed.

(* ------------------------------------------------------------------ *)
(* GhostChainSync                                                      *)
(* ------------------------------------------------------------------ *)

Notation ghost_fields g :=
  [ g_start g; be_enc 4 (Nlen (g_prehashes g)); concat (g_prehashes g); concat (g_prev_hashes g);
    concat (map (be_enc 8) (g_block_ids g)); concat (map (be_enc 8) (g_block_ts g));
    concat (map (fun b => be_enc 1 (b2n b)) (g_txs g));
    concat (map (fun b => be_enc 1 (b2n b)) (g_gts g)) ] (only parsing).

Notation ghost_widths n := [32; 4; 32 * n; 32 * n; 8 * n; 8 * n; 1 * n; 1 * n] (only parsing).

Lemma Nlen_concat_const (l : list (list N)) c :
  forallb (arr_ok c) l = true -> Nlen (concat l) = c * Nlen l.
Proof.
  intro H. rewrite <- (map_id l) at 1. apply Nlen_concat_map_const.
  intros x Hx. apply arr_ok_len. eapply forallb_In; eauto.
Qed.

Lemma ghost_has_widths g : wf_ghost g = true ->
  has_widths (ghost_fields g) (ghost_widths (Nlen (g_prehashes g))).
Proof.
  intro W. unfold wf_ghost in W. split_and.
  repeat constructor; rewrite ?be_enc_Nlen; try reflexivity.
  - now apply arr_ok_len.
  - now apply Nlen_concat_const.
  - rewrite (Nlen_concat_const _ 32) by assumption. lia.
  - rewrite (Nlen_concat_map_const (be_enc 8) 8) by (intros; apply be_enc_Nlen). lia.
  - rewrite (Nlen_concat_map_const (be_enc 8) 8) by (intros; apply be_enc_Nlen). lia.
  - rewrite (Nlen_concat_map_const _ 1) by (intros; apply be_enc_Nlen). lia.
  - rewrite (Nlen_concat_map_const _ 1) by (intros; apply be_enc_Nlen). lia.
Qed.

Lemma ghost_size g : wf_ghost g = true -> Nlen (encode_ghost g) = 36 + 82 * Nlen (g_prehashes g).
Proof.
  intro W. unfold encode_ghost.
  rewrite (has_widths_total _ _ (ghost_has_widths g W)) by reflexivity. cbn [sumN]. lia.
Qed.

Lemma nonzero_b2n b : nonzero_byte (be_enc 1 (b2n b)) = b.
Proof. destruct b; reflexivity. Qed.

Lemma ghost_decode_encode g : wf_ghost g = true -> decode_ghost (encode_ghost g) = Ok g.
Proof.
  intro W. pose proof (ghost_has_widths g W) as HW. pose proof (ghost_size g W) as HL.
  unfold wf_ghost in W. split_and. unfold two32, two64 in *.
  unfold decode_ghost, encode_ghost in *.
  set (n := Nlen (g_prehashes g)) in *.
  assert (Ln : forall {A} (l : list A), Nlen l = n -> N.to_nat n = length l)
    by (intros A l <-; unfold Nlen; lia).
  field 0%nat. field 1%nat. rewrite be_dec_enc by (rewrite pow256_4; lia).
  match goal with HW : has_widths ?fs ?ws |- context [sl 903 ?a ?b (concat ?fs)] =>
    rewrite (sl_fields_rest fs ws 2%nat 903 a b HW) by (first [reflexivity | cbn [length]; lia]) end.
  rewrite bind_Ok. cbv beta. cbn [skipn].
  assert (HW2 : has_widths
            [concat (g_prehashes g); concat (g_prev_hashes g);
             concat (map (be_enc 8) (g_block_ids g)); concat (map (be_enc 8) (g_block_ts g));
             concat (map (fun b => be_enc 1 (b2n b)) (g_txs g));
             concat (map (fun b => be_enc 1 (b2n b)) (g_gts g))]
            [32 * n; 32 * n; 8 * n; 8 * n; 1 * n; 1 * n]).
  { inversion HW; subst. match goal with H : has_widths _ (4 :: _) |- _ => inversion H; subst end.
    assumption. }
  clear HW.
  field 0%nat.
  replace (dec_chunks 905 32 (fun x => x) (N.to_nat n) 0 (concat (g_prehashes g)))
    with (dec_chunks 905 32 (fun x => x) (N.to_nat n) 0 (concat (map (fun x : list N => x) (g_prehashes g))))
    by now rewrite map_id.
  rewrite (dec_chunks_encode_k 905 32 (fun x => x) (fun x => x) (g_prehashes g) (N.to_nat n))
    by (first [now (apply Ln; lia) |intros x Hx; split; [apply arr_ok_len; now apply (forallb_In (arr_ok 32) (g_prehashes g))|reflexivity]]).
  rewrite bind_Ok. cbv beta.
  field 1%nat.
  replace (dec_chunks 907 32 (fun x => x) (N.to_nat n) 0 (concat (g_prev_hashes g)))
    with (dec_chunks 907 32 (fun x => x) (N.to_nat n) 0 (concat (map (fun x : list N => x) (g_prev_hashes g))))
    by now rewrite map_id.
  rewrite (dec_chunks_encode_k 907 32 (fun x => x) (fun x => x) (g_prev_hashes g) (N.to_nat n))
    by (first [now (apply Ln; lia) |intros x Hx; split; [apply arr_ok_len; now apply (forallb_In (arr_ok 32) (g_prev_hashes g))|reflexivity]]).
  rewrite bind_Ok. cbv beta.
  field 2%nat.
  rewrite (dec_chunks_encode_k 909 8 be_dec (be_enc 8) (g_block_ids g) (N.to_nat n))
    by (first [now (apply Ln; lia) |intros x Hx; split; [apply be_enc_Nlen|apply be_dec_enc; rewrite pow256_8;
        match goal with H : forallb _ (g_block_ids g) = true |- _ =>
          pose proof (forallb_In _ _ x H Hx) as Hlt end; cbv beta in Hlt; lia]]).
  rewrite bind_Ok. cbv beta.
  field 3%nat.
  rewrite (dec_chunks_encode_k 911 8 be_dec (be_enc 8) (g_block_ts g) (N.to_nat n))
    by (first [now (apply Ln; lia) |intros x Hx; split; [apply be_enc_Nlen|apply be_dec_enc; rewrite pow256_8;
        match goal with H : forallb _ (g_block_ts g) = true |- _ =>
          pose proof (forallb_In _ _ x H Hx) as Hlt end; cbv beta in Hlt; lia]]).
  rewrite bind_Ok. cbv beta.
  field 4%nat.
  rewrite (dec_chunks_encode_k 913 1 nonzero_byte (fun b => be_enc 1 (b2n b)) (g_txs g) (N.to_nat n))
    by (first [now (apply Ln; lia) |intros x Hx; split; [apply be_enc_Nlen|apply nonzero_b2n]]).
  rewrite bind_Ok. cbv beta.
  field 5%nat.
  rewrite (dec_chunks_encode_k 915 1 nonzero_byte (fun b => be_enc 1 (b2n b)) (g_gts g) (N.to_nat n))
    by (first [now (apply Ln; lia) |intros x Hx; split; [apply be_enc_Nlen|apply nonzero_b2n]]).
  rewrite bind_Ok. cbv beta.
  destruct g; reflexivity.
Qed.

Lemma ghost_checked_decode_encode g :
  wf_ghost g = true -> decode_ghost_checked (encode_ghost g) = Ok g.
Proof.
  intro W. pose proof (ghost_has_widths g W) as HW. pose proof (ghost_size g W) as HL.
  unfold decode_ghost_checked. rewrite HL.
  replace (36 + 82 * Nlen (g_prehashes g) <? 36) with false by lia.
  pose proof W as W'. unfold wf_ghost in W'. split_and. unfold two32 in *.
  unfold encode_ghost at 1.
  field 1%nat. rewrite be_dec_enc by (rewrite pow256_4; lia).
  replace (36 + 82 * Nlen (g_prehashes g) <? 36 + 82 * Nlen (g_prehashes g)) with false by lia.
  now apply ghost_decode_encode.
Qed.

(* is_lite-style booleans: any non-zero byte decodes to true *)
Lemma ghost_canonical_refuted :
  exists bs g, bytes_ok bs = true /\ decode_ghost_checked bs = Ok g /\ encode_ghost g <> bs.
Proof.
  exists (repeat 0 35 ++ [1] ++ repeat 0 80 ++ [7; 0]). eexists.
  split; [reflexivity|split; [vm_compute; reflexivity|vm_compute; discriminate]].
Qed.

(* ------------------------------------------------------------------ *)
(* PeerService list (text)                                             *)
(* ------------------------------------------------------------------ *)

Lemma split_join c parts :
  parts <> [] ->
  (forall p, In p parts -> forallb (fun x => negb (x =? c)) p = true) ->
  split_on c (join_with c parts) = parts.
Proof.
  induction parts as [|p rest IH]; intros Hne Hp; [contradiction|].
  destruct rest as [|q rest].
  - cbn [join_with]. apply split_on_no_sep. apply Hp. now left.
  - change (join_with c (p :: q :: rest)) with (p ++ c :: join_with c (q :: rest)).
    rewrite split_on_app by (apply Hp; now left).
    rewrite IH; [reflexivity|discriminate|]. intros p' Hp'. apply Hp. now right.
Qed.

Lemma no_sep_bar l : no_sep l = true -> forallb (fun x => negb (x =? CH_BAR)) l = true.
Proof. unfold no_sep. intro H. now apply andb_split in H as [H _]. Qed.

Lemma no_sep_semi l : no_sep l = true -> forallb (fun x => negb (x =? CH_SEMI)) l = true.
Proof. unfold no_sep. intro H. now apply andb_split in H as [_ H]. Qed.

Lemma service_decode_encode s : wf_service s = true -> decode_service (encode_service s) = Ok s.
Proof.
  intro W. unfold wf_service in W. split_and.
  unfold decode_service, encode_service.
  rewrite split_on_app by now apply no_sep_bar.
  rewrite split_on_app by now apply no_sep_bar.
  rewrite split_on_no_sep by now apply no_sep_bar.
  destruct s; reflexivity.
Qed.

Lemma encode_service_nonempty s : encode_service s <> [].
Proof. unfold encode_service. destruct (sv_service s); discriminate. Qed.

Lemma encode_service_no_semi s :
  wf_service s = true -> forallb (fun x => negb (x =? CH_SEMI)) (encode_service s) = true.
Proof.
  intro W. unfold wf_service in W. split_and. unfold encode_service.
  rewrite forallb_app. cbn [forallb]. rewrite forallb_app. cbn [forallb].
  rewrite !no_sep_semi by assumption. reflexivity.
Qed.

Lemma service_list_decode_encode l :
  forallb wf_service l = true -> decode_service_list (map encode_service l) = Ok l.
Proof.
  induction l as [|s l IH]; cbn [forallb map decode_service_list]; intro W; [reflexivity|].
  apply andb_split in W as [Ws Wl].
  destruct (encode_service s) eqn:E; [now apply encode_service_nonempty in E|].
  rewrite <- E, (service_decode_encode s Ws), (IH Wl). reflexivity.
Qed.

Lemma encode_services_nil_inv l : encode_services l = [] -> l = [].
Proof.
  destruct l as [|s l]; [reflexivity|]. unfold encode_services. cbn [map join_with].
  destruct (map encode_service l); intro H.
  - now apply encode_service_nonempty in H.
  - destruct (encode_service s) eqn:E; [now apply encode_service_nonempty in E|discriminate].
Qed.

Lemma services_decode_encode l : wf_services l = true -> decode_services (encode_services l) = Ok l.
Proof.
  intro W. unfold wf_services in W. apply andb_split in W as [Wl Wu].
  unfold decode_services. destruct (Nlen (encode_services l) =? 0) eqn:E0.
  - apply N.eqb_eq, Nlen_0, encode_services_nil_inv in E0. now subst l.
  - rewrite Wu. cbn [negb].
    destruct l as [|s l]; [discriminate|].
    unfold encode_services. rewrite split_join.
    + now apply service_list_decode_encode.
    + discriminate.
    + intros p Hp. apply in_map_iff in Hp as (x & <- & Hx).
      apply encode_service_no_semi. eapply forallb_In; eauto.
Qed.

(* empty segments are skipped: not canonical *)
Lemma services_canonical_refuted :
  exists bs l, bytes_ok bs = true /\ decode_services bs = Ok l /\ encode_services l <> bs.
Proof.
  exists [59; 97; 124; 98; 124; 99]. eexists.
  split; [reflexivity|split; [vm_compute; reflexivity|vm_compute; discriminate]].
Qed.

(* ------------------------------------------------------------------ *)
(* HandshakeResponse                                                   *)
(* ------------------------------------------------------------------ *)

Notation hs_fields r :=
  [ encode_version (hr_core_version r); encode_version (hr_wallet_version r); hr_pk r; hr_sig r;
    hr_challenge r; be_enc 1 (if hr_is_lite r then 1 else 0); be_enc 4 (Nlen (hr_url r)); hr_url r;
    encode_services (hr_services r) ] (only parsing).

Notation hs_widths r :=
  [4; 4; 33; 64; 32; 1; 4; Nlen (hr_url r); Nlen (encode_services (hr_services r))] (only parsing).

Lemma hs_has_widths r : wf_hs_response r = true -> has_widths (hs_fields r) (hs_widths r).
Proof.
  intro W. unfold wf_hs_response in W. split_and.
  repeat constructor; rewrite ?be_enc_Nlen; try reflexivity; now apply arr_ok_len.
Qed.

Lemma hs_response_size r : wf_hs_response r = true ->
  Nlen (encode_hs_response r) = 142 + Nlen (hr_url r) + Nlen (encode_services (hr_services r)).
Proof.
  intro W. unfold encode_hs_response.
  rewrite (has_widths_total _ _ (hs_has_widths r W)) by reflexivity. cbn [sumN]. lia.
Qed.

Lemma hs_response_decode_encode r :
  wf_hs_response r = true -> decode_hs_response (encode_hs_response r) = Ok r.
Proof.
  intro W. pose proof (hs_has_widths r W) as HW. pose proof (hs_response_size r W) as HL.
  unfold wf_hs_response in W. split_and. unfold two32 in *.
  unfold decode_hs_response, HS_MIN_LEN. rewrite HL. unfold encode_hs_response in *.
  replace (142 + Nlen (hr_url r) + Nlen (encode_services (hr_services r)) <? 142) with false by lia.
  field 0%nat. rewrite version_decode_encode by assumption. rewrite bind_Ok. cbv beta.
  field 1%nat. rewrite version_decode_encode by assumption. rewrite bind_Ok. cbv beta.
  field 2%nat. field 3%nat. field 4%nat.
  field_ix 5%nat.
  field 6%nat. rewrite be_dec_enc by (rewrite pow256_4; lia).
  (* url *)
  assert (Hurl :
    (if 0 <? Nlen (hr_url r)
     then if 142 + Nlen (hr_url r) + Nlen (encode_services (hr_services r)) <? 142 + Nlen (hr_url r)
          then Err
          else do u <- sl 708 142 (142 + Nlen (hr_url r)) (concat (hs_fields r));
               if utf8_valid u then Ok u else Err
     else Ok []) = Ok (hr_url r)).
  { destruct (0 <? Nlen (hr_url r)) eqn:EU.
    - replace (142 + Nlen (hr_url r) + Nlen (encode_services (hr_services r)) <? 142 + Nlen (hr_url r))
        with false by lia.
      match goal with HW : has_widths ?fs ?ws |- context [sl ?site ?a ?b (concat ?fs)] =>
        rewrite (sl_fields_x fs ws 7%nat site a b (hr_url r) HW) by field_side end.
      rewrite bind_Ok. cbv beta.
      match goal with H : utf8_valid (hr_url r) = true |- _ => now rewrite H end.
    - f_equal. symmetry. apply Nlen_0. lia. }
  rewrite Hurl, bind_Ok. cbv beta. clear Hurl.
  (* services *)
  assert (Hsvc :
    (if 142 + Nlen (hr_url r) <? 142 + Nlen (hr_url r) + Nlen (encode_services (hr_services r))
     then do sb <- sl_from 709 (142 + Nlen (hr_url r)) (concat (hs_fields r)); decode_services sb
     else Ok []) = Ok (hr_services r)).
  { destruct (142 + Nlen (hr_url r) <? 142 + Nlen (hr_url r) + Nlen (encode_services (hr_services r))) eqn:ES.
    - match goal with HW : has_widths ?fs ?ws |- context [sl_from ?site ?a (concat ?fs)] =>
        rewrite (sl_from_fields fs ws 8%nat site a HW) by field_side end.
      rewrite bind_Ok. cbv beta. cbn [nth]. now apply services_decode_encode.
    - f_equal. symmetry. apply encode_services_nil_inv, Nlen_0. lia. }
  rewrite Hsvc, bind_Ok. cbv beta.
  destruct r as [pk sg lite url ch sv wv cv]. cbn [hr_is_lite]. destruct lite; reflexivity.
Qed.

(* ------------------------------------------------------------------ *)
(* Message                                                             *)
(* ------------------------------------------------------------------ *)

Lemma decode_message_cons k p :
  decode_message (k :: p) = decode_message_body k p.
Proof.
  unfold decode_message. rewrite Nlen_cons. replace (1 + Nlen p =? 0) with false by lia.
  change (k :: p) with ([k] ++ p).
  pose proof (slice_app_here [k] p) as S1. change (Nlen [k]) with 1 in S1.
  pose proof (slice_from_app [k] p) as S2. change (Nlen [k]) with 1 in S2.
  unfold sl. rewrite S1. cbn [bind].
  unfold sl_from. rewrite S2. cbn [bind].
  now rewrite be_dec_1.
Qed.

(* evaluate the closed tag tests of decode_message_body *)
Ltac tag_eval :=
  repeat match goal with
  | |- context [?a =? ?b] =>
      let v := eval vm_compute in (a =? b) in
      match v with
      | true => change (a =? b) with true
      | false => change (a =? b) with false
      end; cbv iota
  end.

Lemma keylist_decode_encode l :
  forallb (arr_ok 33) l = true ->
  (if negb (Nlen (concat l) mod 33 =? 0) then Err
   else do l' <- dec_chunks 508 33 (fun x => x) (N.to_nat (Nlen (concat l) / 33)) 0 (concat l);
        Ok (MKeyListUpdate l')) = Ok (MKeyListUpdate l).
Proof.
  intro W. rewrite (Nlen_concat_const l 33 W).
  rewrite N.mul_comm, N.mod_mul, N.div_mul by lia. cbn [negb].
  replace (0 =? 0) with true by reflexivity. cbn [negb].
  rewrite <- (map_id l) at 2.
  rewrite (dec_chunks_encode_k 508 33 (fun x => x) (fun x => x) l).
  - reflexivity.
  - unfold Nlen. lia.
  - intros x Hx. split; [|reflexivity]. apply arr_ok_len. eapply forallb_In; eauto.
Qed.

Lemma message_decode_encode m :
  wf_message m = true -> decode_message (encode_message m) = Ok (message_after_wire m).
Proof.
  intro W. destruct m; cbn [wf_message] in W; unfold encode_message, message_type_value, message_after_wire; cbv iota;
    match goal with |- context [be_enc 1 ?k] => change (be_enc 1 k) with [k] end;
    cbn [app]; rewrite decode_message_cons; unfold decode_message_body; tag_eval.
  - now rewrite hs_challenge_decode_encode.
  - now rewrite hs_response_decode_encode.
  - now rewrite block_decode_encode.
  - now rewrite tx_decode_encode.
  - now rewrite bc_request_decode_encode.
  - (* BlockHeaderHash *)
    split_and. unfold two64 in *.
    assert (HW : has_widths [h; be_enc 8 id] [32; 8])
      by (repeat constructor; rewrite ?be_enc_Nlen; try reflexivity; now apply arr_ok_len).
    rewrite (has_widths_total _ _ HW) by reflexivity. cbn [sumN].
    replace (32 + (8 + 0) =? 40) with true by reflexivity. cbn [negb].
    field 0%nat. field 1%nat. now rewrite be_dec_enc by (rewrite pow256_8; lia).
  - reflexivity.
  - reflexivity.
  - now rewrite services_decode_encode.
  - now rewrite ghost_checked_decode_encode.
  - (* GhostChainRequest *)
    split_and. unfold two64 in *.
    assert (HW : has_widths [be_enc 8 id; h; f] [8; 32; 32])
      by (repeat constructor; rewrite ?be_enc_Nlen; try reflexivity; now apply arr_ok_len).
    rewrite (has_widths_total _ _ HW) by reflexivity. cbn [sumN].
    replace (8 + (32 + (32 + 0)) =? 72) with true by reflexivity. cbn [negb].
    field 0%nat. field 1%nat. field 2%nat. now rewrite be_dec_enc by (rewrite pow256_8; lia).
  - now rewrite api_guarded_decode_encode.
  - now rewrite api_guarded_decode_encode.
  - now rewrite api_guarded_decode_encode.
  - now apply keylist_decode_encode.
Qed.

(* the first byte is the type value *)
Lemma message_first_byte m : exists p, encode_message m = message_type_value m :: p.
Proof.
  unfold encode_message. destruct m; cbn [message_type_value];
    match goal with |- context [be_enc 1 ?k] => change (be_enc 1 k) with [k] end; cbn [app]; eauto.
Qed.

(* ------------------------------------------------------------------ *)
(* what the transaction decoder returns is well formed, hence stable   *)
(* under re-encoding (forwarding a received transaction)               *)
(* ------------------------------------------------------------------ *)

Lemma Forall_forallb {A} (f : A -> bool) l : Forall (fun x => f x = true) l -> forallb f l = true.
Proof. induction 1; cbn [forallb]; [reflexivity|]. now rewrite H, IHForall. Qed.

Lemma tx_decoded_wf bs t : bytes_ok bs = true -> decode_tx bs = Ok t -> wf_tx t = true.
Proof.
  intros Hb H. unfold decode_tx in H.
  destruct (Nlen bs <? TRANSACTION_SIZE) eqn:EL; [discriminate|].
  inv_bind H. destruct (255 <? be_dec x) eqn:Ein; [discriminate|].
  inv_bind H. destruct (255 <? be_dec x0) eqn:Eout; [discriminate|].
  inv_bind H. inv_bind H. inv_bind H. inv_bind H. inv_bind H. inv_bind H.
  destruct (negb (x6 <? 9)) eqn:Ety; [discriminate|].
  cbv zeta in H. unfold TRANSACTION_SIZE, SLIP_SIZE, HOP_SIZE in *.
  match type of H with context [Nlen bs <? ?e] => destruct (Nlen bs <? e) eqn:Edecl; [discriminate|] end.
  inv_bind H. inv_bind H. inv_bind H. inv_bind H.
  match type of H with (if ?c then _ else _) = _ => destruct c eqn:Egt; [discriminate|] end.
  inversion H; subst t; clear H.
  rewrite sl_ok in *.
  assert (B0 : 93 <= Nlen bs) by lia.
  destruct (dec_items_ok_inv 309 59 decode_slip encode_slip slip_canonical bs Hb _ _ _ _ B0 E7)
    as (L7 & S7).
  pose proof S7 as S7'. apply slice_some in S7' as (_ & B7 & _).
  destruct (dec_items_ok_inv 310 59 decode_slip encode_slip slip_canonical bs Hb _ _ _ _ B7 E8)
    as (L8 & S8).
  pose proof E9 as S9'. apply slice_some in S9' as (_ & B9 & _).
  destruct (dec_items_ok_inv 312 130 decode_hop encode_hop (fun x v _ H => hop_canonical x v H) bs Hb _ _ _ _ B9 E10)
    as (L10 & S10).
  pose proof (dec_items_ok_wf 309 59 decode_slip (fun s => wf_slip s = true) slip_decoded_wf bs Hb _ _ _ _ E7) as W7.
  pose proof (dec_items_ok_wf 310 59 decode_slip (fun s => wf_slip s = true) slip_decoded_wf bs Hb _ _ _ _ E8) as W8.
  pose proof (dec_items_ok_wf 312 130 decode_hop (fun h => wf_hop h = true) hop_decoded_wf bs Hb _ _ _ _ E10) as W10.
  apply Forall_forallb in W7, W8, W10.
  pose proof (slice_Nlen _ _ _ _ E9) as L9.
  pose proof (be_dec_slice_lt 8 _ _ _ _ Hb E4 eq_refl) as Bts.
  pose proof (be_dec_slice_lt 4 _ _ _ _ Hb E5 eq_refl) as Brep.
  pose proof (be_dec_slice_lt 4 _ _ _ _ Hb E1 eq_refl) as Bml.
  pose proof (be_dec_slice_lt 4 _ _ _ _ Hb E2 eq_refl) as Bpl.
  pose proof (slice_Nlen _ _ _ _ E3) as L3.
  rewrite pow256_8, pow256_4 in *.
  unfold wf_tx, arr_ok, two64, two32. cbn [t_from t_to t_data t_path t_sig t_ts t_repl t_type].
  rewrite W7, W8, W10, (slice_ok _ _ _ _ Hb E9), (slice_ok _ _ _ _ Hb E3).
  repeat (apply andb_true_iff; split); try reflexivity; try lia.
Qed.

Lemma tx_wire_stable bs t :
  bytes_ok bs = true -> decode_tx bs = Ok t -> decode_tx (encode_tx t) = Ok t.
Proof. intros Hb H. apply tx_decode_encode. eapply tx_decoded_wf; eauto. Qed.
