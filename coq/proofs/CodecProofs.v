(* Round-trip, size and canonical-form lemmas for model/Codec.v (property C09).
   Totality lemmas (C10) are in CodecTotalProofs.v. *)
From Saito Require Import Base Bytes BytesProofs Codec.

Open Scope N_scope.

(* ------------------------------------------------------------------ *)
(* res / bind                                                          *)
(* ------------------------------------------------------------------ *)

Lemma bind_ok_inv {A B} (r : res A) (f : A -> res B) v :
  bind r f = Ok v -> exists x, r = Ok x /\ f x = Ok v.
Proof. destruct r; cbn [bind]; intro H; try discriminate. eauto. Qed.

Lemma bind_panic_inv {A B} (r : res A) (f : A -> res B) s :
  bind r f = Panic s -> r = Panic s \/ exists x, r = Ok x /\ f x = Panic s.
Proof. destruct r; cbn [bind]; intro H; try discriminate; [right; eauto|left; now inversion H]. Qed.

Lemma andb_split a b : a && b = true -> a = true /\ b = true.
Proof. apply andb_true_iff. Qed.

Ltac split_and :=
  repeat match goal with
  | H : _ && _ = true |- _ => apply andb_split in H; destruct H
  end.

Ltac inv_bind H :=
  let x := fresh "x" in let E := fresh "E" in
  apply bind_ok_inv in H; destruct H as (x & E & H).

(* ------------------------------------------------------------------ *)
(* fields of a [..].concat() with known widths                         *)
(* ------------------------------------------------------------------ *)

Fixpoint sumN (l : list N) : N := match l with [] => 0 | x :: r => x + sumN r end.

Inductive has_widths : list (list N) -> list N -> Prop :=
| hw_nil : forall fs, has_widths fs []
| hw_cons : forall f fs w ws, Nlen f = w -> has_widths fs ws -> has_widths (f :: fs) (w :: ws).

Lemma sumN_firstn_mono ws k : sumN (firstn k ws) <= sumN (firstn (S k) ws).
Proof.
  revert k. induction ws as [|w ws IH]; intro k.
  - destruct k; cbn [firstn sumN]; lia.
  - destruct k; cbn [firstn sumN].
    + lia.
    + specialize (IH k). cbn [firstn] in IH. lia.
Qed.

Lemma fields_view fs ws : has_widths fs ws -> forall k, (k < length ws)%nat ->
  concat fs = concat (firstn k fs) ++ nth k fs [] ++ concat (skipn (S k) fs)
  /\ Nlen (concat (firstn k fs)) = sumN (firstn k ws)
  /\ Nlen (nth k fs []) = nth k ws 0.
Proof.
  induction 1 as [fs|f fs w ws Hf Hw IH]; intros k Hk; cbn [length] in Hk; [lia|].
  destruct k as [|k].
  - cbn [firstn concat nth skipn app sumN]. repeat split; try assumption; try reflexivity.
  - destruct (IH k ltac:(lia)) as (E1 & E2 & E3).
    cbn [firstn concat nth skipn sumN]. repeat split.
    + rewrite E1 at 1. now rewrite <- app_assoc.
    + rewrite Nlen_app. lia.
    + assumption.
Qed.

Lemma sumN_firstn_S ws k : (k < length ws)%nat ->
  sumN (firstn (S k) ws) = sumN (firstn k ws) + nth k ws 0.
Proof.
  revert k. induction ws as [|w ws IH]; intros k Hk; cbn [length] in Hk; [lia|].
  destruct k; cbn [firstn sumN nth]; [lia|].
  specialize (IH k ltac:(lia)). cbn [firstn] in IH. lia.
Qed.

Lemma slice_fields fs ws k a b :
  has_widths fs ws -> (k < length ws)%nat ->
  a = sumN (firstn k ws) -> b = sumN (firstn (S k) ws) ->
  slice a b (concat fs) = Some (nth k fs []).
Proof.
  intros HW Hk -> ->. destruct (fields_view fs ws HW k Hk) as (E1 & E2 & E3).
  rewrite E1. apply slice_mid; [assumption|].
  rewrite sumN_firstn_S by assumption. lia.
Qed.

Lemma sl_fields fs ws k site a b :
  has_widths fs ws -> (k < length ws)%nat ->
  a = sumN (firstn k ws) -> b = sumN (firstn (S k) ws) ->
  sl site a b (concat fs) = Ok (nth k fs []).
Proof. intros. unfold sl. now rewrite (slice_fields fs ws k a b). Qed.

Lemma ix_fields fs ws k site a v :
  has_widths fs ws -> (k < length ws)%nat ->
  a = sumN (firstn k ws) -> a + 1 = sumN (firstn (S k) ws) ->
  nth k fs [] = [v] ->
  ix site a (concat fs) = Ok v.
Proof.
  intros HW Hk Ha Hb Hn. unfold ix.
  assert (E : index a (concat fs) = Some v).
  { apply index_some. rewrite <- Hn. now apply (slice_fields fs ws k). }
  now rewrite E.
Qed.

Lemma sl_from_fields fs ws k site a :
  has_widths fs ws -> length fs = S k -> length ws = S k ->
  a = sumN (firstn k ws) ->
  sl_from site a (concat fs) = Ok (nth k fs []).
Proof.
  intros HW Hf Hk ->. destruct (fields_view fs ws HW k ltac:(lia)) as (E1 & E2 & E3).
  unfold sl_from. rewrite E1. rewrite skipn_all2 by lia. cbn [concat]. rewrite app_nil_r.
  rewrite <- E2. now rewrite slice_from_app.
Qed.

Lemma has_widths_total fs ws :
  has_widths fs ws -> length fs = length ws -> Nlen (concat fs) = sumN ws.
Proof.
  induction 1 as [fs|f fs w ws Hf Hw IH]; cbn [length]; intro Hl.
  - destruct fs; [reflexivity|discriminate].
  - cbn [concat sumN]. rewrite Nlen_app. rewrite IH by lia. lia.
Qed.

Lemma bind_Ok {A B} (v : A) (f : A -> res B) : bind (Ok v) f = f v.
Proof. reflexivity. Qed.

Lemma sl_fields_x fs ws k site a b x :
  has_widths fs ws -> (k < length ws)%nat ->
  a = sumN (firstn k ws) -> b = sumN (firstn (S k) ws) -> nth k fs [] = x ->
  sl site a b (concat fs) = Ok x.
Proof. intros HW Hk Ha Hb <-. now apply (sl_fields fs ws k). Qed.

Ltac field_side := first [reflexivity | cbn [length firstn sumN nth]; lia].

(* rewrite the k-th field's slice; the bind is reduced by an explicit rewrite
   (a [cbn] on a long chain of binds makes the kernel's conversion check at Qed
   exponential in the length of the chain) *)
Ltac field k :=
  match goal with
  | HW : has_widths ?fs ?ws |- context [sl ?site ?a ?b (concat ?fs)] =>
      let x := eval cbv [nth] in (nth k fs []) in
      rewrite (sl_fields_x fs ws k site a b x HW) by field_side;
      rewrite bind_Ok; cbv beta
  end.

Ltac field_ix k :=
  match goal with
  | HW : has_widths ?fs ?ws |- context [ix ?site ?a (concat ?fs)] =>
      erewrite (ix_fields fs ws k site a _ HW) by (first [field_side | cbn [nth]; reflexivity]);
      rewrite bind_Ok; cbv beta
  end.

(* lengths *)
Lemma Nlen_repeat {A} (x : A) n : Nlen (repeat x n) = N.of_nat n.
Proof. unfold Nlen. now rewrite repeat_length. Qed.

Lemma Nlen_concat_map_const {A} (enc : A -> list N) c (l : list A) :
  (forall x, In x l -> Nlen (enc x) = c) -> Nlen (concat (map enc l)) = c * Nlen l.
Proof.
  induction l as [|x l IH]; intro H; cbn [map concat].
  - unfold Nlen. cbn [length]. lia.
  - rewrite Nlen_app, Nlen_cons, IH by (intros; apply H; now right).
    rewrite (H x) by now left. lia.
Qed.

Lemma Nlen_to_nat {A} (l : list A) n : Nlen l = n -> N.to_nat n = length l.
Proof. unfold Nlen. lia. Qed.

Lemma forallb_In {A} (f : A -> bool) l x : forallb f l = true -> In x l -> f x = true.
Proof. intros H. apply (proj1 (forallb_forall f l) H). Qed.

Lemma arr_ok_len n l : arr_ok n l = true -> Nlen l = n.
Proof. unfold arr_ok. intro H. apply andb_split in H as [H _]. lia. Qed.

Lemma arr_ok_bytes n l : arr_ok n l = true -> bytes_ok l = true.
Proof. unfold arr_ok. intro H. now apply andb_split in H as [_ H]. Qed.

Lemma beq_refl l : beq l l = true.
Proof.
  unfold beq, eqb_lN. induction l as [|x l IH]; cbn [eqb_list]; [reflexivity|].
  rewrite N.eqb_refl, IH. reflexivity.
Qed.

Lemma beq_eq a b : beq a b = true <-> a = b.
Proof.
  split; [|intros ->; apply beq_refl].
  unfold beq, eqb_lN. revert b. induction a as [|x a IH]; intros [|y b]; cbn [eqb_list]; intro H;
    try discriminate; [reflexivity|].
  apply andb_split in H as [H1 H2]. apply N.eqb_eq in H1. subst y. f_equal. auto.
Qed.

(* ------------------------------------------------------------------ *)
(* merging consecutive slices                                          *)
(* ------------------------------------------------------------------ *)

Ltac merge_slices :=
  repeat match goal with
  | H1 : slice ?a ?b ?l = Some ?x, H2 : slice ?b ?c ?l = Some ?y |- _ =>
      let H := fresh "HS" in
      pose proof (slice_cat a b c l x y H1 H2) as H; clear H1 H2
  end.

Lemma ix_ok_slice site i j l v : ix site i l = Ok v -> j = i + 1 -> slice i j l = Some [v].
Proof. intros H ->. apply index_some. now apply ix_ok in H. Qed.

Lemma ix_ok_lt site i l v : bytes_ok l = true -> ix site i l = Ok v -> v < 256.
Proof. intros Hl H. apply ix_ok in H. eapply index_ok; eauto. Qed.

(* the fixed-width integer read back from a slice re-encodes to the slice *)
Lemma be_enc_dec_slice n a b l x :
  bytes_ok l = true -> slice a b l = Some x -> N.of_nat n = b - a -> be_enc n (be_dec x) = x.
Proof.
  intros Hl H Hn. apply be_enc_dec_n.
  - apply slice_length in H. lia.
  - eapply slice_ok; eauto.
Qed.

Lemma be_dec_slice_lt n a b l x :
  bytes_ok l = true -> slice a b l = Some x -> N.of_nat n = b - a -> be_dec x < pow256 n.
Proof.
  intros Hl H Hn. replace n with (length x).
  - apply be_dec_lt. eapply slice_ok; eauto.
  - apply slice_length in H. lia.
Qed.

(* ------------------------------------------------------------------ *)
(* Slip                                                                *)
(* ------------------------------------------------------------------ *)

Notation slip_widths := [33; 8; 8; 8; 1; 1] (only parsing).

Lemma slip_has_widths s : wf_slip s = true ->
  has_widths [ s_pk s; be_enc 8 (s_amount s); be_enc 8 (s_block_id s); be_enc 8 (s_tx_ordinal s);
               be_enc 1 (s_index s); be_enc 1 (s_type s) ] slip_widths.
Proof.
  intro W. unfold wf_slip in W. split_and.
  repeat constructor; rewrite ?be_enc_Nlen; try reflexivity. now apply arr_ok_len.
Qed.

Lemma slip_size s : wf_slip s = true -> Nlen (encode_slip s) = SLIP_SIZE.
Proof.
  intro W. unfold encode_slip. rewrite (has_widths_total _ _ (slip_has_widths s W)) by reflexivity.
  reflexivity.
Qed.

Lemma slip_decode_encode s : wf_slip s = true -> decode_slip (encode_slip s) = Ok s.
Proof.
  intro W. pose proof (slip_has_widths s W) as HW. pose proof (slip_size s W) as HL.
  unfold decode_slip. rewrite HL. cbn [negb]. replace (SLIP_SIZE =? SLIP_SIZE) with true by reflexivity.
  cbn [negb]. unfold encode_slip. unfold wf_slip in W. split_and. unfold two64 in *.
  field 0%nat. field 1%nat. field 2%nat. field 3%nat.
  rewrite (be_enc_1 (s_index s)) in * by lia. rewrite (be_enc_1 (s_type s)) in * by lia.
  field_ix 4%nat. field_ix 5%nat.
  replace (s_type s <? 10) with true by lia.
  rewrite !be_dec_enc by (rewrite pow256_8; lia).
  destruct s; reflexivity.
Qed.

Lemma slip_decoded_wf bs s : bytes_ok bs = true -> decode_slip bs = Ok s -> wf_slip s = true.
Proof.
  intros Hb H. unfold decode_slip in H.
  destruct (negb (Nlen bs =? SLIP_SIZE)) eqn:EL; [discriminate|].
  inv_bind H. inv_bind H. inv_bind H. inv_bind H. inv_bind H. inv_bind H.
  destruct (x4 <? 10) eqn:Et; [|discriminate]. inversion H; subst s; clear H.
  rewrite sl_ok in *.
  unfold wf_slip, arr_ok, two64. cbn [s_pk s_amount s_block_id s_tx_ordinal s_index s_type].
  pose proof (slice_Nlen _ _ _ _ E) as L0. pose proof (slice_ok _ _ _ _ Hb E) as O0.
  pose proof (be_dec_slice_lt 8 _ _ _ _ Hb E0 eq_refl) as B1.
  pose proof (be_dec_slice_lt 8 _ _ _ _ Hb E1 eq_refl) as B2.
  pose proof (be_dec_slice_lt 8 _ _ _ _ Hb E2 eq_refl) as B3.
  pose proof (ix_ok_lt _ _ _ _ Hb E3) as B4.
  rewrite pow256_8 in *. rewrite O0.
  repeat (apply andb_true_iff; split); lia.
Qed.

Lemma slip_canonical bs s : bytes_ok bs = true -> decode_slip bs = Ok s -> encode_slip s = bs.
Proof.
  intros Hb H. unfold decode_slip in H.
  destruct (negb (Nlen bs =? SLIP_SIZE)) eqn:EL; [discriminate|].
  assert (HL : Nlen bs = 59) by (unfold SLIP_SIZE in EL; lia).
  inv_bind H. inv_bind H. inv_bind H. inv_bind H. inv_bind H. inv_bind H.
  destruct (x4 <? 10) eqn:Et; [|discriminate]. inversion H; subst s; clear H.
  pose proof (ix_ok_lt _ _ _ _ Hb E3) as B4. pose proof (ix_ok_lt _ _ _ _ Hb E4) as B5.
  apply (ix_ok_slice _ _ 58) in E3; [|reflexivity]. apply (ix_ok_slice _ _ 59) in E4; [|reflexivity].
  rewrite sl_ok in *.
  unfold encode_slip. cbn [s_pk s_amount s_block_id s_tx_ordinal s_index s_type concat].
  rewrite (be_enc_dec_slice 8 _ _ _ _ Hb E0 eq_refl), (be_enc_dec_slice 8 _ _ _ _ Hb E1 eq_refl),
          (be_enc_dec_slice 8 _ _ _ _ Hb E2 eq_refl), !be_enc_1 by assumption.
  merge_slices. rewrite app_nil_r.
  match goal with H : slice 0 59 bs = Some ?y |- _ =>
    apply slice_whole in H; [|now rewrite HL]; rewrite <- H end.
  now rewrite <- ?app_assoc.
Qed.

Lemma eqb_slip_refl s : eqb_slip s s = true.
Proof. unfold eqb_slip. now rewrite beq_refl, !N.eqb_refl. Qed.

(* ------------------------------------------------------------------ *)
(* Hop                                                                 *)
(* ------------------------------------------------------------------ *)

Notation hop_widths := [33; 33; 64] (only parsing).

Lemma hop_has_widths h : wf_hop h = true -> has_widths [h_from h; h_to h; h_sig h] hop_widths.
Proof.
  intro W. unfold wf_hop in W. split_and. repeat constructor; now apply arr_ok_len.
Qed.

Lemma hop_size h : wf_hop h = true -> Nlen (encode_hop h) = HOP_SIZE.
Proof.
  intro W. unfold encode_hop. rewrite (has_widths_total _ _ (hop_has_widths h W)) by reflexivity.
  reflexivity.
Qed.

Lemma hop_decode_encode h : wf_hop h = true -> decode_hop (encode_hop h) = Ok h.
Proof.
  intro W. pose proof (hop_has_widths h W) as HW. pose proof (hop_size h W) as HL.
  unfold decode_hop. rewrite HL. replace (HOP_SIZE =? HOP_SIZE) with true by reflexivity.
  cbn [negb]. unfold encode_hop.
  field 0%nat. field 1%nat. field 2%nat. destruct h; reflexivity.
Qed.

Lemma hop_decoded_wf bs h : bytes_ok bs = true -> decode_hop bs = Ok h -> wf_hop h = true.
Proof.
  intros Hb H. unfold decode_hop in H.
  destruct (negb (Nlen bs =? HOP_SIZE)) eqn:EL; [discriminate|].
  inv_bind H. inv_bind H. inv_bind H. inversion H; subst h; clear H.
  rewrite sl_ok in *. unfold wf_hop, arr_ok. cbn [h_from h_to h_sig].
  rewrite (slice_Nlen _ _ _ _ E), (slice_Nlen _ _ _ _ E0), (slice_Nlen _ _ _ _ E1).
  rewrite (slice_ok _ _ _ _ Hb E), (slice_ok _ _ _ _ Hb E0), (slice_ok _ _ _ _ Hb E1).
  reflexivity.
Qed.

Lemma hop_canonical bs h : decode_hop bs = Ok h -> encode_hop h = bs.
Proof.
  intros H. unfold decode_hop in H.
  destruct (negb (Nlen bs =? HOP_SIZE)) eqn:EL; [discriminate|].
  assert (HL : Nlen bs = 130) by (unfold HOP_SIZE in EL; lia).
  inv_bind H. inv_bind H. inv_bind H. inversion H; subst h; clear H.
  rewrite sl_ok in *. unfold encode_hop. cbn [h_from h_to h_sig concat].
  merge_slices. rewrite app_nil_r.
  match goal with H : slice 0 130 bs = Some ?y |- _ =>
    apply slice_whole in H; [|now rewrite HL]; rewrite <- H end.
  now rewrite <- ?app_assoc.
Qed.

(* ------------------------------------------------------------------ *)
(* counted lists of fixed-size items (dec_items)                       *)
(* ------------------------------------------------------------------ *)

Section ItemsFacts.
  Context {A : Type} (site size : N) (dec : list N -> res A) (enc : A -> list N) (wf : A -> bool).

  Lemma dec_items_encode :
    (forall x, wf x = true -> dec (enc x) = Ok x) ->
    (forall x, wf x = true -> Nlen (enc x) = size) ->
    forall items pre post fuel,
      forallb wf items = true -> (length items <= fuel)%nat ->
      dec_items site size dec fuel (Nlen items) (Nlen pre) (pre ++ concat (map enc items) ++ post)
      = Ok items.
  Proof.
    intros Hdec Hsz. induction items as [|x items IH]; intros pre post fuel W Hf.
    - destruct fuel; reflexivity.
    - cbn [forallb] in W. apply andb_split in W as [Wx Wi]. cbn [length] in Hf.
      destruct fuel as [|fuel]; [lia|].
      cbn [dec_items]. rewrite Nlen_cons.
      replace (1 + Nlen items =? 0) with false by lia.
      cbn [map concat]. rewrite <- app_assoc.
      unfold sl. rewrite (slice_mid pre (enc x) _ (Nlen pre) (Nlen pre + size)) by (try reflexivity; now rewrite Hsz).
      cbn [bind]. rewrite (Hdec x Wx). cbn [bind].
      replace (1 + Nlen items - 1) with (Nlen items) by lia.
      replace (Nlen pre + size) with (Nlen (pre ++ enc x)) by (rewrite Nlen_app, Hsz; auto).
      replace (pre ++ enc x ++ concat (map enc items) ++ post)
        with ((pre ++ enc x) ++ concat (map enc items) ++ post) by now rewrite <- app_assoc.
      rewrite IH by (assumption || lia). reflexivity.
  Qed.

End ItemsFacts.

Section ItemsFacts2.
  Context {A : Type} (site size : N) (dec : list N -> res A) (enc : A -> list N).

  (* what a successful run has read *)
  Lemma dec_items_ok_inv :
    (forall x v, bytes_ok x = true -> dec x = Ok v -> enc v = x) ->
    forall bs, bytes_ok bs = true ->
    forall fuel n off items,
      off <= Nlen bs ->
      dec_items site size dec fuel n off bs = Ok items ->
      Nlen items = n /\ slice off (off + n * size) bs = Some (concat (map enc items)).
  Proof.
    intros Hcan bs Hb. induction fuel as [|fuel IH]; intros n off items Hoff H; cbn [dec_items] in H.
    - destruct (n =? 0) eqn:En.
      + inversion H; subst. apply N.eqb_eq in En. subst n. split; [reflexivity|].
        cbn [map concat]. replace (off + 0 * size) with off by lia. now apply slice_empty.
      + inv_bind H. discriminate.
    - destruct (n =? 0) eqn:En.
      + inversion H; subst. apply N.eqb_eq in En. subst n. split; [reflexivity|].
        cbn [map concat]. replace (off + 0 * size) with off by lia. now apply slice_empty.
      + inv_bind H. inv_bind H. inv_bind H. inversion H; subst items; clear H.
        apply sl_ok in E. pose proof E as E'. apply slice_some in E' as (_ & Hle & _).
        destruct (IH _ _ _ Hle E1) as (L & S).
        split; [rewrite Nlen_cons; lia|].
        cbn [map concat]. rewrite (Hcan x x0 (slice_ok _ _ _ _ Hb E) E0).
        replace (off + n * size) with (off + size + (n - 1) * size).
        * eapply slice_cat; eauto.
        * replace n with (1 + (n - 1)) at 2 by lia. rewrite N.mul_add_distr_r. lia.
  Qed.

  Lemma dec_items_ok_wf (P : A -> Prop) :
    (forall x v, bytes_ok x = true -> dec x = Ok v -> P v) ->
    forall bs, bytes_ok bs = true ->
    forall fuel n off items,
      dec_items site size dec fuel n off bs = Ok items -> Forall P items.
  Proof.
    intros HP bs Hb. induction fuel as [|fuel IH]; intros n off items H; cbn [dec_items] in H.
    - destruct (n =? 0); [inversion H; constructor|]. inv_bind H. discriminate.
    - destruct (n =? 0); [inversion H; constructor|].
      inv_bind H. inv_bind H. inv_bind H. inversion H; subst items; clear H.
      apply sl_ok in E. constructor; [|eauto]. apply (HP x x0); [eapply slice_ok; eauto|assumption].
  Qed.
End ItemsFacts2.

Lemma dec_items_fields {A} site size (dec : list N -> res A) (enc : A -> list N) (wf : A -> bool)
      fs ws k (items : list A) fuel n off :
  (forall x, wf x = true -> dec (enc x) = Ok x) ->
  (forall x, wf x = true -> Nlen (enc x) = size) ->
  has_widths fs ws -> (k < length ws)%nat -> nth k fs [] = concat (map enc items) ->
  forallb wf items = true -> (length items <= fuel)%nat ->
  n = Nlen items -> off = sumN (firstn k ws) ->
  dec_items site size dec fuel n off (concat fs) = Ok items.
Proof.
  intros Hdec Hsz HW Hk Hn W Hf -> ->.
  destruct (fields_view fs ws HW k Hk) as (E1 & E2 & E3).
  rewrite E1, Hn, <- E2. now apply (dec_items_encode site size dec enc wf).
Qed.

(* ------------------------------------------------------------------ *)
(* Transaction                                                         *)
(* ------------------------------------------------------------------ *)

Notation tx_fields t :=
  [ be_enc 4 (Nlen (t_from t)); be_enc 4 (Nlen (t_to t)); be_enc 4 (Nlen (t_data t));
    be_enc 4 (Nlen (t_path t)); t_sig t; be_enc 8 (t_ts t); be_enc 4 (t_repl t); be_enc 1 (t_type t);
    concat (map encode_slip (t_from t)); concat (map encode_slip (t_to t)); t_data t;
    concat (map encode_hop (t_path t)) ] (only parsing).

Notation tx_widths t :=
  [ 4; 4; 4; 4; 64; 8; 4; 1; SLIP_SIZE * Nlen (t_from t); SLIP_SIZE * Nlen (t_to t); Nlen (t_data t);
    HOP_SIZE * Nlen (t_path t) ] (only parsing).

Lemma encode_tx_wf t : wf_tx t = true -> encode_tx t = concat (tx_fields t).
Proof.
  intro W. unfold wf_tx in W. split_and. unfold encode_tx.
  replace (255 <? Nlen (t_from t)) with false by lia.
  replace (255 <? Nlen (t_to t)) with false by lia. reflexivity.
Qed.

Lemma tx_has_widths t : wf_tx t = true -> has_widths (tx_fields t) (tx_widths t).
Proof.
  intro W. unfold wf_tx in W. split_and.
  repeat constructor; rewrite ?be_enc_Nlen; try reflexivity.
  - now apply arr_ok_len.
  - apply Nlen_concat_map_const. intros x Hx. apply slip_size. now apply (forallb_In wf_slip (t_from t)).
  - apply Nlen_concat_map_const. intros x Hx. apply slip_size. now apply (forallb_In wf_slip (t_to t)).
  - apply Nlen_concat_map_const. intros x Hx. apply hop_size. now apply (forallb_In wf_hop (t_path t)).
Qed.

Lemma tx_size t : wf_tx t = true -> Nlen (encode_tx t) = size_tx t.
Proof.
  intro W. rewrite (encode_tx_wf t W).
  rewrite (has_widths_total _ _ (tx_has_widths t W)) by reflexivity.
  unfold size_tx, TRANSACTION_SIZE. cbn [sumN]. lia.
Qed.

Ltac items_side HLn :=
  match goal with
  | |- forall _, _ = true -> _ = Ok _ => first [apply slip_decode_encode | apply hop_decode_encode]
  | |- forall _, _ = true -> Nlen _ = _ => first [apply slip_size | apply hop_size]
  | |- has_widths _ _ => assumption
  | |- (_ < _)%nat => cbn [length]; lia
  | |- (_ <= _)%nat =>
      rewrite <- HLn; unfold size_tx, Nlen, TRANSACTION_SIZE, SLIP_SIZE, HOP_SIZE in *; lia
  | |- nth _ _ _ = _ => reflexivity
  | |- forallb _ _ = true => assumption
  | |- _ = sumN _ => cbn [firstn sumN]; unfold TRANSACTION_SIZE, SLIP_SIZE, HOP_SIZE; lia
  | |- _ = Nlen _ => reflexivity
  end.

Lemma tx_decode_encode t : wf_tx t = true -> decode_tx (encode_tx t) = Ok t.
Proof.
  intro W. pose proof (tx_has_widths t W) as HW. pose proof (tx_size t W) as HL.
  rewrite (encode_tx_wf t W) in *.
  unfold wf_tx in W. split_and. unfold two64, two32 in *.
  assert (HLn : (N.to_nat (size_tx t) = length (concat (tx_fields t)))%nat) by (now apply Nlen_to_nat).
  unfold decode_tx. rewrite HL.
  replace (size_tx t <? TRANSACTION_SIZE) with false by (unfold size_tx, TRANSACTION_SIZE, SLIP_SIZE, HOP_SIZE; lia).
  field 0%nat. rewrite (be_dec_enc 4 (Nlen (t_from t))) by (rewrite pow256_4; lia).
  replace (255 <? Nlen (t_from t)) with false by lia.
  field 1%nat. rewrite (be_dec_enc 4 (Nlen (t_to t))) by (rewrite pow256_4; lia).
  replace (255 <? Nlen (t_to t)) with false by lia.
  field 2%nat. field 3%nat. field 4%nat. field 5%nat. field 6%nat.
  rewrite (be_enc_1 (t_type t)) in * by lia. field_ix 7%nat.
  replace (negb (t_type t <? 9)) with false by lia.
  rewrite (be_dec_enc 4 (Nlen (t_data t))) by (rewrite pow256_4; lia).
  rewrite (be_dec_enc 4 (Nlen (t_path t))) by (rewrite pow256_4; lia).
  cbv zeta.
  replace (size_tx t <? TRANSACTION_SIZE + (Nlen (t_from t) + Nlen (t_to t)) * SLIP_SIZE + Nlen (t_data t)
           + Nlen (t_path t) * HOP_SIZE) with false
    by (unfold size_tx, TRANSACTION_SIZE, SLIP_SIZE, HOP_SIZE; lia).
  match goal with HW : has_widths ?fs ?ws |- _ =>
    rewrite (dec_items_fields 309 SLIP_SIZE decode_slip encode_slip wf_slip fs ws 8%nat (t_from t)) by items_side HLn end.
  cbn [bind].
  match goal with HW : has_widths ?fs ?ws |- _ =>
    rewrite (dec_items_fields 310 SLIP_SIZE decode_slip encode_slip wf_slip fs ws 9%nat (t_to t)) by items_side HLn end.
  cbn [bind].
  match goal with |- context [sl 311 ?a ?b _] =>
    rewrite (sl_fields _ _ 10%nat 311 a b HW) by
      (first [cbn [length]; lia | cbn [firstn sumN]; unfold TRANSACTION_SIZE, SLIP_SIZE; lia]) end.
  cbn [nth bind].
  match goal with HW : has_widths ?fs ?ws |- _ =>
    rewrite (dec_items_fields 312 HOP_SIZE decode_hop encode_hop wf_hop fs ws 11%nat (t_path t)) by items_side HLn end.
  cbn [bind].
  match goal with H : negb (t_type t =? TT_GOLDEN_TICKET) || (Nlen (t_data t) =? 97) = true |- _ =>
    replace ((t_type t =? TT_GOLDEN_TICKET) && negb (Nlen (t_data t) =? 97)) with false
      by (destruct (t_type t =? TT_GOLDEN_TICKET), (Nlen (t_data t) =? 97); cbn in *; congruence) end.
  rewrite !be_dec_enc by (rewrite ?pow256_8, ?pow256_4; lia).
  destruct t; reflexivity.
Qed.

Lemma eqb_false_255 n : (255 <? n) = false -> n <= 255.
Proof. lia. Qed.

(* canonical form: the decoder reads exactly the encoding of what it returns,
   as a prefix of the buffer (trailing bytes are ignored by the decoder) *)
Lemma tx_canonical_prefix bs t :
  bytes_ok bs = true -> decode_tx bs = Ok t -> slice 0 (size_tx t) bs = Some (encode_tx t).
Proof.
  intros Hb H. unfold decode_tx in H.
  destruct (Nlen bs <? TRANSACTION_SIZE) eqn:EL; [discriminate|].
  inv_bind H. destruct (255 <? be_dec x) eqn:Ein; [discriminate|].
  inv_bind H. destruct (255 <? be_dec x0) eqn:Eout; [discriminate|].
  inv_bind H. inv_bind H. inv_bind H. inv_bind H. inv_bind H. inv_bind H.
  destruct (negb (x6 <? 9)) eqn:Ety; [discriminate|].
  cbv zeta in H. unfold TRANSACTION_SIZE, SLIP_SIZE, HOP_SIZE in *.
  match type of H with context [Nlen bs <? ?e] => destruct (Nlen bs <? e) eqn:Edecl; [discriminate|] end.
  inv_bind H. inv_bind H. inv_bind H. inv_bind H.
  match type of H with (if ?c then _ else _) = _ => destruct c eqn:Egt; [discriminate|] end.
  inversion H; subst t; clear H.
  pose proof (ix_ok_lt _ _ _ _ Hb E6) as Bty.
  apply (ix_ok_slice _ _ 93) in E6; [|reflexivity].
  rewrite sl_ok in *.
  assert (B0 : 93 <= Nlen bs) by lia.
  destruct (dec_items_ok_inv 309 59 decode_slip encode_slip slip_canonical bs Hb _ _ _ _ B0 E7)
    as (L7 & S7).
  pose proof S7 as S7'. apply slice_some in S7' as (_ & B7 & _).
  destruct (dec_items_ok_inv 310 59 decode_slip encode_slip slip_canonical bs Hb _ _ _ _ B7 E8)
    as (L8 & S8).
  pose proof E9 as S9'. apply slice_some in S9' as (_ & B9 & _).
  destruct (dec_items_ok_inv 312 130 decode_hop encode_hop (fun x v _ H => hop_canonical x v H) bs Hb _ _ _ _ B9 E10)
    as (L10 & S10).
  pose proof (slice_Nlen _ _ _ _ E9) as L9.
  clear E7 E8 E10.
  unfold encode_tx, size_tx, TRANSACTION_SIZE, SLIP_SIZE, HOP_SIZE.
  cbn [t_from t_to t_data t_path t_sig t_ts t_repl t_type].
  rewrite L7, L8, L10. rewrite Ein, Eout.
  replace (Nlen x9) with (be_dec x1) by lia.
  rewrite (be_enc_dec_slice 4 _ _ _ _ Hb E eq_refl), (be_enc_dec_slice 4 _ _ _ _ Hb E0 eq_refl),
          (be_enc_dec_slice 4 _ _ _ _ Hb E1 eq_refl), (be_enc_dec_slice 4 _ _ _ _ Hb E2 eq_refl),
          (be_enc_dec_slice 8 _ _ _ _ Hb E4 eq_refl), (be_enc_dec_slice 4 _ _ _ _ Hb E5 eq_refl),
          (be_enc_1 x6 Bty).
  merge_slices.
  match goal with HS : slice 0 ?e bs = Some ?y |- slice 0 ?e' bs = Some ?y' =>
    replace e' with e by lia; rewrite HS; f_equal end.
  cbn [concat]. rewrite app_nil_r, <- ?app_assoc. reflexivity.
Qed.

Lemma tx_canonical bs t :
  bytes_ok bs = true -> decode_tx bs = Ok t -> Nlen bs = size_tx t -> encode_tx t = bs.
Proof.
  intros Hb H HL. pose proof (tx_canonical_prefix bs t Hb H) as S.
  apply (slice_whole bs (size_tx t)); [exact S|now rewrite HL].
Qed.

(* the unconditional form fails: trailing bytes are accepted and dropped *)
Lemma tx_canonical_refuted :
  exists bs t, bytes_ok bs = true /\ decode_tx bs = Ok t /\ encode_tx t <> bs.
Proof.
  exists (repeat 0 93 ++ [7]). eexists. split; [reflexivity|]. split; [vm_compute; reflexivity|].
  vm_compute. discriminate.
Qed.

(* ------------------------------------------------------------------ *)
(* fields followed by a tail                                           *)
(* ------------------------------------------------------------------ *)

Lemma has_widths_app fs ws extra : has_widths fs ws -> has_widths (fs ++ extra) ws.
Proof. induction 1; cbn [app]; constructor; auto. Qed.

Lemma has_widths_length fs ws : has_widths fs ws -> (length ws <= length fs)%nat.
Proof. induction 1; cbn [length]; lia. Qed.

Lemma concat_snoc (fs : list (list N)) r : concat (fs ++ [r]) = concat fs ++ r.
Proof. rewrite concat_app. cbn [concat]. now rewrite app_nil_r. Qed.

Lemma slice_fields_tail fs ws rest k a b :
  has_widths fs ws -> (k < length ws)%nat ->
  a = sumN (firstn k ws) -> b = sumN (firstn (S k) ws) ->
  slice a b (concat fs ++ rest) = Some (nth k fs []).
Proof.
  intros HW Hk Ha Hb. rewrite <- concat_snoc.
  rewrite (slice_fields (fs ++ [rest]) ws k a b (has_widths_app _ _ _ HW) Hk Ha Hb).
  f_equal. apply app_nth1. pose proof (has_widths_length _ _ HW). lia.
Qed.

Lemma slice_shift pre m a b : a <= b -> slice (Nlen pre + a) (Nlen pre + b) (pre ++ m) = slice a b m.
Proof.
  intro H. rewrite slice_app_skip by lia. f_equal; lia.
Qed.

(* the 16-byte prefix and the whole of an encoded transaction inside a buffer *)
Lemma tx_in_buffer t pre rest : wf_tx t = true ->
  let bs := pre ++ encode_tx t ++ rest in
  let s := Nlen pre in
  slice s (s + 4) bs = Some (be_enc 4 (Nlen (t_from t)))
  /\ slice (s + 4) (s + 8) bs = Some (be_enc 4 (Nlen (t_to t)))
  /\ slice (s + 8) (s + 12) bs = Some (be_enc 4 (Nlen (t_data t)))
  /\ slice (s + 12) (s + 16) bs = Some (be_enc 4 (Nlen (t_path t)))
  /\ slice s (s + size_tx t) bs = Some (encode_tx t).
Proof.
  intros W bs s. subst bs s. pose proof (tx_has_widths t W) as HW. pose proof (tx_size t W) as HL.
  repeat split.
  - replace (Nlen pre) with (Nlen pre + 0) at 1 by lia. rewrite slice_shift by lia.
    rewrite (encode_tx_wf t W). now rewrite (slice_fields_tail _ _ rest 0%nat 0 4 HW) by field_side.
  - rewrite slice_shift by lia.
    rewrite (encode_tx_wf t W). now rewrite (slice_fields_tail _ _ rest 1%nat 4 8 HW) by field_side.
  - rewrite slice_shift by lia.
    rewrite (encode_tx_wf t W). now rewrite (slice_fields_tail _ _ rest 2%nat 8 12 HW) by field_side.
  - rewrite slice_shift by lia.
    rewrite (encode_tx_wf t W). now rewrite (slice_fields_tail _ _ rest 3%nat 12 16 HW) by field_side.
  - apply slice_mid; [reflexivity|]. now rewrite HL.
Qed.

(* ------------------------------------------------------------------ *)
(* Block                                                               *)
(* ------------------------------------------------------------------ *)

Notation block_fields tl b tb :=
  [ tl; be_enc 8 (b_id b); be_enc 8 (b_ts b); b_prev b; b_creator b; b_merkle b; b_sig b;
    be_enc 8 (b_graveyard b); be_enc 8 (b_treasury b); be_enc 8 (b_burnfee b); be_enc 8 (b_difficulty b);
    be_enc 8 (b_avg_total_fees b); be_enc 8 (b_avg_fee_per_byte b); be_enc 8 (b_avg_nolan_rebroadcast b);
    be_enc 8 (b_prev_unpaid b); be_enc 8 (b_avg_total_fees b); be_enc 8 (b_avg_total_fees_new b);
    be_enc 8 (b_avg_total_fees_atr b); be_enc 8 (b_avg_payout_routing b); be_enc 8 (b_avg_payout_mining b);
    be_enc 8 (b_avg_payout_treasury b); be_enc 8 (b_avg_payout_graveyard b); be_enc 8 (b_avg_payout_atr b);
    be_enc 8 (b_total_payout_routing b); be_enc 8 (b_total_payout_mining b);
    be_enc 8 (b_total_payout_treasury b); be_enc 8 (b_total_payout_graveyard b);
    be_enc 8 (b_total_payout_atr b); be_enc 8 (b_total_fees b); be_enc 8 (b_total_fees_new b);
    be_enc 8 (b_total_fees_atr b); be_enc 8 (b_fee_per_byte b); be_enc 8 (b_total_fees_cumulative b);
    tb ] (only parsing).

Notation block_widths L :=
  [ 4; 8; 8; 32; 33; 32; 64; 8; 8; 8; 8; 8; 8; 8; 8; 8; 8; 8; 8; 8; 8; 8; 8; 8; 8; 8; 8; 8; 8; 8; 8; 8; 8; L ]
  (only parsing).

Lemma block_has_widths tl b tb :
  Nlen tl = 4 -> arr_ok 32 (b_prev b) = true -> arr_ok 33 (b_creator b) = true ->
  arr_ok 32 (b_merkle b) = true -> arr_ok 64 (b_sig b) = true ->
  has_widths (block_fields tl b tb) (block_widths (Nlen tb)).
Proof.
  intros H1 H2 H3 H4 H5.
  repeat (constructor; [first [exact H1 | now apply arr_ok_len | apply be_enc_Nlen | reflexivity]|]).
  constructor.
Qed.

Lemma size_txs_concat txs : forallb wf_tx txs = true ->
  Nlen (concat (map encode_tx txs)) = fold_right (fun t a => size_tx t + a) 0 txs.
Proof.
  induction txs as [|t txs IH]; cbn [forallb map concat fold_right]; intro W; [reflexivity|].
  apply andb_split in W as [Wt Wr]. rewrite Nlen_app, (tx_size t Wt), IH by assumption. reflexivity.
Qed.

Lemma size_tx_ge t : TRANSACTION_SIZE <= size_tx t.
Proof. unfold size_tx. lia. Qed.

Lemma size_txs_ge txs : 93 * Nlen txs <= fold_right (fun t a => size_tx t + a) 0 txs.
Proof.
  induction txs as [|t txs IH]; cbn [fold_right].
  - unfold Nlen. cbn [length]. lia.
  - rewrite Nlen_cons. pose proof (size_tx_ge t). unfold TRANSACTION_SIZE in *. lia.
Qed.

Lemma dec_block_txs_encode : forall txs pre post fuel,
  forallb wf_tx txs = true -> (length txs <= fuel)%nat ->
  dec_block_txs fuel (Nlen txs) (Nlen pre) (pre ++ concat (map encode_tx txs) ++ post) = Ok txs.
Proof.
  induction txs as [|t txs IH]; intros pre post fuel W Hf.
  - destruct fuel; reflexivity.
  - cbn [forallb] in W. apply andb_split in W as [Wt Wr]. cbn [length] in Hf.
    destruct fuel as [|fuel]; [lia|].
    cbn [map concat]. rewrite <- app_assoc.
    destruct (tx_in_buffer t pre (concat (map encode_tx txs) ++ post) Wt) as (S1 & S2 & S3 & S4 & S5).
    cbv zeta in S1, S2, S3, S4, S5.
    set (bs := pre ++ encode_tx t ++ concat (map encode_tx txs) ++ post) in *.
    assert (HL : Nlen bs = Nlen pre + size_tx t + Nlen (concat (map encode_tx txs) ++ post)).
    { subst bs. rewrite !Nlen_app, (tx_size t Wt). lia. }
    pose proof (size_tx_ge t) as Hge. unfold TRANSACTION_SIZE in Hge.
    pose proof Wt as Wt'. unfold wf_tx in Wt'. split_and. unfold two32 in *.
    cbn [dec_block_txs]. rewrite Nlen_cons.
    replace (1 + Nlen txs =? 0) with false by lia.
    replace (Nlen bs <? Nlen pre + 16) with false by lia.
    unfold sl at 1 2 3 4. rewrite S1, S2, S3, S4. cbn [bind].
    rewrite !be_dec_enc by (rewrite pow256_4; lia).
    replace (two32 <=? Nlen (t_from t) + Nlen (t_to t)) with false by (unfold two32; lia).
    replace (Nlen pre + TRANSACTION_SIZE + (Nlen (t_from t) + Nlen (t_to t)) * SLIP_SIZE + Nlen (t_data t)
             + Nlen (t_path t) * HOP_SIZE) with (Nlen pre + size_tx t)
      by (unfold size_tx, TRANSACTION_SIZE, SLIP_SIZE, HOP_SIZE; lia).
    replace (Nlen bs <? Nlen pre + size_tx t) with false by lia.
    unfold sl. rewrite S5. cbn [bind]. rewrite (tx_decode_encode t Wt). cbn [bind].
    replace (1 + Nlen txs - 1) with (Nlen txs) by lia.
    replace (Nlen pre + size_tx t) with (Nlen (pre ++ encode_tx t)) by (rewrite Nlen_app, (tx_size t Wt); reflexivity).
    subst bs.
    replace (pre ++ encode_tx t ++ concat (map encode_tx txs) ++ post)
      with ((pre ++ encode_tx t) ++ concat (map encode_tx txs) ++ post) by now rewrite <- app_assoc.
    rewrite IH by (assumption || lia). reflexivity.
Qed.

Lemma dec_block_txs_zero fuel start bs : dec_block_txs fuel 0 start bs = Ok [].
Proof. destruct fuel; reflexivity. Qed.

Lemma encode_block_eq bt b :
  encode_block bt b =
  concat (block_fields (if bt =? BT_HEADER then be_enc 4 0 else be_enc 4 (Nlen (b_txs b))) b
                       (if negb (bt =? BT_HEADER) then concat (map encode_tx (b_txs b)) else [])).
Proof. reflexivity. Qed.

Ltac fields_from k n :=
  match n with
  | O => idtac
  | S ?n' => field k; fields_from (S k) n'
  end.

Lemma block_decode_fields tl b tb :
  Nlen tl = 4 -> wf_block b = true ->
  decode_block (concat (block_fields tl b tb)) =
  do txs <- dec_block_txs (length (concat (block_fields tl b tb))) (be_dec tl) BLOCK_HEADER_SIZE
              (concat (block_fields tl b tb));
  Ok (mkBlock (b_id b) (b_ts b) (b_prev b) (b_creator b) (b_merkle b) (b_sig b)
        (b_graveyard b) (b_treasury b) (b_burnfee b) (b_difficulty b)
        (b_avg_total_fees b) (b_avg_fee_per_byte b) (b_avg_nolan_rebroadcast b) (b_prev_unpaid b)
        (b_avg_total_fees_new b) (b_avg_total_fees_atr b)
        (b_avg_payout_routing b) (b_avg_payout_mining b) (b_avg_payout_treasury b)
        (b_avg_payout_graveyard b) (b_avg_payout_atr b)
        (b_total_payout_routing b) (b_total_payout_mining b) (b_total_payout_treasury b)
        (b_total_payout_graveyard b) (b_total_payout_atr b)
        (b_total_fees b) (b_total_fees_new b) (b_total_fees_atr b)
        (b_fee_per_byte b) (b_total_fees_cumulative b)
        txs
        (if (be_dec tl =? 0) && negb ((b_id b =? 1) && beq (b_prev b) zero_hash) then BT_HEADER else BT_FULL)).
Proof.
  intros Htl W. unfold wf_block in W. split_and.
  match goal with H : forallb _ (block_nums b) = true |- _ =>
    cbn [forallb block_nums] in H; rename H into Hn end.
  split_and. unfold two64 in *.
  pose proof (block_has_widths tl b tb Htl ltac:(assumption) ltac:(assumption) ltac:(assumption) ltac:(assumption)) as HW.
  assert (HL : Nlen (concat (block_fields tl b tb)) = 389 + Nlen tb).
  { rewrite (has_widths_total _ _ HW) by reflexivity. cbn [sumN]. lia. }
  unfold decode_block. rewrite HL.
  replace (389 + Nlen tb <? BLOCK_HEADER_SIZE) with false by (unfold BLOCK_HEADER_SIZE; lia).
  fields_from 0%nat 33%nat.
  rewrite !be_dec_enc by (rewrite pow256_8; lia).
  reflexivity.
Qed.

Lemma block_decode_encode bt b :
  wf_block b = true -> decode_block (encode_block bt b) = Ok (block_after_wire bt b).
Proof.
  intro W. rewrite encode_block_eq. pose proof W as W'. unfold wf_block in W'. split_and. unfold two32 in *.
  destruct (bt =? BT_HEADER) eqn:Ebt; cbn [negb].
  - rewrite block_decode_fields by (assumption || apply be_enc_Nlen).
    rewrite be_dec_enc by (rewrite pow256_4; lia). rewrite dec_block_txs_zero. cbn [bind].
    unfold block_after_wire. rewrite Ebt. reflexivity.
  - rewrite block_decode_fields by (assumption || apply be_enc_Nlen).
    rewrite be_dec_enc by (rewrite pow256_4; lia).
    set (tl := be_enc 4 (Nlen (b_txs b))). set (tb := concat (map encode_tx (b_txs b))).
    assert (HW : has_widths (block_fields tl b tb) (block_widths (Nlen tb))).
    { apply block_has_widths; try assumption. subst tl. apply be_enc_Nlen. }
    destruct (fields_view _ _ HW 33%nat ltac:(cbn [length]; lia)) as (E1 & E2 & _).
    cbn [nth skipn concat] in E1. cbn [firstn sumN] in E2.
    set (pre := concat (firstn 33 (block_fields tl b tb))) in *.
    assert (HL : Nlen (concat (block_fields tl b tb)) = 389 + Nlen tb).
    { rewrite (has_widths_total _ _ HW) by reflexivity. cbn [sumN]. lia. }
    assert (Hfuel : (length (b_txs b) <= length (concat (block_fields tl b tb)))%nat).
    { subst tb. rewrite (size_txs_concat (b_txs b)) in HL by assumption.
      pose proof (size_txs_ge (b_txs b)). unfold Nlen in *. lia. }
    rewrite E1 at 2. subst tb.
    replace BLOCK_HEADER_SIZE with (Nlen pre) by (rewrite E2; reflexivity).
    rewrite (dec_block_txs_encode (b_txs b) pre []) by assumption.
    cbn [bind]. unfold block_after_wire. rewrite Ebt. reflexivity.
Qed.

Lemma block_size bt b : wf_block b = true -> Nlen (encode_block bt b) = size_block bt b.
Proof.
  intro W. rewrite encode_block_eq. pose proof W as W'. unfold wf_block in W'. split_and.
  unfold size_block, BLOCK_HEADER_SIZE.
  destruct (bt =? BT_HEADER) eqn:Ebt; cbn [negb].
  - rewrite (has_widths_total _ _ (block_has_widths _ b [] (be_enc_Nlen 4 0) ltac:(assumption)
       ltac:(assumption) ltac:(assumption) ltac:(assumption))) by reflexivity.
    cbn [sumN]. change (Nlen (@nil N)) with 0. lia.
  - rewrite (has_widths_total _ _ (block_has_widths _ b _ (be_enc_Nlen 4 _) ltac:(assumption)
       ltac:(assumption) ltac:(assumption) ltac:(assumption))) by reflexivity.
    cbn [sumN]. rewrite size_txs_concat by assumption. lia.
Qed.

(* canonical re-encoding fails for blocks: avg_total_fees is written twice
   (offsets 213 and 245) and only the second copy is read; trailing bytes after
   the declared transactions are ignored *)
Lemma block_canonical_refuted :
  exists bs b, bytes_ok bs = true /\ decode_block bs = Ok b /\ encode_block BT_FULL b <> bs.
Proof.
  exists (repeat 0 220 ++ [1] ++ repeat 0 168). eexists.
  split; [reflexivity|]. split; [vm_compute; reflexivity|]. vm_compute. discriminate.
Qed.
