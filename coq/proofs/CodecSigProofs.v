(* UTXO-set key codec, the signed bytes of slips / transactions / block headers,
   and the lite-block header copy (property C09: identity is preserved). *)
From Saito Require Import Base Bytes BytesProofs Codec CodecProofs CodecMsgProofs.

Open Scope N_scope.

(* ------------------------------------------------------------------ *)
(* list tools                                                          *)
(* ------------------------------------------------------------------ *)

Lemma app_inj_len {A} (a a' b b' : list A) :
  length a = length a' -> a ++ b = a' ++ b' -> a = a' /\ b = b'.
Proof.
  revert a'. induction a as [|x a IH]; intros [|x' a'] Hl H; cbn [length] in Hl; try discriminate.
  - split; [reflexivity|assumption].
  - cbn [app] in H. inversion H; subst. destruct (IH a' ltac:(lia) H2) as [-> ->]. split; reflexivity.
Qed.

Lemma app_inj_Nlen (a a' b b' : list N) :
  Nlen a = Nlen a' -> a ++ b = a' ++ b' -> a = a' /\ b = b'.
Proof. intro H. apply app_inj_len. unfold Nlen in H. lia. Qed.

(* concatenations of equally many fixed-size items *)
Lemma concat_fixed_inj (size : N) (l1 l2 : list (list N)) :
  (forall x, In x l1 -> Nlen x = size) -> (forall x, In x l2 -> Nlen x = size) ->
  length l1 = length l2 -> concat l1 = concat l2 -> l1 = l2.
Proof.
  revert l2. induction l1 as [|x l1 IH]; intros [|y l2] H1 H2 Hl H; cbn [length] in Hl; try discriminate.
  - reflexivity.
  - cbn [concat] in H.
    assert (HL : Nlen x = Nlen y) by (rewrite (H1 x (or_introl eq_refl)), (H2 y (or_introl eq_refl)); reflexivity).
    destruct (app_inj_Nlen x y _ _ HL H) as [-> Hr].
    + f_equal. apply IH; try assumption; try lia.
      * intros z Hz. apply H1. now right.
      * intros z Hz. apply H2. now right.
Qed.

Lemma Nlen_eq_length {A B} (l1 : list A) (l2 : list B) : Nlen l1 = Nlen l2 -> length l1 = length l2.
Proof. unfold Nlen. lia. Qed.

(* ------------------------------------------------------------------ *)
(* UTXO-set key                                                        *)
(* ------------------------------------------------------------------ *)

Lemma utxokey_has_widths s : wf_slip s = true ->
  has_widths [ s_pk s; be_enc 8 (s_block_id s); be_enc 8 (s_tx_ordinal s); be_enc 1 (s_index s);
               be_enc 8 (s_amount s); be_enc 1 (s_type s) ] [33; 8; 8; 1; 8; 1].
Proof.
  intro W. unfold wf_slip in W. split_and.
  repeat constructor; rewrite ?be_enc_Nlen; try reflexivity. now apply arr_ok_len.
Qed.

Lemma utxokey_size s : wf_slip s = true -> Nlen (encode_utxokey s) = 59.
Proof.
  intro W. unfold encode_utxokey. now rewrite (has_widths_total _ _ (utxokey_has_widths s W)) by reflexivity.
Qed.

Lemma utxokey_decode_encode s : wf_slip s = true -> decode_utxokey (encode_utxokey s) = Ok s.
Proof.
  intro W. pose proof (utxokey_has_widths s W) as HW.
  unfold decode_utxokey, encode_utxokey. unfold wf_slip in W. split_and. unfold two64 in *.
  field 0%nat. field 1%nat. field 2%nat.
  rewrite (be_enc_1 (s_index s)) in * by lia. rewrite (be_enc_1 (s_type s)) in * by lia.
  field_ix 3%nat. field 4%nat. field_ix 5%nat.
  replace (s_type s <? 10) with true by lia.
  rewrite !be_dec_enc by (rewrite pow256_8; lia).
  destruct s; reflexivity.
Qed.

(* the key is a [u8;59]: on 59 bytes parse_slip_from_utxokey never panics *)
Lemma utxokey_total key site : Nlen key = 59 -> decode_utxokey key <> Panic site.
Proof.
  intro HL. unfold decode_utxokey.
  repeat match goal with
  | |- context [sl ?s ?a ?b key] =>
      let x := fresh "x" in let E := fresh "E" in
      destruct (sl_in_range s a b key) as [x E]; [lia|lia|]; rewrite E, bind_Ok; cbv beta
  | |- context [ix ?s ?i key] =>
      let x := fresh "x" in let E := fresh "E" in
      destruct (ix_in_range s i key) as [x E]; [lia|]; rewrite E, bind_Ok; cbv beta
  end.
  match goal with |- (if ?c then _ else _) <> _ => destruct c; discriminate end.
Qed.

Lemma utxokey_canonical key s :
  bytes_ok key = true -> Nlen key = 59 -> decode_utxokey key = Ok s -> encode_utxokey s = key.
Proof.
  intros Hb HL H. unfold decode_utxokey in H.
  inv_bind H. inv_bind H. inv_bind H. inv_bind H. inv_bind H. inv_bind H.
  destruct (x4 <? 10) eqn:Et; [|discriminate]. inversion H; subst s; clear H.
  pose proof (ix_ok_lt _ _ _ _ Hb E2) as B2. pose proof (ix_ok_lt _ _ _ _ Hb E4) as B4.
  apply (ix_ok_slice _ _ 50) in E2; [|reflexivity]. apply (ix_ok_slice _ _ 59) in E4; [|reflexivity].
  rewrite sl_ok in *.
  unfold encode_utxokey. cbn [s_pk s_amount s_block_id s_tx_ordinal s_index s_type concat].
  rewrite (be_enc_dec_slice 8 _ _ _ _ Hb E0 eq_refl), (be_enc_dec_slice 8 _ _ _ _ Hb E1 eq_refl),
          (be_enc_dec_slice 8 _ _ _ _ Hb E3 eq_refl), !be_enc_1 by assumption.
  merge_slices. rewrite app_nil_r.
  match goal with H : slice 0 59 key = Some ?y |- _ =>
    apply slice_whole in H; [|now rewrite HL]; rewrite <- H end.
  now rewrite <- ?app_assoc.
Qed.

(* two well-formed slips with the same key are the same slip: the key binds
   owner, location (block id, tx ordinal, index), amount and type *)
Lemma utxokey_injective s1 s2 :
  wf_slip s1 = true -> wf_slip s2 = true -> encode_utxokey s1 = encode_utxokey s2 -> s1 = s2.
Proof.
  intros W1 W2 H. pose proof (utxokey_decode_encode s1 W1) as D1.
  rewrite H, (utxokey_decode_encode s2 W2) in D1. now inversion D1.
Qed.

(* the wire encoding is a permutation of the same six fields *)
Lemma slip_wire_injective s1 s2 :
  wf_slip s1 = true -> wf_slip s2 = true -> encode_slip s1 = encode_slip s2 -> s1 = s2.
Proof.
  intros W1 W2 H. pose proof (slip_decode_encode s1 W1) as D1.
  rewrite H, (slip_decode_encode s2 W2) in D1. now inversion D1.
Qed.

(* ------------------------------------------------------------------ *)
(* signed bytes of a slip                                              *)
(* ------------------------------------------------------------------ *)

(* what the signature covers of a slip *)
Definition slip_signed_view (s : slip) : list N * N * N * N :=
  (s_pk s, s_amount s, s_index s, s_type s).

Lemma sig_slip_size s : wf_slip s = true -> Nlen (sig_bytes_slip s) = SIG_SLIP_SIZE.
Proof.
  intro W. unfold wf_slip in W. split_and. unfold sig_bytes_slip. cbn [concat].
  rewrite !Nlen_app, !be_enc_Nlen, (arr_ok_len 33 _ H). reflexivity.
Qed.

Lemma sig_slip_injective s1 s2 :
  wf_slip s1 = true -> wf_slip s2 = true ->
  sig_bytes_slip s1 = sig_bytes_slip s2 -> slip_signed_view s1 = slip_signed_view s2.
Proof.
  intros W1 W2 H. unfold wf_slip in W1, W2. split_and. unfold two64 in *.
  unfold sig_bytes_slip in H. cbn [concat] in H.
  apply app_inj_Nlen in H as [Hpk H]; [|now rewrite !(arr_ok_len 33) by assumption].
  apply app_inj_Nlen in H as [Ham H]; [|now rewrite !be_enc_Nlen].
  apply app_inj_Nlen in H as [Hidx H]; [|now rewrite !be_enc_Nlen].
  apply app_inj_Nlen in H as [Hty _]; [|now rewrite !be_enc_Nlen].
  apply be_enc_inj in Ham; [|rewrite pow256_8; lia|rewrite pow256_8; lia].
  apply be_enc_inj in Hidx; [|rewrite pow256_1; lia|rewrite pow256_1; lia].
  apply be_enc_inj in Hty; [|rewrite pow256_1; lia|rewrite pow256_1; lia].
  unfold slip_signed_view. congruence.
Qed.

(* NOT covered: which output is spent.  Two well-formed slips that differ only in
   block id and transaction ordinal have the same signed bytes (finding
   input-location-unsigned of C06 / replayed-signature-other-output of C01). *)
Lemma sig_slip_location_not_covered :
  exists s1 s2, wf_slip s1 = true /\ wf_slip s2 = true /\ s1 <> s2
    /\ s_block_id s1 <> s_block_id s2 /\ s_tx_ordinal s1 <> s_tx_ordinal s2
    /\ sig_bytes_slip s1 = sig_bytes_slip s2 /\ encode_utxokey s1 <> encode_utxokey s2.
Proof.
  exists (mkSlip (repeat 7 33) 500 10 3 1 0), (mkSlip (repeat 7 33) 500 11 4 1 0).
  repeat split; try reflexivity; try discriminate; vm_compute; discriminate.
Qed.

(* ------------------------------------------------------------------ *)
(* signed bytes of a transaction                                       *)
(* ------------------------------------------------------------------ *)

Lemma sig_slips_size l : forallb wf_slip l = true ->
  Nlen (concat (map sig_bytes_slip l)) = SIG_SLIP_SIZE * Nlen l.
Proof.
  intro W. apply Nlen_concat_map_const. intros x Hx. apply sig_slip_size. eapply forallb_In; eauto.
Qed.

Lemma sig_slips_injective l1 : forall l2,
  forallb wf_slip l1 = true -> forallb wf_slip l2 = true -> Nlen l1 = Nlen l2 ->
  concat (map sig_bytes_slip l1) = concat (map sig_bytes_slip l2) ->
  map slip_signed_view l1 = map slip_signed_view l2.
Proof.
  induction l1 as [|x l1 IH]; intros [|y l2] W1 W2 HL H.
  - reflexivity.
  - rewrite Nlen_cons in HL. unfold Nlen in HL. cbn [length] in HL. lia.
  - rewrite Nlen_cons in HL. unfold Nlen in HL. cbn [length] in HL. lia.
  - cbn [forallb] in W1, W2. apply andb_split in W1 as [Wx W1]. apply andb_split in W2 as [Wy W2].
    cbn [map concat] in *.
    apply app_inj_Nlen in H as [Hx Hr]; [|now rewrite !sig_slip_size].
    f_equal; [now apply sig_slip_injective|].
    apply IH; try assumption. rewrite !Nlen_cons in HL. lia.
Qed.

Lemma sig_tx_size t : wf_tx t = true ->
  Nlen (sig_bytes_tx t) = 16 + SIG_SLIP_SIZE * (Nlen (t_from t) + Nlen (t_to t)) + Nlen (t_data t).
Proof.
  intro W. unfold wf_tx in W. split_and. unfold sig_bytes_tx. cbn [concat].
  rewrite !Nlen_app, !be_enc_Nlen, !sig_slips_size by assumption. rewrite Nlen_nil. unfold SIG_SLIP_SIZE. lia.
Qed.

(* Given the numbers of inputs and outputs, the signed bytes determine the
   timestamp, the signed view of every input and output in order, the
   replacement count, the type and the payload. *)
Lemma sig_tx_injective t1 t2 :
  wf_tx t1 = true -> wf_tx t2 = true ->
  Nlen (t_from t1) = Nlen (t_from t2) -> Nlen (t_to t1) = Nlen (t_to t2) ->
  sig_bytes_tx t1 = sig_bytes_tx t2 ->
  t_ts t1 = t_ts t2
  /\ map slip_signed_view (t_from t1) = map slip_signed_view (t_from t2)
  /\ map slip_signed_view (t_to t1) = map slip_signed_view (t_to t2)
  /\ t_repl t1 = t_repl t2 /\ t_type t1 = t_type t2 /\ t_data t1 = t_data t2.
Proof.
  intros W1 W2 Hf Ht H. unfold wf_tx in W1, W2. split_and. unfold two64, two32 in *.
  unfold sig_bytes_tx in H. cbn [concat] in H.
  apply app_inj_Nlen in H as [Hts H]; [|now rewrite !be_enc_Nlen].
  apply app_inj_Nlen in H as [Hfrom H]; [|rewrite !sig_slips_size by assumption; now rewrite Hf].
  apply app_inj_Nlen in H as [Hto H]; [|rewrite !sig_slips_size by assumption; now rewrite Ht].
  apply app_inj_Nlen in H as [Hrepl H]; [|now rewrite !be_enc_Nlen].
  apply app_inj_Nlen in H as [Hty H]; [|now rewrite !be_enc_Nlen].
  rewrite !app_nil_r in H.
  apply be_enc_inj in Hts; [|rewrite pow256_8; lia|rewrite pow256_8; lia].
  apply be_enc_inj in Hrepl; [|rewrite pow256_4; lia|rewrite pow256_4; lia].
  apply be_enc_inj in Hty; [|rewrite pow256_4; lia|rewrite pow256_4; lia].
  repeat split; try assumption; now apply sig_slips_injective.
Qed.

(* What the signed bytes determine in general.  The timestamp always (first 8
   bytes).  Given only the TOTAL number of slips: the signed view of the
   concatenated slip sequence from ++ to, the replacement count, the type and the
   payload -- but not where the inputs end and the outputs begin. *)
Lemma sig_tx_ts_determined t1 t2 :
  wf_tx t1 = true -> wf_tx t2 = true -> sig_bytes_tx t1 = sig_bytes_tx t2 -> t_ts t1 = t_ts t2.
Proof.
  intros W1 W2 H. unfold wf_tx in W1, W2. split_and. unfold two64 in *.
  unfold sig_bytes_tx in H. cbn [concat] in H.
  apply app_inj_Nlen in H as [Hts _]; [|now rewrite !be_enc_Nlen].
  apply be_enc_inj in Hts; [assumption|rewrite pow256_8; lia|rewrite pow256_8; lia].
Qed.

Lemma sig_tx_injective_total t1 t2 :
  wf_tx t1 = true -> wf_tx t2 = true ->
  Nlen (t_from t1) + Nlen (t_to t1) = Nlen (t_from t2) + Nlen (t_to t2) ->
  sig_bytes_tx t1 = sig_bytes_tx t2 ->
  t_ts t1 = t_ts t2
  /\ map slip_signed_view (t_from t1 ++ t_to t1) = map slip_signed_view (t_from t2 ++ t_to t2)
  /\ t_repl t1 = t_repl t2 /\ t_type t1 = t_type t2 /\ t_data t1 = t_data t2.
Proof.
  intros W1 W2 Hn H. pose proof (sig_tx_ts_determined t1 t2 W1 W2 H) as Hts.
  unfold wf_tx in W1, W2. split_and. unfold two64, two32 in *.
  unfold sig_bytes_tx in H. cbn [concat] in H.
  apply app_inj_Nlen in H as [_ H]; [|now rewrite !be_enc_Nlen].
  rewrite !(app_assoc (concat (map sig_bytes_slip (t_from _)))) in H.
  rewrite <- !concat_app, <- !map_app in H.
  assert (W12 : forall t, forallb wf_slip (t_from t) = true -> forallb wf_slip (t_to t) = true ->
                          forallb wf_slip (t_from t ++ t_to t) = true)
    by (intros t A B; rewrite forallb_app, A, B; reflexivity).
  apply app_inj_Nlen in H as [Hsl H];
    [|rewrite !sig_slips_size by (apply W12; assumption); rewrite !Nlen_app; now rewrite Hn].
  apply app_inj_Nlen in H as [Hrepl H]; [|now rewrite !be_enc_Nlen].
  apply app_inj_Nlen in H as [Hty H]; [|now rewrite !be_enc_Nlen].
  rewrite !app_nil_r in H.
  apply be_enc_inj in Hrepl; [|rewrite pow256_4; lia|rewrite pow256_4; lia].
  apply be_enc_inj in Hty; [|rewrite pow256_4; lia|rewrite pow256_4; lia].
  repeat split; try assumption.
  apply sig_slips_injective; try (apply W12; assumption); [|assumption].
  rewrite !Nlen_app. assumption.
Qed.

(* ... and not even the total: 8 bytes of a slip can be read as (replacements, type)
   and the rest as payload.  Signed bytes with one input and an empty payload equal
   signed bytes with no slips and a 43-byte payload. *)
Lemma sig_tx_data_boundary_not_covered :
  exists t1 t2, wf_tx t1 = true /\ wf_tx t2 = true
    /\ sig_bytes_tx t1 = sig_bytes_tx t2
    /\ Nlen (t_from t1) + Nlen (t_to t1) <> Nlen (t_from t2) + Nlen (t_to t2)
    /\ t_data t1 <> t_data t2.
Proof.
  exists (mkTx 9 [mkSlip (repeat 0 33) 500 10 3 1 0] [] [] 0 1 (repeat 5 64) []),
         (mkTx 9 [] [] (repeat 0 25 ++ [0;0;0;0;0;0;1;244; 1; 0; 0;0;0;1; 0;0;0;0]) 0 0 (repeat 5 64) []).
  repeat split; try reflexivity; vm_compute; discriminate.
Qed.

(* NOT covered by the signed bytes of a transaction:
   (1) the location (block id, tx ordinal) of every input and output slip;
   (2) the routing path and the signature itself (by construction);
   (3) the boundary between inputs and outputs: no counts are written, so moving
       the last input to the front of the outputs keeps the signed bytes. *)
Lemma sig_tx_location_not_covered :
  exists t1 t2, wf_tx t1 = true /\ wf_tx t2 = true /\ encode_tx t1 <> encode_tx t2
    /\ sig_bytes_tx t1 = sig_bytes_tx t2
    /\ map s_block_id (t_from t1) <> map s_block_id (t_from t2).
Proof.
  exists (mkTx 9 [mkSlip (repeat 7 33) 500 10 3 1 0] [] [1;2] 0 1 (repeat 5 64) []),
         (mkTx 9 [mkSlip (repeat 7 33) 500 11 4 1 0] [] [1;2] 0 1 (repeat 5 64) []).
  repeat split; try reflexivity; vm_compute; discriminate.
Qed.

Lemma sig_tx_boundary_not_covered :
  exists t1 t2, wf_tx t1 = true /\ wf_tx t2 = true
    /\ sig_bytes_tx t1 = sig_bytes_tx t2
    /\ Nlen (t_from t1) <> Nlen (t_from t2) /\ Nlen (t_to t1) <> Nlen (t_to t2).
Proof.
  pose (a := mkSlip (repeat 7 33) 500 10 3 0 0). pose (b := mkSlip (repeat 8 33) 20 10 3 1 0).
  exists (mkTx 9 [a; b] [] [] 0 1 (repeat 5 64) []), (mkTx 9 [a] [b] [] 0 1 (repeat 5 64) []).
  repeat split; try reflexivity; vm_compute; discriminate.
Qed.

(* the re-split in the other direction: from=[a], to=[b;c] against from=[a;b'], to=[c]
   where b' has b's key / amount / index / type (its location is unsigned anyway):
   same signed bytes, hence same hash_for_signature and signature, different
   transaction (the fee grows by twice the amount of b) *)
Lemma sig_tx_resplit_refuted :
  exists t1 t2, wf_tx t1 = true /\ wf_tx t2 = true /\ sig_bytes_tx t1 = sig_bytes_tx t2
    /\ t_from t1 <> t_from t2 /\ t_to t1 <> t_to t2 /\ encode_tx t1 <> encode_tx t2
    /\ map slip_signed_view (t_from t1 ++ t_to t1) = map slip_signed_view (t_from t2 ++ t_to t2).
Proof.
  pose (a := mkSlip (repeat 7 33) 500 10 3 0 0). pose (b := mkSlip (repeat 8 33) 20 0 0 0 0).
  pose (b' := mkSlip (repeat 8 33) 20 77 5 0 0). pose (c := mkSlip (repeat 9 33) 400 0 0 1 0).
  exists (mkTx 9 [a] [b; c] [1] 0 1 (repeat 5 64) []), (mkTx 9 [a; b'] [c] [1] 0 1 (repeat 5 64) []).
  repeat split; try reflexivity; vm_compute; discriminate.
Qed.

(* the wire encoding binds everything (it is injective on well-formed transactions) *)
Lemma tx_wire_injective t1 t2 :
  wf_tx t1 = true -> wf_tx t2 = true -> encode_tx t1 = encode_tx t2 -> t1 = t2.
Proof.
  intros W1 W2 H. pose proof (tx_decode_encode t1 W1) as D1.
  rewrite H, (tx_decode_encode t2 W2) in D1. now inversion D1.
Qed.

(* identity across the wire: the decoded transaction has the signed bytes of the
   original, hence the same hash_for_signature and signature verdict *)
Lemma tx_signed_bytes_preserved t d :
  wf_tx t = true -> decode_tx (encode_tx t) = Ok d -> sig_bytes_tx d = sig_bytes_tx t.
Proof. intros W H. rewrite (tx_decode_encode t W) in H. now inversion H. Qed.

(* ------------------------------------------------------------------ *)
(* block header: signed bytes across the wire, lite blocks             *)
(* ------------------------------------------------------------------ *)

Lemma sig_block_after_wire bt b : sig_bytes_block (block_after_wire bt b) = sig_bytes_block b.
Proof. reflexivity. Qed.

(* every BlockType argument of serialize_for_net: the received block has the signed
   header bytes of the original (pre_hash = hash of them, hash = hash(prev ++ pre_hash)) *)
Lemma block_signed_bytes_preserved bt b d :
  wf_block b = true -> decode_block (encode_block bt b) = Ok d ->
  sig_bytes_block d = sig_bytes_block b /\ b_sig d = b_sig b /\ block_nums d = block_nums b.
Proof.
  intros W H. rewrite (block_decode_encode bt b W) in H. inversion H; subst d. repeat split; reflexivity.
Qed.

Lemma lite_block_nums b txs m : block_nums (lite_block_of b txs m) = block_nums b.
Proof. reflexivity. Qed.

Lemma lite_block_sig_bytes b txs : sig_bytes_block (lite_block_of b txs (b_merkle b)) = sig_bytes_block b.
Proof. reflexivity. Qed.

Lemma lite_block_wf b txs m :
  wf_block b = true -> forallb wf_tx txs = true -> Nlen txs <? two32 = true -> arr_ok 32 m = true ->
  wf_block (lite_block_of b txs m) = true.
Proof.
  intros W Wt Wn Wm. unfold wf_block in *. split_and.
  cbn [b_prev b_creator b_merkle b_sig b_txs b_type lite_block_of].
  change (block_nums (lite_block_of b txs m)) with (block_nums b).
  match goal with Hn : forallb _ (block_nums b) = true |- _ => rewrite Hn end.
  match goal with Hp : arr_ok 32 (b_prev b) = true |- _ => rewrite Hp end.
  match goal with Hc : arr_ok 33 (b_creator b) = true |- _ => rewrite Hc end.
  match goal with Hs : arr_ok 64 (b_sig b) = true |- _ => rewrite Hs end.
  rewrite Wm, Wn, Wt. reflexivity.
Qed.

(* a lite block (header copy of the full block, other transactions, merkle root m)
   sent as serialize_for_net(Full): the receiver's header figures and signature are
   the full block's, and if m is the full block's merkle root so are the signed bytes *)
Lemma lite_block_wire b txs m d :
  wf_block b = true -> forallb wf_tx txs = true -> Nlen txs <? two32 = true -> arr_ok 32 m = true ->
  decode_block (encode_block BT_FULL (lite_block_of b txs m)) = Ok d ->
  block_nums d = block_nums b /\ b_sig d = b_sig b /\ b_creator d = b_creator b /\ b_prev d = b_prev b
  /\ b_merkle d = m /\ (m = b_merkle b -> sig_bytes_block d = sig_bytes_block b).
Proof.
  intros W Wt Wn Wm H.
  rewrite (block_decode_encode BT_FULL _ (lite_block_wf b txs m W Wt Wn Wm)) in H.
  inversion H; subst d. repeat split; try reflexivity. intros ->. reflexivity.
Qed.
