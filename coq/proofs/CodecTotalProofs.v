(* Totality of the decoders of model/Codec.v (property C10): which decoders can
   never panic, and for those that can, exactly which inputs are outside the
   panic class. *)
From Saito Require Import Base Bytes BytesProofs Codec CodecProofs.

Open Scope N_scope.

Lemma bind_no_panic {A B} (r : res A) (f : A -> res B) s :
  r <> Panic s -> (forall x, r = Ok x -> f x <> Panic s) -> bind r f <> Panic s.
Proof. destruct r; cbn [bind]; intros H1 H2; [apply H2; reflexivity|discriminate|intro E; apply H1; now inversion E]. Qed.

Lemma bind_ok_no_panic {A B} (r : res A) (f : A -> res B) s :
  r <> Panic s -> (forall x, f x <> Panic s) -> bind r f <> Panic s.
Proof. intros H1 H2. apply bind_no_panic; auto. Qed.

Lemma mul_ge_l a c : 0 < c -> a <= a * c.
Proof. intro H. rewrite <- (N.mul_1_r a) at 1. apply N.mul_le_mono_l. lia. Qed.

Lemma mul_ge_r a c : 0 < a -> c <= a * c.
Proof. intro H. rewrite N.mul_comm. now apply mul_ge_l. Qed.

Lemma mul_pred_r n c : 0 < n -> n * c = c + (n - 1) * c.
Proof. intro H. replace n with (1 + (n - 1)) at 1 by lia. rewrite N.mul_add_distr_r. lia. Qed.

(* one in-range slice / index at the head of the goal *)
Ltac sl_step :=
  match goal with
  | |- context [sl ?s ?a ?b ?l] =>
      let x := fresh "x" in let E := fresh "E" in
      destruct (sl_in_range s a b l) as [x E]; [lia|lia|]; rewrite E; cbn [bind]
  | |- context [ix ?s ?i ?l] =>
      let x := fresh "x" in let E := fresh "E" in
      destruct (ix_in_range s i l) as [x E]; [lia|]; rewrite E; cbn [bind]
  end.

(* ------------------------------------------------------------------ *)
(* Slip, Hop: total                                                    *)
(* ------------------------------------------------------------------ *)

Lemma slip_total bs s : decode_slip bs <> Panic s.
Proof.
  unfold decode_slip, SLIP_SIZE. destruct (negb (Nlen bs =? 59)) eqn:EL; [discriminate|].
  do 6 sl_step. destruct (x4 <? 10); discriminate.
Qed.

Lemma hop_total bs s : decode_hop bs <> Panic s.
Proof.
  unfold decode_hop, HOP_SIZE. destruct (negb (Nlen bs =? 130)) eqn:EL; [discriminate|].
  do 3 sl_step. discriminate.
Qed.

(* ------------------------------------------------------------------ *)
(* dec_items                                                           *)
(* ------------------------------------------------------------------ *)

Section ItemsTotal.
  Context {A : Type} (site size : N) (dec : list N -> res A).

  (* enough bytes for all n items: no panic *)
  Lemma dec_items_no_panic :
    (forall x s, dec x <> Panic s) ->
    forall bs fuel n off s,
      off + n * size <= Nlen bs -> (N.to_nat n <= fuel)%nat ->
      dec_items site size dec fuel n off bs <> Panic s.
  Proof.
    intros Hdec bs. induction fuel as [|fuel IH]; intros n off s Hlen Hf; cbn [dec_items].
    - replace (n =? 0) with true by lia. discriminate.
    - destruct (n =? 0) eqn:En; [discriminate|].
      assert (Hn : 0 < n) by lia. rewrite (mul_pred_r n size Hn) in Hlen.
      destruct (sl_in_range site off (off + size) bs) as [x E]; [lia|lia|]. rewrite E. cbn [bind].
      apply bind_ok_no_panic; [apply Hdec|]. intro v.
      apply bind_ok_no_panic; [|discriminate]. apply IH; lia.
  Qed.

  (* the fuel [length bs] is never exhausted *)
  Lemma dec_items_fuel_ok :
    site <> 0 -> 0 < size -> (forall x, dec x <> Panic 0) ->
    forall bs fuel n off,
      Nlen bs < off + (N.of_nat fuel + 1) * size ->
      dec_items site size dec fuel n off bs <> Panic 0.
  Proof.
    intros Hsite Hsize Hdec bs. induction fuel as [|fuel IH]; intros n off Hlen; cbn [dec_items].
    - destruct (n =? 0); [discriminate|].
      unfold sl. destruct (slice off (off + size) bs) eqn:E; cbn [bind].
      + apply slice_some in E as (_ & E & _). lia.
      + intro H. inversion H. contradiction.
    - destruct (n =? 0); [discriminate|].
      unfold sl. destruct (slice off (off + size) bs) eqn:E; cbn [bind].
      + apply bind_ok_no_panic; [apply Hdec|]. intro v.
        apply bind_ok_no_panic; [|discriminate]. apply IH.
        replace (N.of_nat (S fuel) + 1) with (1 + (N.of_nat fuel + 1)) in Hlen by lia.
        rewrite N.mul_add_distr_r in Hlen. lia.
      + intro H. inversion H. contradiction.
  Qed.

  (* a panic of the loop is the slice site *)
  Lemma dec_items_panic_site :
    (forall x s, dec x <> Panic s) ->
    forall bs fuel n off s,
      dec_items site size dec fuel n off bs = Panic s -> s = site \/ s = 0.
  Proof.
    intros Hdec bs. induction fuel as [|fuel IH]; intros n off s H; cbn [dec_items] in H.
    - destruct (n =? 0); [discriminate|].
      unfold sl in H. destruct (slice off (off + size) bs); cbn [bind] in H; inversion H; auto.
    - destruct (n =? 0); [discriminate|].
      unfold sl in H. destruct (slice off (off + size) bs); cbn [bind] in H; [|inversion H; auto].
      apply bind_panic_inv in H as [H|(v & Hv & H)]; [now apply Hdec in H|].
      apply bind_panic_inv in H as [H|(r & Hr & H)]; [eauto|discriminate].
  Qed.
End ItemsTotal.

(* ------------------------------------------------------------------ *)
(* Transaction                                                         *)
(* ------------------------------------------------------------------ *)

(* the pinned decoder panics: a buffer cut right after the 93-byte header of a
   transaction that declares one input *)
Definition tx_panic_witness : list N := [0; 0; 0; 1] ++ repeat 0 89.

Lemma tx_total_refuted : exists bs site, decode_tx bs = Panic site.
Proof. exists tx_panic_witness, 309. vm_compute. reflexivity. Qed.

Lemma tx_panic_witness_known : known_c10_tx tx_panic_witness = true.
Proof. vm_compute. reflexivity. Qed.

(* outside the class "93-byte header present, buffer shorter than it declares"
   the decoder never panics *)
Lemma tx_total_guarded bs s : known_c10_tx bs = false -> decode_tx bs <> Panic s.
Proof.
  intro K. unfold decode_tx, TRANSACTION_SIZE, SLIP_SIZE, HOP_SIZE.
  destruct (Nlen bs <? 93) eqn:EL; [discriminate|].
  unfold known_c10_tx, tx_declared_size, TRANSACTION_SIZE, SLIP_SIZE, HOP_SIZE in K.
  replace (93 <=? Nlen bs) with true in K by lia. cbn [andb] in K.
  sl_step. destruct (255 <? be_dec x) eqn:Ein; [discriminate|].
  sl_step. destruct (255 <? be_dec x0) eqn:Eout; [discriminate|].
  do 6 sl_step. destruct (negb (x6 <? 9)); [discriminate|].
  apply sl_ok in E, E0, E1, E2. rewrite E, E0, E1, E2 in K.
  cbv zeta.
  assert (Hsz : 93 + (be_dec x + be_dec x0) * 59 + be_dec x1 + be_dec x2 * 130 <= Nlen bs) by lia.
  rewrite N.mul_add_distr_r in Hsz.
  assert (Hf : forall n c, 0 < c -> n * c <= Nlen bs -> (N.to_nat n <= length bs)%nat).
  { intros n c Hc Hn. pose proof (mul_ge_l n c Hc). unfold Nlen in *. lia. }
  apply bind_ok_no_panic;
    [apply dec_items_no_panic; [apply slip_total|lia|apply (Hf _ 59); lia]|intro inputs].
  apply bind_ok_no_panic;
    [apply dec_items_no_panic; [apply slip_total|lia|apply (Hf _ 59); lia]|intro outputs].
  destruct (sl_in_range 311 (93 + be_dec x * 59 + be_dec x0 * 59)
              (93 + be_dec x * 59 + be_dec x0 * 59 + be_dec x1) bs) as [m Em]; [lia|lia|].
  rewrite Em. cbn [bind].
  apply bind_ok_no_panic;
    [apply dec_items_no_panic; [apply hop_total|lia|apply (Hf _ 130); lia]|intro path].
  discriminate.
Qed.

(* equivalently: every panic of the transaction decoder is in the known class *)
Lemma tx_panic_is_known bs s : decode_tx bs = Panic s -> known_c10_tx bs = true.
Proof.
  intro H. destruct (known_c10_tx bs) eqn:K; [reflexivity|].
  exfalso. eapply tx_total_guarded; eauto.
Qed.

(* the loop fuel (site 0) is never the reason *)
Lemma tx_fuel_ok bs : decode_tx bs <> Panic 0.
Proof.
  unfold decode_tx, TRANSACTION_SIZE, SLIP_SIZE, HOP_SIZE.
  destruct (Nlen bs <? 93) eqn:EL; [discriminate|].
  sl_step. destruct (255 <? be_dec x) eqn:Ein; [discriminate|].
  sl_step. destruct (255 <? be_dec x0) eqn:Eout; [discriminate|].
  do 6 sl_step. destruct (negb (x6 <? 9)); [discriminate|].
  cbv zeta.
  assert (Hfuel : forall off c, 0 < off -> 0 < c -> Nlen bs < off + (N.of_nat (length bs) + 1) * c).
  { intros off c Ho Hc. pose proof (mul_ge_l (N.of_nat (length bs) + 1) c Hc). unfold Nlen. lia. }
  apply bind_ok_no_panic;
    [apply dec_items_fuel_ok; [discriminate|lia|intro; apply slip_total|apply Hfuel; lia]|intro inputs].
  apply bind_ok_no_panic;
    [apply dec_items_fuel_ok; [discriminate|lia|intro; apply slip_total|apply Hfuel; lia]|intro outputs].
  apply bind_ok_no_panic; [unfold sl; destruct (slice _ _ bs); discriminate|intro m].
  apply bind_ok_no_panic;
    [apply dec_items_fuel_ok; [discriminate|lia|intro; apply hop_total|apply Hfuel; lia]|intro path].
  discriminate.
Qed.
