(* Totality of the decoders of model/Codec.v (property C10): which decoders can
   never panic, and for those that can, exactly which inputs are outside the
   panic class. *)
From Saito Require Import Base Bytes BytesProofs Codec CodecProofs CodecMsgProofs.

Open Scope N_scope.

Lemma bind_no_panic {A B} (r : res A) (f : A -> res B) s :
  r <> Panic s -> (forall x, r = Ok x -> f x <> Panic s) -> bind r f <> Panic s.
Proof. destruct r; cbn [bind]; intros H1 H2; [apply H2; reflexivity|discriminate|intro E; apply H1; now inversion E]. Qed.

Lemma bind_ok_no_panic {A B} (r : res A) (f : A -> res B) s :
  r <> Panic s -> (forall x, f x <> Panic s) -> bind r f <> Panic s.
Proof. intros H1 H2. apply bind_no_panic; auto. Qed.

Lemma mul_ge_l a c : 0 < c -> a <= a * c.
Proof. intro H. rewrite <- (N.mul_1_r a) at 1. apply N.mul_le_mono_l. lia. Qed.

Lemma mul_ge_r a c : 0 < a -> c <= a * c.
Proof. intro H. rewrite N.mul_comm. now apply mul_ge_l. Qed.

Lemma mul_pred_r n c : 0 < n -> n * c = c + (n - 1) * c.
Proof. intro H. replace n with (1 + (n - 1)) at 1 by lia. rewrite N.mul_add_distr_r. lia. Qed.

(* one in-range slice / index at the head of the goal *)
Ltac sl_step :=
  match goal with
  | |- context [sl ?s ?a ?b ?l] =>
      let x := fresh "x" in let E := fresh "E" in
      destruct (sl_in_range s a b l) as [x E]; [lia|lia|]; rewrite E, bind_Ok; cbv beta
  | |- context [ix ?s ?i ?l] =>
      let x := fresh "x" in let E := fresh "E" in
      destruct (ix_in_range s i l) as [x E]; [lia|]; rewrite E, bind_Ok; cbv beta
  end.

(* ------------------------------------------------------------------ *)
(* Slip, Hop: total                                                    *)
(* ------------------------------------------------------------------ *)

Lemma slip_total bs s : decode_slip bs <> Panic s.
Proof.
  unfold decode_slip, SLIP_SIZE. destruct (negb (Nlen bs =? 59)) eqn:EL; [discriminate|].
  do 6 sl_step. destruct (x4 <? 10); discriminate.
Qed.

Lemma hop_total bs s : decode_hop bs <> Panic s.
Proof.
  unfold decode_hop, HOP_SIZE. destruct (negb (Nlen bs =? 130)) eqn:EL; [discriminate|].
  do 3 sl_step. discriminate.
Qed.

(* ------------------------------------------------------------------ *)
(* dec_items                                                           *)
(* ------------------------------------------------------------------ *)

Section ItemsTotal.
  Context {A : Type} (site size : N) (dec : list N -> res A).

  (* enough bytes for all n items: no panic *)
  Lemma dec_items_no_panic :
    (forall x s, dec x <> Panic s) ->
    forall bs fuel n off s,
      off + n * size <= Nlen bs -> (N.to_nat n <= fuel)%nat ->
      dec_items site size dec fuel n off bs <> Panic s.
  Proof.
    intros Hdec bs. induction fuel as [|fuel IH]; intros n off s Hlen Hf; cbn [dec_items].
    - replace (n =? 0) with true by lia. discriminate.
    - destruct (n =? 0) eqn:En; [discriminate|].
      assert (Hn : 0 < n) by lia. rewrite (mul_pred_r n size Hn) in Hlen.
      destruct (sl_in_range site off (off + size) bs) as [x E]; [lia|lia|]. rewrite E. cbn [bind].
      apply bind_ok_no_panic; [apply Hdec|]. intro v.
      apply bind_ok_no_panic; [|discriminate]. apply IH; lia.
  Qed.

  (* the fuel [length bs] is never exhausted *)
  Lemma dec_items_fuel_ok :
    site <> 0 -> 0 < size -> (forall x, dec x <> Panic 0) ->
    forall bs fuel n off,
      Nlen bs < off + (N.of_nat fuel + 1) * size ->
      dec_items site size dec fuel n off bs <> Panic 0.
  Proof.
    intros Hsite Hsize Hdec bs. induction fuel as [|fuel IH]; intros n off Hlen; cbn [dec_items].
    - destruct (n =? 0); [discriminate|].
      unfold sl. destruct (slice off (off + size) bs) eqn:E; cbn [bind].
      + apply slice_some in E as (_ & E & _). lia.
      + intro H. inversion H. contradiction.
    - destruct (n =? 0); [discriminate|].
      unfold sl. destruct (slice off (off + size) bs) eqn:E; cbn [bind].
      + apply bind_ok_no_panic; [apply Hdec|]. intro v.
        apply bind_ok_no_panic; [|discriminate]. apply IH.
        replace (N.of_nat (S fuel) + 1) with (1 + (N.of_nat fuel + 1)) in Hlen by lia.
        rewrite N.mul_add_distr_r in Hlen. lia.
      + intro H. inversion H. contradiction.
  Qed.

  (* a panic of the loop is the slice site *)
  Lemma dec_items_panic_site :
    (forall x s, dec x <> Panic s) ->
    forall bs fuel n off s,
      dec_items site size dec fuel n off bs = Panic s -> s = site \/ s = 0.
  Proof.
    intros Hdec bs. induction fuel as [|fuel IH]; intros n off s H; cbn [dec_items] in H.
    - destruct (n =? 0); [discriminate|].
      unfold sl in H. destruct (slice off (off + size) bs); cbn [bind] in H; inversion H; auto.
    - destruct (n =? 0); [discriminate|].
      unfold sl in H. destruct (slice off (off + size) bs); cbn [bind] in H; [|inversion H; auto].
      apply bind_panic_inv in H as [H|(v & Hv & H)]; [now apply Hdec in H|].
      apply bind_panic_inv in H as [H|(r & Hr & H)]; [eauto|discriminate].
  Qed.
End ItemsTotal.

(* ------------------------------------------------------------------ *)
(* Transaction                                                         *)
(* ------------------------------------------------------------------ *)

(* the input that panicked the decoder before fix 34b1724 (a buffer cut right
   after the 93-byte header of a transaction that declares one input) *)
Definition tx_panic_witness : list N := [0; 0; 0; 1] ++ repeat 0 89.

Lemma tx_former_witness_rejected : decode_tx tx_panic_witness = Err.
Proof. vm_compute. reflexivity. Qed.

(* since the declared-length guard (fix 34b1724) the decoder never panics *)
Lemma tx_total bs s : decode_tx bs <> Panic s.
Proof.
  unfold decode_tx, TRANSACTION_SIZE, SLIP_SIZE, HOP_SIZE.
  destruct (Nlen bs <? 93) eqn:EL; [discriminate|].
  sl_step. destruct (255 <? be_dec x) eqn:Ein; [discriminate|].
  sl_step. destruct (255 <? be_dec x0) eqn:Eout; [discriminate|].
  do 6 sl_step. destruct (negb (x6 <? 9)); [discriminate|].
  cbv zeta.
  match goal with |- context [Nlen bs <? ?e] => destruct (Nlen bs <? e) eqn:Edecl; [discriminate|] end.
  assert (Hsz : 93 + (be_dec x + be_dec x0) * 59 + be_dec x1 + be_dec x2 * 130 <= Nlen bs) by lia.
  rewrite N.mul_add_distr_r in Hsz.
  assert (Hf : forall n c, 0 < c -> n * c <= Nlen bs -> (N.to_nat n <= length bs)%nat).
  { intros n c Hc Hn. pose proof (mul_ge_l n c Hc). unfold Nlen in *. lia. }
  apply bind_ok_no_panic;
    [apply dec_items_no_panic; [apply slip_total|lia|apply (Hf _ 59); lia]|intro inputs].
  apply bind_ok_no_panic;
    [apply dec_items_no_panic; [apply slip_total|lia|apply (Hf _ 59); lia]|intro outputs].
  destruct (sl_in_range 311 (93 + be_dec x * 59 + be_dec x0 * 59)
              (93 + be_dec x * 59 + be_dec x0 * 59 + be_dec x1) bs) as [m Em]; [lia|lia|].
  rewrite Em. cbn [bind].
  apply bind_ok_no_panic;
    [apply dec_items_no_panic; [apply hop_total|lia|apply (Hf _ 130); lia]|intro path].
  match goal with |- (if ?c then _ else _) <> _ => destruct c; discriminate end.
Qed.

(* the payload of a decoded GoldenTicket-type transaction is 97 bytes, so the
   assert of GoldenTicket::deserialize_from_net holds at its call sites (fix eeb4ec7) *)
Lemma tx_golden_ticket_payload bs t :
  decode_tx bs = Ok t -> t_type t = TT_GOLDEN_TICKET -> Nlen (t_data t) = 97.
Proof.
  intros H Hty. unfold decode_tx in H.
  destruct (Nlen bs <? TRANSACTION_SIZE); [discriminate|].
  inv_bind H. destruct (255 <? be_dec x); [discriminate|].
  inv_bind H. destruct (255 <? be_dec x0); [discriminate|].
  inv_bind H. inv_bind H. inv_bind H. inv_bind H. inv_bind H. inv_bind H.
  destruct (negb (x6 <? 9)); [discriminate|]. cbv zeta in H.
  match type of H with context [Nlen bs <? ?e] => destruct (Nlen bs <? e); [discriminate|] end.
  inv_bind H. inv_bind H. inv_bind H. inv_bind H.
  match type of H with (if ?c then _ else _) = _ => destruct c eqn:Egt; [discriminate|] end.
  inversion H; subst t; clear H. cbn [t_type t_data] in *. subst x6.
  apply sl_ok, slice_Nlen in E9. rewrite N.eqb_refl in Egt. cbn [andb] in Egt. lia.
Qed.

(* ------------------------------------------------------------------ *)
(* slices of slices, slices of truncated buffers                       *)
(* ------------------------------------------------------------------ *)

Lemma slice_slice s e l x a b :
  slice s e l = Some x -> a <= b -> b <= e - s -> slice a b x = slice (s + a) (s + b) l.
Proof.
  intros H Hab Hb. apply slice_some in H as (H1 & H2 & ->).
  unfold slice. rewrite Nlen_firstn, Nlen_skipn.
  replace ((a <=? b) && (b <=? N.min (N.of_nat (N.to_nat (e - s))) (Nlen l - N.of_nat (N.to_nat s)))) with true by lia.
  replace ((s + a <=? s + b) && (s + b <=? Nlen l)) with true by lia.
  f_equal. rewrite skipn_firstn_comm, firstn_firstn, skipn_add.
  f_equal; [lia|]. f_equal. lia.
Qed.

Lemma sl_firstn_fits site a b k l :
  b <= N.of_nat k -> sl site a b (firstn k l) = sl site a b l.
Proof. intro H. unfold sl. now rewrite slice_firstn_fits. Qed.

(* ------------------------------------------------------------------ *)
(* Block: total                                                        *)
(* ------------------------------------------------------------------ *)

Lemma dec_block_txs_total bs : forall fuel n start s,
  Nlen bs < start + (N.of_nat fuel + 1) * 93 ->
  dec_block_txs fuel n start bs <> Panic s.
Proof.
  induction fuel as [|fuel IH]; intros n start s Hf.
  - cbn [dec_block_txs]. destruct (n =? 0); [discriminate|].
    destruct (Nlen bs <? start + 16) eqn:E16; [discriminate|].
    do 4 sl_step.
    destruct (two32 <=? be_dec x + be_dec x0); [discriminate|].
    match goal with |- context [Nlen bs <? ?e] => destruct (Nlen bs <? e) eqn:Eend; [discriminate|] end.
    unfold TRANSACTION_SIZE in *. exfalso. lia.
  - cbn [dec_block_txs]. destruct (n =? 0); [discriminate|].
    destruct (Nlen bs <? start + 16) eqn:E16; [discriminate|].
    do 4 sl_step.
    destruct (two32 <=? be_dec x + be_dec x0); [discriminate|].
    match goal with |- context [Nlen bs <? ?e] => destruct (Nlen bs <? e) eqn:Eend; [discriminate|] end.
    unfold TRANSACTION_SIZE, SLIP_SIZE, HOP_SIZE in *.
    sl_step.
    apply bind_ok_no_panic.
    + apply tx_total.
    + intro t. apply bind_ok_no_panic; [|discriminate]. apply IH.
      replace (N.of_nat (S fuel) + 1) with (1 + (N.of_nat fuel + 1)) in Hf by lia.
      rewrite N.mul_add_distr_r in Hf. lia.
Qed.

Lemma block_total bs s : decode_block bs <> Panic s.
Proof.
  unfold decode_block, BLOCK_HEADER_SIZE.
  destruct (Nlen bs <? 389) eqn:EL; [discriminate|].
  do 33 sl_step.
  apply bind_ok_no_panic; [|discriminate].
  apply dec_block_txs_total. unfold Nlen. lia.
Qed.

(* ------------------------------------------------------------------ *)
(* Version, services, handshake, blockchain request: total             *)
(* ------------------------------------------------------------------ *)

Lemma version_total bs s : decode_version bs <> Panic s.
Proof.
  unfold decode_version, get_or_err. destruct (Nlen bs <? 4); [discriminate|].
  destruct (index 0 bs); cbn [bind]; [|discriminate].
  destruct (index 1 bs); cbn [bind]; [|discriminate].
  destruct (index 2 bs); cbn [bind]; [|discriminate].
  destruct (index 3 bs); cbn [bind]; discriminate.
Qed.

Lemma service_total str s : decode_service str <> Panic s.
Proof.
  unfold decode_service. destruct (split_on CH_BAR str) as [|a [|b [|c [|d l]]]]; discriminate.
Qed.

Lemma service_list_total segs s : decode_service_list segs <> Panic s.
Proof.
  induction segs as [|x segs IH]; cbn [decode_service_list]; [discriminate|].
  destruct x; [assumption|].
  apply bind_ok_no_panic; [apply service_total|intro v].
  apply bind_ok_no_panic; [assumption|discriminate].
Qed.

Lemma services_total bs s : decode_services bs <> Panic s.
Proof.
  unfold decode_services. destruct (Nlen bs =? 0); [discriminate|].
  destruct (negb (utf8_valid bs)); [discriminate|]. apply service_list_total.
Qed.

Lemma hs_challenge_total bs s : decode_hs_challenge bs <> Panic s.
Proof.
  unfold decode_hs_challenge. destruct (Nlen bs <? 32) eqn:E; [discriminate|].
  destruct (sl_in_range 601 0 32 bs) as [x Ex]; [lia|lia|]. rewrite Ex. discriminate.
Qed.

Lemma hs_response_total bs s : decode_hs_response bs <> Panic s.
Proof.
  unfold decode_hs_response, HS_MIN_LEN. destruct (Nlen bs <? 142) eqn:EL; [discriminate|].
  sl_step. apply bind_ok_no_panic; [apply version_total|intro cv].
  sl_step. apply bind_ok_no_panic; [apply version_total|intro wv].
  do 5 sl_step.
  apply bind_ok_no_panic.
  - destruct (0 <? be_dec x5); [|discriminate].
    destruct (Nlen bs <? 142 + be_dec x5) eqn:EU; [discriminate|].
    destruct (sl_in_range 708 142 (142 + be_dec x5) bs) as [u Eu]; [lia|lia|].
    rewrite Eu. cbn [bind]. destruct (utf8_valid u); discriminate.
  - intro url. apply bind_ok_no_panic; [|discriminate].
    destruct (142 + be_dec x5 <? Nlen bs) eqn:ES; [|discriminate].
    unfold sl_from. destruct (slice_from (142 + be_dec x5) bs) eqn:Esf.
    + cbn [bind]. apply services_total.
    + apply slice_from_none in Esf. lia.
Qed.

Lemma bc_request_total bs s : decode_bc_request bs <> Panic s.
Proof.
  unfold decode_bc_request. destruct (negb (Nlen bs =? 72)) eqn:EL; [discriminate|].
  do 3 sl_step. discriminate.
Qed.

(* ------------------------------------------------------------------ *)
(* ApiMessage, GoldenTicket, Wallet: refuted, guarded                  *)
(* ------------------------------------------------------------------ *)

Lemma api_total bs s : decode_api bs <> Panic s.
Proof.
  unfold decode_api. destruct (Nlen bs <? 4) eqn:K; [discriminate|].
  sl_step. unfold sl_from. destruct (slice_from 4 bs) eqn:E4.
  - discriminate.
  - apply slice_from_none in E4. lia.
Qed.

Lemma api_guarded_total bs s : decode_api_guarded bs <> Panic s.
Proof.
  unfold decode_api_guarded. destruct (Nlen bs <? 4) eqn:E; [discriminate|]. apply api_total.
Qed.

(* GoldenTicket::deserialize_from_net keeps its assert (an internal invariant) *)
Lemma gt_precondition bs s : Nlen bs = 97 -> decode_gt bs <> Panic s.
Proof.
  unfold decode_gt. intro K. rewrite K. replace (97 =? 97) with true by reflexivity. cbn [negb].
  do 3 sl_step. discriminate.
Qed.

Lemma gt_panic_iff bs : (exists s, decode_gt bs = Panic s) <-> Nlen bs <> 97.
Proof.
  split.
  - intros (s & H) K. eapply gt_precondition; eauto.
  - intro K. exists 1301. unfold decode_gt. replace (Nlen bs =? 97) with false by lia. reflexivity.
Qed.

(* what the callers do (mempool, block validation): no panic for any wire bytes *)
Lemma tx_and_ticket_total bs s : decode_tx_and_ticket bs <> Panic s.
Proof.
  unfold decode_tx_and_ticket. apply bind_no_panic; [apply tx_total|]. intros t Ht.
  destruct (t_type t =? TT_GOLDEN_TICKET) eqn:Ety; [|discriminate].
  apply bind_ok_no_panic; [|discriminate].
  apply gt_precondition. eapply tx_golden_ticket_payload; eauto. lia.
Qed.

Lemma wallet_total_refuted : exists bs site, decode_wallet bs = Panic site.
Proof. exists (repeat 1 64), 1402. reflexivity. Qed.

Lemma wallet_total_guarded bs s : known_c10_wallet bs = false -> decode_wallet bs <> Panic s.
Proof.
  unfold known_c10_wallet, decode_wallet, WALLET_SIZE. intro K. do 2 sl_step. discriminate.
Qed.

Lemma wallet_panic_iff bs : (exists s, decode_wallet bs = Panic s) <-> known_c10_wallet bs = true.
Proof.
  split.
  - intros (s & H). destruct (known_c10_wallet bs) eqn:K; [reflexivity|].
    exfalso. eapply wallet_total_guarded; eauto.
  - intro K. unfold known_c10_wallet, WALLET_SIZE in K. unfold decode_wallet, sl.
    destruct (slice 0 32 bs) eqn:E1; cbn [bind]; [|eauto].
    destruct (slice 32 65 bs) eqn:E2; cbn [bind]; [|eauto].
    apply slice_some in E2 as (_ & E2 & _). lia.
Qed.

(* ------------------------------------------------------------------ *)
(* dec_chunks, GhostChainSync                                          *)
(* ------------------------------------------------------------------ *)

Lemma dec_chunks_no_panic {A} site size (f : list N -> A) buf : forall k i s,
  (i + N.of_nat k) * size <= Nlen buf -> dec_chunks site size f k i buf <> Panic s.
Proof.
  induction k as [|k IH]; intros i s H; cbn [dec_chunks]; [discriminate|].
  assert (H1 : (i + 1) * size <= (i + N.of_nat (S k)) * size) by (apply N.mul_le_mono_r; lia).
  assert (H0 : i * size <= (i + 1) * size) by (apply N.mul_le_mono_r; lia).
  destruct (sl_in_range site (i * size) ((i + 1) * size) buf) as [x E]; [lia|lia|].
  rewrite E. cbn [bind].
  apply bind_ok_no_panic; [|discriminate]. apply IH.
  replace (i + 1 + N.of_nat k) with (i + N.of_nat (S k)) by lia. assumption.
Qed.

(* the unchecked inner function still has its precondition (no caller but deserialize_checked) *)
Lemma ghost_inner_precondition_witness : exists site, decode_ghost [1; 2; 3] = Panic site.
Proof. exists 901. reflexivity. Qed.

Definition ghost_declared_size (bs : list N) : N :=
  match slice 32 36 bs with Some c => 36 + 82 * be_dec c | None => 36 end.
Definition known_c10_ghost (bs : list N) : bool := Nlen bs <? ghost_declared_size bs.

Lemma ghost_total_guarded bs s : known_c10_ghost bs = false -> decode_ghost bs <> Panic s.
Proof.
  unfold known_c10_ghost, ghost_declared_size. intro K.
  destruct (slice 32 36 bs) as [c|] eqn:Ec.
  2:{ apply slice_none in Ec. lia. }
  pose proof Ec as Ec'. apply slice_some in Ec' as (_ & L36 & _).
  unfold decode_ghost.
  sl_step. unfold sl at 1. rewrite Ec, bind_Ok. cbv beta.
  set (count := be_dec c) in *.
  destruct (sl_in_range 903 36 (Nlen bs) bs) as [buffer Eb]; [lia|lia|]. rewrite Eb, bind_Ok. cbv beta.
  assert (Lb : Nlen buffer = Nlen bs - 36) by (apply sl_ok, slice_Nlen in Eb; assumption).
  assert (Hk : N.of_nat (N.to_nat count) = count) by lia.
  destruct (sl_in_range 904 0 (count * 32) buffer) as [b1 E1]; [lia|lia|]. rewrite E1, bind_Ok. cbv beta.
  apply bind_ok_no_panic;
    [apply dec_chunks_no_panic; apply sl_ok, slice_Nlen in E1; rewrite Hk; lia|intro v1].
  destruct (sl_in_range 906 (count * 32) (count * 64) buffer) as [b2 E2]; [lia|lia|]. rewrite E2, bind_Ok. cbv beta.
  apply bind_ok_no_panic;
    [apply dec_chunks_no_panic; apply sl_ok, slice_Nlen in E2; rewrite Hk; lia|intro v2].
  destruct (sl_in_range 908 (count * 64) (count * 72) buffer) as [b3 E3]; [lia|lia|]. rewrite E3, bind_Ok. cbv beta.
  apply bind_ok_no_panic;
    [apply dec_chunks_no_panic; apply sl_ok, slice_Nlen in E3; rewrite Hk; lia|intro v3].
  destruct (sl_in_range 910 (count * 72) (count * 80) buffer) as [b4 E4]; [lia|lia|]. rewrite E4, bind_Ok. cbv beta.
  apply bind_ok_no_panic;
    [apply dec_chunks_no_panic; apply sl_ok, slice_Nlen in E4; rewrite Hk; lia|intro v4].
  destruct (sl_in_range 912 (count * 80) (count * 81) buffer) as [b5 E5]; [lia|lia|]. rewrite E5, bind_Ok. cbv beta.
  apply bind_ok_no_panic;
    [apply dec_chunks_no_panic; apply sl_ok, slice_Nlen in E5; rewrite Hk; lia|intro v5].
  destruct (sl_in_range 914 (count * 81) (count * 82) buffer) as [b6 E6]; [lia|lia|]. rewrite E6, bind_Ok. cbv beta.
  apply bind_ok_no_panic;
    [apply dec_chunks_no_panic; apply sl_ok, slice_Nlen in E6; rewrite Hk; lia|intro v6].
  discriminate.
Qed.

(* GhostChainSync::deserialize_checked (fix 8fc45ed): total *)
Lemma ghost_checked_total bs s : decode_ghost_checked bs <> Panic s.
Proof.
  unfold decode_ghost_checked. destruct (Nlen bs <? 36) eqn:E36; [discriminate|].
  destruct (sl_in_range 916 32 36 bs) as [c Ec]; [lia|lia|]. rewrite Ec, bind_Ok. cbv beta zeta.
  destruct (Nlen bs <? 36 + 82 * be_dec c) eqn:Ed; [discriminate|].
  apply ghost_total_guarded. unfold known_c10_ghost, ghost_declared_size.
  apply sl_ok in Ec. rewrite Ec. lia.
Qed.

Lemma ghost_former_witnesses_rejected :
  decode_ghost_checked [1; 2; 3] = Err
  /\ decode_ghost_checked (repeat 0 32 ++ [255; 255; 255; 255]) = Err.
Proof. split; vm_compute; reflexivity. Qed.

(* ------------------------------------------------------------------ *)
(* Message                                                             *)
(* ------------------------------------------------------------------ *)

Lemma message_former_witnesses_rejected :
  decode_message (4 :: tx_panic_witness) = Err /\ decode_message [10; 1; 2; 3] = Err.
Proof. split; vm_compute; reflexivity. Qed.

Lemma message_body_total k p s : decode_message_body k p <> Panic s.
Proof.
  unfold decode_message_body.
  destruct (k =? 1); [apply bind_ok_no_panic; [apply hs_challenge_total|discriminate]|].
  destruct (k =? 2); [apply bind_ok_no_panic; [apply hs_response_total|discriminate]|].
  destruct (k =? 3); [apply bind_ok_no_panic; [apply block_total|discriminate]|].
  destruct (k =? 4); [apply bind_ok_no_panic; [apply tx_total|discriminate]|].
  destruct (k =? 5); [apply bind_ok_no_panic; [apply bc_request_total|discriminate]|].
  destruct (k =? 6).
  { destruct (negb (Nlen p =? 40)) eqn:EL; [discriminate|]. do 2 sl_step. discriminate. }
  destruct (k =? 7); [discriminate|].
  destruct (k =? 8); [discriminate|].
  destruct (k =? 9); [apply bind_ok_no_panic; [apply services_total|discriminate]|].
  destruct (k =? 10); [apply bind_ok_no_panic; [apply ghost_checked_total|discriminate]|].
  destruct (k =? 11).
  { destruct (negb (Nlen p =? 72)) eqn:EL; [discriminate|]. do 3 sl_step. discriminate. }
  destruct (k =? 12); [apply bind_ok_no_panic; [apply api_guarded_total|discriminate]|].
  destruct (k =? 13); [apply bind_ok_no_panic; [apply api_guarded_total|discriminate]|].
  destruct (k =? 14); [apply bind_ok_no_panic; [apply api_guarded_total|discriminate]|].
  destruct (k =? 15); [|discriminate].
  destruct (negb (Nlen p mod 33 =? 0)) eqn:EM; [discriminate|].
  cbv zeta. apply bind_ok_no_panic; [|discriminate].
  apply dec_chunks_no_panic.
  pose proof (N.div_mod (Nlen p) 33 ltac:(lia)). lia.
Qed.

Lemma message_total bs s : decode_message bs <> Panic s.
Proof.
  destruct bs as [|k p]; [discriminate|].
  rewrite decode_message_cons. apply message_body_total.
Qed.

(* ------------------------------------------------------------------ *)
(* a strict prefix of a block encoding is rejected (used by C12)       *)
(* ------------------------------------------------------------------ *)

Lemma dec_block_txs_unfold fuel n start bs :
  dec_block_txs fuel n start bs =
  if n =? 0 then Ok [] else
  if Nlen bs <? start + 16 then Err else
  do b_in <- sl 440 start (start + 4) bs;
  do b_out <- sl 441 (start + 4) (start + 8) bs;
  do b_ml <- sl 442 (start + 8) (start + 12) bs;
  do b_pl <- sl 443 (start + 12) (start + 16) bs;
  let total_len := be_dec b_in + be_dec b_out in
  if two32 <=? total_len then Err else
  let end_of_tx := start + TRANSACTION_SIZE + total_len * SLIP_SIZE + be_dec b_ml + be_dec b_pl * HOP_SIZE in
  if Nlen bs <? end_of_tx then Err else
  do tb <- sl 444 start end_of_tx bs;
  match fuel with
  | O => Panic 0
  | S f =>
    do t <- decode_tx tb;
    do r <- dec_block_txs f (n - 1) end_of_tx bs;
    Ok (t :: r)
  end.
Proof. destruct fuel; reflexivity. Qed.

Lemma dec_block_txs_truncated : forall txs pre fuel j,
  forallb wf_tx txs = true ->
  j < Nlen (concat (map encode_tx txs)) ->
  j < (N.of_nat fuel + 1) * 93 ->
  dec_block_txs fuel (Nlen txs) (Nlen pre)
    (firstn (N.to_nat (Nlen pre + j)) (pre ++ concat (map encode_tx txs))) = Err.
Proof.
  induction txs as [|t txs IH]; intros pre fuel j W Hj Hf.
  - cbn [map concat] in Hj. rewrite Nlen_nil in Hj. lia.
  - cbn [forallb] in W. apply andb_split in W as [Wt Wr].
    cbn [map concat] in *. rewrite Nlen_app, (tx_size t Wt) in Hj.
    destruct (tx_in_buffer t pre (concat (map encode_tx txs)) Wt) as (S1 & S2 & S3 & S4 & S5).
    cbv zeta in S1, S2, S3, S4, S5.
    set (bs := pre ++ encode_tx t ++ concat (map encode_tx txs)) in *.
    assert (HL : Nlen bs = Nlen pre + size_tx t + Nlen (concat (map encode_tx txs))).
    { subst bs. rewrite !Nlen_app, (tx_size t Wt). lia. }
    set (K := N.to_nat (Nlen pre + j)).
    assert (HK : N.of_nat K = Nlen pre + j) by (subst K; lia).
    assert (HLt : Nlen (firstn K bs) = Nlen pre + j) by (rewrite Nlen_firstn; lia).
    pose proof (size_tx_ge t) as Hge. unfold TRANSACTION_SIZE in Hge.
    pose proof Wt as Wt'. unfold wf_tx in Wt'. split_and. unfold two32 in *.
    rewrite dec_block_txs_unfold. rewrite Nlen_cons.
    replace (1 + Nlen txs =? 0) with false by lia. rewrite HLt.
    destruct (Nlen pre + j <? Nlen pre + 16) eqn:E16; [reflexivity|].
    rewrite !sl_firstn_fits by lia.
    unfold sl at 1 2 3 4. rewrite S1, S2, S3, S4. cbn [bind].
    rewrite !be_dec_enc by (rewrite pow256_4; lia). cbv zeta.
    replace (two32 <=? Nlen (t_from t) + Nlen (t_to t)) with false by (unfold two32; lia).
    replace (Nlen pre + TRANSACTION_SIZE + (Nlen (t_from t) + Nlen (t_to t)) * SLIP_SIZE + Nlen (t_data t)
             + Nlen (t_path t) * HOP_SIZE) with (Nlen pre + size_tx t)
      by (unfold size_tx, TRANSACTION_SIZE, SLIP_SIZE, HOP_SIZE; lia).
    destruct (Nlen pre + j <? Nlen pre + size_tx t) eqn:Eend; [reflexivity|].
    rewrite sl_firstn_fits by lia.
    unfold sl. rewrite S5. cbn [bind].
    destruct fuel as [|fuel]; [lia|].
    rewrite (tx_decode_encode t Wt). cbn [bind].
    replace (1 + Nlen txs - 1) with (Nlen txs) by lia.
    replace (Nlen pre + size_tx t) with (Nlen (pre ++ encode_tx t)) by (rewrite Nlen_app, (tx_size t Wt); reflexivity).
    subst bs K.
    replace (pre ++ encode_tx t ++ concat (map encode_tx txs))
      with ((pre ++ encode_tx t) ++ concat (map encode_tx txs)) by now rewrite <- app_assoc.
    replace (Nlen pre + j) with (Nlen (pre ++ encode_tx t) + (j - size_tx t))
      by (rewrite Nlen_app, (tx_size t Wt); lia).
    rewrite IH; [reflexivity|assumption|lia|].
    replace (N.of_nat (S fuel) + 1) with (1 + (N.of_nat fuel + 1)) in Hf by lia.
    rewrite N.mul_add_distr_r in Hf. lia.
Qed.

Lemma block_decode_fields_trunc tl b tb k :
  Nlen tl = 4 -> wf_block b = true ->
  389 <= N.of_nat k -> (k <= length (concat (block_fields tl b tb)))%nat ->
  decode_block (firstn k (concat (block_fields tl b tb))) =
  do txs <- dec_block_txs (length (firstn k (concat (block_fields tl b tb)))) (be_dec tl) BLOCK_HEADER_SIZE
              (firstn k (concat (block_fields tl b tb)));
  Ok (mkBlock (b_id b) (b_ts b) (b_prev b) (b_creator b) (b_merkle b) (b_sig b)
        (b_graveyard b) (b_treasury b) (b_burnfee b) (b_difficulty b)
        (b_avg_total_fees b) (b_avg_fee_per_byte b) (b_avg_nolan_rebroadcast b) (b_prev_unpaid b)
        (b_avg_total_fees_new b) (b_avg_total_fees_atr b)
        (b_avg_payout_routing b) (b_avg_payout_mining b) (b_avg_payout_treasury b)
        (b_avg_payout_graveyard b) (b_avg_payout_atr b)
        (b_total_payout_routing b) (b_total_payout_mining b) (b_total_payout_treasury b)
        (b_total_payout_graveyard b) (b_total_payout_atr b)
        (b_total_fees b) (b_total_fees_new b) (b_total_fees_atr b)
        (b_fee_per_byte b) (b_total_fees_cumulative b)
        txs
        (if (be_dec tl =? 0) && negb ((b_id b =? 1) && beq (b_prev b) zero_hash) then BT_HEADER else BT_FULL)).
Proof.
  intros Htl W Hk1 Hk2. unfold wf_block in W. split_and.
  match goal with H : forallb _ (block_nums b) = true |- _ =>
    cbn [forallb block_nums] in H; rename H into Hn end.
  split_and. unfold two64 in *.
  pose proof (block_has_widths tl b tb Htl ltac:(assumption) ltac:(assumption) ltac:(assumption) ltac:(assumption)) as HW.
  unfold decode_block. rewrite Nlen_firstn.
  replace (N.min (N.of_nat k) (Nlen (concat (block_fields tl b tb))) <? BLOCK_HEADER_SIZE) with false
    by (unfold BLOCK_HEADER_SIZE, Nlen; lia).
  rewrite !sl_firstn_fits by lia.
  fields_from 0%nat 33%nat.
  rewrite !be_dec_enc by (rewrite pow256_8; lia).
  reflexivity.
Qed.

Lemma block_prefix_rejected bt b k :
  wf_block b = true -> (k < length (encode_block bt b))%nat ->
  decode_block (firstn k (encode_block bt b)) = Err.
Proof.
  intros W Hk. pose proof (block_size bt b W) as HS. unfold size_block, BLOCK_HEADER_SIZE in HS.
  destruct (N.of_nat k <? 389) eqn:E389.
  - unfold decode_block, BLOCK_HEADER_SIZE. rewrite Nlen_firstn.
    replace (N.min (N.of_nat k) (Nlen (encode_block bt b)) <? 389) with true by lia. reflexivity.
  - rewrite encode_block_eq in *. pose proof W as W'. unfold wf_block in W'. split_and. unfold two32 in *.
    destruct (bt =? BT_HEADER) eqn:Ebt; cbn [negb] in *.
    + exfalso. unfold Nlen in HS. lia.
    + rewrite block_decode_fields_trunc by (try assumption; try apply be_enc_Nlen; lia).
      rewrite be_dec_enc by (rewrite pow256_4; lia).
      set (tl := be_enc 4 (Nlen (b_txs b))) in *. set (tb := concat (map encode_tx (b_txs b))) in *.
      assert (HW : has_widths (block_fields tl b tb) (block_widths (Nlen tb))).
      { apply block_has_widths; try assumption. subst tl. apply be_enc_Nlen. }
      destruct (fields_view _ _ HW 33%nat ltac:(cbn [length]; lia)) as (E1 & E2 & _).
      cbn [nth skipn] in E1. change (concat (@nil (list N))) with (@nil N) in E1. rewrite app_nil_r in E1.
      set (pre := concat (firstn 33 (block_fields tl b tb))) in *.
      cbn [firstn sumN] in E2.
      assert (Hlen : length (firstn k (concat (block_fields tl b tb))) = k) by (rewrite firstn_length; lia).
      rewrite Hlen. rewrite E1.
      replace BLOCK_HEADER_SIZE with (Nlen pre) by (rewrite E2; reflexivity).
      assert (Hk' : k = N.to_nat (Nlen pre + (N.of_nat k - 389))) by lia.
      rewrite Hk' at 2.
      subst tb. rewrite dec_block_txs_truncated; [reflexivity|assumption| |].
      * rewrite size_txs_concat by assumption. unfold Nlen in *. lia.
      * pose proof (mul_ge_l (N.of_nat k + 1) 93 ltac:(lia)). lia.
Qed.

(* ------------------------------------------------------------------ *)
(* size of what a decoder builds vs. length of its input               *)
(* (no decoder reserves capacity from a wire count: every element      *)
(* pushed was sliced from the buffer at an advancing offset)           *)
(* ------------------------------------------------------------------ *)

Lemma tx_decoded_size bs t : bytes_ok bs = true -> decode_tx bs = Ok t -> size_tx t <= Nlen bs.
Proof.
  intros Hb H. pose proof (tx_canonical_prefix bs t Hb H) as S.
  apply slice_some in S as (_ & S & _). exact S.
Qed.

Lemma dec_block_txs_size bs : bytes_ok bs = true -> forall fuel n start txs,
  start <= Nlen bs ->
  dec_block_txs fuel n start bs = Ok txs ->
  Nlen txs = n /\ start + fold_right (fun t a => size_tx t + a) 0 txs <= Nlen bs.
Proof.
  intros Hb. induction fuel as [|fuel IH]; intros n start txs Hs H; rewrite dec_block_txs_unfold in H.
  - destruct (n =? 0) eqn:En; [inversion H; subst; cbn [fold_right]; split; [unfold Nlen; cbn [length]; lia|lia]|].
    destruct (Nlen bs <? start + 16); [discriminate|].
    inv_bind H. inv_bind H. inv_bind H. inv_bind H. cbv zeta in H.
    destruct (two32 <=? be_dec x + be_dec x0); [discriminate|].
    match type of H with context [Nlen bs <? ?e] => destruct (Nlen bs <? e); [discriminate|] end.
    inv_bind H. discriminate.
  - destruct (n =? 0) eqn:En; [inversion H; subst; cbn [fold_right]; split; [unfold Nlen; cbn [length]; lia|lia]|].
    destruct (Nlen bs <? start + 16); [discriminate|].
    inv_bind H. inv_bind H. inv_bind H. inv_bind H. cbv zeta in H.
    destruct (two32 <=? be_dec x + be_dec x0); [discriminate|].
    match type of H with context [Nlen bs <? ?e] => destruct (Nlen bs <? e) eqn:Eend; [discriminate|] end.
    inv_bind H. inv_bind H. inv_bind H. inversion H; subst txs; clear H.
    apply sl_ok in E3.
    pose proof (slice_Nlen _ _ _ _ E3) as L3.
    pose proof (tx_decoded_size _ _ (slice_ok _ _ _ _ Hb E3) E4) as Hsz.
    match type of E5 with dec_block_txs _ _ ?e _ = _ => assert (Hend : e <= Nlen bs) by lia end.
    destruct (IH _ _ _ Hend E5) as (Ln & Hsum).
    split; [rewrite Nlen_cons; lia|]. cbn [fold_right].
    unfold TRANSACTION_SIZE in *. lia.
Qed.

Lemma block_decoded_size bs b :
  bytes_ok bs = true -> decode_block bs = Ok b -> size_block BT_FULL b <= Nlen bs.
Proof.
  intros Hb H. unfold decode_block, BLOCK_HEADER_SIZE in H.
  destruct (Nlen bs <? 389) eqn:EL; [discriminate|].
  do 33 (apply bind_ok_inv in H; destruct H as (? & _ & H)).
  inv_bind H. inversion H; subst b; clear H.
  assert (H389 : 389 <= Nlen bs) by lia.
  destruct (dec_block_txs_size bs Hb _ _ _ _ H389 E) as (_ & Hsum).
  unfold size_block, BLOCK_HEADER_SIZE. cbn [b_txs]. replace (BT_FULL =? BT_HEADER) with false by reflexivity.
  exact Hsum.
Qed.

Lemma dec_chunks_len {A} site size (f : list N -> A) buf : forall k i l,
  dec_chunks site size f k i buf = Ok l -> length l = k.
Proof.
  induction k as [|k IH]; intros i l H; cbn [dec_chunks] in H.
  - now inversion H.
  - inv_bind H. inv_bind H. inversion H; subst l. cbn [length]. f_equal. eauto.
Qed.

(* every vector of a decoded ghost chain has count entries and 36 + 82*count <= len *)
Lemma ghost_decoded_size bs g : decode_ghost bs = Ok g ->
  36 + 82 * Nlen (g_prehashes g) <= Nlen bs
  /\ Nlen (g_prev_hashes g) = Nlen (g_prehashes g) /\ Nlen (g_block_ids g) = Nlen (g_prehashes g)
  /\ Nlen (g_block_ts g) = Nlen (g_prehashes g) /\ Nlen (g_txs g) = Nlen (g_prehashes g)
  /\ Nlen (g_gts g) = Nlen (g_prehashes g).
Proof.
  intro H. unfold decode_ghost in H.
  inv_bind H. inv_bind H. inv_bind H. inv_bind H. inv_bind H. inv_bind H. inv_bind H.
  inv_bind H. inv_bind H. inv_bind H. inv_bind H. inv_bind H. inv_bind H. inv_bind H. inv_bind H.
  inversion H; subst g; clear H. cbn [g_prehashes g_prev_hashes g_block_ids g_block_ts g_txs g_gts].
  repeat match goal with H : dec_chunks _ _ _ _ _ _ = Ok _ |- _ => apply dec_chunks_len in H end.
  match goal with H : sl 903 _ _ _ = Ok _ |- _ => apply sl_ok, slice_Nlen in H; rename H into L903 end.
  match goal with H : sl 914 _ _ _ = Ok _ |- _ => apply sl_ok, slice_some in H; destruct H as (_ & L914 & _) end.
  match goal with H : sl 902 _ _ _ = Ok _ |- _ => apply sl_ok, slice_some in H; destruct H as (_ & L902 & _) end.
  unfold Nlen in *. repeat split; lia.
Qed.

Lemma ghost_checked_ok_inner bs g : decode_ghost_checked bs = Ok g -> decode_ghost bs = Ok g.
Proof.
  unfold decode_ghost_checked. destruct (Nlen bs <? 36); [discriminate|].
  intro H. inv_bind H. cbv zeta in H.
  match type of H with (if ?c then _ else _) = _ => destruct c; [discriminate|] end. exact H.
Qed.

(* golden tickets inside a decoded block: every GoldenTicket-type transaction
   carries 97 bytes, so Block::validate / generate_consensus_values do not hit the assert *)
Lemma dec_block_txs_forall (P : tx -> Prop) bs :
  (forall tb t, decode_tx tb = Ok t -> P t) ->
  forall fuel n start txs, dec_block_txs fuel n start bs = Ok txs -> Forall P txs.
Proof.
  intro HP. induction fuel as [|fuel IH]; intros n start txs H; rewrite dec_block_txs_unfold in H.
  - destruct (n =? 0); [inversion H; constructor|].
    destruct (Nlen bs <? start + 16); [discriminate|].
    inv_bind H. inv_bind H. inv_bind H. inv_bind H. cbv zeta in H.
    destruct (two32 <=? be_dec x + be_dec x0); [discriminate|].
    match type of H with context [Nlen bs <? ?e] => destruct (Nlen bs <? e); [discriminate|] end.
    inv_bind H. discriminate.
  - destruct (n =? 0); [inversion H; constructor|].
    destruct (Nlen bs <? start + 16); [discriminate|].
    inv_bind H. inv_bind H. inv_bind H. inv_bind H. cbv zeta in H.
    destruct (two32 <=? be_dec x + be_dec x0); [discriminate|].
    match type of H with context [Nlen bs <? ?e] => destruct (Nlen bs <? e); [discriminate|] end.
    inv_bind H. inv_bind H. inv_bind H. inversion H; subst txs. constructor; eauto.
Qed.

Lemma block_golden_tickets_ok bs b t s :
  decode_block bs = Ok b -> In t (b_txs b) -> t_type t = TT_GOLDEN_TICKET ->
  decode_gt (t_data t) <> Panic s.
Proof.
  intros H Hin Hty. unfold decode_block in H.
  destruct (Nlen bs <? BLOCK_HEADER_SIZE); [discriminate|].
  do 33 (apply bind_ok_inv in H; destruct H as (? & _ & H)).
  inv_bind H. inversion H; subst b; clear H. cbn [b_txs] in Hin.
  pose proof (dec_block_txs_forall
    (fun t => t_type t = TT_GOLDEN_TICKET -> Nlen (t_data t) = 97) bs
    (fun tb t H => tx_golden_ticket_payload tb t H) _ _ _ _ E) as HF.
  rewrite Forall_forall in HF. apply gt_precondition. now apply HF.
Qed.
