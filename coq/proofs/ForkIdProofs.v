(* Proofs about the fork-id model (model/ForkId.v).  Every statement is for an
   arbitrary weight table and an arbitrary window function. *)
From Saito Require Import Base ForkId.

(* ---------------------------------------------------------------- lists *)

Lemma nth_zeros : forall {A} (l : list A) k, nth k (zeros l) 0 = 0.
Proof.
  unfold zeros. induction l as [|x l IH]; intros [|k]; cbn [map nth]; auto.
Qed.

Lemma nth_nones : forall {A} (l : list A) k,
  nth k (map (fun _ => @None N) l) None = None.
Proof.
  induction l as [|x l IH]; intros [|k]; cbn [map nth]; auto.
Qed.

Lemma lc_at_In : forall c id h, lc_at c id = Some h -> In (id, h) c.
Proof.
  induction c as [|[i x] t IH]; intros id h H; cbn [lc_at] in H; [discriminate|].
  destruct (i =? id) eqn:E.
  - apply N.eqb_eq in E. subst. inversion H. subst. left. reflexivity.
  - right. auto.
Qed.

(* ---------------------------------------------------------------- fork point *)

Section Fold.
  Variable P : N * N -> bool.
  Let f := fun (acc : N) (ih : N * N) => if P ih then N.max acc (fst ih) else acc.

  Lemma fold_max_ge_acc : forall l acc, acc <= fold_left f l acc.
  Proof.
    induction l as [|x l IH]; intros acc; cbn [fold_left]; [lia|].
    specialize (IH (f acc x)). unfold f in *. destruct (P x); lia.
  Qed.

  Lemma fold_max_ge_in : forall l acc x, In x l -> P x = true -> fst x <= fold_left f l acc.
  Proof.
    induction l as [|y l IH]; intros acc x Hin HP; [destruct Hin|].
    cbn [fold_left]. destruct Hin as [->|Hin].
    - assert (fst x <= f acc x) as G1 by (unfold f; rewrite HP; lia).
      pose proof (fold_max_ge_acc l (f acc x)) as G2. lia.
    - eapply IH; eauto.
  Qed.

  Lemma fold_max_source : forall l acc,
    fold_left f l acc = acc \/ exists x, In x l /\ P x = true /\ fold_left f l acc = fst x.
  Proof.
    induction l as [|y l IH]; intros acc; cbn [fold_left]; [left; reflexivity|].
    destruct (IH (f acc y)) as [E|[x [Hin [HP E]]]].
    - rewrite E. unfold f. destruct (P y) eqn:HP; [|left; reflexivity].
      destruct (N.max_spec acc (fst y)) as [[_ M]|[_ M]]; rewrite M.
      + right. exists y. split; [left; reflexivity|]. split; auto.
      + left. reflexivity.
    - right. exists x. split; [right; exact Hin|]. split; auto.
  Qed.
End Fold.

Lemma opt_eqb_true : forall a h, opt_eqb a (Some h) = true <-> a = Some h.
Proof.
  intros [x|] h; cbn [opt_eqb]; split; intro H; try discriminate.
  - apply N.eqb_eq in H. subst. reflexivity.
  - inversion H. apply N.eqb_refl.
Qed.

(* fork_point is an upper bound of the heights at which the chains hold the same block *)
Lemma fork_point_max : forall mine peer a h,
  lc_at mine a = Some h -> lc_at peer a = Some h -> a <= fork_point mine peer.
Proof.
  intros mine peer a h Hm Hp. unfold fork_point.
  change a with (fst (a, h)).
  apply (fold_max_ge_in (common_at mine peer)).
  - apply lc_at_In. exact Hm.
  - unfold common_at. cbn [fst snd]. apply andb_true_iff. split; apply opt_eqb_true; assumption.
Qed.

(* ... and it is 0 or the height of a common block *)
Lemma fork_point_common : forall mine peer,
  fork_point mine peer = 0
  \/ exists h, lc_at mine (fork_point mine peer) = Some h /\ lc_at peer (fork_point mine peer) = Some h.
Proof.
  intros mine peer. unfold fork_point.
  destruct (fold_max_source (common_at mine peer) mine 0) as [E|[[a h] [Hin [HP E]]]].
  - left. exact E.
  - right. cbn [fst snd] in *. rewrite E. exists h.
    unfold common_at in HP. cbn [fst snd] in HP. apply andb_true_iff in HP.
    destruct HP as [H1 H2]. split; apply opt_eqb_true; assumption.
Qed.

(* ---------------------------------------------------------------- the two loops *)

Section Loops.
  Variable h16 : N -> N -> N.
  Variable lc : N -> option N.

  (* entry k of the generated windows is window (i+k) of the recorded source, or 0 *)
  Lemma gen_loop_src : forall ws cur i k,
    nth k (gen_loop h16 lc ws cur i) 0 =
    match nth k (gen_src lc ws cur) None with
    | Some h => h16 (i + N.of_nat k) h
    | None => 0
    end.
  Proof.
    induction ws as [|w ws IH]; intros cur i k.
    - cbn [gen_loop gen_src]. destruct k; reflexivity.
    - cbn [gen_loop gen_src]. destruct (cur <=? w).
      + rewrite nth_zeros, nth_nones. reflexivity.
      + destruct (lc (cur - w)) as [h|].
        * destruct k as [|k]; cbn [nth].
          -- replace (i + N.of_nat 0) with i by lia. reflexivity.
          -- rewrite IH. replace (i + 1 + N.of_nat k) with (i + N.of_nat (S k)) by lia. reflexivity.
        * rewrite nth_zeros, nth_nones. reflexivity.
  Qed.

  (* every recorded source is a block of the index *)
  Lemma gen_src_block : forall ws cur k h,
    nth k (gen_src lc ws cur) None = Some h -> exists y, lc y = Some h.
  Proof.
    induction ws as [|w ws IH]; intros cur k h H.
    - cbn [gen_src] in H. destruct k; discriminate.
    - cbn [gen_src] in H. destruct (cur <=? w).
      + rewrite nth_nones in H. discriminate.
      + destruct (lc (cur - w)) as [h0|] eqn:E.
        * destruct k as [|k]; cbn [nth] in H.
          -- inversion H. subst. eauto.
          -- eapply IH; eauto.
        * rewrite nth_nones in H. discriminate.
  Qed.

  (* the source recorded at position k is the block at the k-th position of the walk,
     and the walk got there without the strict test failing *)
  Lemma gen_src_walk : forall ws cur i k h,
    nth k (gen_src lc ws cur) None = Some h ->
    exists y, nth_error (walk ws cur i) k = Some (i + N.of_nat k, y) /\ lc y = Some h /\ 0 < y.
  Proof.
    induction ws as [|w ws IH]; intros cur i k h H.
    - cbn [gen_src] in H. destruct k; discriminate.
    - cbn [gen_src] in H. destruct (cur <=? w) eqn:Ew.
      + rewrite nth_nones in H. discriminate.
      + apply N.leb_gt in Ew. cbn [walk].
        assert (cur <? w = false) as -> by (apply N.ltb_ge; lia).
        destruct (lc (cur - w)) as [h0|] eqn:E.
        * destruct k as [|k]; cbn [nth] in H.
          -- inversion H. subst. exists (cur - w). cbn [nth_error].
             replace (i + N.of_nat 0) with i by lia. repeat split; auto. lia.
          -- destruct (IH (cur - w) (i + 1) k h H) as [y [Hy [Hl Hp]]].
             exists y. cbn [nth_error]. rewrite Hy.
             replace (i + 1 + N.of_nat k) with (i + N.of_nat (S k)) by lia. auto.
        * rewrite nth_nones in H. discriminate.
  Qed.

  (* an answer of the walk is 0 or a visited height whose block matches the fork-id
     entry of its index *)
  Lemma anc_loop_some : forall fid ws b i v,
    anc_loop h16 lc fid ws b i = Some v ->
    v = 0 \/ exists j hm, In (j, v) (walk ws b i) /\ lc v = Some hm
                          /\ h16 j hm = nth (N.to_nat j) fid 0.
  Proof.
    induction ws as [|w ws IH]; intros b i v H.
    - cbn [anc_loop] in H. discriminate.
    - cbn [anc_loop] in H. cbn [walk]. destruct (b <? w).
      + inversion H. left. reflexivity.
      + destruct (lc (b - w)) as [h|] eqn:E.
        * destruct (h16 i h =? nth (N.to_nat i) fid 0) eqn:W.
          -- inversion H. subst. right. exists i, h. split; [left; reflexivity|].
             split; auto. apply N.eqb_eq. exact W.
          -- destruct (IH _ _ _ H) as [Z|[j [hm [Hin R]]]]; [left; exact Z|].
             right. exists j, hm. split; [right; exact Hin|exact R].
        * destruct (IH _ _ _ H) as [Z|[j [hm [Hin R]]]]; [left; exact Z|].
          right. exists j, hm. split; [right; exact Hin|exact R].
  Qed.

  (* precision of the walk: a visited height whose block matches stops the walk there
     or earlier (= higher): the answer is at least that height *)
  Lemma anc_loop_first_match : forall fid ws b i j a hm,
    In (j, a) (walk ws b i) -> lc a = Some hm -> h16 j hm = nth (N.to_nat j) fid 0 ->
    exists v, anc_loop h16 lc fid ws b i = Some v /\ a <= v.
  Proof.
    induction ws as [|w ws IH]; intros b i j a hm Hin Hl Hw.
    - destruct Hin.
    - cbn [walk] in Hin. cbn [anc_loop]. destruct (b <? w) eqn:Ew; [destruct Hin|].
      apply N.ltb_ge in Ew.
      assert (Hdesc : forall ws' c i' j' a', In (j', a') (walk ws' c i') -> a' <= c).
      { clear. induction ws' as [|w' ws' IH']; intros c i' j' a' H; [destruct H|].
        cbn [walk] in H. destruct (c <? w') eqn:E; [destruct H|]. apply N.ltb_ge in E.
        destruct H as [H|H]; [inversion H; lia|]. apply IH' in H. lia. }
      destruct Hin as [Hin|Hin].
      + inversion Hin. subst j a. rewrite Hl. rewrite Hw, N.eqb_refl. eexists. split; [reflexivity|lia].
      + destruct (lc (b - w)) as [h|] eqn:E.
        * destruct (h16 i h =? nth (N.to_nat i) fid 0).
          -- eexists. split; [reflexivity|]. eapply Hdesc. exact Hin.
          -- eapply IH; eauto.
        * eapply IH; eauto.
  Qed.
End Loops.

(* ---------------------------------------------------------------- soundness *)

Section Sound.
  Variable weights : list N.
  Variable h16 : N -> N -> N.

  Lemma estimate_cases : forall mine peer_latest fid,
    let v := last_shared_ancestor weights h16 mine peer_latest fid in
    v = 0 \/ exists j hm, In (j, v) (walk weights (walk_start (tip_id mine) peer_latest) 0)
                          /\ lc_at mine v = Some hm /\ h16 j hm = nth (N.to_nat j) fid 0.
  Proof.
    intros mine peer_latest fid. cbv zeta.
    unfold last_shared_ancestor, generate_last_shared_ancestor, walk_start,
      ancestor_when_peer_ahead, ancestor_when_peer_behind.
    destruct (tip_id mine <=? peer_latest).
    - destruct (anc_loop h16 (lc_at mine) fid weights (rnd10 (tip_id mine)) 0) as [v|] eqn:E;
        [|left; reflexivity].
      apply anc_loop_some in E. exact E.
    - destruct (anc_loop h16 (lc_at mine) fid weights (rnd10 peer_latest) 0) as [v|] eqn:E;
        [|left; reflexivity].
      apply anc_loop_some in E. exact E.
  Qed.

  Theorem ancestor_sound : forall mine peer fid,
    fid = fork_id_of weights h16 peer ->
    HashDeterminesId mine peer ->
    NoWindowCollision weights h16 mine peer ->
    last_shared_ancestor weights h16 mine (tip_id peer) fid <= fork_point mine peer.
  Proof.
    intros mine peer fid Hfid Hid Hnc.
    destruct (estimate_cases mine (tip_id peer) fid) as [Z|[j [hm [Hin [Hl Hw]]]]].
    - rewrite Z. lia.
    - set (v := last_shared_ancestor weights h16 mine (tip_id peer) fid) in *.
      specialize (Hnc j v hm Hin Hl).
      subst fid. unfold fork_id_of, generate_fork_id in Hw.
      rewrite gen_loop_src in Hw.
      replace (0 + N.of_nat (N.to_nat j)) with j in Hw by lia.
      destruct (nth (N.to_nat j) (gen_src (lc_at peer) weights (rnd10 (tip_id peer))) None)
        as [hp|] eqn:Es.
      + destruct (N.eq_dec hm hp) as [->|Hne].
        * destruct (gen_src_block _ _ _ _ _ Es) as [y Hy].
          pose proof (Hid _ _ _ Hl Hy) as Hvy. subst y.
          eapply fork_point_max; eauto.
        * exfalso. apply (Hnc Hne). exact Hw.
      + exfalso. apply Hnc. exact Hw.
  Qed.

  (* the streamed range contains every block of the answering chain that the asking
     chain does not hold *)
  Theorem no_needed_block_skipped : forall mine peer fid,
    fid = fork_id_of weights h16 peer ->
    HashDeterminesId mine peer ->
    NoWindowCollision weights h16 mine peer ->
    PrefixClosed mine peer -> TipHighest mine ->
    forall id h, lc_at mine id = Some h -> lc_at peer id <> Some h ->
    In (id, h) (streamed mine (last_shared_ancestor weights h16 mine (tip_id peer) fid)).
  Proof.
    intros mine peer fid Hfid Hid Hnc Hpc Htip id h Hm Hp.
    pose proof (ancestor_sound mine peer fid Hfid Hid Hnc) as Hs.
    unfold streamed. apply filter_In. split; [apply lc_at_In; exact Hm|].
    cbn [fst]. apply andb_true_iff. split; apply N.leb_le; [|eapply Htip; eauto].
    destruct (fork_point_common mine peer) as [Z|[hf [Hmf Hpf]]]; [lia|].
    destruct (N.le_gt_cases id (fork_point mine peer)) as [Hle|Hgt]; [|lia].
    exfalso. apply Hp. eapply Hpc; eauto.
  Qed.

  (* every block above the fork point is streamed *)
  Corollary above_fork_point_streamed : forall mine peer fid,
    fid = fork_id_of weights h16 peer ->
    HashDeterminesId mine peer ->
    NoWindowCollision weights h16 mine peer -> TipHighest mine ->
    forall id h, lc_at mine id = Some h -> fork_point mine peer < id ->
    In (id, h) (streamed mine (last_shared_ancestor weights h16 mine (tip_id peer) fid)).
  Proof.
    intros mine peer fid Hfid Hid Hnc Htip id h Hm Hgt.
    pose proof (ancestor_sound mine peer fid Hfid Hid Hnc) as Hs.
    unfold streamed. apply filter_In. split; [apply lc_at_In; exact Hm|].
    cbn [fst]. apply andb_true_iff. split; apply N.leb_le; [lia|eapply Htip; eauto].
  Qed.
  (* precision in the aligned branch (the asking chain is shorter than the answering one,
     the case of C15): every checkpoint the asker sampled at which the answerer holds the
     same block bounds the estimate from below; so the estimate is the highest shared
     checkpoint, not merely some sound value such as 0 *)
  Theorem ancestor_precise_when_behind : forall mine peer fid,
    fid = fork_id_of weights h16 peer -> tip_id peer < tip_id mine ->
    forall k h,
      nth k (gen_src (lc_at peer) weights (rnd10 (tip_id peer))) None = Some h ->
      exists y, lc_at peer y = Some h /\ 0 < y /\
        (lc_at mine y = Some h -> y <= last_shared_ancestor weights h16 mine (tip_id peer) fid).
  Proof.
    intros mine peer fid Hfid Hlt k h Hs.
    destruct (gen_src_walk h16 (lc_at peer) weights (rnd10 (tip_id peer)) 0 k h Hs) as [y [Hy [Hl Hpos]]].
    exists y. split; [exact Hl|]. split; [exact Hpos|]. intro Hm.
    unfold last_shared_ancestor, generate_last_shared_ancestor, ancestor_when_peer_behind.
    assert (tip_id mine <=? tip_id peer = false) as -> by (apply N.leb_gt; exact Hlt).
    apply nth_error_In in Hy.
    destruct (anc_loop_first_match h16 (lc_at mine) fid weights (rnd10 (tip_id peer)) 0
                (0 + N.of_nat k) y h Hy Hm) as [v [Hv Hle]].
    - subst fid. unfold fork_id_of, generate_fork_id. rewrite gen_loop_src.
      replace (N.to_nat (0 + N.of_nat k)) with k by lia. rewrite Hs.
      replace (0 + N.of_nat k) with (0 + N.of_nat k) by reflexivity. reflexivity.
    - rewrite Hv. exact Hle.
  Qed.
End Sound.

(* ---------------------------------------------------------------- decidable hypotheses *)

Lemma no_window_collision_b_sound : forall weights h16 mine peer,
  no_window_collision_b weights h16 mine peer = true -> NoWindowCollision weights h16 mine peer.
Proof.
  intros weights h16 mine peer H. unfold NoWindowCollision. cbv zeta.
  intros i a hm Hin Hl. unfold no_window_collision_b in H.
  rewrite forallb_forall in H. specialize (H (i, a) Hin). cbn [fst snd] in H. rewrite Hl in H.
  destruct (nth (N.to_nat i) (gen_src (lc_at peer) weights (rnd10 (tip_id peer))) None) as [hp|].
  - intro Hne. apply orb_true_iff in H. destruct H as [H|H].
    + apply N.eqb_eq in H. contradiction.
    + apply negb_true_iff in H. apply N.eqb_neq in H. exact H.
  - apply negb_true_iff in H. apply N.eqb_neq in H. exact H.
Qed.

Lemma lc_at_In_fst : forall c id h, lc_at c id = Some h -> In (id, h) c.
Proof. exact lc_at_In. Qed.

Lemma hash_determines_id_b_sound : forall mine peer,
  hash_determines_id_b mine peer = true -> HashDeterminesId mine peer.
Proof.
  intros mine peer H a b h Hm Hp. unfold hash_determines_id_b in H.
  rewrite forallb_forall in H. specialize (H (a, h) (lc_at_In _ _ _ Hm)).
  rewrite forallb_forall in H. specialize (H (b, h) (lc_at_In _ _ _ Hp)).
  cbn [fst snd] in H. rewrite N.eqb_refl in H. cbn [negb orb] in H.
  apply N.eqb_eq in H. exact H.
Qed.
