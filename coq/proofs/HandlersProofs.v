(* C11 -- proofs about the message-level handler model (model/Handlers.v). *)
From Saito Require Import Base Handlers.
From Coq Require Import String.
Open Scope N_scope.

(* ---------------------------------------------------------------- association lists *)

Lemma aget_aset_other : forall (V : Type) (j k : N) (v : V) (m : list (N * V)),
  j <> k -> aget j (aset k v m) = aget j m.
Proof.
  intros V j k v m Hjk. induction m as [|[k' v'] t IH]; cbn [aset aget].
  - destruct (N.eqb_spec j k); [contradiction|reflexivity].
  - destruct (N.eqb_spec k k') as [->|Hkk'].
    + cbn [aget]. destruct (N.eqb_spec j k'); [contradiction|reflexivity].
    + destruct (k <? k').
      * cbn [aget]. destruct (N.eqb_spec j k); [contradiction|reflexivity].
      * cbn [aget]. destruct (j =? k'); [reflexivity|exact IH].
Qed.

Lemma filter_aset_other : forall (V : Type) (k : N) (v : V) (m : list (N * V)),
  filter (fun ip => negb (fst ip =? k)) (aset k v m) = filter (fun ip => negb (fst ip =? k)) m.
Proof.
  intros V k v m. induction m as [|[k' v'] t IH]; cbn [aset filter fst].
  - rewrite N.eqb_refl. reflexivity.
  - destruct (N.eqb_spec k k') as [->|Hkk'].
    + cbn [filter fst]. rewrite N.eqb_refl. reflexivity.
    + destruct (k <? k').
      * cbn [filter fst]. rewrite N.eqb_refl. cbn [negb]. reflexivity.
      * cbn [filter fst]. rewrite IH. reflexivity.
Qed.

(* ---------------------------------------------------------------- only the listed inputs panic *)

Lemma dispatch_never_panics : forall st now idx p m st' s,
  dispatch st now idx p m = (st', OPanic s) -> False.
Proof.
  intros st now idx p m st' s H.
  destruct m as [| sig_ok ver_ok key | | ty len verified | | | | | n | | a | | | | n];
    cbn [dispatch] in H;
    repeat match type of H with
           | context [let (_, _) := ?x in _] => destruct x
           | context [if ?b then _ else _] => destruct b
           | context [match ?x with Some _ => _ | None => _ end] => destruct x
           end;
    inversion H.
Qed.

Lemma dispatch_panic_known : forall st now idx p m st' s,
  dispatch st now idx p m = (st', OPanic s) -> known_msg st now p m = true.
Proof. intros. exfalso. eapply dispatch_never_panics. eassumption. Qed.

Lemma step_panic_known : forall st now idx e st' s,
  step st now idx e = (st', OPanic s) -> known_input st (now, idx, e) = true.
Proof.
  intros st now idx e st' s H.
  destruct e as [| ext | mo | f | | d | dt]; cbn [step] in H.
  - inversion H.
  - destruct ext; inversion H.
  - cbn [known_input].
    destruct (aget idx (peers st)) as [p|]; [|inversion H].
    destruct (lim_check (p_msg (set_msg (lim_increase (p_msg p)) p)) now) as [l ex].
    destruct ex; [inversion H|].
    destruct mo as [m|]; [|inversion H].
    cbn [negb andb]. eapply dispatch_panic_known. exact H.
  - destruct (aget idx (peers st)) as [p|]; [|inversion H].
    destruct (lim_check (p_inv p) now) as [l ex]. destruct ex; inversion H.
  - inversion H.
  - destruct (aget idx (peers st)); inversion H.
  - inversion H.
Qed.

Theorem dispatch_safe : forall msgs st,
  ~ Known_C11 st msgs -> forall site st', run st msgs <> Panic site st'.
Proof.
  induction msgs as [|[[now idx] e] t IH]; intros st Hk site st'.
  - cbn [run]. discriminate.
  - cbn [run]. cbn [Known_C11 fst snd] in Hk.
    destruct (step st now idx e) as [st1 o] eqn:E.
    destruct o as [| | | s].
    1-3: apply IH; intro Hc; apply Hk; right; cbn [fst]; exact Hc.
    exfalso. apply Hk. left. eapply step_panic_known. exact E.
Qed.

(* ---------------------------------------------------------------- frame: a message only touches the sender's entry *)

Lemma put_other : forall st idx p j, j <> idx -> aget j (peers (put st idx p)) = aget j (peers st).
Proof. intros. unfold put, with_peers. cbn [peers]. apply aget_aset_other. assumption. Qed.

Lemma put_view : forall st idx p, honest_view idx (put st idx p) = honest_view idx st.
Proof. intros. unfold honest_view, put, with_peers. cbn [peers]. apply filter_aset_other. Qed.

Lemma dispatch_view : forall st now idx p m st' o,
  dispatch st now idx p m = (st', o) -> honest_view idx st' = honest_view idx st.
Proof.
  intros st now idx p m st' o H.
  destruct m as [| sig_ok ver_ok key | | ty len verified | | | | | n | | a | | | | n];
    cbn [dispatch] in H;
    repeat match type of H with
           | context [let (_, _) := ?x in _] => destruct x
           | context [if ?b then _ else _] => destruct b
           | context [match ?x with Some _ => _ | None => _ end] => destruct x
           end;
    inversion H; subst; apply put_view.
Qed.

Definition is_tick (e : event) : bool := match e with ETick _ => true | _ => false end.

Theorem step_view : forall st now idx e st' o,
  step st now idx e = (st', o) -> is_tick e = false -> honest_view idx st' = honest_view idx st.
Proof.
  intros st now idx e st' o H Ht.
  destruct e as [| ext | mo | f | | d | dt]; cbn [step] in H; cbn [is_tick] in Ht; try discriminate.
  - inversion H; subst. apply put_view.
  - destruct (aget idx (peers st)); inversion H; subst; [apply put_view|reflexivity].
  - destruct (aget idx (peers st)) as [p|]; [|inversion H; subst; reflexivity].
    destruct (lim_check (p_msg (set_msg (lim_increase (p_msg p)) p)) now) as [l ex].
    destruct ex; [inversion H; subst; apply put_view|].
    destruct mo as [m|]; [|inversion H; subst; apply put_view].
    eapply dispatch_view. exact H.
  - destruct (aget idx (peers st)) as [p|]; [|inversion H; subst; reflexivity].
    destruct (lim_check (p_inv p) now) as [l ex].
    destruct ex; inversion H; subst; apply put_view.
  - inversion H; subst. reflexivity.
  - destruct (aget idx (peers st)); inversion H; subst; [apply put_view|reflexivity].
Qed.

(* what a rejected / disconnected sender keeps of its own entry: key and key list *)
Definition identity_of (idx : N) (st : state) : option (option N * N) :=
  match aget idx (peers st) with Some p => Some (p_key p, p_keylist p) | None => None end.

Lemma aget_aset_same : forall (V : Type) (k : N) (v : V) (m : list (N * V)), aget k (aset k v m) = Some v.
Proof.
  intros V k v m. induction m as [|[k' v'] t IH]; cbn [aset aget].
  - rewrite N.eqb_refl. reflexivity.
  - destruct (N.eqb_spec k k') as [->|Hkk'].
    + cbn [aget]. rewrite N.eqb_refl. reflexivity.
    + destruct (k <? k'); cbn [aget].
      * rewrite N.eqb_refl. reflexivity.
      * destruct (N.eqb_spec k k'); [contradiction|exact IH].
Qed.

Lemma identity_put : forall st idx p, identity_of idx (put st idx p) = Some (p_key p, p_keylist p).
Proof. intros. unfold identity_of, put, with_peers. cbn [peers]. rewrite aget_aset_same. reflexivity. Qed.

Theorem reject_preserves : forall st now idx e st' o,
  step st now idx e = (st', o) -> o = OReject \/ o = ODisconnect ->
  honest_view idx st' = honest_view idx st /\ identity_of idx st' = identity_of idx st.
Proof.
  intros st now idx e st' o H Ho.
  assert (Ht : is_tick e = false).
  { destruct e; try reflexivity. cbn [step] in H. inversion H; subst. destruct Ho; discriminate. }
  split; [eapply step_view; eassumption|].
  destruct e as [| ext | mo | f | | d | dt]; cbn [step] in H; try discriminate.
  - inversion H; subst. destruct Ho; discriminate.
  - unfold identity_of at 2.
    destruct (aget idx (peers st)) as [p|] eqn:E; inversion H; subst.
    + rewrite identity_put. reflexivity.
    + unfold identity_of. rewrite E. reflexivity.
  - unfold identity_of at 2.
    destruct (aget idx (peers st)) as [p|] eqn:E.
    2:{ inversion H; subst. unfold identity_of. rewrite E. reflexivity. }
    destruct (lim_check (p_msg (set_msg (lim_increase (p_msg p)) p)) now) as [l ex].
    destruct ex; [inversion H; subst; rewrite identity_put; reflexivity|].
    destruct mo as [m|]; [|inversion H; subst; rewrite identity_put; reflexivity].
    (* a dispatched message: only the handshake response can end in a disconnect *)
    destruct m as [| sig_ok ver_ok key | | ty len verified | | | | | n | | a | | | | n];
      cbn [dispatch] in H;
      repeat match type of H with
             | context [let (_, _) := ?x in _] => destruct x
             | context [if ?b then _ else _] => destruct b
             | context [match ?x with Some _ => _ | None => _ end] => destruct x
             end;
      inversion H; subst; try (destruct Ho; discriminate);
      rewrite identity_put; reflexivity.
  - unfold identity_of at 2.
    destruct (aget idx (peers st)) as [p|] eqn:E.
    2:{ inversion H; subst. unfold identity_of. rewrite E. reflexivity. }
    destruct (lim_check (p_inv p) now) as [l ex].
    destruct ex; inversion H; subst; rewrite identity_put; reflexivity.
  - inversion H; subst. reflexivity.
  - destruct (aget idx (peers st)); inversion H; subst; destruct Ho; discriminate.
Qed.

(* with the repairs applied nothing is listed any more: no input sequence panics *)
Lemma nothing_known : forall l st, ~ Known_C11 st l.
Proof.
  induction l as [|[[now idx] e] t IH]; intros st; cbn [Known_C11]; [tauto|].
  intros [H|H]; [|exact (IH _ H)].
  cbn [known_input] in H. destruct e; try discriminate. destruct m; try discriminate.
  destruct (aget idx (peers st)); try discriminate.
  destruct (lim_check _ now). unfold known_msg in H. rewrite andb_false_r in H. discriminate.
Qed.

Theorem never_panics : forall msgs st site st', run st msgs <> Panic site st'.
Proof. intros. apply dispatch_safe. apply nothing_known. Qed.

(* a decidable form of the listed class, for concrete sequences *)
Fixpoint known_any (st : state) (l : list input) : bool :=
  match l with
  | [] => false
  | i :: t => known_input st i || known_any (fst (step st (fst (fst i)) (snd (fst i)) (snd i))) t
  end.

Lemma known_any_spec : forall l st, Known_C11 st l <-> known_any st l = true.
Proof.
  induction l as [|i t IH]; intros st; cbn [Known_C11 known_any].
  - split; [tauto|discriminate].
  - rewrite orb_true_iff, IH. tauto.
Qed.
